#!/usr/bin/env python3
"""Regenerates MANIFEST.json from checks_config.py (run after editing the configuration)."""
import json
import os
import subprocess

from checks_config import CHECKS

ROOT = os.path.dirname(os.path.abspath(__file__))
props = [json.loads(l) for l in open(os.path.join(ROOT, "properties.jsonl")) if l.strip()]

hook_commits = []
hooks_file = os.path.join(ROOT, "MANIFEST.hooks")
if os.path.exists(hooks_file):
    for line in open(hooks_file):
        line = line.strip()
        if line and not line.startswith("#"):
            hook_commits.append(line.split()[0])

baseline = json.load(open("/root/.vp/BASELINE.json"))["cmd"] if os.path.exists("/root/.vp/BASELINE.json") else ""

checks = []
na = []
for p in props:
    cid = p["id"]
    cfg = CHECKS.get(cid)
    if not cfg or cfg.get("unclaimed"):
        na.append({"property_id": cid, "reason": (cfg or {}).get("unclaimed", "check not built yet (generated-input search applies; see DESIGN.md section 4)")})
        continue
    c = {
        "property_id": cid,
        "quick_cmd": "./check %s --tier quick" % cid,
        "thorough_cmd": "./check %s --tier thorough" % cid,
        "evidence_file": "/verif/evidence/%s.json" % cid,
        "replay_cmd_template": "./check %s --replay {path}" % cid,
        "engine": "rapid-harness",
        "level_claimed": {"category": cfg["level"], "text": cfg["level_text"], "design_ref": "DESIGN.md section 4 / %s" % cid},
        "level_note": cfg["level_note"],
        "technique": cfg["technique"],
    }
    checks.append(c)

manifest = {
    "version": 1,
    "setup_cmd": "./check --setup",
    "hooks": {
        "guard": "verif",
        "enable": "go build tag: the harness module (replace github.com/lindb/lindb => /repo) is built with `go test -tags verif`; hook files are new files with `//go:build verif`",
        "baseline_off_cmd": baseline,
        "source_commits": hook_commits,
        "add_only": True,
    },
    "engines": [{
        "name": "rapid-harness",
        "path": "/verif/harness",
        "serves_properties": [c["property_id"] for c in checks],
        "kind_free_text": "Go module with one package per property: pgregory.net/rapid v1.3.0 property tests (stateful where the property is about histories), native go fuzz targets in the thorough tier, driven by /verif/check (python3)",
    }],
    "checks": checks,
    "not_applicable": na,
    "notes": "All checks are property-based tests / fuzzers over generated inputs with explicit oracles; see DESIGN.md. Known findings: known_findings.json.",
}
with open(os.path.join(ROOT, "MANIFEST.json"), "w") as f:
    json.dump(manifest, f, indent=1)
    f.write("\n")
print("claimed:", [c["property_id"] for c in checks])
print("not claimed:", [n["property_id"] for n in na])
