package c09

import (
	"fmt"
	"os"
	"path/filepath"
	"regexp"
	"runtime"
	"runtime/debug"
	"sort"
	"strings"
	"sync"
	"testing"

	"pgregory.net/rapid"

	"github.com/lindb/lindb/kv"
	"github.com/lindb/lindb/kv/table"
	"github.com/lindb/lindb/kv/version"
	"github.com/lindb/lindb/series/metric"
	"github.com/lindb/lindb/series/tag"
	"github.com/lindb/lindb/verifharness/sim/crash"
	"github.com/lindb/lindb/verifharness/sim/ev"
)

// Part (b): sequential histories. The flush protocol follows production
// (tsdb.dataFlushChecker.doFlush): a cycle is
//
//	metadata PrepareFlush -> metadata Flush -> for some shards: index PrepareFlush -> index Flush
//
// Writes (the worker call sequences) happen anywhere in between, because ingestion continues
// while the flush job runs; PrepareFlush runs on the worker goroutine and Flush on a background
// goroutine, so writes may also interleave with a running Flush: the harness owns that schedule
// by running writes re-entrantly at the file-system seams inside Flush (no lindb lock that a
// creator needs is held there: the dictionary / schema / index stores only lock around their
// in-memory swap, and the kv version-set lock held while the manifest is written is not taken by
// any lookup path).
//
// Read-only metadata queries (query_test.go) are operations of the same histories: between any two
// steps and - like the writes - re-entrantly at the file-system seams inside a Flush, because the
// query goroutines of a storage node run next to the flush job. Every []byte argument of a
// get-or-create call lives in the reused buffers of the case's wire (c09_test.go) and is
// overwritten after the call returned.

const (
	phIdle = iota
	phMetaPrepared
	phMetaFlushed
	phIdxPrepared
)

// durability knowledge at some instant: names first requested at model.seq <= the value were
// frozen by a PrepareFlush whose Flush has returned.
type durable struct {
	Meta int
	Idx  []int
}

func (d durable) clone() durable { return durable{Meta: d.Meta, Idx: append([]int(nil), d.Idx...)} }

type hist struct {
	t        *rapid.T
	dir      string
	root     string
	nIdx     int
	n        *node
	m        *model
	im       *crash.Imager
	ops      []string
	thorough bool

	phase       int
	pending     []int // shards whose index is still to be flushed in this cycle
	cur         int   // shard whose index is prepared
	metaPrepSeq int
	idxPrepSeq  []int
	dur         durable

	inFlush                      string // "meta" / "idx<i>" while a Flush call is in flight
	pointsInFlush, copiesInFlush int
	nestBudget, nestQBudget      int
	w                            *wire           // the reused buffers all []byte arguments of this case live in
	imgDur                       map[int]durable // by crash.Point.Seq

	fresh     int
	classes   map[string]int
	knownOnce sync.Once

	u           universe        // the names the rows of this case are drawn from (compact_test.go)
	cs          *compactState   // completed flushes / compactions, for the evidence classes only
	compactions []compactionRec // compactions that ran in this case
	switched    map[string]bool // dictionary families whose compacted files are in use by the store

	imagesChecked, imagesInsideFlush, imagesAfterSync int
	idsSinceSync                                      int // ids handed out since the last sequence sync (= start of the last metadata Flush)
	ntHashes                                          []string

	// series id sequence cache (seqcache_test.go)
	hot               *hotTarget      // (shard, metric) whose cache entry was dropped: rows prefer new series of it
	seqCached         map[seqKey]bool // (shard, metric) that got a new series since open / since the last drop (evidence only)
	seqDrops          []seqDropRec    // new series created on the miss path
	seriesPlaceBefore string
	nestDropBudget    int

	vol              *volState   // TestVolumeHistory only (volume_test.go)
	flt              *faultState // TestFaultHistory only (fault_test.go): I/O faults inside Flush calls
	group            string      // evidence group of the case ("TestHistory" / "TestFaultHistory")
	allShardsInCycle bool        // the next flush cycle names every shard
}

func (h *hist) logf(format string, args ...any) {
	// names with control bytes (edge-bucket namespaces) are rendered escaped: the report stays plain text
	h.ops = append(h.ops, plainText(fmt.Sprintf(format, args...)))
}

// plainText escapes the control bytes (not the line feed) of a report line.
func plainText(s string) string {
	if strings.IndexFunc(s, func(r rune) bool { return (r < 0x20 && r != '\n') || r == 0x7f }) < 0 {
		return s
	}
	var sb strings.Builder
	for _, r := range s {
		if (r < 0x20 && r != '\n') || r == 0x7f {
			fmt.Fprintf(&sb, "\\x%02x", r)
		} else {
			sb.WriteRune(r)
		}
	}
	return sb.String()
}

// guarded runs one step of the history. A run-time error inside lindb (index out of range, nil
// dereference, and - with SetPanicOnFault - a read of memory that is no longer mapped) is
// reported with the history like any other failure.
func (h *hist) guarded(fn func()) {
	defer func() {
		if r := recover(); r != nil {
			if re, ok := r.(runtime.Error); ok {
				h.fatalf("RUN-TIME ERROR inside a call: %v\n%s", re, debug.Stack())
			}
			panic(r) // rapid's own control flow
		}
	}()
	fn()
}

func (h *hist) fatalf(format string, args ...any) {
	h.t.Helper()
	h.t.Fatalf("%s\nhistory (%d index databases, []byte arguments in reused buffers, overwritten after each call: %s):\n  %s", plainText(clip(fmt.Sprintf(format, args...), 6000)), h.nIdx, h.w.mode, strings.Join(h.ops, "\n  "))
}

var (
	nsUniverse    = []string{"default-ns", "ns-a", "ns-b"}
	keyUniverse   = []string{"host", "zone", "app"}
	valUniverse   = []string{"a", "b", "c", "a1", "ab"}
	fieldUniverse = []string{"f0", "f1", "f2", "load"}
)

func (h *hist) drawRow(label string) rowSpec {
	t := h.t
	r := rowSpec{
		NS:   rapid.SampledFrom(h.u.ns).Draw(t, label+"ns"),
		Name: rapid.SampledFrom(h.u.metrics).Draw(t, label+"metric"),
	}
	nTags := rapid.IntRange(0, 3).Draw(t, label+"nTags")
	for i := 0; i < nTags; i++ {
		k := rapid.SampledFrom(h.u.keys).Draw(t, label+"key")
		var v string
		if rapid.IntRange(0, 3).Draw(t, label+"freshVal") == 0 {
			h.fresh++
			v = fmt.Sprintf("v%d", h.fresh)
		} else {
			v = rapid.SampledFrom(h.u.vals).Draw(t, label+"val")
		}
		r.Tags = append(r.Tags, kvPair{k, v})
	}
	r.Tags = normTags(r.Tags)
	nFields := rapid.IntRange(1, 2).Draw(t, label+"nFields")
	seen := map[string]bool{}
	for i := 0; i < nFields; i++ {
		f := rapid.SampledFrom(fieldUniverse).Draw(t, label+"field")
		if !seen[f] {
			seen[f] = true
			r.Fields = append(r.Fields, f)
		}
	}
	if h.flt != nil {
		h.faultRowExtras(label, &r) // fault_test.go: more new fields / tag keys per flush cycle
	}
	return r
}

// write runs the worker call sequences of one row on the live node: the metadata worker and the
// index worker of the shard the row is routed to, in either order (they are independent
// goroutines in production), or only one of them (the other one lags behind).
func (h *hist) write(label string) {
	r := h.drawRow(label)
	shard := rapid.IntRange(0, h.nIdx-1).Draw(h.t, label+"shard")
	mode := rapid.SampledFrom([]string{"meta+index", "index+meta", "index", "meta"}).Draw(h.t, label+"workers")
	if h.flt != nil && h.flt.forceShard >= 0 {
		shard = h.flt.forceShard // fault_test.go: the rows of a fault-and-retry operation go to one shard
	}
	forHot := h.hot != nil && rapid.IntRange(0, 3).Draw(h.t, label+"forHotTarget") != 0
	if forHot {
		// a new series of the (shard, metric) whose sequence cache entry was dropped
		r, shard, mode = h.hotRow(label, r)
		h.seriesPlaceBefore = h.seriesPlace(shard, r.mkey())
	}
	h.m.seq++
	h.logf("%swrite seq=%d %s shard=%d workers=%s", label, h.m.seq, r, shard, mode)
	before := h.m.count()
	newSeries := strings.Contains(mode, "index") && h.m.series[shard][r.mkey()][r.canonTags()] == nil
	if err := applyRow(h.n, h.w, h.m, r, shard, mode); err != nil {
		h.fatalf("%v", err)
	}
	h.idsSinceSync += h.m.count() - before
	if newSeries {
		h.seqCached[seqKey{shard, r.mkey()}] = true
	}
	if forHot {
		h.hotWritten(label, r.canonTags())
	}
	h.classes["write"]++
	if label != "" {
		h.classes["write-nested-in-"+h.inFlush]++
	}
}

func applyRow(n *node, w *wire, m *model, r rowSpec, shard int, mode string) error {
	block, err := marshalRow(r)
	if err != nil {
		return fmt.Errorf("harness: build row: %w", err)
	}
	var out []obs
	for _, wk := range strings.Split(mode, "+") {
		if wk == "meta" {
			err = metaWorkerRow(n, w, r, &out)
		} else {
			err = indexWorkerRow(n, w, shard, r, block, &out)
		}
		if err != nil {
			return err
		}
	}
	return m.observeAll(r, out)
}

// ---- read-only metadata queries (query_test.go) as operations of the history --------------------

// pick draws one of the known names (3 of 4 draws, when there are any) or one of the extra names:
// names nobody created, names that share a dictionary bucket / a prefix with created ones.
func (h *hist) pick(label string, known, extra []string) string {
	if len(known) > 0 && rapid.IntRange(0, 3).Draw(h.t, label+"Known") != 0 {
		return rapid.SampledFrom(known).Draw(h.t, label)
	}
	return rapid.SampledFrom(extra).Draw(h.t, label+"Extra")
}

func cutName(t *rapid.T, label, s string) string {
	return s[:rapid.IntRange(0, len(s)).Draw(t, label)]
}

func (h *hist) drawQuery(label string) querySpec {
	t := h.t
	q := querySpec{Kind: rapid.SampledFrom(queryKinds).Draw(t, label+"kind")}
	q.Limit = rapid.SampledFrom([]int{1, 2, 3, 5, 10, 100}).Draw(t, label+"limit")
	// a known metric (its namespace / tag keys / values are the known names of the inner scopes)
	var mk mkey
	var mm *metricM
	if ks := sortedMetricKeys(h.m.metrics); len(ks) > 0 {
		mk = rapid.SampledFrom(ks).Draw(t, label+"aMetric")
		mm = h.m.metrics[mk]
	}
	var knownNS, knownMetric, knownKeys, knownVals []string
	if mm != nil {
		knownNS, knownMetric, knownKeys = []string{mk.NS}, []string{mk.Name}, sortedKeys(mm.tagKeys)
	}
	q.NS = h.pick(label+"ns", knownNS, append([]string{"ns-c", "d", "zz-ns", "other"}, histNSPool...))
	if q.Kind == qNamespaces {
		q.Prefix = cutName(t, label+"cut", q.NS)
		return q
	}
	q.Metric = h.pick(label+"metric", knownMetric, append([]string{"cp", "cpu.", "zz-metric", "nope"}, histMetricPool...))
	if q.Kind == qMetrics {
		q.Prefix = cutName(t, label+"cut", q.Metric)
		q.Metric = ""
		return q
	}
	if q.Kind == qSchema {
		return q
	}
	q.Key = h.pick(label+"key", knownKeys, append([]string{"hos", "zk", "nokey"}, keyUniverse...))
	if q.Kind == qSeries && rapid.IntRange(0, 2).Draw(t, label+"noKey") == 0 {
		q.Key = ""
		return q
	}
	if mm != nil && mk == q.mkey() && mm.tagKeys[q.Key] != nil {
		knownVals = sortedKeys(mm.tagKeys[q.Key].values)
	}
	val := func(l string) string {
		return h.pick(label+l, knownVals, append([]string{"v1", "v2", "zz-val", "nope"}, histValPool...))
	}
	switch q.Kind {
	case qTagValues:
		q.Prefix = cutName(t, label+"cut", val("val"))
	case qTagFilter:
		q.Expr = rapid.SampledFrom([]string{"eq", "in", "like", "regex"}).Draw(t, label+"expr")
		v := val("val")
		switch q.Expr {
		case "eq":
			q.Args = []string{v}
		case "in":
			q.Args = []string{v}
			for i := rapid.IntRange(0, 2).Draw(t, label+"nIn"); i > 0; i-- {
				q.Args = append(q.Args, val("inVal"))
			}
		case "like":
			q.Args = []string{rapid.SampledFrom([]string{"*", v[:1] + "*", "*" + v[len(v)-1:], "*" + v[:1] + "*", v, v + "*"}).Draw(t, label+"like")}
		default:
			q.Args = []string{rapid.SampledFrom([]string{"^" + regexp.QuoteMeta(v[:1]), regexp.QuoteMeta(v) + "$", regexp.QuoteMeta(v[:1]), ".*", "^v[0-9]+$", "^(a|b)$"}).Draw(t, label+"regex")}
		}
	}
	return q
}

// query runs one read-only metadata query on the live node and judges its answer. The history is
// sequential, so the model is exactly what exists - also at a file-system seam inside a Flush
// (frozen names are still served from memory until the flush swaps them for the new files).
func (h *hist) query(label string) {
	q := h.drawQuery(label)
	q.fwdHint = func(i int) map[uint32]uint32 { return h.m.forwardHint(i, q.mkey(), q.Key) }
	out, err := execQuery(h.n, q)
	if err != nil {
		h.logf("%squery %s", label, q)
		h.fatalf("live node: %v", err)
	}
	h.logf("%squery %s -> %s", label, q, clip(out.String(), 2000))
	if err := h.m.judge(q, out, true); err != nil {
		h.fatalf("live node: %v", err)
	}
	h.classes["query"]++
	h.classes["query-"+q.Kind]++
	if q.Kind == qNamespaces {
		for _, ns := range out.Names {
			if c := nsBucketClass(ns); c != "namespace-bucket=ascii" {
				h.classes["query-show-namespaces-lists-"+c]++
			}
		}
	}
	if out.Names != nil && h.dur.Meta > 0 {
		h.classes["query-suggest-with-persisted-dictionaries"]++
	}
	if out.MetricAsked && !out.MetricFound {
		h.classes["query-unknown-metric"]++
	}
	if label != "" {
		h.classes["query-nested-in-"+h.inFlush]++
	}
}

// ---- flush protocol --------------------------------------------------------------------------

func (h *hist) flushStep() {
	switch h.phase {
	case phIdle:
		h.m.seq++
		h.metaPrepSeq = h.m.seq
		h.logf("metadata PrepareFlush (seq %d)", h.m.seq)
		h.n.meta.PrepareFlush()
		h.phase = phMetaPrepared
		// which shards take part in this cycle (a flush request names a subset of shards)
		h.pending = nil
		for i := 0; i < h.nIdx; i++ {
			if rapid.IntRange(0, 3).Draw(h.t, "shardInCycle") != 0 || h.allShardsInCycle {
				h.pending = append(h.pending, i)
			}
		}
	case phMetaPrepared:
		h.logf("metadata Flush")
		h.runFlush("meta", h.n.meta.Flush)
		if h.flushFailed("meta") {
			// dataFlushChecker.doFlush: a failed FlushMeta ends the flush job, no shard is flushed
			h.phase, h.pending = phIdle, nil
			return
		}
		h.dur.Meta = h.metaPrepSeq
		h.flushed(-1, h.metaPrepSeq)
		h.classes["meta-flush"]++
		h.phase = phMetaFlushed
		if len(h.pending) == 0 {
			h.phase = phIdle
		}
	case phMetaFlushed:
		if h.idsSinceSync > 0 && ev.Known(sigSeqNotSynced) {
			// known finding: ids handed out since the last sequence sync would become durable
			// through this index flush. Excluded by construction: an additional metadata flush
			// (sequence sync + dictionaries) runs first, with no write in between.
			h.knownOnce.Do(func() {
				ev.KnownFinding("C09", "shape excluded from the generator: "+sigSeqNotSynced)
			})
			h.classes["excluded_known"]++
			h.m.seq++
			h.logf("metadata PrepareFlush+Flush (seq %d; inserted, known finding)", h.m.seq)
			h.n.meta.PrepareFlush()
			if err := h.n.meta.Flush(); err != nil {
				h.fatalf("metadata Flush failed: %v", err)
			}
			h.dur.Meta = h.m.seq
			h.flushed(-1, h.m.seq)
			h.idsSinceSync = 0
		}
		h.cur, h.pending = h.pending[0], h.pending[1:]
		h.m.seq++
		h.idxPrepSeq[h.cur] = h.m.seq
		h.logf("index %d PrepareFlush (seq %d)", h.cur, h.m.seq)
		h.n.idx[h.cur].PrepareFlush()
		h.phase = phIdxPrepared
	case phIdxPrepared:
		h.logf("index %d Flush", h.cur)
		h.runFlush(fmt.Sprintf("idx%d", h.cur), h.n.idx[h.cur].Flush)
		if h.flushFailed(fmt.Sprintf("idx%d", h.cur)) {
			// dataFlushChecker.flushShard: a failed FlushIndex ends the work on this shard, the job goes
			// on with the next shard
			h.phase = phMetaFlushed
			if len(h.pending) == 0 {
				h.phase = phIdle
			}
			return
		}
		h.dur.Idx[h.cur] = h.idxPrepSeq[h.cur]
		h.flushed(h.cur, h.idxPrepSeq[h.cur])
		h.classes["index-flush"]++
		h.phase = phMetaFlushed
		if len(h.pending) == 0 {
			h.phase = phIdle
		}
	}
}

// inFlushName names the call in flight: "meta Flush", "idx0 Flush", "compaction".
func (h *hist) inFlushName() string {
	if h.inFlush == "compaction" {
		return h.inFlush
	}
	return h.inFlush + " Flush"
}

// runFlush runs a Flush (or a compaction job) with its file-system seams observed: crash images,
// nested creators / queries.
func (h *hist) runFlush(what string, fn func() error) {
	h.inFlush = what
	h.nestBudget = rapid.IntRange(0, 2).Draw(h.t, "nestBudget")
	h.nestQBudget = rapid.IntRange(0, 2).Draw(h.t, "nestQBudget")
	h.nestDropBudget = rapid.IntRange(0, 1).Draw(h.t, "nestDropBudget")
	h.pointsInFlush, h.copiesInFlush = 0, 0
	if what == "meta" {
		h.idsSinceSync = 0 // Flush starts with the sequence sync
	}
	h.armFault(what) // fault_test.go; no-op unless the case injects I/O faults
	h.im.Begin(len(h.ops)-1, strings.ReplaceAll(h.inFlushName(), " ", ""))
	err := fn()
	h.im.End()
	name := h.inFlushName()
	h.inFlush = ""
	if h.faultOutcome(what, err) {
		return // the Flush reported an injected I/O fault: flushStep goes on as the flush job does
	}
	if err != nil {
		h.fatalf("%s failed: %v", name, err)
	}
}

// wantImage decides which hook points are copied. The directory before operation k equals the
// directory after operation k-1, so only the first "before" of a Flush is a candidate; table
// writes go through a bufio writer and are numerous, so they are sampled more thinly.
func (h *hist) wantImage(p crash.Point) bool {
	first := h.pointsInFlush == 0
	h.pointsInFlush++
	if h.faultSuppressImage() {
		return false
	}
	if p.Before && !first {
		return false
	}
	limit, pOther, pWrite := 8, 2, 12
	if h.thorough {
		limit, pOther, pWrite = 40, 1, 3
	}
	if h.faultRetryInFlight() {
		limit, pOther, pWrite = max(limit, 16), 1, min(pWrite, 4)
	}
	if h.copiesInFlush >= limit {
		return false
	}
	prob := pOther
	if p.FSOp == "tableWrite" {
		prob = pWrite
	}
	if prob > 1 && rapid.IntRange(1, prob).Draw(h.t, "copyImage") != 1 {
		return false
	}
	h.copiesInFlush++
	return true
}

// onPoint runs at every intercepted file-system operation inside a Flush.
func (h *hist) onPoint(p crash.Point) {
	if p.Dir != "" {
		h.imgDur[p.Seq] = h.dur.clone()
		if h.idsSinceSync > 0 {
			h.classes["image-with-ids-after-sync"]++
		}
		h.faultImageTaken(p)
	}
	if h.nestBudget > 0 && rapid.IntRange(0, 7).Draw(h.t, "nestHere") == 0 {
		h.nestBudget--
		h.write(fmt.Sprintf("[nested in %s %s %s(%s)] ", h.inFlushName(), beforeAfter(p.Before), p.FSOp, filepath.Base(filepath.Dir(p.Path))))
	}
	if h.nestDropBudget > 0 && rapid.IntRange(0, 7).Draw(h.t, "nestDropHere") == 0 {
		// the janitor goroutine of the series sequence cache removes an entry while the flush job runs
		h.nestDropBudget--
		h.dropSeqCache(fmt.Sprintf("[nested in %s %s %s(%s)] ", h.inFlushName(), beforeAfter(p.Before), p.FSOp, filepath.Base(filepath.Dir(p.Path))))
	}
	if h.nestQBudget > 0 && rapid.IntRange(0, 7).Draw(h.t, "nestQueryHere") == 0 {
		h.nestQBudget--
		h.query(fmt.Sprintf("[nested in %s %s %s(%s)] ", h.inFlushName(), beforeAfter(p.Before), p.FSOp, filepath.Base(filepath.Dir(p.Path))))
	}
}

func beforeAfter(b bool) string {
	if b {
		return "before"
	}
	return "after"
}

func (h *hist) finishCycle() {
	for h.phase != phIdle {
		h.flushStep()
	}
}

// reopen = orderly shutdown (tsdb.database.Close) + start on the same directory.
func (h *hist) reopen() {
	h.finishCycle()
	h.m.seq++
	h.logf("reopen (graceful close, seq %d)", h.m.seq)
	if err := h.n.closeGraceful(); err != nil {
		h.fatalf("graceful close: %v", err)
	}
	h.n = nil
	n, err := openNode(h.root, h.nIdx)
	if err != nil {
		h.fatalf("reopen: %v", err)
	}
	h.n = n
	// everything requested before the shutdown was frozen and flushed by it
	all := durable{Meta: h.m.seq, Idx: make([]int, h.nIdx)}
	for i := range all.Idx {
		all.Idx[i] = h.m.seq
	}
	h.dur = all
	h.reopened()
	h.faultReopened()
	rm, err := checkRecovered(h.n, h.w, h.m, all, func(s string) { h.classes[s]++ })
	if err != nil {
		h.fatalf("after reopen: %v", err)
	}
	// the node keeps running: what it was asked during the check belongs to its history
	h.m.seq++
	h.seqCached = map[seqKey]bool{} // a restart starts with an empty sequence cache ...
	for i := range rm.series {
		for k, byTags := range rm.series[i] {
			for c := range byTags {
				if h.m.series[i][k][c] == nil {
					h.seqCached[seqKey{i, k}] = true // ... the check created a new series of the metric
				}
			}
		}
	}
	if err := h.m.merge(rm); err != nil {
		h.fatalf("after reopen: %v", err)
	}
	h.classes["reopen"]++
}

// crashCheck recovers the pending images (a generated sample in the quick tier).
func (h *hist) crashCheck() {
	var pts []crash.Point
	for _, p := range h.im.Points {
		if p.Dir != "" {
			pts = append(pts, p)
		}
	}
	maxImages := 6
	if h.thorough {
		maxImages = 40
	}
	if h.flt != nil {
		maxImages += 4
		if !h.thorough && h.imagesChecked >= 50 {
			maxImages = 3 // cost: a quick case recovers at most about 60 images
		}
	}
	for len(pts) > maxImages {
		i := rapid.IntRange(0, len(pts)-1).Draw(h.t, "dropImage")
		if h.faultKeepImage(pts[i]) {
			// images of a fault window go last: drop the next one outside a window, if any
			for j := 1; j < len(pts); j++ {
				if k := (i + j) % len(pts); !h.faultKeepImage(pts[k]) {
					i = k
					break
				}
			}
		}
		pts = append(pts[:i], pts[i+1:]...)
	}
	for _, p := range pts {
		h.recoverImage(p)
	}
	h.im.Drop()
	h.imgDur = map[int]durable{}
}

func (h *hist) recoverImage(p crash.Point) {
	n, err := openNode(p.Dir, h.nIdx)
	if err != nil {
		h.fatalf("image %s: databases cannot be opened: %v", p, err)
	}
	defer n.closeRaw()
	// the live model is a superset of what the image can contain: names requested after the
	// image simply are not found; the image's own durability knowledge decides what must be found.
	dur := h.imgDur[p.Seq]
	// work on a copy of the model: the recovered node's world diverges from the live one
	// fault histories: every second image meets new series before its old names
	newFirst := h.flt != nil && p.Seq%2 == 1
	if _, err := checkRecoveredOrder(n, h.w, h.m.clone(), dur, func(s string) { h.classes[s]++ }, newFirst); err != nil {
		h.fatalf("image %s: %v", p, err)
	}
	h.imagesChecked++
	h.imagesInsideFlush++
	h.faultImageRecovered(p)
	h.classes["img-"+p.OpName]++
	h.ntHashes = append(h.ntHashes, p.String())
}

// ---- the recovered-node oracle -------------------------------------------------------------------

// clone copies the model deeply.
func (m *model) clone() *model {
	c := newModel(m.nIdx)
	c.seq = m.seq
	for k, mm := range m.metrics {
		cm := &metricM{ident: mm.ident, tagKeys: map[string]*tagKeyM{}, fields: map[string]*ident{}}
		for f, x := range mm.fields {
			cp := *x
			cm.fields[f] = &cp
		}
		for tk, t := range mm.tagKeys {
			ct := &tagKeyM{ident: t.ident, values: map[string]*ident{}}
			for v, x := range t.values {
				cp := *x
				ct.values[v] = &cp
			}
			cm.tagKeys[tk] = ct
		}
		c.metrics[k] = cm
	}
	for i := range m.series {
		for k, byTags := range m.series[i] {
			c.series[i][k] = map[string]*seriesM{}
			for cn, s := range byTags {
				cp := *s
				c.series[i][k][cn] = &cp
			}
		}
	}
	return c
}

// checkRecovered judges a node that was opened on a directory written by an earlier run
// (orderly reopen or crash image). m is everything the earlier run told its callers.
//
// Step A reads only: every name found in the recovered dictionaries must have its old id, names
// whose flush had completed must be found, every recovered schema / dictionary / posting /
// forward entry must be one the earlier run created. Step B creates: all old names are requested
// again and new names are created through the worker call sequences; a name that was not found
// must not get an id that any recovered entry uses for another name; the recovered node as a
// whole must satisfy the live oracle (functional, injective, lookups agree).
func checkRecovered(n *node, w *wire, m *model, dur durable, class func(string)) (*model, error) {
	return checkRecoveredOrder(n, w, m, dur, class, false)
}

// checkRecoveredOrder with newFirst: step B starts with a series that never existed for every
// (shard, metric) that has series - before any old name is requested again. A restarted node meets
// its rows in any order; a series that lost its dictionary entry is given its old id again when
// it happens to be the first one of its metric to come back (highest recovered posting + 1), which
// hides that the recovered forward / inverted index already holds entries under that id.
func checkRecoveredOrder(n *node, w *wire, m *model, dur durable, class func(string), newFirst bool) (*model, error) {
	rm := newModel(m.nIdx) // what the recovered node tells its callers
	rm.seq = m.seq + 1

	usedMetric, usedTagKey, usedTagVal := map[uint32]string{}, map[uint32]string{}, map[uint32]string{}
	usedSeries := make([]map[mkey]map[uint32]string, m.nIdx)
	for i := range usedSeries {
		usedSeries[i] = map[mkey]map[uint32]string{}
	}
	var maxMetric uint32
	foundMetric := map[mkey]bool{}
	foundField, foundKey, foundVal := map[string]bool{}, map[string]bool{}, map[string]bool{}

	// ---- step A: dictionaries
	for _, k := range sortedMetricKeys(m.metrics) {
		mm := m.metrics[k]
		if !mm.has {
			continue
		}
		if mm.id > maxMetric {
			maxMetric = mm.id
		}
		id, found, err := lookupMetric(n, k)
		if err != nil {
			return nil, fmt.Errorf("GetMetricID(%s): %w", k, err)
		}
		if found {
			if id != mm.id {
				return nil, fmt.Errorf("RECOVERED NAME CHANGED ID: metric %s had id %d, the recovered dictionary says %d", k, mm.id, id)
			}
			foundMetric[k] = true
			usedMetric[id] = "dictionary entry of metric " + k.String()
		} else if mm.seq <= dur.Meta {
			return nil, fmt.Errorf("FLUSHED NAME LOST: metric %s (id %d, requested at seq %d, metadata flushed up to seq %d) is not in the recovered dictionaries", k, mm.id, mm.seq, dur.Meta)
		} else {
			class("lost-unflushed-metric")
		}
		// the schema stored under the metric's id (also when the name itself was lost)
		schema, err := n.meta.GetSchema(metric.ID(mm.id))
		if err != nil {
			return nil, fmt.Errorf("GetSchema(%s): %w", k, err)
		}
		if schema == nil {
			schema = &metric.Schema{}
		} else {
			if _, ok := usedMetric[mm.id]; !ok {
				usedMetric[mm.id] = "schema of metric " + k.String()
			}
		}
		seenF := map[string]bool{}
		for _, f := range schema.Fields {
			name := f.Name.String()
			x := mm.fields[name]
			if x == nil || !x.has {
				return nil, fmt.Errorf("RECOVERED ENTRY NOBODY CREATED: schema of %s (id %d) has field %q id %d", k, mm.id, name, f.ID)
			}
			if x.id != uint32(f.ID) {
				return nil, fmt.Errorf("RECOVERED NAME CHANGED ID: field %s.%s had id %d, the recovered schema says %d", k, name, x.id, f.ID)
			}
			if seenF[name] {
				return nil, fmt.Errorf("recovered schema of %s lists field %q twice", k, name)
			}
			seenF[name] = true
			foundField[k.String()+"\x00"+name] = true
		}
		for _, f := range sortedKeys(mm.fields) {
			if x := mm.fields[f]; !seenF[f] && x.has && x.seq <= dur.Meta {
				return nil, fmt.Errorf("FLUSHED NAME LOST: field %s.%s (id %d, requested at seq %d, metadata flushed up to seq %d) is not in the recovered schema %+v", k, f, x.id, x.seq, dur.Meta, schema.Fields)
			}
		}
		seenT := map[string]bool{}
		for _, t := range schema.TagKeys {
			x := mm.tagKeys[t.Key]
			if x == nil {
				return nil, fmt.Errorf("RECOVERED ENTRY NOBODY CREATED: schema of %s (id %d) has tag key %q id %d", k, mm.id, t.Key, t.ID)
			}
			if x.has && x.id != uint32(t.ID) {
				return nil, fmt.Errorf("RECOVERED NAME CHANGED ID: tag key %s[%s] had id %d, the recovered schema says %d", k, t.Key, x.id, t.ID)
			}
			if seenT[t.Key] {
				return nil, fmt.Errorf("recovered schema of %s lists tag key %q twice", k, t.Key)
			}
			seenT[t.Key] = true
			foundKey[k.String()+"\x00"+t.Key] = true
			usedTagKey[uint32(t.ID)] = fmt.Sprintf("schema entry of tag key %s[%s]", k, t.Key)
		}
		for _, tk := range sortedKeys(mm.tagKeys) {
			t := mm.tagKeys[tk]
			if !t.has {
				continue
			}
			if !seenT[tk] && t.seq <= dur.Meta {
				return nil, fmt.Errorf("FLUSHED NAME LOST: tag key %s[%s] (id %d, requested at seq %d, metadata flushed up to seq %d) is not in the recovered schema %+v", k, tk, t.id, t.seq, dur.Meta, schema.TagKeys)
			}
			dict, err := tagValuesOf(n, t.id)
			if err != nil {
				return nil, fmt.Errorf("recovered tag values of %s[%s]: %w", k, tk, err)
			}
			for _, v := range sortedKeys(dict) {
				x := t.values[v]
				if x == nil {
					return nil, fmt.Errorf("RECOVERED ENTRY NOBODY CREATED: dictionary of tag key %s[%s] (id %d) has value %q id %d", k, tk, t.id, v, dict[v])
				}
				if x.has && x.id != dict[v] {
					return nil, fmt.Errorf("RECOVERED NAME CHANGED ID: tag value %s[%s=%s] had id %d, the recovered dictionary says %d", k, tk, v, x.id, dict[v])
				}
				foundVal[k.String()+"\x00"+tk+"\x00"+v] = true
				usedTagVal[dict[v]] = fmt.Sprintf("dictionary entry of tag value %s[%s=%s]", k, tk, v)
				if _, ok := usedTagKey[t.id]; !ok {
					usedTagKey[t.id] = fmt.Sprintf("tag value dictionary bucket of tag key %s[%s]", k, tk)
				}
			}
			for _, v := range sortedKeys(t.values) {
				x := t.values[v]
				if !x.has {
					continue
				}
				if _, ok := dict[v]; !ok && x.seq <= dur.Meta {
					return nil, fmt.Errorf("FLUSHED NAME LOST: tag value %s[%s=%s] (id %d, requested at seq %d, metadata flushed up to seq %d) is not in the recovered dictionary %v", k, tk, v, x.id, x.seq, dur.Meta, dict)
				} else if !ok {
					class("lost-unflushed-tagvalue")
				}
			}
		}
	}

	// ---- step A: index entries of every shard
	for i, d := range n.idx {
		for _, k := range sortedMetricKeys(m.metrics) {
			mm := m.metrics[k]
			if !mm.has {
				continue
			}
			byID := map[uint32]*seriesM{}
			for _, c := range sortedKeys(m.series[i][k]) {
				if s := m.series[i][k][c]; s.has {
					byID[s.id] = s
				}
			}
			used := map[uint32]string{}
			usedSeries[i][k] = used
			got, err := d.GetSeriesIDsForMetric(metric.ID(mm.id))
			if err != nil {
				return nil, fmt.Errorf("GetSeriesIDsForMetric(idx%d %s): %w", i, k, err)
			}
			if got != nil && !got.IsEmpty() {
				if _, ok := usedMetric[mm.id]; !ok {
					usedMetric[mm.id] = fmt.Sprintf("postings of idx%d for metric %s", i, k)
				}
				for _, s := range got.ToArray() {
					if byID[s] == nil {
						return nil, fmt.Errorf("RECOVERED ENTRY NOBODY CREATED: idx%d postings of metric %s (id %d) contain series id %d; series ever handed out: %v", i, k, mm.id, s, seriesIDs(byID))
					}
					used[s] = fmt.Sprintf("posting of idx%d metric %s", i, k)
				}
			}
			for _, c := range sortedKeys(m.series[i][k]) {
				s := m.series[i][k][c]
				if s.has && s.seq <= dur.Idx[i] && (got == nil || !got.Contains(s.id)) {
					return nil, fmt.Errorf("FLUSHED ENTRY LOST: idx%d series %s{%s} (id %d, requested at seq %d, index flushed up to seq %d) is not in the recovered postings %s of the metric", i, k, c, s.id, s.seq, dur.Idx[i], bitmapString(got))
				}
			}
			for _, tk := range sortedKeys(mm.tagKeys) {
				t := mm.tagKeys[tk]
				if !t.has {
					continue
				}
				fwd, fwdSeries, err := forwardOf(d, t.id, m.forwardHint(i, k, tk))
				if err != nil && !isNotFound(err) {
					return nil, fmt.Errorf("recovered forward index (idx%d %s[%s]): %w", i, k, tk, err)
				}
				if fwdSeries != nil && !fwdSeries.IsEmpty() {
					if _, ok := usedTagKey[t.id]; !ok {
						usedTagKey[t.id] = fmt.Sprintf("forward index of idx%d for tag key %s[%s]", i, k, tk)
					}
				}
				var sids []uint32
				if fwdSeries != nil {
					sids = fwdSeries.ToArray() // every series the forward index lists (ascending)
				}
				for _, s := range sids {
					sm := byID[s]
					if sm == nil {
						return nil, fmt.Errorf("RECOVERED ENTRY NOBODY CREATED: idx%d forward index of %s[%s] has series id %d; series ever handed out: %v", i, k, tk, s, seriesIDs(byID))
					}
					if _, ok := used[s]; !ok {
						used[s] = fmt.Sprintf("forward entry of idx%d %s[%s]", i, k, tk)
					}
					want := ""
					for _, kv := range sm.tags {
						if kv.K == tk {
							want = kv.V
						}
					}
					for _, vid := range fwd[s] {
						if _, ok := usedTagVal[vid]; !ok {
							usedTagVal[vid] = fmt.Sprintf("forward entry of idx%d %s[%s] series %d", i, k, tk, s)
						}
						x := t.values[want]
						if want == "" || x == nil || (x.has && x.id != vid) {
							return nil, fmt.Errorf("RECOVERED ENTRY DISAGREES: idx%d forward index of %s[%s]: series %d -> tag value id %d, but the series was created with %v (value %q has id %+v)", i, k, tk, s, vid, sm.tags, want, x)
						}
					}
				}
				for _, v := range sortedKeys(t.values) {
					x := t.values[v]
					if !x.has {
						continue
					}
					got, err := d.GetSeriesIDsByTagValueIDs(tag.KeyID(t.id), setOf(x.id))
					if err != nil {
						return nil, fmt.Errorf("GetSeriesIDsByTagValueIDs(idx%d %s[%s=%s]): %w", i, k, tk, v, err)
					}
					if got == nil || got.IsEmpty() {
						continue
					}
					if _, ok := usedTagVal[x.id]; !ok {
						usedTagVal[x.id] = fmt.Sprintf("postings of idx%d for tag value %s[%s=%s]", i, k, tk, v)
					}
					for _, s := range got.ToArray() {
						sm := byID[s]
						ok := false
						if sm != nil {
							for _, kv := range sm.tags {
								ok = ok || (kv.K == tk && kv.V == v)
							}
						}
						if !ok {
							return nil, fmt.Errorf("RECOVERED ENTRY DISAGREES: idx%d postings of tag value %s[%s=%s] (id %d) contain series %d, which is not a series created with that tag", i, k, tk, v, x.id, s)
						}
						if _, ok := used[s]; !ok {
							used[s] = fmt.Sprintf("tag value posting of idx%d %s[%s=%s]", i, k, tk, v)
						}
					}
				}
			}
		}
	}
	// ids above everything the earlier run handed out must not be referenced by anything
	for id := maxMetric + 1; id <= maxMetric+3; id++ {
		if s, _ := n.meta.GetSchema(metric.ID(id)); s != nil {
			return nil, fmt.Errorf("RECOVERED ENTRY NOBODY CREATED: a schema is stored under metric id %d, highest id handed out is %d", id, maxMetric)
		}
	}

	// ---- step B: requests on the recovered node
	fresh := func(kind string, used map[uint32]string, id uint32, name string, oldID uint32, hadOld bool) error {
		if what, ok := used[id]; ok && !(hadOld && oldID == id) {
			return fmt.Errorf("ID REUSED AFTER RECOVERY: %s %s was not in the recovered dictionaries and got id %d, which the recovered %s already uses", kind, name, id, what)
		}
		return nil
	}
	request := func(i int, r rowSpec, mode string) error {
		block, err := marshalRow(r)
		if err != nil {
			return fmt.Errorf("harness: %w", err)
		}
		var out []obs
		for _, wk := range strings.Split(mode, "+") {
			if wk == "meta" {
				err = metaWorkerRow(n, w, r, &out)
			} else {
				err = indexWorkerRow(n, w, i, r, block, &out)
			}
			if err != nil {
				return err
			}
		}
		for _, o := range out {
			if o.Kind != "series" {
				err = rm.observe(o)
			} else {
				kept := false
				if byTags := m.series[o.Idx][r.mkey()]; byTags != nil {
					if old := byTags[r.canonTags()]; old != nil && old.has && old.id == o.ID {
						kept = true
					}
				}
				err = rm.observeSeriesOpt(o.Idx, r, o.ID, !kept)
			}
			if err != nil {
				return err
			}
		}
		return nil
	}
	if newFirst {
		for _, k := range sortedMetricKeys(m.metrics) {
			for i := range n.idx {
				if len(m.series[i][k]) == 0 {
					continue
				}
				if err := request(i, rowSpec{NS: k.NS, Name: k.Name, Tags: []kvPair{{"zz-first", "zz"}}, Fields: []string{"f0"}}, "index"); err != nil {
					return nil, err
				}
				class("recovered-node-new-series-before-old-names")
			}
		}
	}
	// all old names again
	for _, k := range sortedMetricKeys(m.metrics) {
		mm := m.metrics[k]
		if err := request(0, rowSpec{NS: k.NS, Name: k.Name, Fields: sortedKeys(mm.fields)}, "meta"); err != nil {
			return nil, err
		}
		for i := range n.idx {
			for _, c := range sortedKeys(m.series[i][k]) {
				if err := request(i, rowSpec{NS: k.NS, Name: k.Name, Tags: m.series[i][k][c].tags}, "index"); err != nil {
					return nil, err
				}
			}
		}
	}
	// new names: a new metric in a new namespace, and for the first and last old metric a new
	// field, a new tag key, new values of old keys, new series in every shard
	ks := sortedMetricKeys(m.metrics)
	news := []rowSpec{{NS: "zz-ns", Name: "zz-metric", Tags: []kvPair{{"zk", "zv"}}, Fields: []string{"zf"}}}
	for j, k := range ks {
		if j != 0 && j != len(ks)-1 {
			continue
		}
		r := rowSpec{NS: k.NS, Name: k.Name, Fields: []string{"zz-field"}, Tags: []kvPair{{"zz-key", "zz-val"}}}
		for _, tk := range sortedKeys(m.metrics[k].tagKeys) {
			r.Tags = append(r.Tags, kvPair{tk, "zz-val-of-" + tk})
		}
		r.Tags = normTags(r.Tags)
		news = append(news, r, rowSpec{NS: k.NS, Name: k.Name + ".zz", Tags: []kvPair{{"host", "a"}}, Fields: []string{"f0"}})
	}
	for _, r := range news {
		for i := range n.idx {
			if err := request(i, r, "meta+index"); err != nil {
				return nil, err
			}
		}
	}
	// lookups agree, functional, injective on the recovered node; learns ids of tag keys / values
	if err := checkAll(n, rm, false); err != nil {
		return nil, fmt.Errorf("recovered node after new requests: %w", err)
	}
	// found names kept their ids (through the creators as well), others are fresh
	for _, k := range sortedMetricKeys(rm.metrics) {
		nm := rm.metrics[k]
		var om *metricM
		if x := m.metrics[k]; x != nil && x.has {
			om = x
		}
		if foundMetric[k] {
			if nm.id != om.id {
				return nil, fmt.Errorf("RECOVERED NAME CHANGED ID: metric %s had id %d, GenMetricID on the recovered node says %d", k, om.id, nm.id)
			}
		} else if err := fresh("metric", usedMetric, nm.id, k.String(), idOf(om), om != nil); err != nil {
			return nil, err
		} else if om != nil && om.id != nm.id {
			class("lost-name-got-new-id")
		}
		sameMetric := om != nil && om.id == nm.id
		for _, f := range sortedKeys(nm.fields) {
			var ox *ident
			if om != nil {
				if x := om.fields[f]; x != nil && x.has {
					ox = x
				}
			}
			// (the fields / tag keys of a metric whose name came back with another id are a new scope:
			// the schema stored under the old id is not reachable any more)
			if sameMetric && foundField[k.String()+"\x00"+f] && nm.fields[f].id != ox.id {
				return nil, fmt.Errorf("RECOVERED NAME CHANGED ID: field %s.%s had id %d, GenFieldID on the recovered node says %d", k, f, ox.id, nm.fields[f].id)
			}
		}
		for _, tk := range sortedKeys(nm.tagKeys) {
			nt := nm.tagKeys[tk]
			var ot *tagKeyM
			if om != nil {
				if x := om.tagKeys[tk]; x != nil && x.has {
					ot = x
				}
			}
			keyKept := sameMetric && foundKey[k.String()+"\x00"+tk]
			if keyKept {
				if ot != nil && nt.id != ot.id {
					return nil, fmt.Errorf("RECOVERED NAME CHANGED ID: tag key %s[%s] had id %d, the recovered node now says %d", k, tk, ot.id, nt.id)
				}
			} else {
				var old uint32
				if ot != nil {
					old = ot.id
				}
				if err := fresh("tag key", usedTagKey, nt.id, fmt.Sprintf("%s[%s]", k, tk), old, ot != nil); err != nil {
					return nil, err
				}
			}
			for _, v := range sortedKeys(nt.values) {
				nv := nt.values[v]
				var ov *ident
				if ot != nil {
					if x := ot.values[v]; x != nil && x.has {
						ov = x
					}
				}
				// (likewise the values of a tag key that came back with another id: the dictionary bucket of
				// the old tag key id is not reachable any more)
				if keyKept && foundVal[k.String()+"\x00"+tk+"\x00"+v] {
					if ov != nil && nv.id != ov.id {
						return nil, fmt.Errorf("RECOVERED NAME CHANGED ID: tag value %s[%s=%s] had id %d, the recovered node now says %d (tag key id before %+v, now %d; tag key found in the recovered schema: %v)", k, tk, v, ov.id, nv.id, ot.ident, nt.id, foundKey[k.String()+"\x00"+tk])
					}
				} else {
					var old uint32
					if ov != nil {
						old = ov.id
					}
					if err := fresh("tag value", usedTagVal, nv.id, fmt.Sprintf("%s[%s=%s]", k, tk, v), old, ov != nil); err != nil {
						return nil, err
					}
				}
			}
		}
		for i := range n.idx {
			if om == nil || om.id != nm.id {
				break // the metric itself is new on the recovered node: its series live in a new scope
			}
			for _, c := range sortedKeys(rm.series[i][k]) {
				ns := rm.series[i][k][c]
				var os *seriesM
				if byTags := m.series[i][k]; byTags != nil {
					if x := byTags[c]; x != nil && x.has {
						os = x
					}
				}
				if os != nil && os.id == ns.id {
					continue // kept (found, or re-created with its own old id)
				}
				if os != nil && os.seq <= dur.Idx[i] {
					return nil, fmt.Errorf("RECOVERED NAME CHANGED ID: idx%d series %s{%s} had id %d and its index flush had completed (seq %d <= %d); GenSeriesID on the recovered node says %d", i, k, c, os.id, os.seq, dur.Idx[i], ns.id)
				}
				if used := usedSeries[i][k]; used != nil {
					if what, ok := used[ns.id]; ok {
						return nil, fmt.Errorf("ID REUSED AFTER RECOVERY: idx%d series %s{%s} was not in the recovered dictionary and got id %d, which the recovered %s already uses", i, k, c, ns.id, what)
					}
				}
			}
		}
	}
	return rm, nil
}

func idOf(m *metricM) uint32 {
	if m == nil {
		return 0
	}
	return m.id
}

func seriesIDs(byID map[uint32]*seriesM) []uint32 {
	out := make([]uint32, 0, len(byID))
	for id := range byID {
		out = append(out, id)
	}
	sort.Slice(out, func(i, j int) bool { return out[i] < out[j] })
	return out
}

// ---- property --------------------------------------------------------------------------------

func runHistory(t *rapid.T, thorough bool) { runHistoryOpts(t, thorough, false) }

// runHistoryOpts: faults=true is TestFaultHistory (fault_test.go) - the same state machine, and in
// addition one intercepted table-file / manifest operation of a Flush call may fail (injected I/O
// fault); the harness then goes on as the production flush job does.
func runHistoryOpts(t *rapid.T, thorough, faults bool) {
	dir := mustTempDir("c09h-")
	nIdx := rapid.IntRange(1, 3).Draw(t, "nIdx")
	h := &hist{
		t: t, dir: dir, root: filepath.Join(dir, "live"), nIdx: nIdx, m: newModel(nIdx), thorough: thorough,
		idxPrepSeq: make([]int, nIdx), dur: durable{Idx: make([]int, nIdx)},
		imgDur: map[int]durable{}, classes: map[string]int{},
		cs: newCompactState(nIdx), switched: map[string]bool{}, seqCached: map[seqKey]bool{},
		group: "TestHistory",
	}
	if faults {
		h.group = "TestFaultHistory"
		h.flt = newFaultState(t)
	}
	h.u = drawUniverse(t)
	for _, ns := range h.u.ns {
		h.classes["universe-"+nsBucketClass(ns)]++
	}
	defer debug.SetPanicOnFault(debug.SetPanicOnFault(true))
	h.w = newWire(rapid.SampledFrom(wireModes).Draw(t, "wireMode"))
	h.im = &crash.Imager{Root: h.root, OutDir: filepath.Join(dir, "img"), OnPoint: h.onPoint}
	h.im.Want = h.wantImage
	kv.VerifSetFSHook(h.im.Hook)
	version.VerifSetFSHook(version.VerifFSHook(h.im.Hook))
	table.VerifSetFSHook(table.VerifFSHook(h.im.Hook))
	if faults {
		version.VerifSetFSHookWithSyncFaults(version.VerifFSHook(h.im.Hook), h.faultFn)
		table.VerifSetFSHookWithFaults(table.VerifFSHook(h.im.Hook), h.faultFn)
	}
	defer func() {
		kv.VerifSetFSHook(nil)
		version.VerifSetFSHook(nil)
		table.VerifSetFSHook(nil)
		h.im.Active = false
		if h.n != nil {
			h.n.closeRaw()
		}
		_ = os.RemoveAll(dir)
	}()
	n, err := openNode(h.root, nIdx)
	if err != nil {
		t.Fatalf("open: %v", err)
	}
	h.n = n
	h.write("")

	step := func(fn func()) func(*rapid.T) {
		return func(t *rapid.T) { h.t = t; h.guarded(fn) }
	}
	actions := map[string]func(*rapid.T){
		"write":      step(func() { h.write("") }),
		"write2":     step(func() { h.write("") }),
		"query":      step(func() { h.query("") }),
		"flushStep":  step(h.flushStep),
		"flushStep2": step(h.flushStep),
		"writeBatch": step(func() {
			for i := rapid.IntRange(2, 4).Draw(h.t, "batchRows"); i > 0; i-- {
				h.write("")
			}
			h.classes["write-batch"]++
		}),
		"flushCycle": step(func() {
			// a whole cycle (the rest of the running one) as dataFlushChecker.doFlush runs it
			if h.phase == phIdle {
				h.flushStep()
			}
			h.finishCycle()
			h.classes["flush-cycle-as-one-step"]++
		}),
		"compact":      step(h.compact),
		"dropSeqCache": step(func() { h.dropSeqCache("") }),
		"reopen": step(func() {
			if h.phase != phIdle {
				h.t.Skip("flush cycle in progress")
			}
			h.reopen()
		}),
		"crash": step(func() {
			if len(h.im.Points) == 0 {
				h.t.Skip("no pending images")
			}
			h.crashCheck()
		}),
		"": step(func() {
			if err := checkAll(h.n, h.m, true); err != nil {
				h.fatalf("live node: %v", err)
			}
			if len(h.switched) > 0 {
				h.classes["live-oracle-runs-on-compacted-dictionaries"]++
			}
			h.faultLiveChecked()
		}),
	}
	if faults {
		h.faultActions(actions, step)
	}
	t.Repeat(actions)
	h.t = t
	h.guarded(func() {
		h.crashCheck()
		h.reopen()
		if err := checkAll(h.n, h.m, true); err != nil {
			h.fatalf("live node after final reopen: %v", err)
		}
	})

	canon := fmt.Sprintf("%d|%s|%s|%v", nIdx, h.w.mode, h.u, h.ops)
	if faults {
		canon = "faults|" + canon
	}
	h.classes["wire-"+h.w.mode] = 1
	h.classes["wire-calls-with-reused-arguments"] = h.w.calls + h.w.rows
	h.classes["wire-bytes-overwritten-after-return"] = h.w.overwritten
	for c, n := range h.classes {
		ev.Class(h.group, c, n)
	}
	nt := h.classes["image-with-ids-after-sync"] > 0 && h.imagesChecked > 0
	if faults {
		nt = h.recordFaults(canon) // fault_test.go: the rule of TestFaultHistory
	}
	ev.Case(h.group, canon, nt, nil, map[string]any{
		"index_databases": nIdx, "wire_mode": h.w.mode, "names": h.u.String(), "history": h.ops, "images_recovered": h.imagesChecked,
	})
	for _, hs := range h.ntHashes {
		ev.Case("crash-points", canon+"|"+hs, true, nil, nil)
	}
	h.recordCompactions(canon)
	h.recordSeqDrops("sequence-cache-misses", canon)
}

func TestHistory(t *testing.T) {
	thorough := os.Getenv("VERIF_TIER") == "thorough"
	rapid.Check(t, func(t *rapid.T) { runHistory(t, thorough) })
}
