package c09

import (
	"errors"
	"fmt"
	"os"
	"path/filepath"
	"strings"
	"testing"

	"pgregory.net/rapid"

	"github.com/lindb/lindb/verifharness/sim/crash"
	"github.com/lindb/lindb/verifharness/sim/ev"
)

// Part (b), fault class: I/O faults inside a metadata / index Flush, then a retry flush and a reopen.
//
// TestFaultHistory runs the state machine of TestHistory (history_test.go: writes, queries, flush
// cycles step by step or as one step, creators / queries / sequence-cache drops nested at the
// file-system seams inside a Flush, compactions, crash images, reopen) and in addition ONE
// intercepted file-system operation of a Flush call may fail: the creation of a table file, a write
// into it, its close, the write of a manifest record or its sync (seams
// table.VerifSetFSHookWithFaults, version.VerifSetFSHookWithSyncFaults; EIO / ENOSPC as the kv layer
// sees them: a failed create / write leaves nothing in the file, a failed close releases the
// descriptor, a failed sync has handed the record to the kernel - it survives the process - and
// reports the error). Which operation is a
// drawn plan: operation kind, the kv family it belongs to (namespace / metric / schema / tag value
// dictionaries of the metadata store, series / forward / inverted / metric postings of a shard's
// index store, or any) and the how-manyth such operation of the call.
//
// After a Flush that reported the error the harness goes on as the production flush job does
// (tsdb.dataFlushChecker): a failed FlushMeta ends the job (no shard index is flushed in that
// cycle), a failed FlushIndex ends the work on that shard; ingestion continues (more names are
// created), the next cycle starts with PrepareFlush again and its Flush is the retry. A graceful
// close (tsdb.database.Close) runs ONE metadata flush and one index flush per shard - it is the
// retry when no cycle ran in between.
//
// Oracle = the oracle of TestHistory, unchanged: a Flush that returned nil claims that every name
// requested before its PrepareFlush is durable (names created after a failed flush included: the
// flush job goes on to persist index / data / log sequence which refer to them); after a reopen
// or the recovery of a crash image every name found has its old id (fields and tag keys of the
// schema included - a field id is len(schema.Fields), so a field that silently was not written
// comes back with the id of a younger one), names whose flush had completed are found, and names
// created afterwards get ids that nothing recovered uses. The live node keeps answering with the
// old ids after a failed flush. A Flush that swallows the fault (returns nil) is treated as a
// successful flush - its durability claim is judged like any other.

var errInjected = errors.New("injected I/O fault: input/output error")

var tenSlots = []int{0, 1, 2, 3, 4, 5, 6, 7, 8, 9}

var faultOps = []string{"tableCreate", "tableWrite", "tableWrite", "tableClose", "tableClose", "manifestWrite", "manifestWrite", "manifestSync"}

// faultPlan: the At-th operation of kind Op (on a file of family Family, "" = any) of one Flush
// call fails.
type faultPlan struct {
	Op     string
	Family string
	At     int
}

func (p faultPlan) String() string {
	fam := p.Family
	if fam == "" {
		fam = "any family"
	}
	if strings.HasPrefix(p.Op, "manifest") {
		fam = "store manifest"
	}
	return fmt.Sprintf("%s #%d (%s)", p.Op, p.At, fam)
}

// faultRec is one fault that fired.
type faultRec struct {
	at                              int // index of the Flush in h.ops
	db                              string
	plan                            faultPlan
	fired                           string // operation and file
	family                          string // family of the file the failed operation worked on ("" = manifest)
	errText                         string // "" = the Flush returned nil
	inRetry                         bool   // the Flush was itself the retry of a failed one
	countAtFail                     int    // names of the model when the Flush failed
	namesAfter                      int    // names created between the failed Flush and the successful one
	retriedBy                       string // "flush" | "close"
	imagesInWindow, imagesRecovered int
	imagesInsideAfterFault          int
	liveChecked, reopened           bool
}

type faultState struct {
	rate   int // a Flush call gets a fault plan in about rate of 10 calls
	plan   *faultPlan
	seen   int
	fired  string
	family string

	// faultAndRetry (composite operation): the shard its writes go to, the one Flush that gets a
	// fault plan (others get none)
	composite  bool
	forceShard int
	forceWhat  string
	failed     bool                 // the Flush that just returned reported an injected fault
	retrying   bool                 // the Flush in flight is the retry inside a fault-and-retry operation: crash images at nearly every seam
	recs       []*faultRec          //
	open       map[string]*faultRec // db -> failed Flush without a successful one since
	imgWin     map[int][]*faultRec  // image (crash.Point.Seq) -> fault windows it was taken in
	imgIn      map[int]bool         // image taken inside the failing Flush after the fault

	// known finding sigRetryOrder (fault_regression_test.go)
	curFam         string          // family of the last table-file operation of the Flush in flight
	postingsFailed map[string]bool // index db whose last Flush failed while it wrote / committed the postings family
	orderWindow    map[string]bool // ... and whose retry has begun and has not succeeded yet
}

func newFaultState(t *rapid.T) *faultState {
	return &faultState{
		rate:       rapid.SampledFrom([]int{1, 2, 2, 4}).Draw(t, "faultRate"),
		forceShard: -1,
		open:       map[string]*faultRec{}, imgWin: map[int][]*faultRec{}, imgIn: map[int]bool{},
		postingsFailed: map[string]bool{}, orderWindow: map[string]bool{},
	}
}

// faultRowExtras: rows of fault histories bring a new field / a new tag key / a further metric name
// more often, so that every family has something to write in most flush cycles; 3 of 10 rows have no
// tags.
func (h *hist) faultRowExtras(label string, r *rowSpec) {
	t := h.t
	// more metric names (the metric dictionary and the postings get new entries in most cycles) and
	// series without tags (a cycle in which a shard's forward / inverted stores freeze nothing while
	// its postings do)
	if rapid.SampledFrom(tenSlots).Draw(t, label+"metricVariant") < 3 {
		r.Name += fmt.Sprintf(".x%d", rapid.IntRange(0, 3).Draw(t, label+"variant"))
	}
	if rapid.SampledFrom(tenSlots).Draw(t, label+"noTags") < 3 {
		r.Tags = nil
	}
	if rapid.IntRange(0, 2).Draw(t, label+"freshField") == 0 {
		h.fresh++
		r.Fields = append(r.Fields, fmt.Sprintf("g%d", h.fresh))
	}
	mm := h.m.metrics[r.mkey()]
	if (mm == nil || len(mm.tagKeys) < 8) && rapid.IntRange(0, 4).Draw(t, label+"freshKey") == 0 {
		h.fresh++
		r.Tags = normTags(append(r.Tags, kvPair{fmt.Sprintf("k%d", h.fresh), rapid.SampledFrom(h.u.vals).Draw(t, label+"freshKeyVal")}))
	}
}

// faultAndRetry is a composite operation: a few rows for one shard, a flush cycle in which ONE
// drawn Flush (the metadata flush or that shard's index flush) gets a fault plan, a few more rows for
// the shard (ingestion goes on: 1-3 rows), the next flush cycle of all shards (the retry, without a fault, crash
// images at nearly every seam), recovery of the pending images. Small cycles: the stores of the
// failed database freeze different things (some nothing), which is what the retry has to cope with.
func (h *hist) faultAndRetry() {
	f := h.flt
	if limit := map[bool]int{false: 3, true: 8}[h.thorough]; h.classes["fault-and-retry"] >= limit {
		h.t.Skip("enough fault-and-retry operations in this case")
	}
	h.finishCycle()
	f.composite, f.forceShard = true, rapid.IntRange(0, h.nIdx-1).Draw(h.t, "farShard")
	defer func() { f.composite, f.forceShard, f.forceWhat, h.allShardsInCycle = false, -1, "", false }()
	h.logf("fault-and-retry on shard %d ...", f.forceShard)
	for i := rapid.IntRange(1, 3).Draw(h.t, "farRowsBefore"); i > 0; i-- {
		h.write("")
	}
	f.forceWhat = fmt.Sprintf("idx%d", f.forceShard)
	if rapid.IntRange(0, 2).Draw(h.t, "farMeta") == 0 {
		f.forceWhat = "meta"
	}
	h.allShardsInCycle = true
	h.flushStep()
	h.finishCycle()
	for i := rapid.IntRange(1, 3).Draw(h.t, "farRowsAfter"); i > 0; i-- {
		h.write("")
	}
	f.forceWhat = ""
	h.flushStep()
	h.finishCycle()
	h.crashCheck()
	h.classes["fault-and-retry"]++
}

// faultActions: flush cycles, batches and reopens are drawn more often than in TestHistory.
func (h *hist) faultActions(actions map[string]func(*rapid.T), step func(func()) func(*rapid.T)) {
	actions["faultAndRetry"] = step(h.faultAndRetry)
	actions["faultAndRetry2"] = actions["faultAndRetry"]
	actions["flushCycle2"] = actions["flushCycle"]
	actions["flushCycle3"] = actions["flushCycle"]
	actions["writeBatch2"] = actions["writeBatch"]
	actions["reopen2"] = actions["reopen"]
}

// armFault draws the fault plan of the Flush call that is about to run.
func (h *hist) armFault(what string) {
	f := h.flt
	if f == nil {
		return
	}
	f.plan, f.seen, f.fired, f.family, f.failed, f.curFam = nil, 0, "", "", false, ""
	if f.postingsFailed[what] {
		f.orderWindow[what] = true // the retry begins
	}
	f.retrying = f.composite && f.open[what] != nil
	if f.retrying {
		h.classes["retry-flush-with-dense-crash-images"]++
	}
	// (SampledFrom is close to uniform, IntRange prefers small values)
	rate := f.rate
	if what == "meta" {
		rate = min(2*rate, 7) // a cycle has one metadata flush and up to three index flushes
	}
	switch {
	case what == "compaction":
		return
	case f.composite:
		if what != f.forceWhat {
			return
		}
		f.forceWhat = ""
	case rapid.SampledFrom(tenSlots).Draw(h.t, "faultHere") < 10-rate:
		return
	}
	p := &faultPlan{Op: rapid.SampledFrom(faultOps).Draw(h.t, "faultOp")}
	// the postings family is written first in an index flush: the other stores depend on it
	fams := append([]string{"", "metric"}, idxFamilies...)
	if what == "meta" {
		fams = append([]string{""}, metaFamilies...)
	}
	if !strings.HasPrefix(p.Op, "manifest") {
		p.Family = rapid.SampledFrom(fams).Draw(h.t, "faultFamily")
		if f.composite && rapid.Bool().Draw(h.t, "faultFirstStore") {
			// fail in the store that is flushed first: every later store keeps what it had frozen
			p.Family = map[bool]string{true: "ns", false: "metric"}[what == "meta"]
		}
	}
	switch {
	case p.Op == "tableWrite":
		p.At = rapid.IntRange(0, 6).Draw(h.t, "faultAt")
	case strings.HasPrefix(p.Op, "manifest") || p.Family == "":
		p.At = rapid.IntRange(0, 5).Draw(h.t, "faultAt")
	default:
		// 1 = the second table file of the family in this call (a retry flush writes two)
		p.At = rapid.SampledFrom([]int{0, 0, 0, 1}).Draw(h.t, "faultAt")
	}
	f.plan = p
	h.classes["fault-plan-drawn"]++
}

// faultFn is asked once per intercepted table-file / manifest-record operation.
func (h *hist) faultFn(op, path string) error {
	f := h.flt
	if f == nil || !h.im.Active {
		return nil
	}
	if !strings.HasPrefix(op, "manifest") {
		f.curFam = filepath.Base(filepath.Dir(path))
	}
	if f.plan == nil || f.fired != "" {
		return nil
	}
	p := f.plan
	if p.Op != op {
		return nil
	}
	fam := ""
	if !strings.HasPrefix(op, "manifest") {
		fam = filepath.Base(filepath.Dir(path))
		if p.Family != "" && p.Family != fam {
			return nil
		}
	}
	n := f.seen
	f.seen++
	if n != p.At {
		return nil
	}
	f.fired = fmt.Sprintf("%s(%s)", op, strings.TrimPrefix(path, h.root+string(os.PathSeparator)))
	f.family = fam
	h.logf("  [injected I/O fault in %s: %s fails]", h.inFlushName(), f.fired)
	return errInjected
}

// faultOutcome is called when the Flush returned. true = it reported an injected fault.
func (h *hist) faultOutcome(what string, err error) bool {
	f := h.flt
	if f == nil || f.plan == nil {
		return false
	}
	plan := *f.plan
	f.plan = nil
	if f.fired == "" {
		h.classes["fault-plan-not-reached"]++
		return false
	}
	store := "idx"
	if what == "meta" {
		store = "meta"
	}
	h.classes["fault-fired"]++
	h.classes["fault-"+store+"/"+map[bool]string{true: "manifest", false: f.family}[f.family == ""]+"-"+plan.Op]++
	rec := &faultRec{at: len(h.ops) - 1, db: what, plan: plan, fired: f.fired, family: f.family, countAtFail: h.m.count()}
	f.recs = append(f.recs, rec)
	if old := f.open[what]; old != nil {
		rec.inRetry = true
		h.classes["fault-in-a-retry-flush"]++
	}
	if err == nil {
		// swallowed: the call claims success and is judged as a successful flush
		h.classes["flush-returned-nil-after-fault"]++
		h.logf("  -> %s Flush returned nil", what)
		rec.retriedBy = "not-reported"
		return false
	}
	rec.errText = err.Error()
	h.logf("  -> %s Flush failed: %v", what, err)
	f.open[what] = rec
	f.failed = true
	if what != "meta" && (f.family == "metric" || (f.family == "" && f.curFam == "metric")) {
		f.postingsFailed[what] = true
		h.classes["index-flush-failed-in-the-postings-family"]++
	}
	return true
}

// flushFailed is asked by flushStep after every Flush of a database: true = the call reported an
// injected fault (nothing became durable as far as the caller knows). false = it succeeded: the
// retry of a failed flush of this database, if one is open.
func (h *hist) flushFailed(db string) bool {
	f := h.flt
	if f == nil {
		return false
	}
	if f.failed {
		f.failed = false
		h.classes[map[bool]string{true: "meta", false: "index"}[db == "meta"]+"-flush-failed"]++
		return true
	}
	if rec := f.open[db]; rec != nil {
		h.closeWindow(rec, "flush")
	}
	delete(f.postingsFailed, db)
	delete(f.orderWindow, db)
	return false
}

func (h *hist) closeWindow(rec *faultRec, by string) {
	rec.retriedBy = by
	rec.namesAfter = h.m.count() - rec.countAtFail
	delete(h.flt.open, rec.db)
	h.classes["retry-by-"+by+"-succeeded"]++
	if rec.namesAfter > 0 {
		h.classes["retry-by-"+by+"-with-names-created-after-the-failed-flush"]++
	}
}

// faultReopened: the graceful close flushed every database once (it is the retry of the flushes
// that were still open) and the node was started again.
func (h *hist) faultReopened() {
	f := h.flt
	if f == nil {
		return
	}
	for _, db := range sortedKeys(f.open) {
		h.closeWindow(f.open[db], "close")
	}
	f.postingsFailed, f.orderWindow = map[string]bool{}, map[string]bool{}
	for _, rec := range f.recs {
		if !rec.reopened {
			rec.reopened = true
			h.classes["reopen-judges-a-fault"]++
		}
	}
}

// faultSuppressImage: known finding sigRetryOrder - while the retry of an index flush that failed in
// the postings family has begun and not succeeded, the files can hold forward / inverted entries
// of series whose postings are not written yet; no crash image is taken in that window.
func (h *hist) faultSuppressImage() bool {
	f := h.flt
	if f == nil || len(f.orderWindow) == 0 {
		return false
	}
	h.classes["image-candidate-inside-the-retry-of-a-failed-postings-flush"]++
	if !ev.Known(sigRetryOrder) {
		return false
	}
	h.classes["excluded_known"]++
	return true
}

// faultRetryInFlight: the Flush in flight retries a failed one.
func (h *hist) faultRetryInFlight() bool {
	return h.flt != nil && h.flt.retrying && h.inFlush != "" && h.inFlush != "compaction"
}

// faultKeepImage: when the crash action recovers only a sample of the pending images, those taken
// between a failed flush and its completed retry are dropped last.
func (h *hist) faultKeepImage(p crash.Point) bool {
	return h.flt != nil && (len(h.flt.imgWin[p.Seq]) > 0 || h.flt.imgIn[p.Seq])
}

func (h *hist) faultImageTaken(p crash.Point) {
	f := h.flt
	if f == nil {
		return
	}
	if f.fired != "" {
		f.imgIn[p.Seq] = true
		h.classes["image-inside-the-failing-flush-after-the-fault"]++
	}
	for _, db := range sortedKeys(f.open) {
		rec := f.open[db]
		rec.imagesInWindow++
		f.imgWin[p.Seq] = append(f.imgWin[p.Seq], rec)
	}
	if len(f.open) > 0 {
		h.classes["image-between-failed-flush-and-completed-retry"]++
	}
}

func (h *hist) faultImageRecovered(p crash.Point) {
	f := h.flt
	if f == nil {
		return
	}
	if f.imgIn[p.Seq] {
		h.classes["recovered-image-inside-the-failing-flush-after-the-fault"]++
	}
	for _, rec := range f.imgWin[p.Seq] {
		rec.imagesRecovered++
	}
	if len(f.imgWin[p.Seq]) > 0 {
		h.classes["recovered-image-between-failed-flush-and-completed-retry"]++
	}
}

func (h *hist) faultLiveChecked() {
	f := h.flt
	if f == nil {
		return
	}
	for _, rec := range f.open {
		if !rec.liveChecked {
			rec.liveChecked = true
			h.classes["live-oracle-between-failed-flush-and-retry"]++
		}
	}
}

// recordFaults writes one case of group flush-faults per fault that fired. It returns the rule of
// TestFaultHistory: >= 1 Flush reported an injected fault, was retried, and a reopen judged the node
// afterwards (every case ends with a reopen).
func (h *hist) recordFaults(canon string) bool {
	nt := false
	for _, rec := range h.flt.recs {
		reported := rec.errText != ""
		nt = nt || (reported && rec.reopened)
		fam := rec.family
		if fam == "" {
			fam = "manifest"
		}
		ev.Case("flush-faults", fmt.Sprintf("%s|%d|%s", canon, rec.at, rec.plan), reported && rec.reopened && rec.namesAfter > 0, nil, map[string]any{
			"flush": rec.db, "plan": rec.plan.String(), "failed_operation": rec.fired, "error": rec.errText, "flush_was_itself_a_retry": rec.inRetry,
			"names_created_until_the_retry": rec.namesAfter, "retried_by": rec.retriedBy,
			"crash_images_recovered_in_the_window": rec.imagesRecovered,
		})
	}
	return nt
}

func TestFaultHistory(t *testing.T) {
	thorough := os.Getenv("VERIF_TIER") == "thorough"
	rapid.Check(t, func(t *rapid.T) { runHistoryOpts(t, thorough, true) })
}
