package c09

import (
	"fmt"
	"regexp"
	"sort"
	"strings"

	"github.com/lindb/roaring"

	"github.com/lindb/lindb/series/metric"
	"github.com/lindb/lindb/series/tag"
	"github.com/lindb/lindb/sql/stmt"
)

// Read-only metadata queries as operations of the generated histories.
//
// The lookups of MetricMetaDatabase / MetricIndexDatabase (auto-complete, "show ..." statements, the
// tag filter of a data query) never create a name, but they run on the same dictionaries, bucket
// caches, snapshots and object pools as the get-or-create path, on other goroutines, at any time -
// also while a flush cycle is in progress. The property says that the id of a name does not change
// while the node runs: so no query, placed anywhere in a history, may change what any later
// get-or-create or lookup answers. One query = the call sequence of one production plan
// (query/operator: namespace_suggest, metric_suggest, tag_key_suggest / field_suggest,
// tag_key_id_lookup + tag_value_suggest, tag_values_lookup + series filtering, grouping):
//
//	show-namespaces       SuggestNamespace(prefix, limit)
//	show-metrics          SuggestMetrics(ns, prefix, limit)
//	show-tag-keys+fields  GetMetricID(ns, name), GetSchema(id)
//	show-tag-values       GetMetricID, GetSchema -> tag key id, SuggestTagValues(key id, prefix, limit)
//	tag-filter            ... FindTagValueDsByExpr(key id, = | in | like | regexp), CollectTagValues,
//	                      per shard GetSeriesIDsByTagValueIDs
//	tag-values-of-key     ... FindTagValueIDsForTag, CollectTagValues
//	series-of-metric      GetMetricID, per shard GetSeriesIDsForMetric, GetSeriesIDsForTag + grouping scan
//
// execQuery only talks to lindb; judge compares the answer with the reference model:
// every id a lookup reports is folded into the model exactly like the answer of a creator (one
// name - one id, for ever), a lookup must not find a name nobody created, must find every name
// that was created before the query started, and an enumeration (suggest) returns only names of
// its scope that start with the prefix, each once, and all of them when they fit into the limit
// (documented behaviour of the Suggest* functions; the order and which ones are cut by the limit
// is not judged - the trie iterators are C20's subject).

const (
	qNamespaces = "show-namespaces"
	qMetrics    = "show-metrics"
	qSchema     = "show-tag-keys+fields"
	qTagValues  = "show-tag-values"
	qTagFilter  = "tag-filter"
	qAllValues  = "tag-values-of-key"
	qSeries     = "series-of-metric"
)

var queryKinds = []string{qNamespaces, qMetrics, qSchema, qTagValues, qTagFilter, qAllValues, qSeries}

type querySpec struct {
	Kind   string   `json:"kind"`
	NS     string   `json:"ns,omitempty"`
	Metric string   `json:"metric,omitempty"`
	Key    string   `json:"key,omitempty"`
	Prefix string   `json:"prefix,omitempty"`
	Limit  int      `json:"limit,omitempty"`
	Expr   string   `json:"expr,omitempty"` // eq | in | like | regex
	Args   []string `json:"args,omitempty"`
	// UseKeyID: the tag key id was resolved earlier (ids are stable, says the property) and the plan
	// does not read the schema again. Used by the query goroutines that run next to creators:
	// GetSchema hands out the live schema object, reading it while a creator appends to it is a
	// data race of its own that is not this property's subject.
	UseKeyID bool   `json:"use_key_id,omitempty"`
	KeyID    uint32 `json:"key_id,omitempty"`
	// fwdHint (optional): expected forward index of the queried tag key per index database, only to
	// make reading a tag key with very many series affordable (see forwardOf)
	fwdHint func(idx int) map[uint32]uint32
}

func (q querySpec) String() string {
	switch q.Kind {
	case qNamespaces:
		return fmt.Sprintf("%s prefix=%q limit=%d", q.Kind, q.Prefix, q.Limit)
	case qMetrics:
		return fmt.Sprintf("%s ns=%s prefix=%q limit=%d", q.Kind, q.NS, q.Prefix, q.Limit)
	case qSchema:
		return fmt.Sprintf("%s %s/%s", q.Kind, q.NS, q.Metric)
	case qTagValues:
		return fmt.Sprintf("%s %s/%s[%s] prefix=%q limit=%d", q.Kind, q.NS, q.Metric, q.Key, q.Prefix, q.Limit)
	case qTagFilter:
		return fmt.Sprintf("%s %s/%s[%s %s %q]", q.Kind, q.NS, q.Metric, q.Key, q.Expr, q.Args)
	default:
		return fmt.Sprintf("%s %s/%s[%s]", q.Kind, q.NS, q.Metric, q.Key)
	}
}

func (q querySpec) mkey() mkey { return mkey{q.NS, q.Metric} }

// expr builds the tag filter of a tag-filter query.
func (q querySpec) expr() stmt.TagFilter {
	switch q.Expr {
	case "eq":
		return &stmt.EqualsExpr{Key: q.Key, Value: q.Args[0]}
	case "in":
		return &stmt.InExpr{Key: q.Key, Values: q.Args}
	case "like":
		return &stmt.LikeExpr{Key: q.Key, Value: q.Args[0]}
	default:
		return &stmt.RegexExpr{Key: q.Key, Regexp: q.Args[0]}
	}
}

// matches = the documented meaning of the tag filter (independent of lindb's evaluation):
// like: "*" all, "p*" prefix, "*s" suffix, "*m*" contains, otherwise equality.
func (q querySpec) matches(v string) bool {
	switch q.Expr {
	case "eq":
		return v == q.Args[0]
	case "in":
		for _, a := range q.Args {
			if a == v {
				return true
			}
		}
		return false
	case "like":
		p := q.Args[0]
		pre, suf := strings.HasPrefix(p, "*"), strings.HasSuffix(p, "*")
		switch {
		case p == "":
			return false
		case p == "*":
			return true
		case !pre && suf:
			return strings.HasPrefix(v, p[:len(p)-1])
		case pre && !suf:
			return strings.HasSuffix(v, p[1:])
		case pre && suf:
			return strings.Contains(v, p[1:len(p)-1])
		}
		return v == p
	default:
		return regexp.MustCompile(q.Args[0]).MatchString(v)
	}
}

type nameID struct {
	Name string
	ID   uint32
}

// queryOut is the raw answer of one query.
type queryOut struct {
	Names       []string // what a Suggest* call returned
	MetricAsked bool
	MetricFound bool
	MetricID    uint32
	SchemaRead  bool
	Fields      []nameID
	TagKeys     []nameID
	KeyAsked    bool
	KeyFound    bool
	KeyID       uint32
	ValuesRead  bool
	Values      map[string]uint32 // tag value -> id (CollectTagValues of the ids a lookup returned)
	SeriesRead  bool
	Series      [][]uint32            // per shard
	TagSeries   [][]uint32            // per shard: GetSeriesIDsForTag
	Forward     []map[uint32][]uint32 // per shard: series -> tag value ids of the key
}

func (o *queryOut) String() string {
	var sb strings.Builder
	if o.Names != nil {
		fmt.Fprintf(&sb, " names=%q", o.Names)
	}
	if o.MetricAsked {
		fmt.Fprintf(&sb, " metric=%d/%v", o.MetricID, o.MetricFound)
	}
	if o.SchemaRead {
		fmt.Fprintf(&sb, " fields=%v tagKeys=%v", o.Fields, o.TagKeys)
	}
	if o.KeyAsked {
		fmt.Fprintf(&sb, " key=%d/%v", o.KeyID, o.KeyFound)
	}
	if o.ValuesRead {
		vs := make([]string, 0, len(o.Values))
		for _, v := range sortedKeys(o.Values) {
			vs = append(vs, fmt.Sprintf("%s:%d", v, o.Values[v]))
		}
		fmt.Fprintf(&sb, " values=%v", vs)
	}
	if o.SeriesRead {
		fmt.Fprintf(&sb, " series=%v", o.Series)
	}
	return strings.TrimSpace(sb.String())
}

// execQuery runs the call sequence of one query on the node.
func execQuery(n *node, q querySpec) (*queryOut, error) {
	out := &queryOut{}
	var err error
	switch q.Kind {
	case qNamespaces:
		out.Names, err = n.meta.SuggestNamespace(q.Prefix, q.Limit)
		if err != nil {
			return nil, fmt.Errorf("SuggestNamespace(%q, %d): %w", q.Prefix, q.Limit, err)
		}
		out.Names = append([]string{}, out.Names...)
		return out, nil
	case qMetrics:
		out.Names, err = n.meta.SuggestMetrics(q.NS, q.Prefix, q.Limit)
		if err != nil {
			return nil, fmt.Errorf("SuggestMetrics(%s, %q, %d): %w", q.NS, q.Prefix, q.Limit, err)
		}
		out.Names = append([]string{}, out.Names...)
		return out, nil
	}
	// every other plan starts with the metric id
	out.MetricAsked = true
	mid, err := n.meta.GetMetricID(q.NS, q.Metric)
	if err != nil {
		if isNotFound(err) {
			return out, nil
		}
		return nil, fmt.Errorf("GetMetricID(%s/%s): %w", q.NS, q.Metric, err)
	}
	out.MetricFound, out.MetricID = true, uint32(mid)
	if q.Kind == qSeries {
		out.SeriesRead = true
		for i, d := range n.idx {
			got, err := d.GetSeriesIDsForMetric(mid)
			if err != nil {
				return nil, fmt.Errorf("GetSeriesIDsForMetric(idx%d %s/%s): %w", i, q.NS, q.Metric, err)
			}
			out.Series = append(out.Series, arrayOf(got))
		}
		if q.Key == "" {
			return out, nil
		}
	}
	var kid tag.KeyID
	if q.UseKeyID {
		out.KeyAsked, out.KeyFound, out.KeyID = true, true, q.KeyID
		kid = tag.KeyID(q.KeyID)
	} else {
		// schema (tag_key_suggest, field_suggest, tag_key_id_lookup)
		schema, err := n.meta.GetSchema(mid)
		if err != nil {
			return nil, fmt.Errorf("GetSchema(%s/%s): %w", q.NS, q.Metric, err)
		}
		out.SchemaRead = true
		if schema == nil {
			schema = &metric.Schema{}
		}
		for _, f := range schema.Fields {
			out.Fields = append(out.Fields, nameID{f.Name.String(), uint32(f.ID)})
		}
		for _, t := range schema.TagKeys {
			out.TagKeys = append(out.TagKeys, nameID{strings.Clone(t.Key), uint32(t.ID)})
		}
		if q.Kind == qSchema {
			return out, nil
		}
		out.KeyAsked = true
		tm, ok := schema.TagKeys.Find(q.Key)
		if !ok {
			return out, nil
		}
		out.KeyFound, out.KeyID = true, uint32(tm.ID)
		kid = tm.ID
	}
	switch q.Kind {
	case qTagValues:
		out.Names, err = n.meta.SuggestTagValues(kid, q.Prefix, q.Limit)
		if err != nil {
			return nil, fmt.Errorf("SuggestTagValues(%s, %q, %d): %w", q, q.Prefix, q.Limit, err)
		}
		out.Names = append([]string{}, out.Names...)
	case qAllValues:
		out.ValuesRead = true
		out.Values, err = tagValuesOf(n, uint32(kid))
		if err != nil {
			return nil, fmt.Errorf("%s: %w", q, err)
		}
	case qTagFilter:
		ids, err := n.meta.FindTagValueDsByExpr(kid, q.expr())
		if err != nil {
			return nil, fmt.Errorf("FindTagValueDsByExpr(%s): %w", q, err)
		}
		out.ValuesRead = true
		out.Values = map[string]uint32{}
		if ids != nil && !ids.IsEmpty() {
			byID := map[uint32]string{}
			if err := n.meta.CollectTagValues(kid, ids.Clone(), byID); err != nil {
				return nil, fmt.Errorf("CollectTagValues(%s): %w", q, err)
			}
			if uint64(len(byID)) != ids.GetCardinality() {
				return nil, fmt.Errorf("LOOKUP DISAGREES: %s: FindTagValueDsByExpr returns ids %v but CollectTagValues names only %v", q, ids.ToArray(), byID)
			}
			for id, v := range byID {
				if other, dup := out.Values[v]; dup && other != id {
					return nil, fmt.Errorf("NOT FUNCTIONAL/STABLE: %s: tag value %q is stored with ids %d and %d", q, v, other, id)
				}
				out.Values[v] = id
			}
			out.SeriesRead = true
			for i, d := range n.idx {
				got, err := d.GetSeriesIDsByTagValueIDs(kid, ids.Clone())
				if err != nil {
					return nil, fmt.Errorf("GetSeriesIDsByTagValueIDs(idx%d %s): %w", i, q, err)
				}
				out.Series = append(out.Series, arrayOf(got))
			}
		}
	case qSeries:
		for i, d := range n.idx {
			if q.UseKeyID {
				// next to creators only the series of the tag: the grouping scan hands out the live
				// container / value slice of the memory forward index and iterates them after its
				// lock is released (flow.groupingContext.ScanTagValueIDs <-> forwardIndex.put, a data
				// race of the group-by read path that is not about id assignment)
				sids, err := d.GetSeriesIDsForTag(kid)
				if err != nil {
					return nil, fmt.Errorf("GetSeriesIDsForTag(idx%d %s): %w", i, q, err)
				}
				out.TagSeries = append(out.TagSeries, arrayOf(sids))
				out.Forward = append(out.Forward, nil)
				continue
			}
			var hint map[uint32]uint32
			if q.fwdHint != nil {
				hint = q.fwdHint(i)
			}
			fwd, sids, err := forwardOf(d, uint32(kid), hint)
			if err != nil && !isNotFound(err) {
				return nil, fmt.Errorf("forward index (idx%d %s): %w", i, q, err)
			}
			out.TagSeries = append(out.TagSeries, arrayOf(sids))
			out.Forward = append(out.Forward, fwd)
		}
	}
	return out, nil
}

// clip shortens the rendering of a very long answer (volume histories: 10^5 names).
func clip(s string, max int) string {
	if len(s) <= max {
		return s
	}
	return fmt.Sprintf("%s ... [%d more bytes]", s[:max], len(s)-max)
}

func arrayOf(b *roaring.Bitmap) []uint32 {
	if b == nil || b.IsEmpty() {
		return []uint32{}
	}
	return b.ToArray()
}

// judge compares the answer of a query with the model and folds the ids it reports into it.
//
// exact: the query ran on a quiescent live node - the model is exactly what exists.
// !exact: the query ran next to creators (one round of TestConcurrentAssign); m already contains
// the answers of that round. A name is REQUIRED (must be found) when it was first requested before
// the round (seq < m.seq), and ALLOWED (may be found) when the model knows it at all.
func (m *model) judge(q querySpec, out *queryOut, exact bool) error {
	required := func(x *ident) bool { return exact || x.seq < m.seq }
	disagree := func(format string, args ...any) error {
		return fmt.Errorf("QUERY DISAGREES: %s: %s (answer: %s)", q, clip(fmt.Sprintf(format, args...), 4000), clip(out.String(), 4000))
	}
	// enumerations: want = name -> required?
	judgeNames := func(what string, want map[string]bool) error {
		seen := map[string]bool{}
		for _, s := range out.Names {
			if seen[s] {
				return disagree("%s lists %q twice", what, s)
			}
			seen[s] = true
			if !strings.HasPrefix(s, q.Prefix) {
				return disagree("%s returns %q, which does not start with the prefix", what, s)
			}
			if _, ok := want[s]; !ok {
				return disagree("%s returns %q, a name nobody created in this scope (created: %v)", what, s, sortedKeys(want))
			}
		}
		if len(want) <= q.Limit {
			for _, s := range sortedKeys(want) {
				if want[s] && !seen[s] {
					return disagree("%s lacks %q although all %d names with the prefix fit into the limit", what, s, len(want))
				}
			}
		}
		return nil
	}
	switch q.Kind {
	case qNamespaces:
		want := map[string]bool{}
		for _, k := range sortedMetricKeys(m.metrics) {
			if strings.HasPrefix(k.NS, q.Prefix) {
				want[k.NS] = want[k.NS] || required(&m.metrics[k].ident)
			}
		}
		return judgeNames("SuggestNamespace", want)
	case qMetrics:
		want := map[string]bool{}
		for _, k := range sortedMetricKeys(m.metrics) {
			if k.NS == q.NS && strings.HasPrefix(k.Name, q.Prefix) {
				want[k.Name] = required(&m.metrics[k].ident)
			}
		}
		return judgeNames("SuggestMetrics", want)
	}
	k := q.mkey()
	mm := m.metrics[k]
	if !out.MetricFound {
		if mm != nil && required(&mm.ident) {
			return disagree("GetMetricID says not found, creators were told id %d", mm.id)
		}
		return nil
	}
	if mm == nil {
		return disagree("GetMetricID finds id %d for a metric nobody created", out.MetricID)
	}
	if err := mm.set("metric "+k.String()+" (GetMetricID of "+q.Kind+")", out.MetricID); err != nil {
		return err
	}
	if out.SchemaRead {
		seen := map[string]bool{}
		for _, f := range out.Fields {
			if seen[f.Name] {
				return fmt.Errorf("NOT FUNCTIONAL/STABLE: %s: schema of %s lists field %q twice: %v", q, k, f.Name, out.Fields)
			}
			seen[f.Name] = true
			x := mm.fields[f.Name]
			if x == nil {
				return disagree("schema of %s has field %q (id %d) that nobody created", k, f.Name, f.ID)
			}
			if err := x.setf(f.ID, "field %s.%s (GetSchema of %s)", k, f.Name, q.Kind); err != nil {
				return err
			}
		}
		for _, f := range sortedKeys(mm.fields) {
			if x := mm.fields[f]; !seen[f] && required(x) {
				return disagree("schema of %s lacks field %q, creators were told id %d", k, f, x.id)
			}
		}
		seen = map[string]bool{}
		for _, t := range out.TagKeys {
			if seen[t.Name] {
				return fmt.Errorf("NOT FUNCTIONAL/STABLE: %s: schema of %s lists tag key %q twice: %v", q, k, t.Name, out.TagKeys)
			}
			seen[t.Name] = true
			x := mm.tagKeys[t.Name]
			if x == nil {
				return disagree("schema of %s has tag key %q (id %d) that nobody created", k, t.Name, t.ID)
			}
			if err := x.setf(t.ID, "tag key %s[%s] (GetSchema of %s)", k, t.Name, q.Kind); err != nil {
				return err
			}
		}
		for _, tk := range sortedKeys(mm.tagKeys) {
			if x := mm.tagKeys[tk]; !seen[tk] && required(&x.ident) {
				return disagree("schema of %s lacks tag key %q (known id %d/%v)", k, tk, x.id, x.has)
			}
		}
	}
	var t *tagKeyM
	if out.KeyAsked {
		t = mm.tagKeys[q.Key]
		if !out.KeyFound {
			return nil // judged with the schema above
		}
		if t == nil {
			return disagree("tag key %q found with id %d, nobody created it", q.Key, out.KeyID)
		}
	}
	switch q.Kind {
	case qTagValues:
		want := map[string]bool{}
		for _, v := range sortedKeys(t.values) {
			if strings.HasPrefix(v, q.Prefix) {
				want[v] = required(t.values[v])
			}
		}
		return judgeNames("SuggestTagValues", want)
	case qTagFilter, qAllValues:
		all := q.Kind == qAllValues
		for _, v := range sortedKeys(out.Values) {
			x := t.values[v]
			if x == nil {
				return disagree("value %q (id %d) of %s[%s] that nobody created", v, out.Values[v], k, q.Key)
			}
			if !all && !q.matches(v) {
				return disagree("value %q (id %d) does not satisfy the filter", v, out.Values[v])
			}
			if err := x.setf(out.Values[v], "tag value %s[%s=%s] (%s)", k, q.Key, v, q.Kind); err != nil {
				return err
			}
		}
		// the series of the metric by their value of the queried tag key (built once per index database)
		byValue := make([]map[string][]*seriesM, m.nIdx)
		seriesWith := func(i int) map[string][]*seriesM {
			if byValue[i] == nil {
				byValue[i] = map[string][]*seriesM{}
				for _, s := range m.series[i][k] {
					if !s.has || s.foundOnly {
						continue
					}
					for _, kv := range s.tags {
						if kv.K == q.Key {
							byValue[i][kv.V] = append(byValue[i][kv.V], s)
						}
					}
				}
			}
			return byValue[i]
		}
		wantSeries := make([]map[uint32]bool, m.nIdx) // series id -> required
		for i := range wantSeries {
			wantSeries[i] = map[uint32]bool{}
		}
		for _, v := range sortedKeys(t.values) {
			x := t.values[v]
			if !all && !q.matches(v) {
				continue
			}
			if _, ok := out.Values[v]; !ok {
				if required(x) {
					return disagree("value %q of %s[%s] (known id %d/%v) is missing", v, k, q.Key, x.id, x.has)
				}
				continue
			}
			for i := range m.series {
				for _, s := range seriesWith(i)[v] {
					wantSeries[i][s.id] = required(&s.ident)
				}
			}
		}
		if q.Kind == qTagFilter && out.SeriesRead {
			for i := range out.Series {
				if err := judgeSeries(disagree, fmt.Sprintf("GetSeriesIDsByTagValueIDs(idx%d)", i), out.Series[i], wantSeries[i]); err != nil {
					return err
				}
			}
		}
	case qSeries:
		for i := range out.Series {
			want := map[uint32]bool{}
			wantTag := map[uint32]bool{}
			valOf := map[uint32]string{}
			for _, c := range sortedKeys(m.series[i][k]) {
				s := m.series[i][k][c]
				if !s.has {
					continue
				}
				want[s.id] = required(&s.ident)
				if s.foundOnly {
					continue
				}
				for _, kv := range s.tags {
					if kv.K == q.Key {
						wantTag[s.id] = required(&s.ident)
						valOf[s.id] = kv.V
					}
				}
			}
			if err := judgeSeries(disagree, fmt.Sprintf("GetSeriesIDsForMetric(idx%d)", i), out.Series[i], want); err != nil {
				return err
			}
			if !out.KeyFound {
				continue
			}
			if err := judgeSeries(disagree, fmt.Sprintf("GetSeriesIDsForTag(idx%d)", i), out.TagSeries[i], wantTag); err != nil {
				return err
			}
			sids := make([]uint32, 0, len(out.Forward[i]))
			for s := range out.Forward[i] {
				sids = append(sids, s)
			}
			sort.Slice(sids, func(a, b int) bool { return sids[a] < sids[b] })
			for _, s := range sids {
				vids := out.Forward[i][s]
				v, ok := valOf[s]
				if !ok {
					continue // judged by GetSeriesIDsForTag
				}
				x := t.values[v]
				if len(vids) != 1 || x == nil {
					return disagree("forward index idx%d: series %d -> tag value ids %v, the series was created with %s=%q", i, s, vids, q.Key, v)
				}
				if err := x.setf(vids[0], "tag value %s[%s=%s] (forward index idx%d series %d)", k, q.Key, v, i, s); err != nil {
					return err
				}
			}
		}
	}
	return nil
}

func judgeSeries(disagree func(string, ...any) error, what string, got []uint32, want map[uint32]bool) error {
	seen := map[uint32]bool{}
	for _, s := range got {
		seen[s] = true
		if _, ok := want[s]; !ok {
			return disagree("%s returns series %d, creators were told %v", what, s, sortedIDs(want))
		}
	}
	for _, s := range sortedIDs(want) {
		if want[s] && !seen[s] {
			return disagree("%s = %v lacks series %d", what, got, s)
		}
	}
	return nil
}

func sortedIDs(m map[uint32]bool) []uint32 {
	out := make([]uint32, 0, len(m))
	for id := range m {
		out = append(out, id)
	}
	sort.Slice(out, func(i, j int) bool { return out[i] < out[j] })
	return out
}
