package c09

import (
	"fmt"

	"pgregory.net/rapid"

	"github.com/lindb/lindb/index"
	"github.com/lindb/lindb/series/metric"
	"github.com/lindb/lindb/verifharness/sim/ev"
)

// The series id sequence cache as a subject of the histories (part (b)).
//
// A shard's index database numbers the series of a metric 0, 1, 2, ...; the number of the next new
// series comes from a per-metric cache entry (expirable LRU: 100000 metrics, one hour) and, when the
// metric has no entry, from the series ids the metric already owns - wherever they are at that
// moment: in the mutable memory index, in the frozen part a running flush is writing, in the index
// files. The entry of a metric disappears on its own: a janitor goroutine of the cache removes it
// one hour after the metric's last new series, an insert for the 100001st other metric evicts it.
// Neither is affordable in a test, so the operation "the entry of (shard, metric) is gone" uses the
// seam index.VerifSetNextSeriesID(db, metric, 0), which removes exactly that entry and nothing else.
// Because the janitor is a goroutine of its own, the entry may vanish at ANY instant of a history:
// between two steps in every phase of a flush cycle and - like the nested writes - at the
// file-system seams inside a running Flush / compaction.
//
// After the drop the history prefers rows that are NEW series of that metric in that shard (the
// "hot" target), so that the miss path of createSeriesID really runs while the metric's highest
// series ids live only in memory / only in the frozen part / in files. The oracle is unchanged:
// GenSeriesID is functional and, per (index database, metric), injective (model.checkInjective
// after every step), every lookup agrees with what the creators were told.

// hotTarget = (shard, metric) whose cache entry the history dropped and that has not received a
// new series since.
type hotTarget struct {
	shard  int
	k      mkey
	place  string // where the metric's highest series id lived when the entry was dropped
	writes int    // new-series rows still to prefer
	missed bool   // the first new series (the one that takes the miss path) has been created
}

// seriesPlace tells where the highest series id of metric k in shard i lives right now:
// "none" (the metric has no series there), "files" (its index flush has completed), "frozen" (in
// the part a PrepareFlush has frozen and whose Flush has not returned), "mutable".
// Evidence only - the oracle never looks at it.
func (h *hist) seriesPlace(i int, k mkey) string {
	var top *seriesM
	for _, s := range h.m.series[i][k] {
		if s.has && (top == nil || s.id > top.id) {
			top = s
		}
	}
	switch {
	case top == nil:
		return "none"
	case top.seq <= h.dur.Idx[i]:
		return "files"
	case h.phase == phIdxPrepared && h.cur == i && top.seq <= h.idxPrepSeq[i]:
		return "frozen"
	}
	return "mutable"
}

// dropSeqCache = the sequence cache entry of one (shard, metric) disappears.
func (h *hist) dropSeqCache(label string) {
	t := h.t
	var withSeries, all []mkey
	shard := rapid.IntRange(0, h.nIdx-1).Draw(t, label+"dropShard")
	for _, k := range sortedMetricKeys(h.m.metrics) {
		if !h.m.metrics[k].has {
			continue
		}
		all = append(all, k)
		if len(h.m.series[shard][k]) > 0 {
			withSeries = append(withSeries, k)
		}
	}
	if len(all) == 0 {
		return
	}
	pool := all
	if len(withSeries) > 0 && rapid.IntRange(0, 4).Draw(t, label+"dropAnyMetric") != 0 {
		pool = withSeries
	}
	k := rapid.SampledFrom(pool).Draw(t, label+"dropMetric")
	place := h.seriesPlace(shard, k)
	present := h.seqCached[seqKey{shard, k}]
	h.m.seq++
	h.logf("%ssequence cache entry of idx%d metric %s (id %d) is dropped (highest series id lives in: %s; entry present: %v)",
		label, shard, k, h.m.metrics[k].id, place, present)
	if !index.VerifSetNextSeriesID(h.n.idx[shard], metric.ID(h.m.metrics[k].id), 0) {
		h.fatalf("harness: VerifSetNextSeriesID: not the production index database")
	}
	delete(h.seqCached, seqKey{shard, k})
	h.classes["seq-cache-drop"]++
	h.classes["seq-cache-drop-highest-series-in-"+place]++
	h.classes["seq-cache-drop-entry-"+map[bool]string{true: "present", false: "absent"}[present]]++
	if label != "" {
		h.classes["seq-cache-drop-nested-in-"+h.inFlush]++
	}
	h.hot = &hotTarget{shard: shard, k: k, place: place, writes: rapid.IntRange(1, 3).Draw(t, label+"hotWrites")}
	// the new series may follow at once or be left to the later steps of the history
	if rapid.IntRange(0, 2).Draw(t, label+"newSeriesAtOnce") != 0 {
		h.write(label)
	}
}

type seqKey struct {
	shard int
	k     mkey
}

// hotRow turns r into a row that is a new series of the hot target (a tag value nobody used yet).
func (h *hist) hotRow(label string, r rowSpec) (rowSpec, int, string) {
	t := h.t
	hot := h.hot
	r.NS, r.Name = hot.k.NS, hot.k.Name
	h.fresh++
	key := rapid.SampledFrom(h.u.keys).Draw(t, label+"hotKey")
	tags := []kvPair{{key, fmt.Sprintf("v%d", h.fresh)}}
	for _, kv := range r.Tags {
		if kv.K != key {
			tags = append(tags, kv)
		}
	}
	r.Tags = normTags(tags)
	mode := rapid.SampledFrom([]string{"meta+index", "index+meta", "index"}).Draw(t, label+"hotWorkers")
	return r, hot.shard, mode
}

// hotWritten records a row written for the hot target.
func (h *hist) hotWritten(label string, canon string) {
	hot := h.hot
	now := h.seriesPlaceBefore
	if hot.missed {
		// the series after it: numbered from the entry the miss path has put back
		h.classes["next-new-series-after-a-seq-cache-miss"]++
	} else {
		hot.missed = true
		h.classes["new-series-on-seq-cache-miss"]++
		h.classes["new-series-on-seq-cache-miss-highest-in-"+now]++
		if label != "" {
			h.classes["new-series-on-seq-cache-miss-nested-in-"+h.inFlush]++
		}
		h.seqDrops = append(h.seqDrops, seqDropRec{
			at: len(h.ops) - 1, desc: fmt.Sprintf("idx%d %s: entry dropped with highest series id in %s, new series {%s} while it is in %s", hot.shard, hot.k, hot.place, canon, now),
			inMemory: now == "mutable" || now == "frozen",
		})
	}
	hot.writes--
	if hot.writes <= 0 {
		h.hot = nil
	}
}

type seqDropRec struct {
	at       int
	desc     string
	inMemory bool
}

// recordSeqDrops: every new series created on the miss path is a case of its own; non-trivial =
// the metric's highest series id was not in the index files at that moment.
func (h *hist) recordSeqDrops(group, canon string) {
	for _, d := range h.seqDrops {
		ev.Case(group, fmt.Sprintf("%s|%d", canon, d.at), d.inMemory, nil, map[string]any{"operation": d.desc})
	}
}
