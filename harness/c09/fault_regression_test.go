package c09

import (
	"errors"
	"os"
	"path/filepath"
	"strings"
	"testing"

	"github.com/lindb/lindb/kv/table"
	"github.com/lindb/lindb/kv/version"
	"github.com/lindb/lindb/series/metric"
	"github.com/lindb/lindb/series/tag"
	"github.com/lindb/lindb/verifharness/sim/crash"
	"github.com/lindb/lindb/verifharness/sim/ev"
)

// sigRetryOrder: see TestRegression_RetryOfFailedIndexFlushWritesForwardEntriesBeforePostings.
const sigRetryOrder = "C09/retry-of-failed-index-flush-persists-forward-entries-before-postings"

// Found by TestFaultHistory. An index flush writes the metric -> series postings first (their
// maximum seeds new series ids after a restart) and the forward / inverted entries and the series
// dictionary afterwards. When the Flush fails in the postings family, the postings keep their
// frozen part; a store whose frozen part was empty (no series with tags in that cycle) is frozen
// AGAIN by the next PrepareFlush, the postings are not (their old frozen part is still there). The
// retry Flush then writes, in its first pass, the OLD postings and the NEW forward / inverted
// entries of series created after the failure; the postings of those series follow only in the
// second pass. A process that dies in between recovers a forward index that knows series id s of
// the metric while the postings end at s-1: the next new series of the metric is given id s, the
// id under which the recovered forward / inverted index stores the tags of another series.
// Repaired in /repo (fix: retry of a failed index flush writes forward/inverted entries of new
// series before their postings; = proposed_fix_retry_of_failed_index_flush_keeps_the_store_order.diff).
// If the signature is listed in known_findings.json as not repaired, TestFaultHistory takes no
// crash image while the retry of an index flush that failed in the postings family is open, and
// this reproduction only prints the KNOWN-FINDING line.
func TestRegression_RetryOfFailedIndexFlushWritesForwardEntriesBeforePostings(t *testing.T) {
	if ev.Known(sigRetryOrder) {
		ev.KnownFinding("C09", "retry of an index flush that failed in the postings family persists forward/inverted entries of newer series before their postings; after a crash in between a new series gets the id of those entries ("+sigRetryOrder+")")
		return // not skipped: the driver treats a skipped test as inconclusive
	}
	dir := mustTempDir("c09r-")
	defer os.RemoveAll(dir)
	live := filepath.Join(dir, "live")
	n, err := openNode(live, 1)
	if err != nil {
		t.Fatal(err)
	}
	defer func() { n.closeRaw() }()
	m := newModel(1)
	cycleMeta := func() {
		n.meta.PrepareFlush()
		if err := n.meta.Flush(); err != nil {
			t.Fatal(err)
		}
	}
	// cycle 1: a series without tags; the index flush fails while it writes the postings
	mustWrite(t, n, m, rowSpec{NS: "ns", Name: "cpu", Fields: []string{"f"}}, "meta+index")
	cycleMeta()
	failing := true
	img := ""
	hook := func(op, path string, before bool) {
		// the process dies when the retry has committed the forward index: first operation on the
		// inverted family
		if !failing && img == "" && before && strings.Contains(path, string(filepath.Separator)+"inverted"+string(filepath.Separator)) {
			img = filepath.Join(dir, "img")
			if err := crash.CopyTree(live, img); err != nil {
				t.Fatal(err)
			}
		}
	}
	fault := func(op, path string) error {
		if failing && op == "tableClose" && strings.Contains(path, string(filepath.Separator)+"idx0"+string(filepath.Separator)+"metric"+string(filepath.Separator)) {
			return errors.New("injected: EIO on close of the postings table file")
		}
		return nil
	}
	table.VerifSetFSHookWithFaults(hook, fault)
	version.VerifSetFSHook(version.VerifFSHook(hook))
	defer table.VerifSetFSHook(nil)
	defer version.VerifSetFSHook(nil)
	n.idx[0].PrepareFlush()
	if err := n.idx[0].Flush(); err == nil {
		t.Fatal("harness: the index flush with the injected fault must fail")
	}
	failing = false
	// cycle 2: ingestion went on - a series with a tag; the retry succeeds
	mustWrite(t, n, m, rowSpec{NS: "ns", Name: "cpu", Tags: []kvPair{{"host", "a"}}, Fields: []string{"f"}}, "meta+index")
	cycleMeta()
	n.idx[0].PrepareFlush()
	if err := n.idx[0].Flush(); err != nil {
		t.Fatalf("retry of the index flush: %v", err)
	}
	if err := checkAll(n, m, true); err != nil {
		t.Fatalf("live node after the retry: %v", err)
	}
	if img == "" {
		t.Fatal("harness: no image was taken inside the retry flush")
	}
	n.closeRaw()
	n = &node{}
	k := mkey{"ns", "cpu"}
	tagged := m.series[0][k]["host=a,"]

	// recovery of the image taken inside the retry
	r, err := openNode(img, 1)
	if err != nil {
		t.Fatal(err)
	}
	defer r.closeRaw()
	mid := metric.ID(m.metrics[k].id)
	posting, err := r.idx[0].GetSeriesIDsForMetric(mid)
	if err != nil {
		t.Fatal(err)
	}
	fwd, err := r.idx[0].GetSeriesIDsForTag(tag.KeyID(m.metrics[k].tagKeys["host"].id))
	if err != nil && !isNotFound(err) {
		t.Fatal(err)
	}
	rm := newModel(1)
	var out []obs
	fresh := rowSpec{NS: "ns", Name: "cpu", Tags: []kvPair{{"zone", "z"}}, Fields: []string{"f"}}
	block, err := marshalRow(fresh)
	if err != nil {
		t.Fatal(err)
	}
	if err := indexWorkerRow(r, newWire(wireInvert), 0, fresh, block, &out); err != nil {
		t.Fatal(err)
	}
	if err := rm.observeAll(fresh, out); err != nil {
		t.Fatal(err)
	}
	got := rm.series[0][k]["zone=z,"].id
	t.Logf("recovered image: postings of the metric %s, forward index of tag key host lists series %s; new series {zone=z} -> id %d (series {host=a} had id %d)",
		bitmapString(posting), bitmapString(fwd), got, tagged.id)
	if fwd != nil && fwd.Contains(got) {
		t.Errorf("ID REUSED AFTER RECOVERY: new series ns/cpu{zone=z} got id %d, which the recovered forward index of tag key host already uses for another series (postings of the metric: %s)",
			got, bitmapString(posting))
	}
}
