// Package c09 checks property C09: name -> id assignment (namespace, metric name, tag key, tag
// value, field, series) is a stable injective function - concurrently, across prepare-flush /
// flush, across reopen and across crash recovery.
//
// Files:
//
//	c09_test.go         node (one MetricMetaDatabase + 1..3 MetricIndexDatabases), rows, the wire
//	                    (reused buffers every []byte argument lives in, overwritten after each
//	                    call), the reference model (plain maps name -> id) and the oracles
//	query_test.go       read-only metadata queries (Suggest*, schema, tag filters, series lookups)
//	                    as operations: call sequences of the production plans + their judgement
//	concurrent_test.go  part (a): goroutines released by a barrier (schedule dependent): creators
//	                    and query goroutines
//	history_test.go     part (b): sequential rapid state machine with flush cycles, creators and
//	                    queries nested at the file-system seams inside flushes, reopen and crash images
//	compact_test.go     part (b): per-case name universes (names of mixed length / common prefixes),
//	                    compaction of the dictionary / index kv families as a history operation
//	seqcache_test.go    part (b): the per-metric series id sequence cache entry disappears (operation of
//	                    the histories, also nested inside flushes), then new series of that metric
//	volume_test.go      part (b), size class: histories in which ONE dictionary bucket receives 10^4..10^5
//	                    new names per flush cycle (around the 32767-key flush block / 65535-key
//	                    compaction block), same operations and oracles as history_test.go
//	fault_test.go       part (b), fault class (TestFaultHistory): the state machine of history_test.go plus
//	                    one failing table-file / manifest operation inside a metadata / index Flush, the
//	                    flush job's reaction, retry flush, reopen / crash images in the fault window
//	limits_test.go      part (b), limits class (TestLimitsHistory): the database limits as a generated
//	                    dimension (disabled / small / default / above 256 / changed while the node runs)
//	                    and metrics that are asked for more fields / tag keys / series than the limits
//	                    and than 256; refusals are judged for consistency
//	worker_test.go      part (b), worker class (TestWorkerHistory): the PRODUCTION memdb metadata / index workers
//	                    (rows through MemoryDatabase.WriteRow, flush requests through Notify(FlushEvent)), one worker
//	                    held at a seam in the middle of a row while flush requests arrive, crash images at quiet points
//	regression_test.go, limits_regression_test.go
//	                    plain reproductions of the defects found
package c09

import (
	"errors"
	"fmt"
	"os"
	"path/filepath"
	"sort"
	"strings"
	"testing"

	"github.com/lindb/common/pkg/logger"
	protoMetricsV1 "github.com/lindb/common/proto/gen/v1/linmetrics"
	"github.com/lindb/roaring"

	"github.com/lindb/lindb/constants"
	"github.com/lindb/lindb/flow"
	"github.com/lindb/lindb/index"
	"github.com/lindb/lindb/models"
	"github.com/lindb/lindb/series/field"
	"github.com/lindb/lindb/series/metric"
	"github.com/lindb/lindb/series/tag"
	"github.com/lindb/lindb/sql/stmt"
	"github.com/lindb/lindb/verifharness/sim/ev"
)

func TestMain(m *testing.M) {
	_ = logger.RunningAtomicLevel.UnmarshalText([]byte("error"))
	ev.Main(m)
}

const dbName = "c09db"

// ---- node: the databases of one lindb database with n shards ----------------------------------

type node struct {
	root string
	meta index.MetricMetaDatabase
	idx  []index.MetricIndexDatabase
}

func metaDir(root string) string       { return filepath.Join(root, "meta") }
func idxDir(root string, i int) string { return filepath.Join(root, fmt.Sprintf("idx%d", i)) }

// openNode opens (creates or recovers) the databases below root with the production constructors.
func openNode(root string, nIdx int) (*node, error) {
	n := &node{root: root}
	m, err := index.NewMetricMetaDatabase(dbName, metaDir(root))
	if err != nil {
		return nil, fmt.Errorf("open metadata database: %w", err)
	}
	n.meta = m
	for i := 0; i < nIdx; i++ {
		d, err := index.NewMetricIndexDatabase(idxDir(root, i), m)
		if err != nil {
			n.closeRaw()
			return nil, fmt.Errorf("open index database %d: %w", i, err)
		}
		n.idx = append(n.idx, d)
	}
	return n, nil
}

// closeRaw closes without flushing anything (end of a case, recovered images).
func (n *node) closeRaw() {
	if n.meta != nil {
		_ = n.meta.Close()
		n.meta = nil
	}
	for _, d := range n.idx {
		_ = d.Close()
	}
	n.idx = nil
}

// closeGraceful follows tsdb.database.Close / shard.Close: flush metadata, flush every shard's
// index, close the metadata database, then per shard flush the index again and close it.
func (n *node) closeGraceful() error {
	n.meta.PrepareFlush()
	if err := n.meta.Flush(); err != nil {
		return fmt.Errorf("flush metadata: %w", err)
	}
	for i, d := range n.idx {
		d.PrepareFlush()
		if err := d.Flush(); err != nil {
			return fmt.Errorf("flush index %d: %w", i, err)
		}
	}
	if err := n.meta.Close(); err != nil {
		return fmt.Errorf("close metadata: %w", err)
	}
	n.meta = nil
	for i, d := range n.idx {
		d.PrepareFlush()
		if err := d.Flush(); err != nil {
			return fmt.Errorf("flush index %d: %w", i, err)
		}
		if err := d.Close(); err != nil {
			return fmt.Errorf("close index %d: %w", i, err)
		}
	}
	n.idx = nil
	return nil
}

// ---- rows ----------------------------------------------------------------------------------------

type kvPair struct{ K, V string }

// rowSpec is what a client writes: one metric row. Tags are unique by key and sorted.
type rowSpec struct {
	NS     string   `json:"ns"`
	Name   string   `json:"name"`
	Tags   []kvPair `json:"tags,omitempty"`
	Fields []string `json:"fields,omitempty"`
}

func (r rowSpec) mkey() mkey { return mkey{r.NS, r.Name} }

func (r rowSpec) canonTags() string {
	var sb strings.Builder
	for _, t := range r.Tags {
		sb.WriteString(t.K)
		sb.WriteByte('=')
		sb.WriteString(t.V)
		sb.WriteByte(',')
	}
	return sb.String()
}

func (r rowSpec) String() string {
	return fmt.Sprintf("%s/%s{%s}%v", r.NS, r.Name, r.canonTags(), r.Fields)
}

func normTags(tags []kvPair) []kvPair {
	m := map[string]string{}
	for _, t := range tags {
		m[t.K] = t.V
	}
	out := make([]kvPair, 0, len(m))
	for k, v := range m {
		out = append(out, kvPair{k, v})
	}
	sort.Slice(out, func(i, j int) bool { return out[i].K < out[j].K })
	return out
}

// marshalRow renders the row with the production converter (broker side): the bytes as they arrive
// at the storage node. They are decoded once on a private copy to make sure namespace / name are
// not changed by sanitising, so the strings of the rowSpec are exactly what the workers see.
func marshalRow(r rowSpec) ([]byte, error) {
	conv := metric.NewProtoConverter(models.NewDefaultLimits())
	pm := &protoMetricsV1.Metric{Namespace: r.NS, Name: r.Name, Timestamp: 1600000000000}
	for _, t := range r.Tags {
		pm.Tags = append(pm.Tags, &protoMetricsV1.KeyValue{Key: t.K, Value: t.V})
	}
	fields := r.Fields
	if len(fields) == 0 {
		fields = []string{"f0"}
	}
	for _, f := range fields {
		pm.SimpleFields = append(pm.SimpleFields, &protoMetricsV1.SimpleField{
			Name: f, Type: protoMetricsV1.SimpleFieldType_DELTA_SUM, Value: 1})
	}
	block, err := conv.MarshalProtoMetricV1(pm)
	if err != nil {
		return nil, err
	}
	cp := append([]byte(nil), block...)
	batch := metric.NewStorageBatchRows()
	batch.UnmarshalRows(append([]byte(nil), cp...))
	if batch.Len() != 1 {
		return nil, fmt.Errorf("harness: %d rows decoded", batch.Len())
	}
	row := batch.Rows()[0]
	if string(row.NameSpace()) != r.NS || string(row.Name()) != r.Name {
		return nil, fmt.Errorf("harness: name changed by sanitising: %q/%q -> %q/%q", r.NS, r.Name, row.NameSpace(), row.Name())
	}
	return cp, nil
}

// ---- wire: the memory discipline of the storage write path ---------------------------------------
//
// In production every []byte a get-or-create API receives is a zero-copy sub-slice of a row block
// (metric.StorageRow.NameSpace/Name, KeyValueIterator.NextKey/NextValue), the block is decoded into
// a buffer that is used again for the next block, and the decoded StorageRow objects are reused
// (StorageBatchRows). Nothing allows a callee to keep such a slice after it returned. The harness
// therefore never passes a private []byte("literal"): each worker (goroutine) owns one wire;
//
//	arena  the []byte arguments of ONE call are laid out from offset 0 of the arena, so the
//	       arguments of consecutive calls occupy the same memory;
//	recv   each row block is copied into the one receive buffer and decoded there (GenSeriesID
//	       reads namespace, name, tags hash and the tag pairs out of it).
//
// After every call returned the memory is overwritten according to the mode of the case:
//
//	invert  every byte ^0xFF immediately            fill  every byte '#' immediately
//	next    only by the arguments / the block of the next call (same offsets: "host" -> "zone")
const (
	wireInvert = "invert"
	wireFill   = "fill"
	wireNext   = "next"
	wireCap    = 4096
)

var wireModes = []string{wireInvert, wireFill, wireNext}

type wire struct {
	mode  string
	arena []byte
	used  int
	recv  []byte
	batch *metric.StorageBatchRows
	// counters (evidence classes)
	calls, rows, overwritten int
}

func newWire(mode string) *wire {
	return &wire{mode: mode, arena: make([]byte, wireCap), recv: make([]byte, 0, wireCap), batch: metric.NewStorageBatchRows()}
}

// arg places one argument of the call being prepared behind the previous ones.
func (w *wire) arg(s string) []byte {
	if w.used+len(s) > len(w.arena) {
		panic("harness: wire arena too small")
	}
	b := w.arena[w.used : w.used+len(s)]
	copy(b, s)
	w.used += len(s)
	return b
}

func (w *wire) scribble(b []byte) {
	switch w.mode {
	case wireInvert:
		for i := range b {
			b[i] ^= 0xFF
		}
	case wireFill:
		for i := range b {
			b[i] = '#'
		}
	default:
		return
	}
	w.overwritten += len(b)
}

// returned: the call that used the arena arguments has returned.
func (w *wire) returned() {
	w.calls++
	w.scribble(w.arena[:w.used])
	w.used = 0
}

// decode copies the block into the receive buffer and decodes it there, as the storage side does.
func (w *wire) decode(block []byte) (*metric.StorageRow, error) {
	if len(block) > cap(w.recv) {
		w.recv = make([]byte, 0, 2*len(block))
	}
	w.recv = append(w.recv[:0], block...)
	w.batch.UnmarshalRows(w.recv)
	if w.batch.Len() != 1 {
		return nil, fmt.Errorf("harness: %d rows decoded", w.batch.Len())
	}
	return w.batch.Rows()[0], nil
}

// rowReturned: the call that received the decoded row has returned.
func (w *wire) rowReturned() {
	w.rows++
	w.scribble(w.recv)
}

func (w *wire) genMetricID(n *node, r rowSpec) (metric.ID, error) {
	ns, name := w.arg(r.NS), w.arg(r.Name)
	mid, err := n.meta.GenMetricID(ns, name)
	w.returned()
	if err != nil {
		return 0, fmt.Errorf("GenMetricID(%s/%s): %w", r.NS, r.Name, err)
	}
	return mid, nil
}

// ---- worker call sequences (what production goroutines do) ---------------------------------------

// obs is one answer a creator (or a lookup) got.
type obs struct {
	Kind  string `json:"kind"` // metric | field | tagkey | tagval | series
	Idx   int    `json:"idx,omitempty"`
	NS    string `json:"ns"`
	Name  string `json:"name"`
	Key   string `json:"key,omitempty"`   // tag key / field name / canonical tags
	Value string `json:"value,omitempty"` // tag value
	ID    uint32 `json:"id"`
}

func (o obs) String() string {
	switch o.Kind {
	case "metric":
		return fmt.Sprintf("metric %s/%s -> %d", o.NS, o.Name, o.ID)
	case "field":
		return fmt.Sprintf("field %s/%s.%s -> %d", o.NS, o.Name, o.Key, o.ID)
	case "tagkey":
		return fmt.Sprintf("tagkey %s/%s[%s] -> %d", o.NS, o.Name, o.Key, o.ID)
	case "tagval":
		return fmt.Sprintf("tagval %s/%s[%s=%s] -> %d", o.NS, o.Name, o.Key, o.Value, o.ID)
	default:
		return fmt.Sprintf("series idx%d %s/%s{%s} -> %d", o.Idx, o.NS, o.Name, o.Key, o.ID)
	}
}

// metaWorkerRow = memdb.metadataDatabase.handleRow: metric id, then the ids of the row's fields
// (field names reach GenFieldID as Go strings: field.Name(bytes) copies).
func metaWorkerRow(n *node, w *wire, r rowSpec, out *[]obs) error {
	mid, err := w.genMetricID(n, r)
	if err != nil {
		return err
	}
	*out = append(*out, obs{Kind: "metric", NS: r.NS, Name: r.Name, ID: uint32(mid)})
	for _, f := range r.Fields {
		fid, err := n.meta.GenFieldID(mid, field.Meta{Name: field.Name(f), Type: field.SumField})
		if err != nil {
			return fmt.Errorf("GenFieldID(%s/%s.%s): %w", r.NS, r.Name, f, err)
		}
		*out = append(*out, obs{Kind: "field", NS: r.NS, Name: r.Name, Key: f, ID: uint32(fid)})
	}
	return nil
}

// indexWorkerRow = memdb.indexDatabase.handleRow: metric id, then the series id (which creates
// tag key / tag value ids and the postings when the series is new). block = marshalRow(r).
func indexWorkerRow(n *node, w *wire, i int, r rowSpec, block []byte, out *[]obs) error {
	mid, err := w.genMetricID(n, r)
	if err != nil {
		return err
	}
	*out = append(*out, obs{Kind: "metric", NS: r.NS, Name: r.Name, ID: uint32(mid)})
	row, err := w.decode(block)
	if err != nil {
		return err
	}
	sid, err := n.idx[i].GenSeriesID(mid, row)
	w.rowReturned()
	if err != nil {
		return fmt.Errorf("GenSeriesID(idx%d %s): %w", i, r, err)
	}
	*out = append(*out, obs{Kind: "series", Idx: i, NS: r.NS, Name: r.Name, Key: r.canonTags(), ID: sid})
	return nil
}

// shardMetaCalls = the calls the index worker of one more shard issues against the shared
// metadata database for a new series (handleRow + buildInvertIndex), without an index database.
func shardMetaCalls(n *node, w *wire, r rowSpec, out *[]obs) error {
	mid, err := w.genMetricID(n, r)
	if err != nil {
		return err
	}
	*out = append(*out, obs{Kind: "metric", NS: r.NS, Name: r.Name, ID: uint32(mid)})
	for _, t := range r.Tags { // sorted by key, as the converter writes them
		kid, err := n.meta.GenTagKeyID(mid, w.arg(t.K))
		w.returned()
		if err != nil {
			return fmt.Errorf("GenTagKeyID(%s/%s[%s]): %w", r.NS, r.Name, t.K, err)
		}
		*out = append(*out, obs{Kind: "tagkey", NS: r.NS, Name: r.Name, Key: t.K, ID: uint32(kid)})
		vid, err := n.meta.GenTagValueID(kid, w.arg(t.V))
		w.returned()
		if err != nil {
			return fmt.Errorf("GenTagValueID(%s/%s[%s=%s]): %w", r.NS, r.Name, t.K, t.V, err)
		}
		*out = append(*out, obs{Kind: "tagval", NS: r.NS, Name: r.Name, Key: t.K, Value: t.V, ID: vid})
	}
	return nil
}

// ---- reference model -------------------------------------------------------------------------

type mkey struct{ NS, Name string }

func (k mkey) String() string { return k.NS + "/" + k.Name }

// ident is the id of one name. has=false: the name is known to exist (a creator succeeded) but
// no caller has been told its id yet (tag keys / values created inside GenSeriesID).
type ident struct {
	id  uint32
	has bool
	seq int // model.seq when the name was first requested
}

type tagKeyM struct {
	ident
	values map[string]*ident
}

type seriesM struct {
	ident
	tags []kvPair
	// found on a recovered node: GenSeriesID did not index it again, so whether its tag names /
	// tag postings survived the crash says nothing about id assignment (that is C07's subject)
	foundOnly bool
}

type metricM struct {
	ident
	tagKeys map[string]*tagKeyM
	fields  map[string]*ident
}

type model struct {
	nIdx    int
	seq     int // logical clock: bumped by the harness per operation
	metrics map[mkey]*metricM
	series  []map[mkey]map[string]*seriesM // per index database: metric -> canonical tags -> series
}

func newModel(nIdx int) *model {
	m := &model{nIdx: nIdx, metrics: map[mkey]*metricM{}}
	for i := 0; i < nIdx; i++ {
		m.series = append(m.series, map[mkey]map[string]*seriesM{})
	}
	return m
}

func (m *model) metric(k mkey) *metricM {
	mm := m.metrics[k]
	if mm == nil {
		mm = &metricM{ident: ident{seq: m.seq}, tagKeys: map[string]*tagKeyM{}, fields: map[string]*ident{}}
		m.metrics[k] = mm
	}
	return mm
}

func (mm *metricM) tagKey(k string, seq int) *tagKeyM {
	t := mm.tagKeys[k]
	if t == nil {
		t = &tagKeyM{ident: ident{seq: seq}, values: map[string]*ident{}}
		mm.tagKeys[k] = t
	}
	return t
}

func (t *tagKeyM) value(v string, seq int) *ident {
	x := t.values[v]
	if x == nil {
		x = &ident{seq: seq}
		t.values[v] = x
	}
	return x
}

func (x *ident) set(what string, id uint32) error {
	if x.has && x.id != id {
		return fmt.Errorf("NOT FUNCTIONAL/STABLE: %s was given id %d before and id %d now", what, x.id, id)
	}
	x.id, x.has = id, true
	return nil
}

// setf = set with a lazily formatted description (the hot loops of the oracle run it per name).
func (x *ident) setf(id uint32, format string, args ...any) error {
	if x.has && x.id != id {
		return x.set(fmt.Sprintf(format, args...), id)
	}
	x.id, x.has = id, true
	return nil
}

// observe folds one creator answer into the model.
func (m *model) observe(o obs) error {
	k := mkey{o.NS, o.Name}
	mm := m.metric(k)
	switch o.Kind {
	case "metric":
		return mm.set("metric "+k.String(), o.ID)
	case "field":
		f := mm.fields[o.Key]
		if f == nil {
			f = &ident{seq: m.seq}
			mm.fields[o.Key] = f
		}
		return f.setf(o.ID, "field %s.%s", k, o.Key)
	case "tagkey":
		return mm.tagKey(o.Key, m.seq).setf(o.ID, "tag key %s[%s]", k, o.Key)
	case "tagval":
		return mm.tagKey(o.Key, m.seq).value(o.Value, m.seq).setf(o.ID, "tag value %s[%s=%s]", k, o.Key, o.Value)
	case "series":
		return errors.New("harness: series observations go through observeSeries")
	}
	return fmt.Errorf("harness: unknown kind %q", o.Kind)
}

// observeSeries records the answer of GenSeriesID; the tag keys / values of the row become
// known names (their ids are resolved through the lookups later).
func (m *model) observeSeries(i int, r rowSpec, id uint32) error {
	return m.observeSeriesOpt(i, r, id, true)
}

// observeSeriesOpt with tagNames=false records only the series: used on a recovered node for a
// series that was found (GenSeriesID then creates no tag key / tag value, and whether the tag
// names of a found series survived the crash is not this property's business).
func (m *model) observeSeriesOpt(i int, r rowSpec, id uint32, tagNames bool) error {
	k := r.mkey()
	mm := m.metric(k)
	byTags := m.series[i][k]
	if byTags == nil {
		byTags = map[string]*seriesM{}
		m.series[i][k] = byTags
	}
	c := r.canonTags()
	s := byTags[c]
	if s == nil {
		s = &seriesM{ident: ident{seq: m.seq}, tags: r.Tags, foundOnly: !tagNames}
		byTags[c] = s
	}
	if tagNames {
		for _, t := range r.Tags {
			mm.tagKey(t.K, m.seq).value(t.V, m.seq)
		}
	}
	return s.setf(id, "series idx%d %s{%s}", i, k, c)
}

func (m *model) observeAll(r rowSpec, os []obs) error {
	for _, o := range os {
		var err error
		if o.Kind == "series" {
			err = m.observeSeries(o.Idx, r, o.ID)
		} else {
			err = m.observe(o)
		}
		if err != nil {
			return err
		}
	}
	return nil
}

func sortedMetricKeys(m map[mkey]*metricM) []mkey {
	ks := make([]mkey, 0, len(m))
	for k := range m {
		ks = append(ks, k)
	}
	sort.Slice(ks, func(i, j int) bool {
		if ks[i].NS != ks[j].NS {
			return ks[i].NS < ks[j].NS
		}
		return ks[i].Name < ks[j].Name
	})
	return ks
}

func sortedKeys[V any](m map[string]V) []string {
	ks := make([]string, 0, len(m))
	for k := range m {
		ks = append(ks, k)
	}
	sort.Strings(ks)
	return ks
}

// checkInjective: different names <-> different ids. Metric ids, tag key ids and tag value ids
// must be unique in the whole database because the callers key the schema store, the forward
// index (tag key id) and the inverted index (tag value id) by the bare id; field ids are scoped
// by metric, series ids by (index database, metric).
func (m *model) checkInjective() error {
	// the owner of an id is kept as (format, arguments) and rendered only for a report: this runs
	// per name of the model after every step
	type owner struct {
		format  string
		a, b, c string
	}
	render := func(o owner) string {
		switch strings.Count(o.format, "%s") {
		case 1:
			return fmt.Sprintf(o.format, o.a)
		case 2:
			return fmt.Sprintf(o.format, o.a, o.b)
		}
		return fmt.Sprintf(o.format, o.a, o.b, o.c)
	}
	owners := map[string]map[uint32]owner{}
	claim := func(scope string, id uint32, name owner) error {
		s := owners[scope]
		if s == nil {
			s = map[uint32]owner{}
			owners[scope] = s
		}
		if other, ok := s[id]; ok && other != name {
			return fmt.Errorf("NOT INJECTIVE: %s and %s share id %d (scope %s)", render(other), render(name), id, scope)
		}
		s[id] = name
		return nil
	}
	for _, k := range sortedMetricKeys(m.metrics) {
		mm := m.metrics[k]
		ks := k.String()
		if mm.has {
			if err := claim("metric", mm.id, owner{format: "metric %s", a: ks}); err != nil {
				return err
			}
		}
		for _, f := range sortedKeys(mm.fields) {
			if x := mm.fields[f]; x.has {
				if err := claim("field of "+ks, x.id, owner{format: "field %s", a: f}); err != nil {
					return err
				}
			}
		}
		for _, tk := range sortedKeys(mm.tagKeys) {
			t := mm.tagKeys[tk]
			if t.has {
				if err := claim("tagkey", t.id, owner{format: "tag key %s[%s]", a: ks, b: tk}); err != nil {
					return err
				}
			}
			for _, v := range sortedKeys(t.values) {
				if x := t.values[v]; x.has {
					if err := claim("tagval", x.id, owner{format: "tag value %s[%s=%s]", a: ks, b: tk, c: v}); err != nil {
						return err
					}
				}
			}
		}
	}
	for i := range m.series {
		for _, k := range sortedMetricKeys(m.metrics) {
			byTags := m.series[i][k]
			if len(byTags) == 0 {
				continue
			}
			scope := fmt.Sprintf("series of idx%d %s", i, k)
			for _, c := range sortedKeys(byTags) {
				if s := byTags[c]; s.has {
					if err := claim(scope, s.id, owner{format: "series {%s}", a: c}); err != nil {
						return err
					}
				}
			}
		}
	}
	return nil
}

// ---- reading the databases without creating anything ----------------------------------------------

func isNotFound(err error) bool {
	return errors.Is(err, constants.ErrMetricIDNotFound) || errors.Is(err, constants.ErrNotFound)
}

// lookupMetric: GetMetricID; found=false when the dictionaries do not know the name.
func lookupMetric(n *node, k mkey) (uint32, bool, error) {
	id, err := n.meta.GetMetricID(k.NS, k.Name)
	if err != nil {
		if isNotFound(err) {
			return 0, false, nil
		}
		return 0, false, err
	}
	return uint32(id), true, nil
}

// tagValuesOf returns the recovered / live dictionary of one tag key: value -> id, through
// FindTagValueIDsForTag + CollectTagValues.
func tagValuesOf(n *node, kid uint32) (map[string]uint32, error) {
	ids, err := n.meta.FindTagValueIDsForTag(tag.KeyID(kid))
	if err != nil {
		return nil, err
	}
	out := map[string]uint32{}
	if ids == nil || ids.IsEmpty() {
		return out, nil
	}
	byID := map[uint32]string{}
	if err := n.meta.CollectTagValues(tag.KeyID(kid), ids.Clone(), byID); err != nil {
		return nil, err
	}
	if uint64(len(byID)) != ids.GetCardinality() {
		return nil, fmt.Errorf("LOOKUP DISAGREES: tag key id %d: FindTagValueIDsForTag lists ids %v but CollectTagValues names only %v", kid, ids.ToArray(), byID)
	}
	for id, v := range byID {
		if other, ok := out[v]; ok && other != id {
			return nil, fmt.Errorf("NOT FUNCTIONAL/STABLE: tag value %q of tag key id %d is stored with ids %d and %d", v, kid, other, id)
		}
		out[v] = id
	}
	return out, nil
}

// forwardPerSeriesLimit: up to this many series of a tag key the forward index is read series by
// series (one grouping scan per series). A scan costs time proportional to ALL series of the tag key
// in the 65536-block, so beyond it the hinted read below is used.
const forwardPerSeriesLimit = 512

// forwardOf returns series id -> tag value ids of one tag key of one index database (the
// forward index as group-by reads it: GetSeriesIDsForTag, GetGroupingContext, ScanTagValueIDs).
//
// hint (may be nil) = series id -> the tag value id the caller expects. It only makes the read of a
// big tag key affordable and never decides an answer: ScanTagValueIDs(block, C) returns the union
// of the tag value ids of the series in C, so for a set C of hinted series the harness asks for
// C itself and, for every bit b of the expected ids, for the halves of C whose expected id has b
// set / clear. If the real mapping of some series of C differs from its hint in any way (other id,
// one more id from a second part of the index), the two ids differ in a bit and the union of the
// half that must not contain that bit does - or the id is outside the expected set of C. So
// "all unions equal the expected ones" <=> every series of C maps to exactly its hinted id, and
// those entries are returned as such. A set that fails is halved until single series are left,
// which are read exactly (the first 16; for the rest of a failing set every series gets the union
// of its set, i.e. a failing answer stays a failing answer). Series without a hint are read one
// by one - the first 512 of them; further ones are NOT in the returned map (the returned bitmap
// always lists every series of the tag key). Callers only judge entries of series they have an
// expectation for, and those are the hinted ones.
func forwardOf(d index.MetricIndexDatabase, kid uint32, hint map[uint32]uint32) (map[uint32][]uint32, *roaring.Bitmap, error) {
	sids, err := d.GetSeriesIDsForTag(tag.KeyID(kid))
	if err != nil {
		return nil, nil, err
	}
	out := map[uint32][]uint32{}
	if sids == nil || sids.IsEmpty() {
		return out, roaring.New(), nil
	}
	ctx := flow.NewShardExecuteContext(&flow.StorageExecuteContext{GroupByTagKeyIDs: []tag.KeyID{tag.KeyID(kid)}})
	ctx.SeriesIDsAfterFiltering = sids.Clone()
	if err := d.GetGroupingContext(ctx); err != nil {
		return nil, nil, err
	}
	// scan = tag value ids of a set of series of one 65536-block
	scan := func(hk uint16, series []uint32) []uint32 {
		c := roaring.BitmapOf(series...)
		vals := ctx.GroupingContext.ScanTagValueIDs(hk, c.GetContainer(hk))
		return vals[0].ToArray()
	}
	if hint == nil || sids.GetCardinality() <= forwardPerSeriesLimit {
		it := sids.Iterator()
		for it.HasNext() {
			s := it.Next()
			out[s] = scan(uint16(s>>16), []uint32{s})
		}
		return out, sids, nil
	}
	byBlock := map[uint16][]uint32{}
	var blocks []uint16
	unhinted := 0
	it := sids.Iterator()
	for it.HasNext() {
		s := it.Next()
		hk := uint16(s >> 16)
		if _, ok := hint[s]; !ok {
			if unhinted < forwardPerSeriesLimit {
				unhinted++
				out[s] = scan(hk, []uint32{s})
			}
			continue
		}
		if byBlock[hk] == nil {
			blocks = append(blocks, hk)
		}
		byBlock[hk] = append(byBlock[hk], s)
	}
	expected := func(series []uint32) []uint32 {
		return roaring.BitmapOf(mapIDs(series, hint)...).ToArray()
	}
	same := func(a, b []uint32) bool {
		if len(a) != len(b) {
			return false
		}
		for i := range a {
			if a[i] != b[i] {
				return false
			}
		}
		return true
	}
	exact := 0
	var settle func(hk uint16, series []uint32)
	settle = func(hk uint16, series []uint32) {
		union := scan(hk, series)
		want := expected(series)
		ok := same(union, want)
		for b := 0; ok && len(want) > 0 && want[len(want)-1]>>b != 0; b++ {
			var set, clear []uint32
			for _, s := range series {
				if hint[s]>>b&1 == 1 {
					set = append(set, s)
				} else {
					clear = append(clear, s)
				}
			}
			if len(set) == 0 || len(clear) == 0 {
				continue
			}
			ok = same(scan(hk, set), expected(set)) && same(scan(hk, clear), expected(clear))
		}
		switch {
		case ok:
			for _, s := range series {
				out[s] = []uint32{hint[s]}
			}
		case len(series) == 1:
			out[series[0]] = union
			exact++
		case exact >= 16:
			for _, s := range series {
				out[s] = union
			}
		default:
			settle(hk, series[:len(series)/2])
			settle(hk, series[len(series)/2:])
		}
	}
	for _, hk := range blocks {
		settle(hk, byBlock[hk])
	}
	return out, sids, nil
}

func mapIDs(series []uint32, hint map[uint32]uint32) []uint32 {
	out := make([]uint32, len(series))
	for i, s := range series {
		out[i] = hint[s]
	}
	return out
}

// forwardHint = what the model expects the forward index of tag key tk of metric k in index
// database i to say (series id -> tag value id), for the series whose ids and value ids are known.
// nil while the metric has few series there (the plain read is used then).
func (m *model) forwardHint(i int, k mkey, tk string) map[uint32]uint32 {
	if i >= len(m.series) || len(m.series[i][k]) <= forwardPerSeriesLimit {
		return nil
	}
	mm := m.metrics[k]
	if mm == nil || mm.tagKeys[tk] == nil {
		return nil
	}
	t := mm.tagKeys[tk]
	hint := map[uint32]uint32{}
	for _, s := range m.series[i][k] {
		if !s.has {
			continue
		}
		for _, kv := range s.tags {
			if kv.K == tk {
				if x := t.values[kv.V]; x != nil && x.has {
					hint[s.id] = x.id
				}
			}
		}
	}
	return hint
}

func bitmapString(b *roaring.Bitmap) string {
	if b == nil {
		return "[]"
	}
	return fmt.Sprint(b.ToArray())
}

func setOf(ids ...uint32) *roaring.Bitmap { return roaring.BitmapOf(ids...) }

// resolve learns, through the lookups, the ids of tag keys / tag values that were created inside
// GenSeriesID, and checks every lookup against what the model already knows:
// GetMetricID, GetSchema, FindTagValueIDsForTag + CollectTagValues, FindTagValueDsByExpr.
// exact=true (live node, everything the harness created is present): lookups
// must return exactly the model; exact=false (recovered node after new creations): every model
// name must be present with its id, extra recovered entries are judged elsewhere.
//
// The Suggest* functions are not part of this oracle (they enumerate through the trie iterator,
// which is C20's subject); they are operations of the histories, see query_test.go.
func resolve(n *node, m *model, exact bool) error {
	for _, k := range sortedMetricKeys(m.metrics) {
		mm := m.metrics[k]
		id, found, err := lookupMetric(n, k)
		if err != nil {
			return fmt.Errorf("GetMetricID(%s): %w", k, err)
		}
		if !found {
			return fmt.Errorf("LOOKUP DISAGREES: GetMetricID(%s) says not found, creators were told id %d", k, mm.id)
		}
		if err := mm.set("metric "+k.String()+" (GetMetricID)", id); err != nil {
			return err
		}
		schema, err := n.meta.GetSchema(metric.ID(mm.id))
		if err != nil {
			return fmt.Errorf("GetSchema(%s): %w", k, err)
		}
		if schema == nil {
			schema = &metric.Schema{}
		}
		seenF := map[string]bool{}
		for _, f := range schema.Fields {
			name := f.Name.String()
			if seenF[name] {
				return fmt.Errorf("NOT FUNCTIONAL/STABLE: schema of %s lists field %q twice: %+v", k, name, schema.Fields)
			}
			seenF[name] = true
			x := mm.fields[name]
			if x == nil {
				if !exact {
					continue
				}
				return fmt.Errorf("LOOKUP DISAGREES: schema of %s has field %q (id %d) that nobody created", k, name, f.ID)
			}
			if err := x.setf(uint32(f.ID), "field %s.%s (GetSchema)", k, name); err != nil {
				return err
			}
		}
		for _, f := range sortedKeys(mm.fields) {
			if !seenF[f] {
				return fmt.Errorf("LOOKUP DISAGREES: schema of %s lacks field %q, creators were told id %d; schema fields %+v", k, f, mm.fields[f].id, schema.Fields)
			}
		}
		seenT := map[string]bool{}
		for _, t := range schema.TagKeys {
			if seenT[t.Key] {
				return fmt.Errorf("NOT FUNCTIONAL/STABLE: schema of %s lists tag key %q twice: %+v", k, t.Key, schema.TagKeys)
			}
			seenT[t.Key] = true
			x := mm.tagKeys[t.Key]
			if x == nil {
				if !exact {
					continue
				}
				return fmt.Errorf("LOOKUP DISAGREES: schema of %s has tag key %q (id %d) that nobody created", k, t.Key, t.ID)
			}
			if err := x.setf(uint32(t.ID), "tag key %s[%s] (GetSchema)", k, t.Key); err != nil {
				return err
			}
		}
		for _, tk := range sortedKeys(mm.tagKeys) {
			t := mm.tagKeys[tk]
			if !seenT[tk] {
				return fmt.Errorf("LOOKUP DISAGREES: schema of %s lacks tag key %q (known id %d/%v); schema tag keys %+v", k, tk, t.id, t.has, schema.TagKeys)
			}
			dict, err := tagValuesOf(n, t.id)
			if err != nil {
				return fmt.Errorf("tag values of %s[%s]: %w", k, tk, err)
			}
			for _, v := range sortedKeys(dict) {
				x := t.values[v]
				if x == nil {
					if exact {
						return fmt.Errorf("LOOKUP DISAGREES: dictionary of %s[%s] has value %q (id %d) that nobody created", k, tk, v, dict[v])
					}
					continue
				}
				if err := x.setf(dict[v], "tag value %s[%s=%s] (CollectTagValues)", k, tk, v); err != nil {
					return err
				}
			}
			for _, v := range sortedKeys(t.values) {
				x := t.values[v]
				if _, ok := dict[v]; !ok {
					return fmt.Errorf("LOOKUP DISAGREES: dictionary of %s[%s] lacks value %q (known id %d/%v); dictionary %v", k, tk, v, x.id, x.has, dict)
				}
				got, err := n.meta.FindTagValueDsByExpr(tag.KeyID(t.id), &stmt.EqualsExpr{Key: tk, Value: v})
				if err != nil {
					return fmt.Errorf("FindTagValueDsByExpr(%s[%s=%s]): %w", k, tk, v, err)
				}
				if !got.Equals(setOf(x.id)) {
					return fmt.Errorf("LOOKUP DISAGREES: FindTagValueDsByExpr(%s[%s=%s]) = %s, dictionary says id %d", k, tk, v, bitmapString(got), x.id)
				}
			}
		}
	}
	return nil
}

// checkIndex compares the postings / forward index of every index database with the series
// the creators were told. exact as in resolve.
func checkIndex(n *node, m *model, exact bool) error {
	cmp := func(what string, got, want *roaring.Bitmap) error {
		if got == nil {
			got = roaring.New()
		}
		if exact && !got.Equals(want) {
			return fmt.Errorf("LOOKUP DISAGREES: %s = %s, creators were told %s", what, bitmapString(got), bitmapString(want))
		}
		if !exact && !roaring.And(got, want).Equals(want) {
			return fmt.Errorf("LOOKUP DISAGREES: %s = %s lacks ids of %s", what, bitmapString(got), bitmapString(want))
		}
		return nil
	}
	for i, d := range n.idx {
		for _, k := range sortedMetricKeys(m.metrics) {
			mm := m.metrics[k]
			all := roaring.New()
			byKey := map[string]*roaring.Bitmap{}
			byVal := map[string]map[string]*roaring.Bitmap{}
			for _, c := range sortedKeys(m.series[i][k]) {
				s := m.series[i][k][c]
				all.Add(s.id)
				if s.foundOnly {
					continue
				}
				for _, t := range s.tags {
					if byKey[t.K] == nil {
						byKey[t.K] = roaring.New()
						byVal[t.K] = map[string]*roaring.Bitmap{}
					}
					byKey[t.K].Add(s.id)
					if byVal[t.K][t.V] == nil {
						byVal[t.K][t.V] = roaring.New()
					}
					byVal[t.K][t.V].Add(s.id)
				}
			}
			got, err := d.GetSeriesIDsForMetric(metric.ID(mm.id))
			if err != nil {
				return fmt.Errorf("GetSeriesIDsForMetric(idx%d %s): %w", i, k, err)
			}
			if err := cmp(fmt.Sprintf("GetSeriesIDsForMetric(idx%d %s id %d)", i, k, mm.id), got, all); err != nil {
				return err
			}
			for _, tk := range sortedKeys(mm.tagKeys) {
				t := mm.tagKeys[tk]
				wantKey := byKey[tk]
				if wantKey == nil {
					wantKey = roaring.New()
				}
				fwd, sids, err := forwardOf(d, t.id, m.forwardHint(i, k, tk))
				if err != nil && !isNotFound(err) {
					return fmt.Errorf("forward index (idx%d %s[%s]): %w", i, k, tk, err)
				}
				if err := cmp(fmt.Sprintf("GetSeriesIDsForTag(idx%d %s[%s] id %d)", i, k, tk, t.id), sids, wantKey); err != nil {
					return err
				}
				for _, v := range sortedKeys(t.values) {
					x := t.values[v]
					wantVal := roaring.New()
					if byVal[tk] != nil && byVal[tk][v] != nil {
						wantVal = byVal[tk][v]
					}
					got, err := d.GetSeriesIDsByTagValueIDs(tag.KeyID(t.id), setOf(x.id))
					if err != nil {
						return fmt.Errorf("GetSeriesIDsByTagValueIDs(idx%d %s[%s=%s]): %w", i, k, tk, v, err)
					}
					if err := cmp(fmt.Sprintf("GetSeriesIDsByTagValueIDs(idx%d %s[%s=%s] id %d)", i, k, tk, v, x.id), got, wantVal); err != nil {
						return err
					}
					it := wantVal.Iterator()
					for it.HasNext() {
						s := it.Next()
						vals := fwd[s]
						ok := false
						for _, vv := range vals {
							ok = ok || vv == x.id
						}
						if exact && len(vals) != 1 {
							ok = false
						}
						if !ok {
							return fmt.Errorf("LOOKUP DISAGREES: forward index idx%d %s[%s]: series %d -> tag value ids %v, dictionary says %q has id %d", i, k, tk, s, vals, v, x.id)
						}
					}
				}
			}
		}
	}
	return nil
}

// checkAll = the complete oracle on a quiescent node.
func checkAll(n *node, m *model, exact bool) error {
	if err := resolve(n, m, exact); err != nil {
		return err
	}
	if err := m.checkInjective(); err != nil {
		return err
	}
	return checkIndex(n, m, exact)
}

// count returns how many names the model knows.
func (m *model) count() int {
	c := 0
	for _, mm := range m.metrics {
		c += 1 + len(mm.fields)
		for _, t := range mm.tagKeys {
			c += 1 + len(t.values)
		}
	}
	for i := range m.series {
		for _, byTags := range m.series[i] {
			c += len(byTags)
		}
	}
	return c
}

// merge folds what another model (same node, later requests) was told into m; names m does not
// know yet are added with the current clock.
func (m *model) merge(o *model) error {
	for _, k := range sortedMetricKeys(o.metrics) {
		om := o.metrics[k]
		mm := m.metric(k)
		if om.has {
			if err := mm.set("metric "+k.String(), om.id); err != nil {
				return err
			}
		}
		for _, f := range sortedKeys(om.fields) {
			if x := om.fields[f]; x.has {
				if err := m.observe(obs{Kind: "field", NS: k.NS, Name: k.Name, Key: f, ID: x.id}); err != nil {
					return err
				}
			}
		}
		for _, tk := range sortedKeys(om.tagKeys) {
			ot := om.tagKeys[tk]
			t := mm.tagKey(tk, m.seq)
			if ot.has {
				if err := t.setf(ot.id, "tag key %s[%s]", k, tk); err != nil {
					return err
				}
			}
			for _, v := range sortedKeys(ot.values) {
				x := t.value(v, m.seq)
				if ov := ot.values[v]; ov.has {
					if err := x.setf(ov.id, "tag value %s[%s=%s]", k, tk, v); err != nil {
						return err
					}
				}
			}
		}
		for i := range o.series {
			for _, c := range sortedKeys(o.series[i][k]) {
				os := o.series[i][k][c]
				if os.has {
					if err := m.observeSeries(i, rowSpec{NS: k.NS, Name: k.Name, Tags: os.tags}, os.id); err != nil {
						return err
					}
				}
			}
		}
	}
	return nil
}

func mustTempDir(prefix string) string {
	dir, err := os.MkdirTemp("", prefix)
	if err != nil {
		panic("harness: " + err.Error())
	}
	return dir
}
