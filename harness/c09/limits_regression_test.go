package c09

import (
	"errors"
	"os"
	"testing"

	"github.com/lindb/lindb/constants"
	"github.com/lindb/lindb/models"
	"github.com/lindb/lindb/series/metric"
	"github.com/lindb/lindb/verifharness/sim/ev"
)

// Found by TestLimitsHistory. metricIndexDatabase.GenSeriesID creates the dictionary entry
// (tags hash -> series id) first and looks at max-series-per-metric afterwards: the series over the
// limit is answered with ErrTooManySeries, but its entry stays in the series dictionary (and is
// flushed), while the sequence cache and the postings are not advanced. So
//
//   - the next row of the refused series (it arrives with the next write interval) finds the entry
//     and is given the id without any error - a series id that is in no posting list and in no
//     forward / inverted index entry (GetSeriesIDsForMetric and every tag filter miss it);
//   - every further series over the limit is created with the SAME id (createSeriesID still answers
//     highest+1), so two different tag sets of one metric share a series id: their points are
//     written into one series of the data families.
//
// The default limit is 200000 series per metric, so every high-cardinality metric reaches it.
// Repaired in /repo (fix: series refused by the series limit keeps its dictionary entry, refused
// series share one id; = proposed_fix_series_limit_checked_before_the_dictionary_entry.diff). If the
// signature is listed in known_findings.json as not repaired, TestLimitsHistory leaves a
// (shard, metric) alone after its first refusal and this reproduction only prints the
// KNOWN-FINDING line.
func TestRegression_SeriesRefusedByLimitKeepsItsDictionaryEntry(t *testing.T) {
	if ev.Known(sigSeriesLimit) {
		ev.KnownFinding("C09", "a series refused by max-series-per-metric keeps its dictionary entry: requested again it gets an id without index entries, all refused series of a metric share one id ("+sigSeriesLimit+")")
		return // not skipped: the driver treats a skipped test as inconclusive
	}
	limits := models.NewDefaultLimits()
	limits.MaxSeriesPerMetric = 1 // the tree accepts ids 0..limit
	models.SetDatabaseLimits(dbName, limits)
	defer models.SetDatabaseLimits(dbName, models.NewDefaultLimits())

	dir := mustTempDir("c09r-")
	defer os.RemoveAll(dir)
	n, err := openNode(dir, 1)
	if err != nil {
		t.Fatal(err)
	}
	defer n.closeRaw()
	w := newWire(wireInvert)
	mid, err := w.genMetricID(n, rowSpec{NS: "ns", Name: "cpu"})
	if err != nil {
		t.Fatal(err)
	}
	gen := func(host string) (uint32, error) {
		block, err := marshalRow(rowSpec{NS: "ns", Name: "cpu", Tags: []kvPair{{"host", host}}, Fields: []string{"f"}})
		if err != nil {
			t.Fatal(err)
		}
		row, err := w.decode(block)
		if err != nil {
			t.Fatal(err)
		}
		sid, err := n.idx[0].GenSeriesID(mid, row)
		w.rowReturned()
		return sid, err
	}
	for i, host := range []string{"a", "b"} {
		if sid, err := gen(host); err != nil || sid != uint32(i) {
			t.Fatalf("series host=%s: id %d, %v", host, sid, err)
		}
	}
	for _, host := range []string{"c", "d"} {
		if _, err := gen(host); !errors.Is(err, constants.ErrTooManySeries) {
			t.Fatalf("series host=%s over the limit: %v, want %v", host, err, constants.ErrTooManySeries)
		}
	}
	// the same rows again (next write interval)
	idC, errC := gen("c")
	idD, errD := gen("d")
	posting, err := n.idx[0].GetSeriesIDsForMetric(metric.ID(mid))
	if err != nil {
		t.Fatal(err)
	}
	if errC == nil || errD == nil {
		t.Errorf("series host=c / host=d were refused (%v) and requested again under the same limits: host=c -> id %d, %v; host=d -> id %d, %v; postings of the metric: %s",
			constants.ErrTooManySeries, idC, errC, idD, errD, bitmapString(posting))
	}
	if errC == nil && errD == nil && idC == idD {
		t.Errorf("NOT INJECTIVE: series {host=c} and {host=d} of one metric share series id %d", idC)
	}
}
