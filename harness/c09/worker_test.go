package c09

// worker_test.go - part (b), worker class (TestWorkerHistory).
//
// The other histories of this package MIRROR the call sequences of the storage write path (metaWorkerRow,
// indexWorkerRow) and place PrepareFlush / Flush themselves. Here the PRODUCTION workers run: one
// memdb.MetadataDatabase and one memdb.IndexDatabase per shard (their handle loops on their own goroutines),
// rows reach them through memdb.MemoryDatabase.WriteRow (which notifies the two workers), flushes are
// requested the way tsdb.database.flushMeta / tsdb.shard.flushIndex do it: Notify(&memdb.FlushEvent{Callback}).
//
// What the harness owns is the instant at which a flush request ARRIVES relative to the row the worker is
// handling: a hold plan stops one worker (index worker of a shard / metadata worker) at a drawn kv-family
// seam (index.VerifWrapIndexFamilies / VerifWrapMetaFamilies report the kv family calls of the index stores,
// index.VerifWrapIndexMetaCalls the calls of a shard's index database to the metadata database)
// in the middle of a row - inside GenMetricID, inside the series dictionary's create section
// (createSeriesID), between the postings put and the forward / inverted puts (buildInvertIndex) ... -,
// further rows are queued behind the held row, the flush request(s) are sent from goroutines of their own
// (the flush job / flush checker / shard.Close are other goroutines in production), then the worker goes on.
//
// Oracle: (1) the live oracle of the package at quiet points; (2) crash images = copies of the directories
// at quiet points (no row in a worker, no flush in flight), opened with the production constructors and
// judged by the recovered-node oracle (checkRecoveredOrder): every recovered name keeps its id, new names
// (a never seen series per (shard, metric) first, in half of the images) get ids no recovered dictionary
// entry / posting / forward entry uses, and a flush whose callback reported nil has persisted every row
// that was notified BEFORE the flush request was notified (the channel of a worker is FIFO; the flush job
// persists the family data and the log sequence of those rows next).
//
// No wall clock decides anything: the only timed wait (a bounded wait for Notify(FlushEvent) to return
// before the held worker is released) influences which interleaving is produced, never the judgement.

import (
	"fmt"
	"os"
	"path/filepath"
	"runtime"
	"sort"
	"strings"
	"sync"
	"sync/atomic"
	"testing"
	"time"

	"pgregory.net/rapid"

	"github.com/lindb/lindb/pkg/timeutil"

	"github.com/lindb/lindb/index"
	"github.com/lindb/lindb/models"
	"github.com/lindb/lindb/series/metric"
	"github.com/lindb/lindb/tsdb/memdb"
	"github.com/lindb/lindb/verifharness/sim/crash"
	"github.com/lindb/lindb/verifharness/sim/ev"
)

const (
	wkInterval   = int64(10 * 1000)
	wkRowTime    = int64(1600000000000) // marshalRow
	wkFamilyTime = wkRowTime - wkRowTime%(3600*1000)
)

// wnode = the production objects of one database: index databases (n), the shared metadata worker,
// one index worker + one memory database (data family) per shard.
type wnode struct {
	n      *node
	metaDB memdb.MetadataDatabase
	idxDB  []memdb.IndexDatabase
	mem    []memdb.MemoryDatabase
	bufMgr memdb.BufferManager
	undo   []func()
}

func openWorkers(root, bufDir string, nIdx int, seam index.VerifFamilySeam) (*wnode, error) {
	n, err := openNode(root, nIdx)
	if err != nil {
		return nil, err
	}
	w := &wnode{n: n, bufMgr: memdb.NewBufferManager(bufDir)}
	w.undo = append(w.undo, index.VerifWrapMetaFamilies(n.meta, seam))
	for _, d := range n.idx {
		w.undo = append(w.undo, index.VerifWrapIndexFamilies(d, seam))
		// the calls of the index database to the metadata database while it creates a series
		w.undo = append(w.undo, index.VerifWrapIndexMetaCalls(d, func(method string, before bool) {
			seam("", "metaDB", method, before, false)
		}))
	}
	w.metaDB = memdb.NewMetadataDatabase(&models.DatabaseConfig{Name: dbName}, n.meta)
	for i := 0; i < nIdx; i++ {
		idb := memdb.NewIndexDatabase(w.metaDB, n.idx[i])
		w.idxDB = append(w.idxDB, idb)
		mdb, err := memdb.NewMemoryDatabase(&memdb.MemoryDatabaseCfg{
			FamilyTime: wkFamilyTime, Name: dbName, IntervalCalc: timeutil.Interval(wkInterval).Calculator(),
			Interval: timeutil.Interval(wkInterval), IndexDatabase: idb, BufferMgr: w.bufMgr,
		})
		if err != nil {
			w.close()
			return nil, err
		}
		w.mem = append(w.mem, mdb)
	}
	return w, nil
}

// close = the process dies: workers stopped, nothing flushed.
func (w *wnode) close() {
	for _, m := range w.mem {
		_ = m.Close()
	}
	for _, d := range w.idxDB {
		d.Close()
	}
	if w.metaDB != nil {
		w.metaDB.Close()
	}
	for _, u := range w.undo {
		u()
	}
	w.bufMgr.GarbageCollect()
	w.bufMgr.Cleanup()
	w.n.closeRaw()
}

// ---- hold plans -------------------------------------------------------------------------------------

// holdPlan stops ONE worker goroutine at one family seam while it handles a row.
type holdPlan struct {
	worker string // "index" | "meta": which handleRow the seam must be reached from
	shard  int    // index worker: the shard
	inside string // "" = the nth seam event of the worker; else the first event below that function
	nth    int

	mu      sync.Mutex
	seen    int
	done    bool
	where   string
	reached chan string
	release chan struct{}
}

// whereOf classifies the position of a worker by the production functions on its stack.
func whereOf(stack string) (worker, where string) {
	switch {
	case strings.Contains(stack, "memdb.(*indexDatabase).handleRow"):
		worker = "index"
	case strings.Contains(stack, "memdb.(*metadataDatabase).handleRow"):
		worker = "meta"
	default:
		return "", ""
	}
	for _, f := range []string{"createSeriesID", "GenTagValueID", "GenTagKeyID", "buildInvertIndex", "GenSeriesID", "GenFieldID", "GenMetricID"} {
		if strings.Contains(stack, "."+f+"(") {
			where = f
			break
		}
	}
	if where == "" {
		where = "other"
	}
	if strings.Contains(stack, ").createValue(") {
		where += "+inside-create-section"
	}
	return worker, where
}

type whist struct {
	t       *rapid.T
	dir     string
	root    string
	nIdx    int
	w       *wnode
	m       *model
	wire    *wire
	dur     durable
	ops     []string
	classes map[string]int
	fresh   int
	bufGen  int

	plan atomic.Pointer[holdPlan]
	held *holdPlan // the worker is waiting at this plan's point right now

	// rows / flush requests handed to the workers (the end of a failed case waits for them before it closes)
	inFlight []*sent
	requests []*flushReq

	metrics []mkey
	images  int
	nt      bool
	// pendingNT: a flush request arrived while the index worker was inside GenSeriesID of a new series, no image since
	pendingNT bool
}

func (h *whist) logf(format string, args ...any) {
	h.ops = append(h.ops, plainText(fmt.Sprintf(format, args...)))
}

// firstFailure prints the first failure of the process as it happened: a failure that depends on the goroutine
// schedule may not repeat when rapid re-runs the case ("flaky"), the message must not be lost then.
var firstFailure sync.Once

// workerCases counts the cases of the process (reported with the first failure).
var workerCases atomic.Int32

func (h *whist) fatalf(format string, args ...any) {
	msg := fmt.Sprintf(format, args...)
	firstFailure.Do(func() {
		fmt.Fprintf(os.Stderr, "TestWorkerHistory: first failure of this run (case %d): %s\nhistory:\n  %s\n", workerCases.Load(), msg, strings.Join(h.ops, "\n  "))
	})
	h.t.Fatalf("%s\nhistory:\n  %s", msg, strings.Join(h.ops, "\n  "))
}

// seam runs on the goroutine that calls the kv family: workers, flush goroutines, the harness itself.
func (h *whist) seam(store, family, op string, before, locked bool) {
	p := h.plan.Load()
	if p == nil {
		return
	}
	buf := make([]byte, 16<<10)
	stack := string(buf[:runtime.Stack(buf, false)])
	worker, where := whereOf(stack)
	if worker != p.worker {
		return
	}
	// while a plan is armed only the held row and the rows queued behind it (same shard) are in flight: the
	// index worker seen here is the one of the plan's shard
	p.mu.Lock()
	if p.done {
		p.mu.Unlock()
		return
	}
	hit := false
	if p.inside != "" {
		hit = strings.HasPrefix(where, p.inside)
	} else {
		p.seen++
		hit = p.seen == p.nth
	}
	if !hit {
		p.mu.Unlock()
		return
	}
	p.done = true
	p.where = fmt.Sprintf("%s/%s-%s-%s", where, family, op, beforeAfter(before))
	if locked {
		p.where += "/store-locked"
	}
	p.mu.Unlock()
	p.reached <- p.where
	<-p.release
}

// ---- rows -------------------------------------------------------------------------------------------

func (h *whist) drawRowFor(label string, wantNewSeries bool) (rowSpec, int) {
	shard := rapid.IntRange(0, h.nIdx-1).Draw(h.t, label+"shard")
	k := h.metrics[rapid.IntRange(0, len(h.metrics)-1).Draw(h.t, label+"metric")]
	r := rowSpec{NS: k.NS, Name: k.Name}
	nTags := rapid.SampledFrom([]int{0, 1, 1, 1, 2, 2}).Draw(h.t, label+"nTags")
	if wantNewSeries && nTags == 0 && h.m.series[shard][k][""] != nil {
		nTags = 1
	}
	keys := []string{"host", "zone", "host.id"}
	for i := 0; i < nTags; i++ {
		v := rapid.SampledFrom([]string{"a", "b", "ab", "c"}).Draw(h.t, label+"tagValue")
		if wantNewSeries && i == 0 {
			h.fresh++
			v = fmt.Sprintf("n%d", h.fresh)
		}
		r.Tags = append(r.Tags, kvPair{keys[(i+rapid.IntRange(0, 1).Draw(h.t, label+"keyShift"))%3], v})
	}
	r.Tags = normTags(r.Tags)
	nf := rapid.IntRange(1, 2).Draw(h.t, label+"nFields")
	for i := 0; i < nf; i++ {
		f := rapid.SampledFrom([]string{"f0", "f1", "f2", "f3"}).Draw(h.t, label+"field")
		dup := false
		for _, x := range r.Fields {
			dup = dup || x == f
		}
		if !dup {
			r.Fields = append(r.Fields, f)
		}
	}
	return r, shard
}

// sent is a row that was handed to the production write path.
type sent struct {
	r     rowSpec
	shard int
	seq   int
	row   *metric.StorageRow
	done  chan struct{}
}

// send = tsdb.dataFamily.WriteRows for one row, without its final row.Wait() (the caller waits).
func (h *whist) send(r rowSpec, shard int) *sent {
	block, err := marshalRow(r)
	if err != nil {
		h.fatalf("harness: build row: %v", err)
	}
	batch := metric.NewStorageBatchRows()
	batch.UnmarshalRows(block)
	row := batch.Rows()[0]
	h.m.seq++
	s := &sent{r: r, shard: shard, seq: h.m.seq, row: row, done: make(chan struct{})}
	mdb := h.w.mem[shard]
	mdb.AcquireWrite()
	release := mdb.WithLock()
	err = mdb.WriteRow(row)
	release()
	mdb.CompleteWrite()
	go func() {
		row.Wait()
		close(s.done)
	}()
	h.inFlight = append(h.inFlight, s)
	if err != nil {
		h.fatalf("WriteRow(%s): %v", r, err)
	}
	return s
}

// observe asks for the ids of a handled row as a second caller (the worker call sequences of the package):
// a get-or-create answers with the id the production worker assigned.
func (h *whist) observe(s *sent) {
	saved := h.m.seq
	h.m.seq = s.seq
	err := applyRow(h.w.n, h.wire, h.m, s.r, s.shard, "meta+index")
	h.m.seq = saved
	if err != nil {
		h.fatalf("row %s (seq %d): %v", s.r, s.seq, err)
	}
}

func (h *whist) write() {
	r, shard := h.drawRowFor("", rapid.Bool().Draw(h.t, "newSeries"))
	s := h.send(r, shard)
	h.logf("write seq=%d shard=%d %s", s.seq, shard, r)
	<-s.done
	h.observe(s)
	h.classes["write"]++
}

// ---- flush requests ---------------------------------------------------------------------------------

type flushReq struct {
	what     string // "meta" | "idx<i>"
	shard    int
	notified chan struct{}
	result   chan error
	claimSeq int
	got      bool
	err      error
}

// wait waits (bounded) for the flush callback; true = it has arrived.
func (f *flushReq) wait(d time.Duration) bool {
	if f.got {
		return true
	}
	select {
	case f.err = <-f.result:
		f.got = true
	case <-time.After(d):
	}
	return f.got
}

// request sends the flush request from a goroutine of its own (flush job / checker / Close in production).
func (h *whist) request(shard int, claimSeq int) *flushReq {
	f := &flushReq{shard: shard, notified: make(chan struct{}), result: make(chan error, 1), claimSeq: claimSeq}
	event := &memdb.FlushEvent{Callback: func(err error) { f.result <- err }}
	if shard < 0 {
		f.what = "meta"
		go func() { h.w.metaDB.Notify(event); close(f.notified) }()
	} else {
		f.what = fmt.Sprintf("idx%d", shard)
		go func() { h.w.idxDB[shard].Notify(event); close(f.notified) }()
	}
	h.requests = append(h.requests, f)
	return f
}

// finish waits for the flush callback and books the durability claim.
func (h *whist) finish(f *flushReq) {
	<-f.notified
	if !f.got {
		f.err, f.got = <-f.result, true
	}
	if f.err != nil {
		h.fatalf("flush %s: %v", f.what, f.err)
	}
	if f.shard < 0 {
		if f.claimSeq > h.dur.Meta {
			h.dur.Meta = f.claimSeq
		}
	} else if f.claimSeq > h.dur.Idx[f.shard] {
		h.dur.Idx[f.shard] = f.claimSeq
	}
	h.classes["flush-"+strings.TrimRight(f.what, "0123456789")]++
}

// flushCycle = dataFlushChecker / database.Flush: metadata, then the index of every (drawn) shard.
func (h *whist) flushCycle() {
	h.logf("flush cycle (seq %d)", h.m.seq)
	h.finish(h.request(-1, h.m.seq))
	for i := 0; i < h.nIdx; i++ {
		if h.nIdx > 1 && rapid.IntRange(0, 3).Draw(h.t, "skipShard") == 0 {
			continue
		}
		h.finish(h.request(i, h.m.seq))
	}
	h.classes["flush-cycle"]++
}

// ---- the interleaving operation --------------------------------------------------------------------

func (h *whist) heldFlush() {
	worker := "index"
	if rapid.IntRange(0, 5).Draw(h.t, "holdMetaWorker") == 0 {
		worker = "meta"
	}
	r, shard := h.drawRowFor("held-", true)
	k := r.mkey()
	p := &holdPlan{worker: worker, shard: shard, reached: make(chan string, 1), release: make(chan struct{})}
	switch rapid.IntRange(0, 9).Draw(h.t, "holdKind") {
	case 0, 1:
		p.inside = "GenSeriesID+inside-create-section" // id chosen, dictionary entry not yet stored (every new series)
	case 2:
		p.inside = "createSeriesID" // sequence cache miss: the postings are read inside the create section
	case 3:
		p.inside = "GenTagKeyID" // posting stored, forward / inverted entries not yet
	case 4:
		p.inside = "GenTagValueID"
	default:
		p.nth = rapid.IntRange(1, 10).Draw(h.t, "holdNth")
	}
	if worker == "meta" {
		p.inside, p.nth = "", rapid.IntRange(1, 3).Draw(h.t, "holdNthMeta")
	}
	dropped := false
	if worker == "index" && rapid.IntRange(0, 2).Draw(h.t, "dropSeqCacheFirst") != 0 {
		// the sequence cache entry of the metric is gone (janitor / eviction; operation of the other histories):
		// the create section of the series dictionary reads the postings family
		if mm := h.m.metrics[k]; mm != nil && mm.has {
			index.VerifSetNextSeriesID(h.w.n.idx[shard], metric.ID(mm.id), 0)
			dropped = true
		}
	}
	// which flush, and when its request is notified: "before" = ahead of the held row in the worker's channel
	// (the worker freezes, starts the background flush and meets the row while that flush runs), "during" = while
	// the worker is inside the row
	kind := rapid.SampledFrom([]string{"idx", "idx", "idx", "meta+idx", "meta", "idx-other"}).Draw(h.t, "flushKind")
	if worker == "meta" {
		kind = rapid.SampledFrom([]string{"meta", "meta", "meta+idx"}).Draw(h.t, "flushKindMetaHold")
	}
	if kind == "idx-other" && h.nIdx == 1 {
		kind = "idx"
	}
	when := rapid.SampledFrom([]string{"during", "during", "during", "before"}).Draw(h.t, "flushWhen")
	baseSeq := h.m.seq // every row up to here has been handled by both workers
	var reqs []*flushReq
	requestAll := func(idxClaim int) {
		if strings.Contains(kind, "meta") {
			reqs = append(reqs, h.request(-1, baseSeq))
		}
		switch {
		case kind == "idx-other":
			reqs = append(reqs, h.request((shard+1)%h.nIdx, baseSeq))
		case strings.Contains(kind, "idx"):
			reqs = append(reqs, h.request(shard, idxClaim))
		}
		h.classes["flush-request-"+when+"-held-row="+kind]++
	}
	if when == "before" {
		requestAll(baseSeq)
		for _, f := range reqs {
			<-f.notified // nothing is held yet
		}
	}
	h.plan.Store(p)
	s := h.send(r, shard)
	rows := []*sent{s}
	h.logf("held write seq=%d shard=%d %s hold=%s/%s#%d seqCacheDropped=%v flush=%s %s", s.seq, shard, r, worker, p.inside, p.nth, dropped, kind, when)

	var where string
	select {
	case where = <-p.reached:
	case <-s.done:
		// the row went through without reaching the drawn point
		h.plan.Store(nil)
		p.mu.Lock()
		p.done = true
		p.mu.Unlock()
		for _, f := range reqs {
			h.finish(f)
		}
		h.observe(s)
		h.classes["hold-not-reached"]++
		h.logf("  hold not reached")
		return
	}
	h.plan.Store(nil)
	h.held = p
	h.classes["hold-reached"]++
	h.classes["hold-"+worker+"-worker-at="+where]++
	if dropped {
		h.classes["hold-after-seq-cache-drop"]++
	}
	h.logf("  %s worker held at %s", worker, where)

	// rows queued behind the held one (the write path goes on while the worker is busy)
	for i := rapid.IntRange(0, 2).Draw(h.t, "queuedRows"); i > 0; i-- {
		qr, _ := h.drawRowFor("queued-", rapid.Bool().Draw(h.t, "queuedNew"))
		qs := h.send(qr, shard)
		rows = append(rows, qs)
		h.logf("  queued write seq=%d shard=%d %s", qs.seq, shard, qr)
		h.classes["row-queued-behind-held-row"]++
	}

	inCreation := worker == "index" && strings.Contains(kind, "idx") && kind != "idx-other" &&
		(strings.HasPrefix(where, "createSeriesID") || strings.HasPrefix(where, "GenSeriesID") || strings.HasPrefix(where, "buildInvertIndex") || strings.HasPrefix(where, "GenTag"))
	if when == "during" {
		idxClaim := h.m.seq
		if worker == "meta" {
			// the index worker is free: it may or may not have handled the rows yet, claim what was complete before
			idxClaim = baseSeq
		}
		requestAll(idxClaim)
		returned := 0
		for _, f := range reqs {
			select {
			case <-f.notified:
				returned++
			case <-time.After(20 * time.Millisecond): // schedule only, see the file comment
			}
		}
		if returned == len(reqs) {
			h.classes["flush-request-returned-while-worker-held"]++
		} else {
			h.classes["flush-request-still-pending-when-worker-released"]++
		}
		if inCreation {
			h.classes["index-flush-requested-inside-series-creation"]++
		}
	} else {
		// the flush(es) requested before run in the background now: give them the chance to finish while the worker
		// is held inside the row
		completed := 0
		for _, f := range reqs {
			if f.wait(20 * time.Millisecond) { // schedule only
				completed++
			}
		}
		if completed == len(reqs) {
			h.classes["background-flush-completed-while-worker-held"]++
		} else {
			h.classes["background-flush-still-running-when-worker-released"]++
		}
		if inCreation {
			h.classes["index-flush-running-while-series-creation-held"]++
		}
	}
	if inCreation {
		h.pendingNT = true
	}
	h.logf("  released")
	close(p.release)
	h.held = nil
	for _, x := range rows {
		<-x.done
	}
	for _, f := range reqs {
		h.finish(f)
	}
	for _, x := range rows {
		h.observe(x)
	}
	h.classes["held-flush"]++
}

// ---- crash images -----------------------------------------------------------------------------------

// image = the process is killed now (quiet point): copy, recover, judge.
func (h *whist) image() {
	h.images++
	dst := filepath.Join(h.dir, fmt.Sprintf("img%d", h.images))
	if err := crash.CopyTree(h.root, dst); err != nil {
		h.fatalf("harness: copy: %v", err)
	}
	defer os.RemoveAll(dst)
	n, err := openNode(dst, h.nIdx)
	if err != nil {
		h.fatalf("image %d: databases cannot be opened: %v", h.images, err)
	}
	defer n.closeRaw()
	newFirst := rapid.Bool().Draw(h.t, "newSeriesFirst")
	h.logf("image %d (durable meta<=%d idx<=%v, new series first=%v)", h.images, h.dur.Meta, h.dur.Idx, newFirst)
	if _, err := checkRecoveredOrder(n, h.wire, h.m.clone(), h.dur.clone(), func(s string) { h.classes[s]++ }, newFirst); err != nil {
		h.fatalf("image %d: %v", h.images, err)
	}
	h.classes["image-recovered"]++
	if h.pendingNT {
		h.nt = true
		h.pendingNT = false
		h.classes["image-after-flush-requested-inside-series-creation"]++
	}
}

// drain: end of a case. After a failure a held worker was just released and flushes may still run: the workers
// must be idle before the databases are closed below them (bounded: a case that already failed must not hang).
func (h *whist) drain() {
	limit := time.After(5 * time.Second)
	for _, s := range h.inFlight {
		select {
		case <-s.done:
		case <-limit:
			return
		}
	}
	for _, f := range h.requests {
		if !f.got {
			select {
			case <-f.result:
			case <-limit:
				return
			}
		}
	}
}

func runWorkerHistory(t *rapid.T) {
	workerCases.Add(1)
	dir := mustTempDir("c09w-")
	nIdx := rapid.IntRange(1, 2).Draw(t, "nIdx")
	h := &whist{t: t, dir: dir, root: filepath.Join(dir, "live"), nIdx: nIdx, m: newModel(nIdx),
		dur: durable{Idx: make([]int, nIdx)}, classes: map[string]int{}, wire: newWire(wireNext)}
	nm := rapid.IntRange(1, 3).Draw(t, "metrics")
	for i := 0; i < nm; i++ {
		h.metrics = append(h.metrics, mkey{[]string{"ns-a", "ns-b"}[i%2], fmt.Sprintf("cpu.m%d", i/2)})
	}
	w, err := openWorkers(h.root, filepath.Join(dir, "buffer"), nIdx, h.seam)
	if err != nil {
		t.Fatalf("open: %v", err)
	}
	h.w = w
	defer func() {
		if p := h.plan.Swap(nil); p != nil {
			// a failed case: nobody waits for the plan's point any more, a worker that reaches it must go on
			p.mu.Lock()
			p.done = true
			p.mu.Unlock()
		}
		if h.held != nil {
			close(h.held.release)
			h.held = nil
		}
		h.drain()
		h.w.close()
		_ = os.RemoveAll(dir)
	}()
	h.write()
	step := func(fn func()) func(*rapid.T) {
		return func(t *rapid.T) { h.t = t; fn() }
	}
	t.Repeat(map[string]func(*rapid.T){
		"write":      step(h.write),
		"flushCycle": step(h.flushCycle),
		"heldFlush":  step(h.heldFlush),
		"heldFlush2": step(h.heldFlush),
		"image":      step(h.image),
		"": step(func() {
			if err := checkAll(h.w.n, h.m, true); err != nil {
				h.fatalf("live node: %v", err)
			}
		}),
	})
	h.t = t
	h.image()
	if err := checkAll(h.w.n, h.m, true); err != nil {
		h.fatalf("live node at the end: %v", err)
	}
	canon := fmt.Sprintf("%d|%v|%v", nIdx, h.metrics, h.ops)
	names := make([]string, 0, len(h.classes))
	for c := range h.classes {
		names = append(names, c)
	}
	sort.Strings(names)
	for _, c := range names {
		ev.Class("TestWorkerHistory", c, h.classes[c])
	}
	ev.Case("TestWorkerHistory", canon, h.nt, nil, map[string]any{
		"index_databases": nIdx, "history": h.ops, "images_recovered": h.images,
	})
}

// TestWorkerHistory: production memdb workers, flush requests arriving inside a row, crash images.
func TestWorkerHistory(t *testing.T) {
	rapid.Check(t, runWorkerHistory)
}
