package c09

import (
	"fmt"
	"path/filepath"
	"sort"
	"strings"

	"pgregory.net/rapid"

	"github.com/lindb/lindb/kv"
	"github.com/lindb/lindb/verifharness/sim/ev"
)

// Compaction of the dictionary / index kv families as an operation of the histories (part (b)).
//
// The dictionaries (namespace, metric name, tag value: families ns / metric / tv of the metadata
// store; tags hash -> series id: family series of every shard's index store) and the postings /
// forward / schema families are ordinary kv families: every flush adds a level-0 file, and a
// background job of the storage node (the periodic store job, guard = compaction threshold, or
// Family.Compact, guard = more than one level-0 file) merges the files of a family into a new
// one with the family's merger. For a dictionary that means: the entries of one bucket that were
// written in different flush cycles are read back and written as one new bucket. "One and the same
// id for as long as the node runs / after reopen or crash recovery" has to hold across that job
// like across a flush - a running store switches to the merged files with its next non-empty
// flush, a reopened or recovered one reads them at once.
//
// The job runs on the harness goroutine (kv.VerifCompactSync = the production job function with
// the production guards) between any two steps of a history, in every phase of a flush cycle; its
// file-system seams are - like those of a Flush - places where creators / queries run nested
// (ingestion and queries continue while the compaction goroutine works) and where crash images are
// taken.
//
// So that the entries of ONE bucket really come from several flush cycles, every case draws its
// own (often small) name universes from pools of names of mixed length / common prefixes, rows
// are also written in batches and whole flush cycles are steps of their own.

// name pools of the histories. Names that are a proper prefix of another one, names that differ
// late / early, short and long ones: the order in which a dictionary bucket enumerates them
// (lexicographic) differs from the order in which its trie stores them.
var (
	histNSPool     = []string{"default-ns", "ns-a", "ns-b", "ns", "nt"}
	histMetricPool = []string{"cpu", "cpu.load", "cpu.load.avg1", "disk", "disk.io", "mem", "mem.used", "net"}
	histValPool    = []string{"a", "b", "c", "a1", "ab", "a12", "b1", "c.d"}
)

// universe = the names the rows of one case are drawn from.
type universe struct {
	ns, metrics, keys, vals []string
}

func subset(t *rapid.T, label string, pool []string, min, max int) []string {
	if max > len(pool) {
		max = len(pool)
	}
	return rapid.SliceOfNDistinct(rapid.SampledFrom(pool), min, max, rapid.ID[string]).Draw(t, label)
}

// histNSEdgePool: namespaces whose FIRST BYTE lies at the ends of the byte range / of the UTF-8 lead
// bytes. The namespace dictionary uses the first byte of the name as its bucket and SuggestNamespace
// walks the buckets one by one, so these names live in the first / last buckets a legal (valid UTF-8,
// not changed by sanitising) name can reach: 0x00, 0x01, 0x7f, 0xc2 (first 2-byte lead), 0xdf, 0xe0,
// 0xef, 0xf0, 0xf4 (last lead byte). The other pools only reach the buckets of 'd' and 'n'.
var histNSEdgePool = []string{"\x00ns", "\x00", "\x01n", "\x7fns", "\u0080ns", "\u07ffn", "\u0800ns", "\uffeens",
	"\U00010000ns", "\U0010ffffns", "\U0010ffff"}

// nsBucketClass names the class of the dictionary bucket (first byte) of a namespace.
func nsBucketClass(ns string) string {
	switch b := ns[0]; {
	case b == 0:
		return "namespace-bucket=0x00"
	case b < 0x20 || b == 0x7f:
		return "namespace-bucket=control-byte"
	case b < 0x80:
		return "namespace-bucket=ascii"
	case b == 0xf4:
		return "namespace-bucket=0xf4-last-utf8-lead"
	case b < 0xe0:
		return "namespace-bucket=utf8-lead-2-byte"
	case b < 0xf0:
		return "namespace-bucket=utf8-lead-3-byte"
	default:
		return "namespace-bucket=utf8-lead-4-byte"
	}
}

func drawUniverse(t *rapid.T) universe {
	return universe{
		ns: append(subset(t, "caseNamespaces", histNSPool, 1, 3),
			subset(t, "caseEdgeBucketNamespaces", histNSEdgePool, 0, 2)...),
		metrics: subset(t, "caseMetrics", histMetricPool, 2, 5),
		keys:    subset(t, "caseTagKeys", keyUniverse, 1, 3),
		vals:    subset(t, "caseTagValues", histValPool, 3, 6),
	}
}

func (u universe) String() string {
	return fmt.Sprintf("ns=%v metrics=%v keys=%v vals=%v", u.ns, u.metrics, u.keys, u.vals)
}

// kvFamily is one kv family of the node's stores.
type kvFamily struct {
	idx   int // -1: metadata store, else index store of shard idx
	store string
	name  string
}

func (f kvFamily) String() string { return f.store + "/" + f.name }

// isDict: families written by an indexKVStore (name -> id dictionaries).
func (f kvFamily) isDict() bool {
	if f.idx < 0 {
		return f.name == "ns" || f.name == "metric" || f.name == "tv"
	}
	return f.name == "series"
}

var (
	metaFamilies = []string{"metric", "ns", "schema", "tv"}
	idxFamilies  = []string{"forward", "inverted", "metric", "series"}
)

func (h *hist) kvFamilies() []kvFamily {
	var out []kvFamily
	for _, fn := range metaFamilies {
		out = append(out, kvFamily{idx: -1, store: "meta", name: fn})
	}
	for i := 0; i < h.nIdx; i++ {
		for _, fn := range idxFamilies {
			out = append(out, kvFamily{idx: i, store: fmt.Sprintf("idx%d", i), name: fn})
		}
	}
	return out
}

func (h *hist) family(f kvFamily) kv.Family {
	path := filepath.Join(metaDir(h.root), "kv")
	if f.idx >= 0 {
		path = idxDir(h.root, f.idx)
	}
	store, ok := kv.GetStoreManager().GetStoreByName(path)
	if !ok {
		h.fatalf("harness: kv store %s is not open", path)
	}
	fam := store.GetFamily(f.name)
	if fam == nil {
		h.fatalf("harness: kv store %s has no family %s", path, f.name)
	}
	return fam
}

func level0Files(f kv.Family) int {
	snap := f.GetSnapshot()
	defer snap.Close()
	return snap.GetCurrent().NumberOfFilesInLevel(0)
}

// compactState is what the harness remembers about completed flushes and compactions - only to
// classify the generated compactions (evidence), never to judge lindb.
type compactState struct {
	metaFlushes []int           // prepare seq of every completed metadata flush
	idxFlushes  [][]int         // per shard: prepare seq of every completed index flush
	compacted   map[string]int  // family -> number of flushes of its store when it was compacted last
	pending     map[string]bool // family compacted, store has not switched to the new files yet
}

func newCompactState(nIdx int) *compactState {
	return &compactState{idxFlushes: make([][]int, nIdx), compacted: map[string]int{}, pending: map[string]bool{}}
}

// sourceOf names the file an entry requested at seq lives in when the family is compacted now:
// "L1" for everything written before the family's last compaction, else the number of the flush
// that wrote it; "" when it is not on disk yet.
func sourceOf(flushes []int, compactedAt, seq int) string {
	for i, fs := range flushes {
		if seq <= fs {
			if i < compactedAt {
				return "L1"
			}
			return fmt.Sprintf("flush%d", i)
		}
	}
	return ""
}

// mixedDepth: the names contain x, y, z with x a proper prefix of y and y < z - a set whose
// lexicographic order differs from a level order of its trie.
func mixedDepth(names []string) bool {
	sort.Strings(names)
	// the names that x is a prefix of follow x directly in sorted order, so it is enough to look at
	// the successor of every name
	for i := 0; i+2 < len(names); i++ {
		if x, y := names[i], names[i+1]; len(y) > len(x) && strings.HasPrefix(y, x) {
			return true
		}
	}
	return false
}

// mergedBuckets classifies the compaction of a dictionary family that is about to run: how many
// of its buckets have entries in >= 2 of the files being merged, and how many of those hold names
// of mixed depth (for the series dictionary, whose keys are hashes: >= 3 entries).
func (h *hist) mergedBuckets(f kvFamily) (merged, mixed int) {
	cs := h.cs
	type bucket struct {
		src   map[string]bool
		names []string
	}
	buckets := map[string]*bucket{}
	add := func(b, name string, flushes []int, seq int) {
		s := sourceOf(flushes, cs.compacted[f.String()], seq)
		if s == "" {
			return
		}
		x := buckets[b]
		if x == nil {
			x = &bucket{src: map[string]bool{}}
			buckets[b] = x
		}
		x.src[s] = true
		x.names = append(x.names, name)
	}
	switch {
	case f.idx < 0:
		nsSeq := map[string]int{}
		for _, k := range sortedMetricKeys(h.m.metrics) {
			mm := h.m.metrics[k]
			if s, ok := nsSeq[k.NS]; !ok || mm.seq < s {
				nsSeq[k.NS] = mm.seq
			}
			switch f.name {
			case "metric":
				add(k.NS, k.Name, cs.metaFlushes, mm.seq)
			case "tv":
				for _, tk := range sortedKeys(mm.tagKeys) {
					for _, v := range sortedKeys(mm.tagKeys[tk].values) {
						add(k.String()+"["+tk+"]", v, cs.metaFlushes, mm.tagKeys[tk].values[v].seq)
					}
				}
			}
		}
		if f.name == "ns" {
			for _, ns := range sortedKeys(nsSeq) {
				add(ns[:1], ns, cs.metaFlushes, nsSeq[ns])
			}
		}
	default:
		for _, k := range sortedMetricKeys(h.m.metrics) {
			for _, c := range sortedKeys(h.m.series[f.idx][k]) {
				add(k.String(), c, cs.idxFlushes[f.idx], h.m.series[f.idx][k][c].seq)
			}
		}
	}
	for _, b := range buckets {
		if len(b.src) < 2 {
			continue
		}
		merged++
		if (f.idx < 0 && mixedDepth(b.names)) || (f.idx >= 0 && len(b.names) >= 3) {
			mixed++
		}
	}
	return merged, mixed
}

// compact = the background compaction job of some of the node's kv families.
func (h *hist) compact() {
	all := h.kvFamilies()
	var chosen []kvFamily
	for _, f := range all {
		if rapid.IntRange(0, 2).Draw(h.t, "compact:"+f.String()) != 0 {
			chosen = append(chosen, f)
		}
	}
	if len(chosen) == 0 {
		chosen = append(chosen, rapid.SampledFrom(all).Draw(h.t, "compactOne"))
	}
	if h.vol != nil && rapid.IntRange(0, 5).Draw(h.t, "compactBulkFamily") != 0 {
		// volume histories: mostly the dictionary family of the bulk bucket takes part
		bf, has := h.vol.family(), false
		for _, f := range chosen {
			has = has || f == bf
		}
		if !has {
			chosen = append(chosen, bf)
		}
	}
	// Family.Compact (more than one level-0 file) or the periodic job (compaction threshold)
	force := rapid.IntRange(0, 4).Draw(h.t, "compactGuard") != 0
	if h.vol != nil && !force {
		force = rapid.Bool().Draw(h.t, "compactGuardVolume") // few flushes per case: the threshold guard rarely lets the job run
	}
	guard := "periodic job"
	if force {
		guard = "Family.Compact"
	}
	h.m.seq++
	var ran []string
	merged, mixed := 0, 0
	h.logf("compaction (%s) of %v ...", guard, chosen)
	at := len(h.ops) - 1
	h.runFlush("compaction", func() error {
		for _, f := range chosen {
			fam := h.family(f)
			files := level0Files(fam)
			var mg, mx int
			if f.isDict() {
				mg, mx = h.mergedBuckets(f)
			}
			ok, err := kv.VerifCompactSync(fam, force)
			if err != nil {
				return fmt.Errorf("compaction of %s: %w", f, err)
			}
			if !ok {
				h.classes["compaction-skipped-by-guard"]++
				continue
			}
			ran = append(ran, fmt.Sprintf("%s(%d level-0 files)", f, files))
			h.classes["compaction-ran"]++
			h.classes["compaction-ran-"+map[bool]string{true: "meta", false: "idx"}[f.idx < 0]+"/"+f.name]++
			if f.idx < 0 {
				h.cs.compacted[f.String()] = len(h.cs.metaFlushes)
			} else {
				h.cs.compacted[f.String()] = len(h.cs.idxFlushes[f.idx])
			}
			if f.isDict() {
				h.cs.pending[f.String()] = true
				merged += mg
				mixed += mx
			}
		}
		return nil
	})
	h.ops[at] = fmt.Sprintf("compaction (%s) of %v: ran %v", guard, chosen, ran)
	h.classes["compact"]++
	if merged > 0 {
		h.classes["compaction-merging-dictionary-buckets-written-in>=2-flushes"]++
		h.classes["dictionary-buckets-merged-from>=2-files"] += merged
	}
	if mixed > 0 {
		h.classes["compaction-merging-buckets-with-names-of-mixed-depth"]++
	}
	if len(ran) > 0 {
		h.compactions = append(h.compactions, compactionRec{at: at, desc: h.ops[at], merged: merged, mixed: mixed})
	}
}

type compactionRec struct {
	at            int
	desc          string
	merged, mixed int
}

// flushed is called when a Flush of the metadata (idx < 0) or of an index database returned:
// dictionaries with something to flush switch to the current files of their family.
func (h *hist) flushed(idx, prepSeq int) {
	store := "meta"
	if idx < 0 {
		h.cs.metaFlushes = append(h.cs.metaFlushes, prepSeq)
	} else {
		h.cs.idxFlushes[idx] = append(h.cs.idxFlushes[idx], prepSeq)
		store = fmt.Sprintf("idx%d", idx)
	}
	for _, f := range sortedKeys(h.cs.pending) {
		if strings.HasPrefix(f, store+"/") {
			// (whether this store had something to flush is not visible from outside)
			h.classes["flush-after-dictionary-compaction"]++
			h.switched[f] = true
			delete(h.cs.pending, f)
		}
	}
}

// reopened: every store reads the current files.
func (h *hist) reopened() {
	for i := -1; i < h.nIdx; i++ {
		h.flushed(i, h.m.seq)
	}
	for _, f := range sortedKeys(h.cs.pending) {
		h.switched[f] = true
		delete(h.cs.pending, f)
	}
}

func (h *hist) recordCompactions(canon string) {
	for _, c := range h.compactions {
		ev.Case("dictionary-compactions", fmt.Sprintf("%s|%d", canon, c.at), c.merged > 0, nil, map[string]any{
			"operation": c.desc, "dictionary_buckets_merged_from_2_or_more_files": c.merged, "of_them_with_names_of_mixed_depth": c.mixed,
		})
	}
}
