package c09

import (
	"fmt"
	"os"
	"path/filepath"
	"runtime"
	"strings"
	"sync"
	"sync/atomic"
	"testing"

	"github.com/lindb/lindb/kv/table"
	"github.com/lindb/lindb/series/field"
	"github.com/lindb/lindb/series/metric"
	"github.com/lindb/lindb/verifharness/sim/crash"
	"github.com/lindb/lindb/verifharness/sim/ev"
)

// Plain reproductions (no rapid) of the defects the generated checks found on the tree the
// harness was written against. Each one passes once the corresponding proposed_fix_*.diff of
// this directory is applied.

// sigSeqNotSynced: metadata ids (metric / tag key / tag value) that were handed out after the
// last sequence sync become durable through a shard's index flush; after a crash the counter
// hands them out again. Listed in known_findings.json = not repaired (then the shape is excluded
// from TestHistory's generator and this reproduction only prints the KNOWN-FINDING line).
const sigSeqNotSynced = "C09/meta-id-durable-in-index-before-sequence-sync"

// barrierRun releases k goroutines at once.
func barrierRun(k int, fn func(g int)) {
	var ready, start atomic.Int32
	var wg sync.WaitGroup
	for g := 0; g < k; g++ {
		wg.Add(1)
		go func(g int) {
			defer wg.Done()
			ready.Add(1)
			for start.Load() == 0 {
				runtime.Gosched()
			}
			fn(g)
		}(g)
	}
	for int(ready.Load()) < k {
		runtime.Gosched()
	}
	start.Store(1)
	wg.Wait()
}

// D2: indexKVStore.getOrCreateValue looks the key up without the lock and createValue creates
// under the lock without looking again: two workers asking for one new name get two ids (and the
// dictionary keeps only the last one). Race: a loop that hits it with probability ~1 (typically
// within the first few hundred names).
func TestRegression_ConcurrentGetOrCreateGivesTwoIDs(t *testing.T) {
	dir := mustTempDir("c09r-")
	defer os.RemoveAll(dir)
	n, err := openNode(dir, 0)
	if err != nil {
		t.Fatal(err)
	}
	defer n.closeRaw()
	const k, names = 4, 6000
	for i := 0; i < names; i++ {
		name := fmt.Sprintf("metric-%d", i)
		var ids [k]uint32
		var errs [k]error
		barrierRun(k, func(g int) {
			id, err := n.meta.GenMetricID([]byte("ns"), []byte(name))
			ids[g], errs[g] = uint32(id), err
		})
		for g := 0; g < k; g++ {
			if errs[g] != nil {
				t.Fatal(errs[g])
			}
			if ids[g] != ids[0] {
				got, _ := n.meta.GetMetricID("ns", name)
				t.Fatalf("name #%d: %d goroutines called GenMetricID(ns, %s) at once and were told ids %v; GetMetricID now says %d", i, k, name, ids, got)
			}
		}
		// same for tag values of one tag key (GenTagValueID uses the same store type)
		var vids [k]uint32
		barrierRun(k, func(g int) {
			vids[g], errs[g] = n.meta.GenTagValueID(7, []byte(name))
		})
		for g := 0; g < k; g++ {
			if errs[g] != nil {
				t.Fatal(errs[g])
			}
			if vids[g] != vids[0] {
				t.Fatalf("name #%d: %d goroutines called GenTagValueID(7, %s) at once and were told ids %v", i, k, name, vids)
			}
		}
	}
}

// D2 (schema store): genFieldID / genTagKeyID fetch the schema without the lock; when two
// workers see "no schema yet" each continues with its own new schema object, only one of which is
// registered: different field names of one metric get the same id and one of them is forgotten.
func TestRegression_ConcurrentSchemaCreateSharesIDs(t *testing.T) {
	dir := mustTempDir("c09r-")
	defer os.RemoveAll(dir)
	n, err := openNode(dir, 0)
	if err != nil {
		t.Fatal(err)
	}
	defer n.closeRaw()
	const k, metrics = 4, 6000
	for i := 0; i < metrics; i++ {
		mid, err := n.meta.GenMetricID([]byte("ns"), []byte(fmt.Sprintf("metric-%d", i)))
		if err != nil {
			t.Fatal(err)
		}
		var fids, kids [k]uint32
		var errs [k]error
		barrierRun(k, func(g int) {
			// the metadata worker creates fields, the shards' index workers create tag keys
			if g%2 == 0 {
				fid, err := n.meta.GenFieldID(mid, field.Meta{Name: field.Name(fmt.Sprintf("field-%d", g)), Type: field.SumField})
				fids[g], errs[g] = uint32(fid), err
			} else {
				kid, err := n.meta.GenTagKeyID(mid, []byte(fmt.Sprintf("key-%d", g)))
				kids[g], errs[g] = uint32(kid), err
			}
		})
		for g := 0; g < k; g++ {
			if errs[g] != nil {
				t.Fatal(errs[g])
			}
		}
		if fids[0] == fids[2] {
			t.Fatalf("metric #%d: concurrent GenFieldID told field-0 and field-2 the same id %d", i, fids[0])
		}
		schema, err := n.meta.GetSchema(mid)
		if err != nil || schema == nil {
			t.Fatalf("metric #%d: GetSchema: %v %v", i, schema, err)
		}
		if len(schema.Fields) != 2 || len(schema.TagKeys) != 2 {
			t.Fatalf("metric #%d: fields field-0/field-2 (ids %d/%d) and tag keys key-1/key-3 (ids %d/%d) were created concurrently, the schema has only fields %v tag keys %+v",
				i, fids[0], fids[2], kids[1], kids[3], schema.Fields, schema.TagKeys)
		}
		for g := 0; g < k; g++ {
			// asking again must give what the creator was told
			if g%2 == 0 {
				fid, _ := n.meta.GenFieldID(mid, field.Meta{Name: field.Name(fmt.Sprintf("field-%d", g)), Type: field.SumField})
				if uint32(fid) != fids[g] {
					t.Fatalf("metric #%d: field-%d was told id %d by the concurrent call and %d now", i, g, fids[g], fid)
				}
			} else {
				kid, _ := n.meta.GenTagKeyID(mid, []byte(fmt.Sprintf("key-%d", g)))
				if uint32(kid) != kids[g] {
					t.Fatalf("metric #%d: key-%d was told id %d by the concurrent call and %d now", i, g, kids[g], kid)
				}
			}
		}
	}
}

func flushCycle(t *testing.T, n *node) {
	t.Helper()
	n.meta.PrepareFlush()
	if err := n.meta.Flush(); err != nil {
		t.Fatal(err)
	}
	for _, d := range n.idx {
		d.PrepareFlush()
		if err := d.Flush(); err != nil {
			t.Fatal(err)
		}
	}
}

func mustWrite(t *testing.T, n *node, m *model, r rowSpec, mode string) {
	t.Helper()
	r.Tags = normTags(r.Tags)
	m.seq++
	if err := applyRow(n, newWire(wireInvert), m, r, 0, mode); err != nil {
		t.Fatal(err)
	}
}

// A flush cycle that finds nothing to flush leaves an empty, non-nil immutable store behind
// (Flush returns early without resetting it), and PrepareFlush only swaps when immutable is nil:
// from then on nothing that store receives is ever flushed again. After an orderly restart the
// names are gone and their ids are handed out to other names.
func TestRegression_EmptyFlushCycleWedgesLaterFlushes(t *testing.T) {
	dir := mustTempDir("c09r-")
	defer os.RemoveAll(dir)
	n, err := openNode(dir, 1)
	if err != nil {
		t.Fatal(err)
	}
	defer func() {
		if n != nil {
			n.closeRaw()
		}
	}()
	m := newModel(1)
	mustWrite(t, n, m, rowSpec{NS: "ns1", Name: "m1", Tags: []kvPair{{"host", "a"}}, Fields: []string{"f1"}}, "meta+index")
	flushCycle(t, n)
	flushCycle(t, n) // nothing new: every store is left with an empty immutable part
	mustWrite(t, n, m, rowSpec{NS: "ns2", Name: "m2", Tags: []kvPair{{"host", "b"}}, Fields: []string{"f2"}}, "meta+index")
	mustWrite(t, n, m, rowSpec{NS: "ns1", Name: "m1", Tags: []kvPair{{"host", "c"}}, Fields: []string{"f3"}}, "meta+index")
	flushCycle(t, n)
	flushCycle(t, n)
	if err := checkAll(n, m, true); err != nil {
		t.Fatalf("before restart: %v", err)
	}
	if err := n.closeGraceful(); err != nil {
		t.Fatal(err)
	}
	n, err = openNode(dir, 1)
	if err != nil {
		t.Fatal(err)
	}
	if err := checkAll(n, m, true); err != nil {
		t.Fatalf("after two complete flush cycles and an orderly restart: %v", err)
	}
}

// metricSchemaStore.Flush writes the schemas of the immutable store and afterwards marks
// everything in them as persisted; the same schema object is also reachable through the mutable
// store, so a field / tag key that a worker appends while the flush is running (here: at the
// table-close seam, i.e. after the schema bytes were produced) is marked persisted although it was
// never written, and no later flush writes it. After an orderly restart the name is gone and the
// next new field of the metric gets its id.
func TestRegression_SchemaFlushMarksUnwrittenFieldPersisted(t *testing.T) {
	dir := mustTempDir("c09r-")
	defer os.RemoveAll(dir)
	n, err := openNode(dir, 0)
	if err != nil {
		t.Fatal(err)
	}
	defer func() {
		if n != nil {
			n.closeRaw()
		}
	}()
	mid, err := n.meta.GenMetricID([]byte("ns"), []byte("m"))
	if err != nil {
		t.Fatal(err)
	}
	f1, _ := n.meta.GenFieldID(mid, field.Meta{Name: "f1", Type: field.SumField})
	var f2 field.ID
	var k2 uint32
	done := false
	table.VerifSetFSHook(func(op, path string, before bool) {
		if !done && before && op == "tableClose" && strings.Contains(path, string(filepath.Separator)+"schema"+string(filepath.Separator)) {
			done = true
			// the metadata worker / an index worker run while the background flush is in progress
			f2, _ = n.meta.GenFieldID(mid, field.Meta{Name: "f2", Type: field.SumField})
			kid, _ := n.meta.GenTagKeyID(mid, []byte("k2"))
			k2 = uint32(kid)
		}
	})
	n.meta.PrepareFlush()
	err = n.meta.Flush()
	table.VerifSetFSHook(nil)
	if err != nil {
		t.Fatal(err)
	}
	if !done {
		t.Fatal("harness: the schema table close seam was not reached")
	}
	flushCycle(t, n) // the cycle that should persist f2 / k2
	if err := n.closeGraceful(); err != nil {
		t.Fatal(err)
	}
	n, err = openNode(dir, 0)
	if err != nil {
		t.Fatal(err)
	}
	schema, err := n.meta.GetSchema(mid)
	if err != nil || schema == nil {
		t.Fatalf("GetSchema after restart: %v %v", schema, err)
	}
	f3, _ := n.meta.GenFieldID(mid, field.Meta{Name: "f3", Type: field.SumField})
	if fm, ok := schema.Fields.Find("f2"); !ok || fm.ID != f2 {
		t.Fatalf("field f2 (id %d, created while the first flush was running, covered by the second flush) is not in the schema after an orderly restart: fields %v (f1 has id %d); the new field f3 now gets id %d",
			f2, schema.Fields, f1, f3)
	}
	if tm, ok := schema.TagKeys.Find("k2"); !ok || uint32(tm.ID) != k2 {
		t.Fatalf("tag key k2 (id %d) is not in the schema after an orderly restart: %+v", k2, schema.TagKeys)
	}
	if f3 == f2 || f3 == f1 {
		t.Fatalf("new field f3 got id %d, fields f1/f2 have %d/%d", f3, f1, f2)
	}
}

// The sequence file only receives the counters in Sequence.Sync, i.e. at the start of a metadata
// flush. Ingestion continues while the flush job runs (metadata flush, then each shard's index
// flush), so ids handed out after the sync are written into the shard index (postings keyed by
// metric id / tag value id, forward index keyed by tag key id) by the index flush. After a process
// crash the counters restart below those ids: a new metric gets the metric id whose postings are
// already on disk, a new tag value the id other series are indexed under.
func TestRegression_IDsReusedAfterCrashBetweenSyncAndNextSync(t *testing.T) {
	if ev.Known(sigSeqNotSynced) {
		ev.KnownFinding("C09", "ids handed out after the last sequence sync and made durable by an index flush are handed out again after a crash ("+sigSeqNotSynced+")")
		return // not skipped: the driver treats a skipped test as inconclusive
	}
	dir := mustTempDir("c09r-")
	defer os.RemoveAll(dir)
	live := filepath.Join(dir, "live")
	n, err := openNode(live, 1)
	if err != nil {
		t.Fatal(err)
	}
	defer n.closeRaw()
	m := newModel(1)
	mustWrite(t, n, m, rowSpec{NS: "ns", Name: "m1", Tags: []kvPair{{"host", "a"}}, Fields: []string{"f"}}, "meta+index")
	// the flush job: metadata first ...
	n.meta.PrepareFlush()
	if err := n.meta.Flush(); err != nil {
		t.Fatal(err)
	}
	// ... ingestion goes on ...
	mustWrite(t, n, m, rowSpec{NS: "ns", Name: "m2", Tags: []kvPair{{"host", "b"}}, Fields: []string{"f"}}, "meta+index")
	// ... then the shard's index
	n.idx[0].PrepareFlush()
	if err := n.idx[0].Flush(); err != nil {
		t.Fatal(err)
	}
	if err := checkAll(n, m, true); err != nil {
		t.Fatal(err)
	}
	oldM2 := m.metrics[mkey{"ns", "m2"}]
	// the process dies here
	img := filepath.Join(dir, "img")
	if err := crash.CopyTree(live, img); err != nil {
		t.Fatal(err)
	}
	r, err := openNode(img, 1)
	if err != nil {
		t.Fatal(err)
	}
	defer r.closeRaw()
	if _, found, _ := lookupMetric(r, mkey{"ns", "m2"}); found {
		t.Fatal("harness: m2 was expected to be lost (its dictionary was not flushed)")
	}
	posted, err := r.idx[0].GetSeriesIDsForMetric(metric.ID(oldM2.id))
	if err != nil {
		t.Fatal(err)
	}
	mid3, err := r.meta.GenMetricID([]byte("ns"), []byte("m3"))
	if err != nil {
		t.Fatal(err)
	}
	if uint32(mid3) == oldM2.id && !posted.IsEmpty() {
		t.Fatalf("after the crash the new metric ns/m3 got metric id %d; the recovered index of shard 0 already holds postings %s under that id (they belong to the lost metric ns/m2)",
			mid3, bitmapString(posted))
	}
	rm := newModel(1)
	rm.seq = 1
	if err := applyRow(r, newWire(wireInvert), rm, rowSpec{NS: "ns", Name: "m1", Tags: []kvPair{{"host", "c"}}, Fields: []string{"f"}}, 0, "meta+index"); err != nil {
		t.Fatal(err)
	}
	if err := checkAll(r, rm, false); err != nil {
		t.Fatal(err)
	}
	newVal := rm.metrics[mkey{"ns", "m1"}].tagKeys["host"].values["c"]
	oldVal := oldM2.tagKeys["host"].values["b"]
	if newVal.id == oldVal.id {
		t.Fatalf("after the crash the new tag value host=c got id %d, under which the recovered inverted index already lists the series of the lost value host=b", newVal.id)
	}
}
