package c09

import (
	"errors"
	"fmt"
	"os"
	"path/filepath"
	"runtime"
	"runtime/debug"
	"sort"
	"strings"
	"testing"

	"pgregory.net/rapid"

	"github.com/lindb/lindb/constants"
	"github.com/lindb/lindb/models"
	"github.com/lindb/lindb/series/field"
	"github.com/lindb/lindb/series/metric"
	"github.com/lindb/lindb/verifharness/sim/ev"
)

// Part (b), limits class: the database limits as a generated dimension, together with wide metrics.
//
// Every get-or-create path consults the limits of the database (models.SetDatabaseLimits: the
// limits file of the database, which an operator may change while the node runs -
// tsdb.database.SetLimits): max-namespaces, max-metrics, max-fields-per-metric,
// max-tags-per-metric, max-series-per-metric and the per-metric series limits ([metrics] table).
// A case draws every one of them from {disabled (0), small, default, around and above 256 / above
// what the id type can represent} and drives metrics that receive MORE distinct field names, tag
// keys, series (and the database more namespaces / metric names) than the limits and than 256:
// wide metrics arise in production from many rows that each bring a few new fields (histogram
// buckets) or tag keys.
//
// Oracle of C09, on the answers of the creators (id or refusal):
//
//   - accepted names: the reference model and oracles of the other histories (functional and
//     stable, injective per scope - two field names of one metric never share a field id, field.ID
//     is uint8: what the id type cannot represent must be refused, not wrap -, GetSchema /
//     dictionaries / postings / forward index agree with what the creators were told), live, after
//     flush cycles and after reopen;
//   - a refusal is one of the documented limit errors and creates nothing: the refused name is not
//     in the schema / dictionaries / postings (exact lookups), no id of it is visible anywhere;
//   - refusals are consistent: while the limits are unchanged a refused name stays refused (live,
//     after a flush cycle, after reopen) - names are never deleted, so the count a limit looks at
//     never shrinks; names that have an id keep it whatever the limits are changed to.
//
// Where exactly a limit cuts (the tree accepts limit+1 names) is recorded in the evidence classes,
// not asserted.

var (
	limFields  = []int{0, 1, 2, 3, 5, 8, 254, 255, 256, 256, 257, 300, 1024, 70000}
	limTags    = []int{0, 1, 2, 3, 32, 32, 254, 255, 256, 300, 1000}
	limSeries  = []uint32{0, 1, 2, 3, 5, 200000, 200000}
	limNS      = []uint32{0, 0, 0, 1, 2, 3}
	limMetrics = []uint32{0, 0, 0, 1, 2, 4, 6}

	limNSPool     = []string{"default-ns", "ns-a", "ns-b", "ns-c", "nt"}
	limMetricPool = []string{"wide", "wide.b", "cpu", "mem", "disk"}
)

// sigSeriesLimit: see TestRegression_SeriesRefusedByLimitKeepsItsDictionaryEntry.
const sigSeriesLimit = "C09/series-refused-by-limit-keeps-dictionary-entry"

type limHist struct {
	t       *rapid.T
	root    string
	nIdx    int
	n       *node
	w       *wire
	m       *model
	lim     *models.Limits
	limGen  int
	ops     []string
	classes map[string]int
	fresh   int

	refused  map[string]int // kind|scope|name -> limits generation of the refusal
	refusedN map[string]int // scope -> refusals (evidence)
	// requested distinct names per scope (accepted or refused)
	asked map[string]int
	// series scopes (shard, metric) that refused a series (known finding: left alone afterwards)
	seriesRefused map[string]bool
	refusedRows   map[string]refusedRow // refused series: the row, to request it again
	reopens       int
}

type refusedRow struct {
	shard int
	row   rowSpec
}

func (h *limHist) logf(format string, args ...any) {
	h.ops = append(h.ops, fmt.Sprintf(format, args...))
}

func (h *limHist) fatalf(format string, args ...any) {
	h.t.Helper()
	h.t.Fatalf("%s\nlimits: %s\nhistory (%d index databases):\n  %s", clip(fmt.Sprintf(format, args...), 6000), limString(h.lim), h.nIdx, strings.Join(h.ops, "\n  "))
}

// guarded: a run-time error inside lindb is reported with the history.
func (h *limHist) guarded(fn func()) {
	defer func() {
		if r := recover(); r != nil {
			if re, ok := r.(runtime.Error); ok {
				h.fatalf("RUN-TIME ERROR inside a call: %v\n%s", re, debug.Stack())
			}
			panic(r) // rapid's own control flow
		}
	}()
	fn()
}

func limString(l *models.Limits) string {
	return fmt.Sprintf("max-namespaces=%d max-metrics=%d max-fields-per-metric=%d max-tags-per-metric=%d max-series-per-metric=%d metrics=%v",
		l.MaxNamespaces, l.MaxMetrics, l.MaxFieldsPerMetric, l.MaxTagsPerMetric, l.MaxSeriesPerMetric, l.Metrics)
}

func drawLimits(t *rapid.T, label string) *models.Limits {
	l := models.NewDefaultLimits()
	l.MaxFieldsPerMetric = rapid.SampledFrom(limFields).Draw(t, label+"maxFields")
	l.MaxTagsPerMetric = rapid.SampledFrom(limTags).Draw(t, label+"maxTags")
	l.MaxSeriesPerMetric = rapid.SampledFrom(limSeries).Draw(t, label+"maxSeries")
	l.MaxNamespaces = rapid.SampledFrom(limNS).Draw(t, label+"maxNamespaces")
	l.MaxMetrics = rapid.SampledFrom(limMetrics).Draw(t, label+"maxMetrics")
	if rapid.IntRange(0, 2).Draw(t, label+"perMetricSeries") == 0 {
		// [metrics] table: "name" for the default namespace, "namespace|name" otherwise
		l.Metrics["wide"] = rapid.SampledFrom([]uint32{1, 2, 4}).Draw(t, label+"seriesOfWide")
		l.Metrics["ns-a|wide"] = rapid.SampledFrom([]uint32{1, 3}).Draw(t, label+"seriesOfNsAWide")
	}
	return l
}

func limClass(kind string, v int) string {
	switch {
	case v == 0:
		return kind + "=disabled"
	case v <= 8:
		return kind + "=small"
	case v < 254:
		return kind + "=default-range"
	case v <= 256:
		return kind + "=254..256"
	case v <= 65535:
		return kind + "=above-256"
	}
	return kind + "=above-65535"
}

func (h *limHist) setLimits(label string) {
	h.lim = drawLimits(h.t, label)
	h.limGen++
	models.SetDatabaseLimits(dbName, h.lim)
	h.logf("set limits: %s", limString(h.lim))
	h.classes[limClass("max-fields", h.lim.MaxFieldsPerMetric)]++
	h.classes[limClass("max-tags", h.lim.MaxTagsPerMetric)]++
	h.classes[limClass("max-series", int(h.lim.MaxSeriesPerMetric))]++
	h.classes[limClass("max-namespaces", int(h.lim.MaxNamespaces))]++
	h.classes[limClass("max-metrics", int(h.lim.MaxMetrics))]++
	if len(h.lim.Metrics) > 0 {
		h.classes["per-metric-series-limits"]++
	}
}

// refusal judges an error of a creator: it must be the documented limit error of the kind. The
// refusal is remembered; where it cut is recorded.
func (h *limHist) refusal(kind, scope, name string, err, want error, have, limit, hard int) {
	if !errors.Is(err, want) {
		h.fatalf("%s %s %s: unexpected error %v (want an id or %v)", kind, scope, name, err, want)
	}
	key := kind + "|" + scope + "|" + name
	if _, ok := h.refused[key]; !ok {
		h.refusedN[kind+"|"+scope]++
	}
	h.refused[key] = h.limGen
	h.classes[kind+"-refused"]++
	switch {
	case limit > 0 && have == limit+1 && (hard == 0 || have < hard):
		h.classes[kind+"-refused-with-limit+1-names-in-scope"]++
	case limit > 0 && have == limit:
		h.classes[kind+"-refused-with-limit-names-in-scope"]++
	case hard > 0 && have >= hard:
		h.classes[fmt.Sprintf("%s-refused-by-the-bound-of-the-id-type-with-%d-names-in-scope", kind, have)]++
	case limit == 0 || have < limit:
		h.classes["suspicious-"+kind+"-refused-below-the-limit"]++
	default:
		h.classes[kind+"-refused-above-the-limit"]++
	}
}

// accepted: a name that was refused under the limits in force must not be accepted now.
func (h *limHist) accepted(kind, scope, name string, id uint32) {
	key := kind + "|" + scope + "|" + name
	if gen, ok := h.refused[key]; ok {
		if gen == h.limGen {
			h.fatalf("REFUSAL NOT CONSISTENT: %s %s %s was refused under these limits and is given id %d now (limits unchanged, names are never deleted)", kind, scope, name, id)
		}
		delete(h.refused, key)
		h.classes[kind+"-accepted-after-the-limits-were-changed"]++
	}
	h.classes[kind+"-accepted"]++
}

func (h *limHist) drawMetric(label string) mkey {
	ns := rapid.SampledFrom(limNSPool).Draw(h.t, label+"ns")
	name := rapid.SampledFrom(limMetricPool).Draw(h.t, label+"metric")
	// most requests go to metrics that exist
	if ks := sortedMetricKeys(h.m.metrics); len(ks) > 0 && rapid.IntRange(0, 3).Draw(h.t, label+"known") != 0 {
		return rapid.SampledFrom(ks).Draw(h.t, label+"knownMetric")
	}
	return mkey{ns, name}
}

// metricID requests the id of a metric (GenMetricID) and judges a refusal.
func (h *limHist) metricID(k mkey) (metric.ID, bool) {
	mid, err := h.n.meta.GenMetricID(h.w.arg(k.NS), h.w.arg(k.Name))
	h.w.returned()
	nNS := map[string]bool{}
	for mk := range h.m.metrics {
		nNS[mk.NS] = true
	}
	if err != nil {
		if errors.Is(err, constants.ErrTooManyNamespace) {
			if nNS[k.NS] {
				h.fatalf("GenMetricID(%s): %v, but the namespace exists (metrics of it have ids)", k, err)
			}
			h.refusal("namespace", "db", k.NS, err, constants.ErrTooManyNamespace, len(nNS), int(h.lim.MaxNamespaces), 0)
		} else {
			if mm := h.m.metrics[k]; mm != nil && mm.has {
				h.fatalf("NOT FUNCTIONAL/STABLE: metric %s has id %d, GenMetricID now fails: %v", k, mm.id, err)
			}
			h.refusal("metric", "db", k.String(), err, constants.ErrTooManyMetric, len(h.m.metrics), int(h.lim.MaxMetrics), 0)
		}
		h.logf("GenMetricID(%s) -> %v", k, err)
		return 0, false
	}
	if !nNS[k.NS] {
		h.accepted("namespace", "db", k.NS, 0)
	}
	if mm := h.m.metrics[k]; mm == nil || !mm.has {
		h.accepted("metric", "db", k.String(), uint32(mid))
		h.logf("GenMetricID(%s) -> %d", k, mid)
	}
	if err := h.m.observe(obs{Kind: "metric", NS: k.NS, Name: k.Name, ID: uint32(mid)}); err != nil {
		h.fatalf("%v", err)
	}
	return mid, true
}

// target draws how many names a scope should have been asked for after the operation: around the
// limit in force, around the bound of the id type, or a few more than now.
func (h *limHist) target(label string, now, limit int) int {
	cands := []int{now + 1, now + 2, now + 5}
	for _, c := range []int{limit - 1, limit, limit + 1, limit + 2, limit + 3, 254, 255, 256, 257, 258, 270, 300} {
		if c > now && c <= now+320 && c <= 330 {
			cands = append(cands, c)
		}
	}
	return rapid.SampledFrom(cands).Draw(h.t, label)
}

// fields: rows of the metric bring new field names (the metadata worker: GenMetricID, then
// GenFieldID per field of the row) until the metric has been asked for `target` distinct names.
func (h *limHist) fields() {
	k := h.drawMetric("fields:")
	h.m.seq++
	mid, ok := h.metricID(k)
	if !ok {
		return
	}
	scope := k.String()
	now := h.asked["field|"+scope]
	target := h.target("fieldsTarget", now, h.lim.MaxFieldsPerMetric)
	acc, ref := 0, 0
	firstRef := ""
	for i := now; i < target; i++ {
		name := fmt.Sprintf("f%d", i)
		if i%7 == 3 {
			name = fmt.Sprintf("__bucket_%d", i)
		}
		have := len(h.m.metrics[k].fields)
		fid, err := h.n.meta.GenFieldID(mid, field.Meta{Name: field.Name(name), Type: field.SumField})
		if err != nil {
			h.refusal("field", scope, name, err, constants.ErrTooManyFields, have, h.lim.MaxFieldsPerMetric, 255)
			if ref++; firstRef == "" {
				firstRef = fmt.Sprintf("%s with %d fields", name, have)
			}
			continue
		}
		acc++
		h.accepted("field", scope, name, uint32(fid))
		if err := h.m.observe(obs{Kind: "field", NS: k.NS, Name: k.Name, Key: name, ID: uint32(fid)}); err != nil {
			h.fatalf("%v", err)
		}
	}
	h.asked["field|"+scope] = target
	h.logf("fields of %s: names #%d..#%d requested: %d accepted, %d refused (first refusal: %s); the metric has %d fields", k, now, target-1, acc, ref, firstRef, len(h.m.metrics[k].fields))
	if target > 256 {
		h.classes["metric-asked-for-more-than-256-field-names"]++
	}
	if n := len(h.m.metrics[k].fields); n >= 255 {
		h.classes[fmt.Sprintf("metric-with-%d-fields", n)]++
	}
	// injective per metric right away (the wrap of an id shows here)
	if err := h.m.checkInjective(); err != nil {
		h.fatalf("%v", err)
	}
}

// tagKeys: new tag keys of a metric through the calls the index worker issues against the shared
// metadata database for a new series (GenTagKeyID, GenTagValueID).
func (h *limHist) tagKeys() {
	k := h.drawMetric("tagKeys:")
	h.m.seq++
	mid, ok := h.metricID(k)
	if !ok {
		return
	}
	scope := k.String()
	now := h.asked["tagkey|"+scope]
	target := h.target("tagKeysTarget", now, h.lim.MaxTagsPerMetric)
	acc, ref := 0, 0
	firstRef := ""
	for i := now; i < target; i++ {
		name := fmt.Sprintf("k%d", i)
		have := len(h.m.metrics[k].tagKeys)
		kid, err := h.n.meta.GenTagKeyID(mid, h.w.arg(name))
		h.w.returned()
		if err != nil {
			h.refusal("tagkey", scope, name, err, constants.ErrTooManyTagKeys, have, h.lim.MaxTagsPerMetric, 255)
			if ref++; firstRef == "" {
				firstRef = fmt.Sprintf("%s with %d tag keys", name, have)
			}
			continue
		}
		acc++
		h.accepted("tagkey", scope, name, uint32(kid))
		if err := h.m.observe(obs{Kind: "tagkey", NS: k.NS, Name: k.Name, Key: name, ID: uint32(kid)}); err != nil {
			h.fatalf("%v", err)
		}
		if i%4 == 0 || i < 3 {
			v := rapid.SampledFrom(histValPool).Draw(h.t, "tagKeyValue")
			vid, err := h.n.meta.GenTagValueID(kid, h.w.arg(v))
			h.w.returned()
			if err != nil {
				h.fatalf("GenTagValueID(%s[%s=%s]): %v", k, name, v, err)
			}
			if err := h.m.observe(obs{Kind: "tagval", NS: k.NS, Name: k.Name, Key: name, Value: v, ID: vid}); err != nil {
				h.fatalf("%v", err)
			}
		}
	}
	h.asked["tagkey|"+scope] = target
	h.logf("tag keys of %s: names #%d..#%d requested: %d accepted, %d refused (first refusal: %s); the metric has %d tag keys", k, now, target-1, acc, ref, firstRef, len(h.m.metrics[k].tagKeys))
	if target > 256 {
		h.classes["metric-asked-for-more-than-256-tag-keys"]++
	}
	if err := h.m.checkInjective(); err != nil {
		h.fatalf("%v", err)
	}
}

// seriesRow draws a row of the metric whose tag keys all exist (GenSeriesID swallows a refused
// tag key; keys that may be refused go through tagKeys).
func (h *limHist) seriesRow(k mkey, i int) rowSpec {
	r := rowSpec{NS: k.NS, Name: k.Name, Fields: []string{"f0"}}
	keys := sortedKeys(h.m.metrics[k].tagKeys)
	var have []string
	for _, tk := range keys {
		if h.m.metrics[k].tagKeys[tk].has {
			have = append(have, tk)
		}
	}
	if len(have) > 0 && i > 0 {
		for j := 0; j < 1+i%2 && j < len(have); j++ {
			tk := have[(i+j*3)%len(have)]
			r.Tags = append(r.Tags, kvPair{tk, fmt.Sprintf("s%d", i)})
		}
		r.Tags = normTags(r.Tags)
	}
	return r
}

// series: new series of one (shard, metric) through the index worker (GenMetricID, GenSeriesID).
func (h *limHist) series() {
	k := h.drawMetric("series:")
	shard := rapid.IntRange(0, h.nIdx-1).Draw(h.t, "seriesShard")
	h.m.seq++
	mid, ok := h.metricID(k)
	if !ok {
		return
	}
	scope := fmt.Sprintf("idx%d %s", shard, k)
	if h.seriesRefused[scope] && ev.Known(sigSeriesLimit) {
		h.classes["excluded_known"]++
		return
	}
	limit := int(h.lim.GetSeriesLimit(k.NS, k.Name))
	now := h.asked["series|"+scope]
	n := rapid.IntRange(1, 4).Draw(h.t, "seriesCount")
	if limit > 0 && limit < 10 && rapid.Bool().Draw(h.t, "seriesToLimit") {
		n = limit + 3 - now
		if n < 1 {
			n = 2
		}
	}
	acc, ref := 0, 0
	for i := now; i < now+n; i++ {
		r := h.seriesRow(k, i)
		block, err := marshalRow(r)
		if err != nil {
			h.fatalf("harness: %v", err)
		}
		row, err := h.w.decode(block)
		if err != nil {
			h.fatalf("%v", err)
		}
		have := len(h.m.series[shard][k])
		sid, err := h.n.idx[shard].GenSeriesID(mid, row)
		h.w.rowReturned()
		name := "{" + r.canonTags() + "}"
		if err != nil {
			h.refusal("series", scope, name, err, constants.ErrTooManySeries, have, limit, 0)
			h.seriesRefused[scope] = true
			h.refusedRows["series|"+scope+"|"+name] = refusedRow{shard, r}
			ref++
			h.logf("GenSeriesID(%s %s) with %d series -> %v", scope, name, have, err)
			if ev.Known(sigSeriesLimit) {
				// known finding: the refused series keeps its dictionary entry; the scope is left alone
				n = i - now + 1
				break
			}
			continue
		}
		acc++
		h.accepted("series", scope, name, sid)
		h.logf("GenSeriesID(%s %s) -> %d", scope, name, sid)
		if err := h.m.observeSeries(shard, r, sid); err != nil {
			h.fatalf("%v", err)
		}
	}
	h.asked["series|"+scope] = now + n
	if err := h.m.checkInjective(); err != nil {
		h.fatalf("%v", err)
	}
}

// again requests names again: accepted ones keep their ids, refused ones stay refused while the
// limits are unchanged.
func (h *limHist) again(all bool) {
	h.m.seq++
	pickN := func(n int) int {
		if all || n == 0 {
			return n
		}
		return rapid.IntRange(1, min(n, 12)).Draw(h.t, "againCount")
	}
	// accepted names through the workers
	ks := sortedMetricKeys(h.m.metrics)
	for _, k := range ks {
		mm := h.m.metrics[k]
		if !all && rapid.IntRange(0, 2).Draw(h.t, "againSkipMetric") == 0 {
			continue
		}
		mid, ok := h.metricID(k)
		if !ok {
			h.fatalf("NOT FUNCTIONAL/STABLE: metric %s had id %d and is refused now", k, mm.id)
		}
		fs := sortedKeys(mm.fields)
		for j, c := 0, pickN(len(fs)); j < c; j++ {
			f := fs[(j*37+h.fresh)%len(fs)]
			fid, err := h.n.meta.GenFieldID(mid, field.Meta{Name: field.Name(f), Type: field.SumField})
			if err != nil {
				h.fatalf("NOT FUNCTIONAL/STABLE: field %s.%s had id %d, GenFieldID now fails: %v", k, f, mm.fields[f].id, err)
			}
			if err := h.m.observe(obs{Kind: "field", NS: k.NS, Name: k.Name, Key: f, ID: uint32(fid)}); err != nil {
				h.fatalf("%v", err)
			}
		}
		tks := sortedKeys(mm.tagKeys)
		for j, c := 0, pickN(len(tks)); j < c; j++ {
			tk := tks[(j*37+h.fresh)%len(tks)]
			kid, err := h.n.meta.GenTagKeyID(mid, h.w.arg(tk))
			h.w.returned()
			if err != nil {
				h.fatalf("NOT FUNCTIONAL/STABLE: tag key %s[%s] had id %d, GenTagKeyID now fails: %v", k, tk, mm.tagKeys[tk].id, err)
			}
			if err := h.m.observe(obs{Kind: "tagkey", NS: k.NS, Name: k.Name, Key: tk, ID: uint32(kid)}); err != nil {
				h.fatalf("%v", err)
			}
		}
		for i := range h.n.idx {
			cs := sortedKeys(h.m.series[i][k])
			for j, c := 0, pickN(len(cs)); j < c; j++ {
				s := h.m.series[i][k][cs[(j*37+h.fresh)%len(cs)]]
				var out []obs
				r := rowSpec{NS: k.NS, Name: k.Name, Tags: s.tags, Fields: []string{"f0"}}
				block, err := marshalRow(r)
				if err != nil {
					h.fatalf("harness: %v", err)
				}
				if err := indexWorkerRow(h.n, h.w, i, r, block, &out); err != nil {
					h.fatalf("NOT FUNCTIONAL/STABLE: series idx%d %s{%s} had id %d, now: %v", i, k, r.canonTags(), s.id, err)
				}
				if err := h.m.observeAll(r, out); err != nil {
					h.fatalf("%v", err)
				}
			}
		}
	}
	h.fresh++
	// refused names
	keys := make([]string, 0, len(h.refused))
	for key := range h.refused {
		keys = append(keys, key)
	}
	sort.Strings(keys)
	asked := 0
	for j, c := 0, pickN(len(keys)); j < c; j++ {
		key := keys[(j*31+h.fresh)%len(keys)]
		if h.refused[key] != h.limGen {
			continue // refused under other limits: nothing is known about it now
		}
		parts := strings.SplitN(key, "|", 3)
		kind, scope, name := parts[0], parts[1], parts[2]
		switch kind {
		case "field", "tagkey":
			var k mkey
			for _, c := range ks {
				if c.String() == scope {
					k = c
				}
			}
			mid := metric.ID(h.m.metrics[k].id)
			var id uint32
			var err error
			if kind == "field" {
				var fid field.ID
				fid, err = h.n.meta.GenFieldID(mid, field.Meta{Name: field.Name(name), Type: field.SumField})
				id = uint32(fid)
			} else {
				kid, e := h.n.meta.GenTagKeyID(mid, h.w.arg(name))
				h.w.returned()
				id, err = uint32(kid), e
			}
			if err == nil {
				h.accepted(kind, scope, name, id) // reports
			}
			asked++
		case "series":
			if ev.Known(sigSeriesLimit) {
				continue
			}
			rr := h.refusedRows[key]
			block, err := marshalRow(rr.row)
			if err != nil {
				h.fatalf("harness: %v", err)
			}
			var out []obs
			if err := indexWorkerRow(h.n, h.w, rr.shard, rr.row, block, &out); err == nil {
				h.accepted(kind, scope, name, out[len(out)-1].ID) // reports
			} else if !errors.Is(err, constants.ErrTooManySeries) {
				h.fatalf("series %s %s requested again: %v", scope, name, err)
			}
			asked++
		case "metric":
			i := strings.Index(name, "/")
			if _, ok := h.metricID(mkey{name[:i], name[i+1:]}); ok {
				h.fatalf("harness: unreachable")
			}
			asked++
		case "namespace":
			if _, ok := h.metricID(mkey{name, "cpu"}); ok {
				h.fatalf("harness: unreachable")
			}
			asked++
		}
	}
	if asked > 0 {
		h.classes["refused-names-requested-again"] += asked
		if h.reopens > 0 {
			h.classes["refused-names-requested-again-after-a-reopen"] += asked
		}
	}
	h.logf("requested again: accepted names of %d metrics, %d refused names (still refused)", len(ks), asked)
}

func (h *limHist) flushCycle() {
	h.m.seq++
	h.logf("flush cycle")
	h.n.meta.PrepareFlush()
	if err := h.n.meta.Flush(); err != nil {
		h.fatalf("metadata Flush: %v", err)
	}
	for i, d := range h.n.idx {
		d.PrepareFlush()
		if err := d.Flush(); err != nil {
			h.fatalf("index %d Flush: %v", i, err)
		}
	}
	h.classes["flush-cycle"]++
}

func (h *limHist) reopen() {
	h.m.seq++
	h.logf("reopen (graceful close)")
	if err := h.n.closeGraceful(); err != nil {
		h.fatalf("graceful close: %v", err)
	}
	h.n = nil
	n, err := openNode(h.root, h.nIdx)
	if err != nil {
		h.fatalf("reopen: %v", err)
	}
	h.n = n
	h.reopens++
	h.classes["reopen"]++
	h.check("after reopen")
}

// check = the complete oracle of the accepted names (exact: nothing but what was accepted is in
// the schemas / dictionaries / postings / forward index).
func (h *limHist) check(where string) {
	if err := checkAll(h.n, h.m, true); err != nil {
		h.fatalf("%s: %v", where, err)
	}
	h.classes["oracle-"+strings.ReplaceAll(where, " ", "-")]++
}

func runLimits(t *rapid.T) {
	dir := mustTempDir("c09l-")
	nIdx := rapid.IntRange(1, 2).Draw(t, "nIdx")
	h := &limHist{
		t: t, root: filepath.Join(dir, "live"), nIdx: nIdx, m: newModel(nIdx), classes: map[string]int{},
		refused: map[string]int{}, refusedN: map[string]int{}, asked: map[string]int{}, seriesRefused: map[string]bool{},
		refusedRows: map[string]refusedRow{},
	}
	h.w = newWire(rapid.SampledFrom(wireModes).Draw(t, "wireMode"))
	defer func() {
		models.SetDatabaseLimits(dbName, models.NewDefaultLimits())
		if h.n != nil {
			h.n.closeRaw()
		}
		_ = os.RemoveAll(dir)
	}()
	h.setLimits("")
	n, err := openNode(h.root, nIdx)
	if err != nil {
		t.Fatalf("open: %v", err)
	}
	h.n = n
	step := func(fn func()) func(*rapid.T) {
		return func(t *rapid.T) { h.t = t; h.guarded(fn) }
	}
	t.Repeat(map[string]func(*rapid.T){
		"fields":  step(h.fields),
		"fields2": step(h.fields),
		"tagKeys": step(h.tagKeys),
		"series":  step(h.series),
		"series2": step(h.series),
		"metric": step(func() {
			h.m.seq++
			h.metricID(mkey{rapid.SampledFrom(limNSPool).Draw(h.t, "ns"), rapid.SampledFrom(limMetricPool).Draw(h.t, "metric")})
		}),
		"again":      step(func() { h.again(false) }),
		"flushCycle": step(h.flushCycle),
		"reopen":     step(h.reopen),
		"setLimits": step(func() {
			if rapid.IntRange(0, 2).Draw(h.t, "reallySetLimits") != 0 {
				h.t.Skip("limits are changed rarely")
			}
			h.setLimits("new:")
			h.classes["limits-changed-while-the-node-runs"]++
		}),
		"": step(func() { h.check("live") }),
	})
	h.t = t
	h.guarded(func() {
		h.check("live")
		h.again(true)
		h.flushCycle()
		h.reopen()
		h.again(true)
		h.check("at the end")
	})

	canon := fmt.Sprintf("%d|%s|%v", nIdx, h.w.mode, h.ops)
	for c, n := range h.classes {
		ev.Class("TestLimitsHistory", c, n)
	}
	maxFields, maxKeys, refusals := 0, 0, 0
	for _, mm := range h.m.metrics {
		maxFields, maxKeys = max(maxFields, len(mm.fields)), max(maxKeys, len(mm.tagKeys))
	}
	for _, n := range h.refusedN {
		refusals += n
	}
	ev.Case("TestLimitsHistory", canon, refusals > 0, nil, map[string]any{
		"index_databases": nIdx, "first_limits": h.ops[0], "most_fields_of_a_metric": maxFields, "most_tag_keys_of_a_metric": maxKeys,
		"distinct_refused_names": refusals, "history": h.ops,
	})
}

func TestLimitsHistory(t *testing.T) {
	rapid.Check(t, runLimits)
}
