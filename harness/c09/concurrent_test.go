package c09

import (
	"encoding/json"
	"fmt"
	"os"
	"regexp"
	"runtime"
	"strings"
	"sync"
	"sync/atomic"
	"testing"

	"pgregory.net/rapid"

	"github.com/lindb/lindb/verifharness/sim/ev"
)

// Part (a): real goroutines. One case = one database (one MetricMetaDatabase shared by 1..3
// MetricIndexDatabases) and a number of rounds; in every round k goroutines are released by a
// barrier and run the call sequences of the production workers on overlapping and distinct rows:
//
//	goroutine 0        the metadata worker            (GenMetricID, GenFieldID)
//	goroutine 1..n     the index worker of shard i    (GenMetricID, GenSeriesID on ITS index database,
//	                                                   which calls GenTagKeyID / GenTagValueID)
//	goroutine n+1..    index workers of further shards, reduced to their calls against the shared
//	                   metadata database            (GenMetricID, GenTagKeyID, GenTagValueID)
//	0..2 more          query goroutines: 1-4 read-only metadata queries each (query_test.go) about
//	                   names of earlier rounds and names that are being created in this round
//
// Every creator goroutine owns one wire (c09_test.go): its []byte arguments live in reused buffers
// that are overwritten after each call. One index database is only ever used by one goroutine at a time, as in production. PrepareFlush /
// Flush steps (production order) are placed between rounds. The schedule inside a round belongs to
// the Go scheduler: this part is schedule dependent by nature and a failure is reported with the
// complete record of the round.

type roundRec struct {
	Round     int         `json:"round"`
	FlushLog  []string    `json:"flush_steps_before_round,omitempty"`
	Roles     []string    `json:"roles"`
	Work      [][]rowSpec `json:"rows_per_goroutine"`
	Answers   [][]string  `json:"answers_per_goroutine"`
	Queries   [][]string  `json:"queries_per_query_goroutine,omitempty"`
	SharedNew int         `json:"rows_with_new_names_given_to_2+_goroutines"`
}

type conc struct {
	t      *rapid.T
	n      *node
	m      *model
	k      int // creators
	nq     int // goroutines running read-only metadata queries next to the creators
	mode   string
	nQuery int // queries run so far
	nIdx   int
	roles  []string
	fresh  int
	known  []rowSpec // rows used in earlier rounds (names that exist)
	phase  int
	pend   []int
	cur    int
	flog   []string
	rounds []roundRec
	wires  []*wire // one per goroutine
}

func (c *conc) freshName(prefix string) string {
	c.fresh++
	return fmt.Sprintf("%s%d", prefix, c.fresh)
}

// genRow draws a row; isNew reports whether it contains a name nobody asked for before.
func (c *conc) genRow(label string) (rowSpec, bool) {
	t := c.t
	isNew := false
	var r rowSpec
	if len(c.known) > 0 && rapid.IntRange(0, 2).Draw(t, label+"reuseMetric") == 0 {
		old := rapid.SampledFrom(c.known).Draw(t, label+"oldRow")
		r.NS, r.Name = old.NS, old.Name
	} else {
		if rapid.IntRange(0, 5).Draw(t, label+"freshNS") == 0 {
			r.NS = c.freshName("ns-")
		} else {
			r.NS = rapid.SampledFrom(nsUniverse).Draw(t, label+"ns")
		}
		r.Name = c.freshName("m")
		isNew = true
	}
	nTags := rapid.IntRange(0, 3).Draw(t, label+"nTags")
	for i := 0; i < nTags; i++ {
		k := rapid.SampledFrom(keyUniverse).Draw(t, label+"key")
		if isNew && rapid.IntRange(0, 5).Draw(t, label+"freshKey") == 0 {
			k = c.freshName("k")
		}
		v := rapid.SampledFrom(valUniverse).Draw(t, label+"val")
		if rapid.IntRange(0, 1).Draw(t, label+"freshVal") == 0 {
			v = c.freshName("v")
			isNew = true
		}
		r.Tags = append(r.Tags, kvPair{k, v})
	}
	r.Tags = normTags(r.Tags)
	nFields := rapid.IntRange(1, 3).Draw(t, label+"nFields")
	seen := map[string]bool{}
	for i := 0; i < nFields; i++ {
		f := rapid.SampledFrom(fieldUniverse).Draw(t, label+"field")
		if rapid.IntRange(0, 3).Draw(t, label+"freshField") == 0 {
			f = c.freshName("f")
			isNew = true
		}
		if !seen[f] {
			seen[f] = true
			r.Fields = append(r.Fields, f)
		}
	}
	return r, isNew
}

// genQuery draws one read-only query around a row of the pool. Plans that need a tag key id use
// the id the model learnt in an earlier (quiescent) round, see querySpec.UseKeyID.
func (c *conc) genQuery(pool []rowSpec) querySpec {
	t := c.t
	r := rapid.SampledFrom(pool).Draw(t, "q.row")
	q := querySpec{NS: r.NS, Metric: r.Name, Limit: rapid.SampledFrom([]int{1, 3, 10, 100}).Draw(t, "q.limit")}
	kinds := []string{qNamespaces, qMetrics, qSeries}
	var key kvPair
	if len(r.Tags) > 0 {
		key = rapid.SampledFrom(r.Tags).Draw(t, "q.tag")
		if mm := c.m.metrics[r.mkey()]; mm != nil {
			if tk := mm.tagKeys[key.K]; tk != nil && tk.has {
				q.UseKeyID, q.KeyID = true, tk.id
				kinds = append(kinds, qTagValues, qTagFilter, qAllValues, qSeries, qTagValues, qTagFilter)
			}
		}
	}
	q.Kind = rapid.SampledFrom(kinds).Draw(t, "q.kind")
	switch q.Kind {
	case qNamespaces:
		q.Prefix = cutName(t, "q.cut", q.NS)
	case qMetrics:
		q.Prefix = cutName(t, "q.cut", q.Metric)
		q.Metric = ""
	case qSeries:
		if q.UseKeyID && rapid.Bool().Draw(t, "q.withKey") {
			q.Key = key.K
		} else {
			q.UseKeyID, q.KeyID = false, 0
		}
	case qTagValues:
		q.Key, q.Prefix = key.K, cutName(t, "q.cut", key.V)
	case qAllValues:
		q.Key = key.K
	case qTagFilter:
		q.Key = key.K
		q.Expr = rapid.SampledFrom([]string{"eq", "in", "like", "regex"}).Draw(t, "q.expr")
		v := key.V
		switch q.Expr {
		case "eq":
			q.Args = []string{v}
		case "in":
			q.Args = []string{v, rapid.SampledFrom(valUniverse).Draw(t, "q.inVal")}
		case "like":
			q.Args = []string{rapid.SampledFrom([]string{"*", v[:1] + "*", "*" + v[len(v)-1:], v}).Draw(t, "q.like")}
		default:
			q.Args = []string{rapid.SampledFrom([]string{"^" + regexp.QuoteMeta(v[:1]), regexp.QuoteMeta(v) + "$", ".*"}).Draw(t, "q.regex")}
		}
	}
	return q
}

// flushStep advances the production flush protocol by one step (see history_test.go).
func (c *conc) flushStep() error {
	switch c.phase {
	case phIdle:
		c.flog = append(c.flog, "metadata PrepareFlush")
		c.n.meta.PrepareFlush()
		c.phase = phMetaPrepared
		c.pend = nil
		for i := 0; i < c.nIdx; i++ {
			if rapid.IntRange(0, 3).Draw(c.t, "shardInCycle") != 0 {
				c.pend = append(c.pend, i)
			}
		}
	case phMetaPrepared:
		c.flog = append(c.flog, "metadata Flush")
		if err := c.n.meta.Flush(); err != nil {
			return fmt.Errorf("metadata Flush: %w", err)
		}
		c.phase = phMetaFlushed
		if len(c.pend) == 0 {
			c.phase = phIdle
		}
	case phMetaFlushed:
		c.cur, c.pend = c.pend[0], c.pend[1:]
		c.flog = append(c.flog, fmt.Sprintf("index %d PrepareFlush", c.cur))
		c.n.idx[c.cur].PrepareFlush()
		c.phase = phIdxPrepared
	case phIdxPrepared:
		c.flog = append(c.flog, fmt.Sprintf("index %d Flush", c.cur))
		if err := c.n.idx[c.cur].Flush(); err != nil {
			return fmt.Errorf("index %d Flush: %w", c.cur, err)
		}
		c.phase = phMetaFlushed
		if len(c.pend) == 0 {
			c.phase = phIdle
		}
	}
	return nil
}

func (c *conc) fail(rec *roundRec, format string, args ...any) {
	var sb strings.Builder
	fmt.Fprintf(&sb, "round %d, %d creator + %d query goroutines, %d index databases, []byte arguments in reused buffers (overwritten after each call: %s)", rec.Round, c.k, c.nq, c.nIdx, c.mode)
	if len(rec.FlushLog) > 0 {
		fmt.Fprintf(&sb, "; flush steps since the previous round: %v", rec.FlushLog)
	}
	for g := range rec.Work {
		fmt.Fprintf(&sb, "\n  goroutine %d (%s)\n    rows:    %v\n    answers: %s", g, rec.Roles[g], rec.Work[g], strings.Join(rec.Answers[g], "; "))
	}
	for g := range rec.Queries {
		fmt.Fprintf(&sb, "\n  query goroutine %d\n    %s", g, strings.Join(rec.Queries[g], "\n    "))
	}
	c.t.Fatalf(format+"\n%s", append(args, sb.String())...)
}

func (c *conc) round(no int) {
	t := c.t
	rec := roundRec{Round: no, FlushLog: c.flog, Roles: c.roles}
	c.flog = nil
	// rows of the round: shared ones (given to several goroutines) and private ones
	nShared := rapid.IntRange(1, 3).Draw(t, "nShared")
	type sharedRow struct {
		r     rowSpec
		isNew bool
		users int
	}
	shared := make([]sharedRow, nShared)
	for i := range shared {
		shared[i].r, shared[i].isNew = c.genRow("shared.")
	}
	work := make([][]rowSpec, c.k)
	for g := 0; g < c.k; g++ {
		for i := range shared {
			if rapid.IntRange(0, 3).Draw(t, "takesShared") != 0 {
				work[g] = append(work[g], shared[i].r)
				shared[i].users++
			}
		}
		if rapid.IntRange(0, 2).Draw(t, "private") == 0 {
			r, _ := c.genRow("private.")
			work[g] = append(work[g], r)
		}
		// a generated order per goroutine
		if len(work[g]) > 1 {
			perm := rapid.Permutation(work[g]).Draw(t, "order")
			work[g] = perm
		}
	}
	for i := range shared {
		if shared[i].isNew && shared[i].users >= 2 {
			rec.SharedNew++
		}
	}
	rec.Work = work
	// the blocks as they arrive from the brokers; every goroutine decodes them into its own
	// receive buffer (wire) right before the call
	blocks := make([][][]byte, c.k)
	for g := range work {
		for _, r := range work[g] {
			block, err := marshalRow(r)
			if err != nil {
				t.Fatalf("harness: build row %s: %v", r, err)
			}
			blocks[g] = append(blocks[g], block)
		}
	}
	// read-only metadata queries of this round (query_test.go): about names of earlier rounds and
	// about the names that are being created right now
	qwork := make([][]querySpec, c.nq)
	if c.nq > 0 {
		pool := append([]rowSpec{}, c.known...)
		for i := range shared {
			pool = append(pool, shared[i].r)
		}
		for g := range qwork {
			for i := rapid.IntRange(1, 4).Draw(t, "nQueries"); i > 0; i-- {
				qwork[g] = append(qwork[g], c.genQuery(pool))
			}
		}
	}
	qans := make([][]*queryOut, c.nq)
	qerrs := make([]error, c.nq)
	answers := make([][][]obs, c.k)
	errs := make([]error, c.k)
	var ready, start atomic.Int32
	var wg sync.WaitGroup
	for g := 0; g < c.nq; g++ {
		wg.Add(1)
		go func(g int) {
			defer wg.Done()
			ready.Add(1)
			for start.Load() == 0 {
				runtime.Gosched()
			}
			for _, q := range qwork[g] {
				out, err := execQuery(c.n, q)
				if err != nil {
					qerrs[g] = fmt.Errorf("%s: %w", q, err)
					return
				}
				qans[g] = append(qans[g], out)
			}
		}(g)
	}
	for g := 0; g < c.k; g++ {
		wg.Add(1)
		go func(g int) {
			defer wg.Done()
			ready.Add(1)
			for start.Load() == 0 {
				runtime.Gosched()
			}
			for j, r := range work[g] {
				var out []obs
				var err error
				switch {
				case g == 0:
					err = metaWorkerRow(c.n, c.wires[g], r, &out)
				case g <= c.nIdx:
					err = indexWorkerRow(c.n, c.wires[g], g-1, r, blocks[g][j], &out)
				default:
					err = shardMetaCalls(c.n, c.wires[g], r, &out)
				}
				answers[g] = append(answers[g], out)
				if err != nil {
					errs[g] = err
					return
				}
			}
		}(g)
	}
	for int(ready.Load()) < c.k+c.nq {
		runtime.Gosched()
	}
	start.Store(1)
	wg.Wait()

	rec.Queries = make([][]string, c.nq)
	for g := range qwork {
		for j, q := range qwork[g] {
			line := q.String()
			if j < len(qans[g]) {
				line += " -> " + qans[g][j].String()
			}
			rec.Queries[g] = append(rec.Queries[g], line)
		}
	}
	rec.Answers = make([][]string, c.k)
	for g := range answers {
		for _, out := range answers[g] {
			for _, o := range out {
				rec.Answers[g] = append(rec.Answers[g], o.String())
			}
		}
	}
	for g, err := range errs {
		if err != nil {
			c.fail(&rec, "round %d: goroutine %d: a creator failed: %v", no, g, err)
		}
	}
	// oracle 1: all callers of one name got one id, now and in every earlier round
	c.m.seq++
	touched := map[mkey]bool{}
	for g := range answers {
		for j, out := range answers[g] {
			touched[work[g][j].mkey()] = true
			if err := c.m.observeAll(work[g][j], out); err != nil {
				c.fail(&rec, "round %d: goroutine %d: %v", no, g, err)
			}
		}
	}
	// the queries that ran next to the creators: a lookup reports the id the creators were told, finds
	// every name of earlier rounds and no name nobody created
	for g := range qwork {
		if qerrs[g] != nil {
			c.fail(&rec, "round %d: query goroutine %d: a query failed: %v", no, g, qerrs[g])
		}
		for j, q := range qwork[g] {
			if err := c.m.judge(q, qans[g][j], false); err != nil {
				c.fail(&rec, "round %d: query goroutine %d: %v", no, g, err)
			}
			c.nQuery++
		}
	}
	// oracle 2: different names <-> different ids; oracle 3: the lookups agree with the creators
	if err := checkSome(c.n, c.m, touched); err != nil {
		c.fail(&rec, "round %d: %v", no, err)
	}
	for g := range work {
		c.known = append(c.known, work[g]...)
	}
	if len(c.known) > 64 {
		c.known = c.known[len(c.known)-64:]
	}
	rec.Answers, rec.Queries = nil, nil // keep the kept record small
	c.rounds = append(c.rounds, rec)
}

// checkSome = checkAll restricted (for the lookups) to the metrics touched in this round;
// injectivity is always checked on the whole model.
func checkSome(n *node, m *model, only map[mkey]bool) error {
	sub := newModel(m.nIdx)
	sub.seq = m.seq
	for k := range only {
		sub.metrics[k] = m.metrics[k]
		for i := range m.series {
			if m.series[i][k] != nil {
				sub.series[i][k] = m.series[i][k]
			}
		}
	}
	if err := resolve(n, sub, true); err != nil {
		return err
	}
	if err := m.checkInjective(); err != nil {
		return err
	}
	return checkIndex(n, sub, true)
}

func runConcurrent(t *rapid.T, rounds int) {
	dir := mustTempDir("c09c-")
	defer os.RemoveAll(dir)
	k := rapid.IntRange(2, 8).Draw(t, "goroutines")
	nIdx := rapid.IntRange(1, 3).Draw(t, "nIdx")
	if nIdx > k-1 {
		nIdx = k - 1
	}
	n, err := openNode(dir, nIdx)
	if err != nil {
		t.Fatalf("open: %v", err)
	}
	defer n.closeRaw()
	c := &conc{t: t, n: n, m: newModel(nIdx), k: k, nIdx: nIdx}
	c.nq = rapid.SampledFrom([]int{0, 1, 1, 2}).Draw(t, "queryGoroutines")
	c.mode = rapid.SampledFrom(wireModes).Draw(t, "wireMode")
	for g := 0; g < k; g++ {
		c.wires = append(c.wires, newWire(c.mode))
	}
	for g := 0; g < k; g++ {
		switch {
		case g == 0:
			c.roles = append(c.roles, "metadata-worker")
		case g <= nIdx:
			c.roles = append(c.roles, fmt.Sprintf("index-worker-shard-%d", g-1))
		default:
			c.roles = append(c.roles, "metadata-calls-of-another-shard")
		}
	}
	sharedNew, flushSteps := 0, 0
	for r := 0; r < rounds; r++ {
		steps := rapid.SampledFrom([]int{0, 0, 0, 1, 1, 2, 4}).Draw(t, "flushSteps")
		for s := 0; s < steps; s++ {
			if err := c.flushStep(); err != nil {
				t.Fatalf("round %d: %v (steps so far %v)", r, err, c.flog)
			}
			flushSteps++
		}
		c.round(r)
		sharedNew += c.rounds[len(c.rounds)-1].SharedNew
	}
	// finish the cycle, then the complete oracle on everything
	for c.phase != phIdle {
		if err := c.flushStep(); err != nil {
			t.Fatalf("final flush: %v", err)
		}
	}
	if err := checkAll(c.n, c.m, true); err != nil {
		t.Fatalf("after %d rounds (complete check): %v\nlast round: %+v", rounds, err, c.rounds[len(c.rounds)-1])
	}
	canon, _ := json.Marshal(c.rounds)
	ev.Class("TestConcurrentAssign", "rounds", rounds)
	ev.Class("TestConcurrentAssign", "shared-rows-with-new-names", sharedNew)
	ev.Class("TestConcurrentAssign", "flush-steps-between-rounds", flushSteps)
	ev.Class("TestConcurrentAssign", fmt.Sprintf("goroutines-%d", k), 1)
	ev.Class("TestConcurrentAssign", fmt.Sprintf("query-goroutines-%d", c.nq), 1)
	ev.Class("TestConcurrentAssign", "queries-next-to-creators", c.nQuery)
	ev.Class("TestConcurrentAssign", "wire-"+c.mode, 1)
	calls := 0
	for _, w := range c.wires {
		calls += w.calls + w.rows
	}
	ev.Class("TestConcurrentAssign", "wire-calls-with-reused-arguments", calls)
	ev.Class("TestConcurrentAssign", fmt.Sprintf("index-databases-%d", nIdx), 1)
	ev.Case("TestConcurrentAssign", string(canon), sharedNew > 0, nil, map[string]any{
		"goroutines": k, "query_goroutines": c.nq, "wire_mode": c.mode, "index_databases": nIdx, "rounds": rounds, "first_round": c.rounds[0],
	})
}

func concurrentRounds() int {
	if os.Getenv("VERIF_TIER") == "thorough" {
		return 60
	}
	return 30
}

func TestConcurrentAssign(t *testing.T) {
	rounds := concurrentRounds()
	rapid.Check(t, func(t *rapid.T) { runConcurrent(t, rounds) })
}

// TestConcurrentAssignRace is the same property; the driver runs it with the race detector in
// the thorough tier (a data race reported inside lindb's get-or-create paths fails the test).
func TestConcurrentAssignRace(t *testing.T) {
	rounds := concurrentRounds()
	rapid.Check(t, func(t *rapid.T) { runConcurrent(t, rounds) })
}

// TestConcurrentFlushStress: creators on real goroutines while complete flush cycles run on
// another goroutine. In production PrepareFlush runs on the worker goroutine but Flush runs on a
// background goroutine next to the workers (memdb handleFlush), so a get-or-create overlaps with
// the end of a flush (memory store cleared, snapshot replaced, bucket cache purged). Inputs are
// fixed, only the schedule varies. Oracle: the answers of all callers form a function, it is
// injective, and after quiescence every lookup agrees with what the creators were told.
func TestConcurrentFlushStress(t *testing.T) {
	iters := 40
	if os.Getenv("VERIF_TIER") == "thorough" {
		iters = 400
	}
	for iter := 0; iter < iters; iter++ {
		stressOnce(t, iter)
	}
}

func stressOnce(t *testing.T, iter int) {
	const nIdx, perWorker = 2, 300
	dir := mustTempDir("c09s-")
	defer os.RemoveAll(dir)
	n, err := openNode(dir, nIdx)
	if err != nil {
		t.Fatal(err)
	}
	defer n.closeRaw()
	m := newModel(nIdx)
	var stop atomic.Bool
	var flushErr error
	cycles := 0
	var fwg sync.WaitGroup
	fwg.Add(1)
	go func() { // the flush job: metadata, then every shard's index
		defer fwg.Done()
		for !stop.Load() {
			n.meta.PrepareFlush()
			if flushErr = n.meta.Flush(); flushErr != nil {
				return
			}
			for _, d := range n.idx {
				d.PrepareFlush()
				if flushErr = d.Flush(); flushErr != nil {
					return
				}
			}
			cycles++
		}
	}()
	type answer struct {
		r   rowSpec
		out []obs
	}
	answers := make([][]answer, 1+nIdx)
	errs := make([]error, 1+nIdx)
	wires := make([]*wire, 1+nIdx) // one per worker; the mode rotates with the iteration
	for g := range wires {
		wires[g] = newWire(wireModes[(iter+g)%len(wireModes)])
	}
	// goroutine 1+nIdx runs read-only metadata queries next to the workers and the flush job. Only
	// plans that do not read the live schema object (see querySpec.UseKeyID), and none that names ids
	// through a second call (FindTagValueIDsForTag + CollectTagValues read two different snapshots
	// when a flush completes in between: a transient anomaly that says nothing about id assignment).
	var qspecs []querySpec
	var qouts []*queryOut
	var qerr error
	var working atomic.Int32 // the query goroutine runs as long as a worker does
	working.Store(1 + nIdx)
	barrierRun(2+nIdx, func(g int) {
		if g == 1+nIdx {
			for i := 0; working.Load() > 0; i++ {
				j := (i*11 + iter) % perWorker
				q := querySpec{NS: "ns", Metric: fmt.Sprintf("m%d", j%40), Limit: []int{1, 10, 100}[i%3]}
				switch i % 4 {
				case 0:
					q.Kind, q.Prefix = qMetrics, []string{"", "m", "m1", "m3"}[j%4]
					q.Metric = ""
				case 1:
					q.Kind, q.Prefix = qNamespaces, []string{"", "n", "ns"}[j%3]
				default:
					q.Kind = qSeries
				}
				out, err := execQuery(n, q)
				if err != nil {
					qerr = fmt.Errorf("%s: %w", q, err)
					return
				}
				qspecs, qouts = append(qspecs, q), append(qouts, out)
			}
			return
		}
		defer working.Add(-1)
		for i := 0; i < perWorker; i++ {
			j := (i*7 + iter) % perWorker
			r := rowSpec{NS: "ns", Name: fmt.Sprintf("m%d", j%40),
				Tags:   []kvPair{{"host", fmt.Sprintf("h%d", j%97)}, {"zone", fmt.Sprintf("z%d", j%7)}},
				Fields: []string{fmt.Sprintf("f%d", j%5)}}
			block, err := marshalRow(r)
			if err != nil {
				errs[g] = err
				return
			}
			var out []obs
			if g == 0 {
				err = metaWorkerRow(n, wires[g], r, &out)
			} else {
				err = indexWorkerRow(n, wires[g], g-1, r, block, &out)
			}
			if err != nil {
				errs[g] = err
				return
			}
			answers[g] = append(answers[g], answer{r, out})
		}
	})
	stop.Store(true)
	fwg.Wait()
	if flushErr != nil {
		t.Fatalf("iteration %d: flush failed: %v", iter, flushErr)
	}
	for g := range answers {
		if errs[g] != nil {
			t.Fatalf("iteration %d: goroutine %d: %v", iter, g, errs[g])
		}
		for _, a := range answers[g] {
			if err := m.observeAll(a.r, a.out); err != nil {
				t.Fatalf("iteration %d (%d flush cycles ran next to the workers): goroutine %d (%s) row %s: %v", iter, cycles, g, stressRole(g), a.r, err)
			}
		}
	}
	if qerr != nil {
		t.Fatalf("iteration %d (%d flush cycles ran next to the workers): query goroutine: %v", iter, cycles, qerr)
	}
	for i, q := range qspecs {
		// nothing is required to be found (the model's clock stands still: every name is "of this round")
		if err := m.judge(q, qouts[i], false); err != nil {
			t.Fatalf("iteration %d (%d flush cycles ran next to the workers): query goroutine, query #%d: %v", iter, cycles, i, err)
		}
	}
	ev.Class("TestConcurrentFlushStress", "queries-next-to-workers-and-flush", len(qspecs))
	if err := checkAll(n, m, true); err != nil {
		t.Fatalf("iteration %d (%d flush cycles ran next to the workers; goroutine 0 = metadata worker, 1..%d = index workers): %v", iter, cycles, nIdx, err)
	}
	ev.Case("TestConcurrentFlushStress", fmt.Sprintf("iter-%d", iter), cycles > 0, []string{"iterations"}, nil)
	ev.Class("TestConcurrentFlushStress", "flush-cycles-next-to-workers", cycles)
}

func stressRole(g int) string {
	if g == 0 {
		return "metadata worker"
	}
	return fmt.Sprintf("index worker of shard %d", g-1)
}
