package c09

import (
	"fmt"
	"os"
	"testing"
)

func TestProbeStuck(t *testing.T) {
	for _, idle := range []bool{false, true} {
		t.Run(fmt.Sprint("idle=", idle), func(t *testing.T) { probeStuck(t, idle) })
	}
}

func probeStuck(t *testing.T, idle bool) {
	dir := mustTempDir("c09p-")
	defer os.RemoveAll(dir)
	n, err := openNode(dir, 1)
	if err != nil {
		t.Fatal(err)
	}
	m := newModel(1)
	do := func(r rowSpec) {
		r.Tags = normTags(r.Tags)
		row, err := buildRow(r)
		if err != nil {
			t.Fatal(err)
		}
		var o []obs
		if err := metaWorkerRow(n, r, row, &o); err != nil {
			t.Fatal(err)
		}
		if err := indexWorkerRow(n, 0, r, row, &o); err != nil {
			t.Fatal(err)
		}
		if err := m.observeAll(r, o); err != nil {
			t.Fatal(err)
		}
	}
	do(rowSpec{NS: "ns1", Name: "m1", Tags: []kvPair{{"host", "a"}}, Fields: []string{"f1"}})
	if err := checkAll(n, m, true); err != nil {
		t.Fatal(err)
	}
	cycle := func() {
		n.meta.PrepareFlush()
		if err := n.meta.Flush(); err != nil {
			t.Fatal(err)
		}
		n.idx[0].PrepareFlush()
		if err := n.idx[0].Flush(); err != nil {
			t.Fatal(err)
		}
	}
	cycle()
	if idle {
		cycle() // nothing new
	}
	do(rowSpec{NS: "ns2", Name: "m2", Tags: []kvPair{{"host", "b"}}, Fields: []string{"f2"}})
	do(rowSpec{NS: "ns1", Name: "m1", Tags: []kvPair{{"host", "c"}}, Fields: []string{"f3"}})
	cycle()
	cycle()
	if err := checkAll(n, m, true); err != nil {
		t.Fatal(err)
	}
	if err := n.closeGraceful(); err != nil {
		t.Fatal(err)
	}
	n, err = openNode(dir, 1)
	if err != nil {
		t.Fatal(err)
	}
	defer n.closeRaw()
	if err := checkAll(n, m, true); err != nil {
		t.Fatal(err)
	}
}
