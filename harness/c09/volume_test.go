package c09

import (
	"encoding/binary"
	"fmt"
	"os"
	"path/filepath"
	"runtime/debug"
	"sort"
	"strings"
	"testing"

	"pgregory.net/rapid"

	"github.com/lindb/lindb/kv"
	"github.com/lindb/lindb/kv/table"
	"github.com/lindb/lindb/kv/version"
	"github.com/lindb/lindb/models"
	"github.com/lindb/lindb/pkg/trie"
	"github.com/lindb/lindb/verifharness/sim/crash"
	"github.com/lindb/lindb/verifharness/sim/ev"
)

// Volume histories (part (b), size class): ONE dictionary bucket receives very many new names.
//
// A dictionary flush writes the names of one bucket (tag values of one tag key, tags-hash -> series
// of one metric, metric names of one namespace) as a sequence of tries of at most 32767 keys, the
// dictionary compaction merges all tries of a bucket that hold fewer than 65535 keys and writes
// them again as tries of at most 65535 keys (tries that are full are copied). The ordinary
// histories create a few hundred names per bucket, so every bucket is one trie. A high-cardinality
// tag (pod, request id), a metric with many series or a namespace with many metric names crosses
// those limits in production within one flush cycle.
//
// The histories of this file are the histories of history_test.go (same node, same reference
// model, same flush protocol with creators / queries / sequence-cache drops nested at the
// file-system seams, same compaction and reopen operations, same oracles: checkAll on the live
// node, checkRecovered after a reopen) plus the bulk operation "create N new names of the bulk
// bucket through the production call sequence of their kind". N is drawn so that the number of new
// names of the bucket in one flush cycle lands on / next to a multiple of 32767, or so that the keys
// a compaction has to merge land on / next to a multiple of 65535, or somewhere in between.
// The oracle runs at drawn points (not after every step: it reads every name).
//
// What the on-disk buckets really look like (number of tries per flushed / compacted bucket and
// their key counts) is read back from the kv files after every flush / compaction / reopen and
// counted in the evidence classes: these classes are observations, not expectations.

const (
	flushBlock   = 32767 // index/kv_store.go Flush: newIndexKVFlusher(math.MaxInt16, ...)
	compactBlock = 65535 // index/model.NewTrieBucket(): math.MaxUint16
)

const (
	volTagValues    = "tag-values-of-one-tag-key"
	volSeriesOneKey = "series-of-one-metric(one-high-cardinality-tag)"
	volSeriesGrid   = "series-of-one-metric(two-tags-grid)"
	volMetrics      = "metric-names-of-one-namespace"
)

var volKinds = []string{volTagValues, volTagValues, volSeriesOneKey, volSeriesGrid, volMetrics}

type volState struct {
	kind   string
	shape  string // how the i-th name looks: fixed | var | hashed
	shard  int    // series kinds: the index database
	mk     mkey   // tag values / series: the metric
	key    string // tag values / series-one-key: the tag key
	ns     string // metric names: the namespace
	budget int    // names the case may still create in bulk
	made   int    // names created in bulk so far (the i-th name is name(i))

	images int // crash images the case may still take

	seenFiles           map[string]bool // bucket values (tries per file) already counted in the classes
	fullOnDisk          bool            // the last look at the files showed a trie of exactly 65535 keys
	multiTrie, fullTrie bool            // observed on disk: a bucket value with >= 2 tries / a trie with exactly blockSize keys
	layouts             []string
	bulks               []int
}

// hasFullCompactedTrie: the last look at the files showed a trie of 65535 keys.
func (v *volState) hasFullCompactedTrie() bool { return v.fullOnDisk }

func (v *volState) isSeries() bool { return v.kind == volSeriesOneKey || v.kind == volSeriesGrid }

// name of the i-th bulk name of the bucket.
func (v *volState) name(i int) string {
	switch v.shape {
	case "var": // mixed length, many proper-prefix pairs (w1, w10, w100 ...)
		return fmt.Sprintf("w%d", i)
	case "hashed": // creation order unrelated to key order
		return fmt.Sprintf("%08x-req", uint32(i+1)*2654435761)
	}
	return fmt.Sprintf("pod-%06d", i)
}

const gridSide = 512

// row of the i-th bulk name.
func (v *volState) row(i int) rowSpec {
	switch v.kind {
	case volMetrics:
		return rowSpec{NS: v.ns, Name: "svc." + v.name(i), Fields: []string{"f0"}}
	case volSeriesGrid:
		return rowSpec{NS: v.mk.NS, Name: v.mk.Name, Tags: []kvPair{
			{"rack", fmt.Sprintf("r%03d", i%gridSide)}, {"slot", fmt.Sprintf("s%03d", i/gridSide)}}}
	}
	return rowSpec{NS: v.mk.NS, Name: v.mk.Name, Tags: []kvPair{{v.key, v.name(i)}}}
}

// family / store of the dictionary the bulk bucket lives in.
func (v *volState) family() kvFamily {
	switch v.kind {
	case volTagValues:
		return kvFamily{idx: -1, store: "meta", name: "tv"}
	case volMetrics:
		return kvFamily{idx: -1, store: "meta", name: "metric"}
	}
	return kvFamily{idx: v.shard, store: fmt.Sprintf("idx%d", v.shard), name: "series"}
}

// bucketSeqs returns, from the reference model, the request clock of every name of the bulk bucket
// (bulk names and names ordinary rows put into the same bucket).
func (h *hist) bucketSeqs() []int {
	v := h.vol
	var out []int
	switch v.kind {
	case volTagValues:
		if mm := h.m.metrics[v.mk]; mm != nil && mm.tagKeys[v.key] != nil {
			for _, x := range mm.tagKeys[v.key].values {
				out = append(out, x.seq)
			}
		}
	case volMetrics:
		for k, mm := range h.m.metrics {
			if k.NS == v.ns {
				out = append(out, mm.seq)
			}
		}
	default:
		for _, s := range h.m.series[v.shard][v.mk] {
			out = append(out, s.seq)
		}
	}
	return out
}

// pendingNew = names of the bulk bucket that the next PrepareFlush of its store will freeze.
func (h *hist) pendingNew() int {
	frozen := h.metaPrepSeq
	if h.vol.isSeries() {
		frozen = h.idxPrepSeq[h.vol.shard]
	}
	if d := h.storeDurable(); d > frozen {
		frozen = d // a reopen flushed everything
	}
	n := 0
	for _, s := range h.bucketSeqs() {
		if s > frozen {
			n++
		}
	}
	return n
}

func (h *hist) storeDurable() int {
	if h.vol.isSeries() {
		return h.dur.Idx[h.vol.shard]
	}
	return h.dur.Meta
}

// ---- what the files really contain -----------------------------------------------------------------

// bucketLayout reads the values stored under one bucket id in the live files of a dictionary
// family: per file that has the bucket, the key counts of its tries in written order.
func (h *hist) bucketLayout(f kvFamily, bucket uint32) [][]int {
	snap := h.family(f).GetSnapshot()
	defer snap.Close()
	var out [][]int
	err := snap.Load(bucket, func(value []byte) error {
		var sizes []int
		for len(value) > 0 {
			if len(value) < 4 {
				return fmt.Errorf("bucket value ends inside a trie length")
			}
			size := int(binary.LittleEndian.Uint32(value))
			if 4+size > len(value) {
				return fmt.Errorf("bucket value ends inside a trie (%d > %d)", 4+size, len(value))
			}
			t := trie.NewTrie()
			if err := t.UnmarshalBinary(value[4 : 4+size]); err != nil {
				return err
			}
			sizes = append(sizes, t.Size())
			value = value[4+size:]
		}
		out = append(out, sizes)
		return nil
	})
	if err != nil {
		h.fatalf("harness: reading bucket %d of %s: %v", bucket, f, err)
	}
	return out
}

// bulkLayout: the layout of the fullest bucket of the bulk family (the bulk bucket: bucket ids are
// small sequence numbers - tag key ids, metric ids, namespace ids).
func (h *hist) bulkLayout() [][]int {
	var best [][]int
	bestKeys := -1
	v := h.vol
	var buckets []uint32
	mm := h.m.metrics[v.mk]
	switch {
	case v.kind == volTagValues && mm != nil && mm.tagKeys[v.key] != nil && mm.tagKeys[v.key].has:
		buckets = []uint32{mm.tagKeys[v.key].id} // bucket = tag key id
	case v.isSeries() && mm != nil && mm.has:
		buckets = []uint32{mm.id} // bucket = metric id
	default:
		for b := uint32(0); b < 16; b++ { // bucket = namespace id, which no caller is told: the fullest one
			buckets = append(buckets, b)
		}
	}
	for _, b := range buckets {
		l := h.bucketLayout(h.vol.family(), b)
		keys := 0
		for _, file := range l {
			for _, n := range file {
				keys += n
			}
		}
		if keys > bestKeys {
			best, bestKeys = l, keys
		}
	}
	return best
}

// relTo describes n relative to the multiples of block: "2x+1" = 2*block+1.
func relTo(n, block int) string {
	k := (n + block/2) / block
	d := n - k*block
	switch {
	case k == 0:
		return "below-one-block"
	case d == 0:
		return fmt.Sprintf("%dx-exact", k)
	case d == 1, d == -1:
		return fmt.Sprintf("%dx%+d", k, d)
	case d > 1 && d <= 64:
		return fmt.Sprintf("%dx-plus-small", k)
	case d < -1 && d >= -64:
		return fmt.Sprintf("%dx-minus-small", k)
	case d > 0:
		return fmt.Sprintf("%dx-plus-tail", k)
	}
	return fmt.Sprintf("%dx-minus-many", k)
}

// observeDisk counts what the files of the bulk family hold after a flush / compaction / reopen.
func (h *hist) observeDisk(after string) {
	v := h.vol
	l := h.bulkLayout()
	v.fullOnDisk = false
	desc := make([]string, 0, len(l))
	for _, file := range l {
		parts := make([]string, len(file))
		keys := 0
		for i, n := range file {
			parts[i] = fmt.Sprint(n)
			keys += n
		}
		desc = append(desc, strings.Join(parts, "+"))
		for _, n := range file {
			v.fullOnDisk = v.fullOnDisk || n == compactBlock
		}
		if v.seenFiles[desc[len(desc)-1]] {
			continue // this file was counted when it was written
		}
		v.seenFiles[desc[len(desc)-1]] = true
		block, what := flushBlock, "flushed"
		for _, n := range file {
			if n > flushBlock {
				block, what = compactBlock, "compacted"
			}
		}
		if len(file) >= 2 {
			v.multiTrie = true
			h.classes[fmt.Sprintf("disk-bucket-with-%d-tries", min(len(file), 4))]++
			if tail := file[len(file)-1]; tail == 1 {
				h.classes["disk-bucket-with-tail-trie-of-1-key"]++
			} else if tail <= 64 {
				h.classes["disk-bucket-with-tail-trie-of-2..64-keys"]++
			}
		}
		for _, n := range file {
			if n == flushBlock || n == compactBlock {
				v.fullTrie = true
				h.classes[fmt.Sprintf("disk-trie-with-exactly-%d-keys", n)]++
			}
		}
		if keys >= flushBlock-64 {
			h.classes["disk-bucket-"+what+"-keys="+relTo(keys, block)]++
		}
	}
	s := fmt.Sprintf("after %s: bulk bucket on disk (tries per file) = [%s]", after, strings.Join(desc, " | "))
	if len(v.layouts) == 0 || v.layouts[len(v.layouts)-1] != s {
		v.layouts = append(v.layouts, s)
		h.logf("  (%s)", s)
	}
}

// ---- operations -----------------------------------------------------------------------------------

// drawBulkSize draws how many new names the next bulk operation creates.
func (h *hist) drawBulkSize() (n int, why string) {
	t, v := h.t, h.vol
	delta := func() int {
		switch rapid.SampledFrom([]string{"0", "0", "0", "+1", "+1", "-1", "+small", "-small", "+tail"}).Draw(t, "bulkDelta") {
		case "0":
			return 0
		case "+1":
			return 1
		case "-1":
			return -1
		case "+small":
			return rapid.IntRange(2, 60).Draw(t, "bulkPlusSmall")
		case "-small":
			return -rapid.IntRange(2, 40).Draw(t, "bulkMinusSmall")
		}
		return rapid.IntRange(500, 9000).Draw(t, "bulkPlusTail")
	}
	pend := h.pendingNew()
	switch rapid.IntRange(0, 7).Draw(t, "bulkTarget") {
	case 0, 1, 2, 3:
		// new names of the bucket in this flush cycle: k * 32767 + d (k = the next multiple above
		// what is already waiting, sometimes one or two blocks more)
		d := delta()
		k := 1
		for k*flushBlock+d <= pend {
			k++
		}
		k += rapid.SampledFrom([]int{0, 0, 0, 0, 1, 1, 2}).Draw(t, "bulkMoreFlushBlocks")
		for k > 1 && k*flushBlock+d-pend > v.budget {
			k--
		}
		target := k*flushBlock + d
		n, why = target-pend, fmt.Sprintf("flush cycle gets %d = %s new names of the bucket", target, relTo(target, flushBlock))
	case 4, 5, 6:
		// keys the next compaction of the bucket has to merge (tries below 65535 keys on disk +
		// what is still in memory): k * 65535 + d
		small := 0
		for _, file := range h.bulkLayout() {
			for _, sz := range file {
				if sz < compactBlock {
					small += sz
				}
			}
		}
		d := delta()
		k := 1
		for k*compactBlock+d <= small+pend {
			k++
		}
		target := k*compactBlock + d
		n, why = target-small-pend, fmt.Sprintf("a compaction after the next flush merges %d = %s keys", target, relTo(target, compactBlock))
	default:
		n, why = rapid.IntRange(300, 12000).Draw(t, "bulkModerate"), "moderate"
	}
	if n <= 0 || n > v.budget {
		n, why = rapid.IntRange(1, min(v.budget, 3000)).Draw(t, "bulkFallback"), "what the budget allows"
	}
	return n, why
}

// bulk creates n new names of the bulk bucket through the production call sequence of their kind.
func (h *hist) bulk() {
	n, why := h.drawBulkSize()
	h.bulkOf(n, why)
}

func (h *hist) bulkOf(n int, why string) {
	v := h.vol
	h.m.seq++
	h.logf("bulk seq=%d: %d new names (%s .. %s) of the bucket [%s]; %d of the bucket are not frozen yet", h.m.seq, n, v.row(v.made), v.row(v.made+n-1), why, h.pendingNew())
	before := h.m.count()
	for i := 0; i < n; i++ {
		if err := h.bulkCall(v.made + i); err != nil {
			h.fatalf("bulk name %d: %v", v.made+i, err)
		}
	}
	if got := h.m.count() - before; got < n {
		h.fatalf("harness: bulk operation added %d names to the model, wanted >= %d", got, n)
	}
	h.idsSinceSync += h.m.count() - before
	if v.isSeries() {
		h.seqCached[seqKey{v.shard, v.mk}] = true
	}
	v.made += n
	v.budget -= n
	v.bulks = append(v.bulks, n)
	h.classes["bulk"]++
	h.classes["bulk-names"] += n
}

// bulkCall requests the i-th bulk name: tag values through the calls an index worker issues
// against the shared metadata database for a new series (GenMetricID, GenTagKeyID, GenTagValueID),
// series through the index worker's sequence (GenMetricID, GenSeriesID), metric names through the
// metadata worker's (GenMetricID, GenFieldID).
func (h *hist) bulkCall(i int) error {
	v := h.vol
	r := v.row(i)
	switch v.kind {
	case volTagValues:
		var out []obs
		if err := shardMetaCalls(h.n, h.w, r, &out); err != nil {
			return err
		}
		return h.m.observeAll(r, out)
	case volMetrics:
		return applyRow(h.n, h.w, h.m, r, 0, "meta")
	}
	return applyRow(h.n, h.w, h.m, r, v.shard, "index")
}

// reRequest asks for bulk names that exist again (get-or-create of an existing name): the answer
// must be the old id and nothing may be created.
func (h *hist) reRequest(all bool) {
	v := h.vol
	if v.made == 0 {
		return
	}
	from, to := 0, v.made
	if !all && rapid.IntRange(0, 2).Draw(h.t, "reRequestPart") == 0 {
		from = rapid.IntRange(0, v.made-1).Draw(h.t, "reRequestFrom")
		to = rapid.IntRange(from+1, v.made).Draw(h.t, "reRequestTo")
	}
	h.m.seq++
	h.logf("request bulk names %d..%d again (seq %d)", from, to-1, h.m.seq)
	before := h.m.count()
	for i := from; i < to; i++ {
		if err := h.bulkCall(i); err != nil {
			h.fatalf("bulk name %d requested again: %v", i, err)
		}
	}
	if got := h.m.count(); got != before {
		h.fatalf("harness: requesting existing names again added %d names to the model", got-before)
	}
	h.classes["bulk-names-requested-again"] += to - from
}

func (h *hist) volCheck(where string) {
	h.logf("oracle on the live node (%s)", where)
	if err := checkAll(h.n, h.m, true); err != nil {
		h.fatalf("live node (%s): %v", where, err)
	}
	h.classes["oracle-on-live-node"]++
	if h.vol.multiTrie {
		h.classes["oracle-on-live-node-with-multi-trie-bucket-on-disk"]++
	}
}

// volWantImage: crash images inside the flushes / compactions of a volume case are rare (every
// recovered image is judged with the complete recovered-node oracle over all names).
func (h *hist) volWantImage(p crash.Point) bool {
	first := h.pointsInFlush == 0
	h.pointsInFlush++
	if h.vol.images <= 0 || (p.Before && !first) || p.FSOp == "tableWrite" {
		return false
	}
	if rapid.IntRange(0, 5).Draw(h.t, "copyImage") != 0 {
		return false
	}
	h.vol.images--
	return true
}

// volBudget: how many names a case may create in bulk (one 65535-key compaction block and two
// 32767-key flush blocks need 70000; three flush blocks 98301; 36000 is enough for the first flush
// block).
func volBudget(t *rapid.T, thorough bool) (names, images int) {
	if thorough {
		return rapid.SampledFrom([]int{140000, 105000, 190000, 70000, 36000}).Draw(t, "bulkBudget"), 2
	}
	return rapid.SampledFrom([]int{70000, 36000, 70000}).Draw(t, "bulkBudget"), 1
}

func runVolume(t *rapid.T, thorough bool) {
	dir := mustTempDir("c09v-")
	nIdx := rapid.IntRange(1, 2).Draw(t, "nIdx")
	h := &hist{
		t: t, dir: dir, root: filepath.Join(dir, "live"), nIdx: nIdx, m: newModel(nIdx), thorough: thorough,
		idxPrepSeq: make([]int, nIdx), dur: durable{Idx: make([]int, nIdx)},
		imgDur: map[int]durable{}, classes: map[string]int{},
		cs: newCompactState(nIdx), switched: map[string]bool{}, seqCached: map[seqKey]bool{},
	}
	h.u = drawUniverse(t)
	v := &volState{
		kind:  rapid.SampledFrom(volKinds).Draw(t, "bulkKind"),
		shape: rapid.SampledFrom([]string{"fixed", "var", "hashed"}).Draw(t, "bulkNameShape"),
		shard: rapid.IntRange(0, nIdx-1).Draw(t, "bulkShard"),

		seenFiles: map[string]bool{},
	}
	v.budget, v.images = volBudget(t, thorough)
	// the bulk bucket is a bucket of its own or one that ordinary rows of the case use as well
	if rapid.Bool().Draw(t, "bulkBucketShared") {
		v.mk = mkey{h.u.ns[0], h.u.metrics[0]}
		v.key, v.ns = h.u.keys[0], h.u.ns[0]
		h.classes["bulk-bucket-shared-with-ordinary-rows"]++
	} else {
		v.mk, v.key, v.ns = mkey{h.u.ns[0], "bulk.metric"}, "pod", "bulk-ns"
	}
	h.vol = v
	// The default limit of 200000 series per metric is an operator setting (max-series-per-metric).
	// A crash image taken inside an index flush has the metric's postings but not yet its series
	// dictionary: the recovered-node oracle requests every old series again, all of them get new ids
	// above the recovered postings, i.e. the metric ends with twice as many series ids - "too many
	// series" would be a correct refusal there, not a finding. The volume cases run with a higher limit.
	limits := models.NewDefaultLimits()
	limits.MaxSeriesPerMetric = 2_000_000
	models.SetDatabaseLimits(dbName, limits)
	defer models.SetDatabaseLimits(dbName, models.NewDefaultLimits())
	defer debug.SetPanicOnFault(debug.SetPanicOnFault(true))
	defer debug.SetGCPercent(debug.SetGCPercent(200)) // the model of a case holds ~10^5 names
	h.w = newWire(rapid.SampledFrom(wireModes).Draw(t, "wireMode"))
	h.im = &crash.Imager{Root: h.root, OutDir: filepath.Join(dir, "img"), OnPoint: h.onPoint}
	h.im.Want = h.volWantImage
	kv.VerifSetFSHook(h.im.Hook)
	version.VerifSetFSHook(version.VerifFSHook(h.im.Hook))
	table.VerifSetFSHook(table.VerifFSHook(h.im.Hook))
	defer func() {
		kv.VerifSetFSHook(nil)
		version.VerifSetFSHook(nil)
		table.VerifSetFSHook(nil)
		h.im.Active = false
		if h.n != nil {
			h.n.closeRaw()
		}
		_ = os.RemoveAll(dir)
	}()
	n, err := openNode(h.root, nIdx)
	if err != nil {
		t.Fatalf("open: %v", err)
	}
	h.n = n

	// The next operation is drawn with weights that follow the state (a case has few steps, each
	// of them costs up to a second): while many new names of the bucket wait in memory the flush
	// operations are likely, while the bulk family has >= 2 level-0 files the compaction is, else
	// the next bulk operation.
	type op struct {
		name   string
		weight func() int
		fn     func()
	}
	waiting := func() bool { return h.pendingNew() >= 1000 }
	files := func() int { return level0Files(h.family(v.family())) }
	w := func(n int) func() int { return func() int { return n } }
	when := func(cond func() bool, n int) func() int {
		return func() int {
			if cond() {
				return n
			}
			return 0
		}
	}
	bulkWeight := func(idleW, waitingW int) func() int {
		return func() int {
			switch {
			case v.budget < 300:
				return 0
			case waiting():
				return waitingW
			}
			return idleW
		}
	}
	ops := []op{
		{"bulk", bulkWeight(3, 1), h.bulk},
		{"bulkAndFlushCycle", bulkWeight(7, 0), func() {
			// the names of one bulk operation are exactly what the next cycle freezes (rows nested at
			// the seams of that cycle's flushes are not frozen by it any more)
			h.bulk()
			h.fullFlushCycle()
			h.afterFlushStep()
		}},
		{"write", w(2), func() {
			for i := rapid.IntRange(1, 3).Draw(h.t, "rows"); i > 0; i-- {
				h.write("")
			}
		}},
		{"query", w(1), func() { h.query("") }},
		{"flushStep", w(2), func() { h.flushStep(); h.afterFlushStep() }},
		{"flushCycle", func() int {
			if waiting() {
				return 9
			}
			return 1
		}, func() {
			if h.phase == phIdle {
				h.flushStep()
			}
			h.finishCycle()
			h.classes["flush-cycle-as-one-step"]++
			h.afterFlushStep()
		}},
		{"compact", func() int {
			if files() >= 2 {
				return 9
			}
			return 2
		}, func() {
			// a compaction job needs >= 2 files of the family: mostly the names of the bucket that are
			// still in memory are flushed first (a complete flush cycle of all shards)
			if level0Files(h.family(v.family())) < 2 && h.pendingNew() > 0 && rapid.IntRange(0, 4).Draw(h.t, "flushBeforeCompaction") != 0 {
				h.fullFlushCycle()
				h.classes["flush-cycle-before-compaction"]++
				h.observeDisk("flush")
			}
			h.compact()
			h.observeDisk("compaction")
			// a compaction that left a full trie behind is mostly followed by a second one (new names,
			// flush cycle, compaction): the job then finds full and partly filled tries in its inputs
			if v.hasFullCompactedTrie() && v.budget > 1 && rapid.IntRange(0, 2).Draw(h.t, "compactAgain") != 0 {
				// (Family.Compact wants two level-0 files: two flush cycles with new names of the bucket)
				for i := 0; i < 2; i++ {
					h.bulkOf(rapid.IntRange(1, min(v.budget/2, 1500)).Draw(h.t, "namesBeforeSecondCompaction"), "before the next compaction")
					h.fullFlushCycle()
				}
				h.observeDisk("flush")
				h.compact()
				h.observeDisk("compaction")
				h.classes["compaction-again-after-a-full-65535-trie"]++
			}
		}},
		{"reopen", when(func() bool { return h.phase == phIdle }, 2), func() { h.reopen(); h.observeDisk("reopen") }},
		{"requestAgain", when(func() bool { return v.made > 0 }, 2), func() { h.reRequest(false) }},
		{"oracle", w(2), func() { h.volCheck("drawn") }},
		{"dropSeqCache", when(v.isSeries, 1), func() { h.dropSeqCache("") }},
		{"crash", when(func() bool {
			for _, p := range h.im.Points {
				if p.Dir != "" {
					return true
				}
			}
			return false
		}, 1), h.crashCheck},
	}
	h.guarded(func() {
		h.write("")
		h.bulk()
		for steps := rapid.IntRange(8, 16).Draw(t, "steps"); steps > 0; steps-- {
			// rapid prefers the front of a sampled slice, so the operations are listed by falling weight
			// (ties in table order): what the state asks for is the most likely pick
			type cand struct {
				name   string
				weight int
			}
			var cands []cand
			for _, o := range ops {
				if wt := o.weight(); wt > 0 {
					cands = append(cands, cand{o.name, wt})
				}
			}
			sort.SliceStable(cands, func(i, j int) bool { return cands[i].weight > cands[j].weight })
			var names []string
			for _, c := range cands {
				for i := c.weight; i > 0; i-- {
					names = append(names, c.name)
				}
			}
			pick := rapid.SampledFrom(names).Draw(t, "action")
			for _, o := range ops {
				if o.name == pick {
					o.fn()
				}
			}
		}
		// the end of every case: everything is flushed by an orderly restart, the compacted files are
		// read, every name is looked up and requested again
		h.crashCheck()
		h.reopen()
		h.observeDisk("final reopen")
		h.volCheck("after the final reopen")
		h.reRequest(true)
	})

	if os.Getenv("C09_VOLUME_TRACE") != "" { // the histories of passing cases, for a look at the generator
		fmt.Fprintf(os.Stderr, "---- %s, names %s, %d index databases\n  %s\n", v.kind, v.shape, nIdx, strings.Join(h.ops, "\n  "))
	}
	canon := fmt.Sprintf("%d|%s|%s|%s|%s|%v|%v", nIdx, h.w.mode, v.kind, v.shape, h.u, v.bulks, h.ops)
	h.classes["wire-"+h.w.mode] = 1
	h.classes["bulk-kind-"+v.kind] = 1
	h.classes["bulk-name-shape-"+v.shape] = 1
	for c, n := range h.classes {
		ev.Class("TestVolumeHistory", c, n)
	}
	sort.Strings(v.layouts)
	ev.Case("TestVolumeHistory", canon, v.multiTrie || v.fullTrie, nil, map[string]any{
		"index_databases": nIdx, "bulk_kind": v.kind, "name_shape": v.shape, "bulk_sizes": v.bulks, "names": h.u.String(),
		"history": h.ops, "images_recovered": h.imagesChecked,
	})
	for _, hs := range h.ntHashes {
		ev.Case("crash-points", canon+"|"+hs, true, nil, nil)
	}
	h.recordCompactions(canon)
	h.recordSeqDrops("sequence-cache-misses", canon)
}

// fullFlushCycle finishes the running flush cycle, if any, and runs a complete one of all shards.
func (h *hist) fullFlushCycle() {
	h.finishCycle()
	h.allShardsInCycle = true
	h.flushStep()
	h.allShardsInCycle = false
	h.finishCycle()
	h.classes["flush-cycle-of-all-shards"]++
}

// afterFlushStep: a Flush of the bulk store may have returned.
func (h *hist) afterFlushStep() {
	h.observeDisk("flush")
	if rapid.IntRange(0, 2).Draw(h.t, "oracleAfterFlush") == 0 {
		h.volCheck("after a flush step")
	}
}

func TestVolumeHistory(t *testing.T) {
	thorough := os.Getenv("VERIF_TIER") == "thorough"
	rapid.Check(t, func(t *rapid.T) { runVolume(t, thorough) })
}
