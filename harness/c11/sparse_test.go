package c11

import (
	"fmt"
	"sort"
	"testing"

	"pgregory.net/rapid"

	"github.com/lindb/lindb/index"
	"github.com/lindb/lindb/series/metric"
	"github.com/lindb/lindb/verifharness/sim/ev"
)

// ---- series ids across roaring containers ---------------------------------------------------------------
//
// The shard's index numbers the series of a metric 0, 1, 2, ... in creation order. Memory database,
// metric block of a file, file reader, compaction merger, forward index and grouping all store "per
// series" data behind a roaring bitmap of series ids, i.e. in containers of 65536 ids (high 16 bits)
// with a separate offset table per container. A data family holds only the series that received
// points in its time range, so a metric with many (short-lived) series has families whose few series
// carry ids far apart: 3, 65535, 65536, 131072, ...
//
// Class "series id plan": a metric of the schema carries a strictly increasing list of ids; the k-th
// series of the metric the history creates gets the k-th id. The ids in between stand for series of
// the metric that were created earlier in the shard's index and have no point in the generated
// families (they would not be stored in any of the structures above either). The harness moves the
// per-metric sequence of the index forward (seam index.VerifSetNextSeriesID, tag verif) right before
// the production write call whose row creates the series; everything else - id hand-out, index
// building, memory database, flush, compaction, query - is production code. After the call the id
// is read back from the index (harness self check).
//
// TestQueryModelManySeries (dense form, no seam) really creates more than 65536 series of one metric.

const containerSize = 1 << 16

// maxSeriesID: models.NewDefaultLimits MaxSeriesPerMetric = 200000 (a larger id is rejected).
const maxSeriesID = 199_999

var idPlanEdges = []uint32{
	0, 1, 2,
	containerSize - 2, containerSize - 1, containerSize, containerSize + 1, containerSize + 2,
	2*containerSize - 1, 2 * containerSize, 2*containerSize + 1,
	3*containerSize - 1, 3 * containerSize, 3*containerSize + 1,
	maxSeriesID,
}

// genIDPlan draws n strictly increasing series ids: container edges (last id of a container, first
// id of the next one, their neighbours), ids right after an already chosen one, and arbitrary ids.
func genIDPlan(t *rapid.T, n int) []uint32 {
	seen := map[uint32]bool{}
	var ids []uint32
	for len(ids) < n {
		var id uint32
		switch k := rapid.IntRange(0, 9).Draw(t, "idKind"); {
		case k <= 5:
			id = rapid.SampledFrom(idPlanEdges).Draw(t, "idEdge")
		case k <= 7 && len(ids) > 0:
			id = ids[rapid.IntRange(0, len(ids)-1).Draw(t, "idNextTo")] + 1
		default:
			id = uint32(rapid.IntRange(0, maxSeriesID).Draw(t, "idAny"))
		}
		if id > maxSeriesID || seen[id] {
			continue
		}
		seen[id] = true
		ids = append(ids, id)
	}
	sort.Slice(ids, func(i, j int) bool { return ids[i] < ids[j] })
	return ids
}

// addIDPlans gives every metric of the schema an id plan with probability num/den.
func addIDPlans(t *rapid.T, sc *schema, num, den int) {
	for i := range sc.Metrics {
		if rapid.IntRange(1, den).Draw(t, "withIDPlan") <= num {
			sc.Metrics[i].IDPlan = genIDPlan(t, len(sc.Metrics[i].Series))
		}
	}
}

type idAssign struct {
	metric string
	key    string // tags key of the series
	id     uint32
	first  bool // first series of the metric
	count  int  // number of series of the metric once this one exists
}

type writeChunk struct {
	n      int        // number of rows
	assign []idAssign // series with a planned id that the first production write call of the chunk creates
}

// planSeriesIDs cuts a batch of rows (one family) so that every production write call creates at most
// one series of a metric with an id plan, and records the id every new series gets.
func (e *env) planSeriesIDs(metrics []metricDef, rows []rowSpec) []writeChunk {
	if e.seriesIDs == nil {
		e.seriesIDs = map[string]map[string]uint32{}
	}
	chunks := []writeChunk{{}}
	pending := map[string]bool{}
	for _, r := range rows {
		md := metrics[r.M]
		known := e.seriesIDs[md.Name]
		if known == nil {
			known = map[string]uint32{}
			e.seriesIDs[md.Name] = known
		}
		if md.IDPlan != nil {
			if e.planned == nil {
				e.planned = map[string]bool{}
			}
			e.planned[md.Name] = true
		}
		key := tagsKey(md.Series[r.S])
		cur := &chunks[len(chunks)-1]
		if _, ok := known[key]; !ok {
			k := len(known)
			if md.IDPlan == nil || k >= len(md.IDPlan) {
				known[key] = uint32(k) // creation order (not read back)
			} else {
				if pending[md.Name] && cur.n > 0 {
					chunks = append(chunks, writeChunk{})
					cur = &chunks[len(chunks)-1]
					pending = map[string]bool{}
				}
				pending[md.Name] = true
				known[key] = md.IDPlan[k]
				cur.assign = append(cur.assign, idAssign{metric: md.Name, key: key, id: md.IDPlan[k], first: k == 0, count: k + 1})
			}
		}
		cur.n++
		if e.memIDs == nil {
			e.memIDs = map[string]map[uint32]bool{}
		}
		if e.memIDs[md.Name] == nil {
			e.memIDs[md.Name] = map[uint32]bool{}
		}
		e.memIDs[md.Name][known[key]] = true
	}
	return chunks
}

// memLoadContainerShape: see sigMemLoadContainer. The statement matches a series the shard's
// in-memory series map of the metric holds (written since the engine was started) and a series of a
// container that map does not hold while it holds a lower one.
func (e *env) memLoadContainerShape(q mQuery) bool {
	mm, ids, mem := e.mdl.Metrics[q.Metric], e.seriesIDs[q.Metric], e.memIDs[q.Metric]
	if mm == nil || len(mem) == 0 {
		return false
	}
	memHis := map[uint32]bool{}
	lowest := ^uint32(0)
	for id := range mem {
		memHis[id>>16] = true
		if id>>16 < lowest {
			lowest = id >> 16
		}
	}
	inMem, above := false, false
	for key, s := range mm.Series {
		id, ok := ids[key]
		if !ok {
			continue
		}
		matched := q.matches(s.Tags)
		if !matched {
			continue
		}
		if mem[id] {
			inMem = true
		}
		if !memHis[id>>16] && id>>16 > lowest {
			above = true
		}
	}
	return inMem && above
}

// indexOf returns the shard's index database and the id of the metric (the metric is created when it does not exist yet).
func (e *env) indexOf(name string) (index.MetricIndexDatabase, metric.ID, error) {
	shard, err := e.n.Shard(e.db, 0)
	if err != nil {
		return nil, 0, err
	}
	db, ok := e.n.Engine.GetDatabase(e.db)
	if !ok {
		return nil, 0, fmt.Errorf("harness: database not found")
	}
	mid, err := db.MetaDB().GenMetricID([]byte("default-ns"), []byte(name))
	return shard.IndexDB(), mid, err
}

// applySeriesIDs moves the series sequence of the metrics so that the series created next get their planned ids.
func (e *env) applySeriesIDs(assign []idAssign) error {
	for _, a := range assign {
		if a.first && a.id == 0 {
			continue // what the index does anyway; the metric itself is created by the write
		}
		idx, mid, err := e.indexOf(a.metric)
		if err != nil {
			return err
		}
		if !index.VerifSetNextSeriesID(idx, mid, a.id) {
			return fmt.Errorf("harness: the shard's index database is not the production implementation")
		}
	}
	return nil
}

// verifySeriesIDs reads the ids back from the shard's index.
func (e *env) verifySeriesIDs(assign []idAssign) error {
	for _, a := range assign {
		idx, mid, err := e.indexOf(a.metric)
		if err != nil {
			return err
		}
		ids, err := idx.GetSeriesIDsForMetric(mid)
		if err != nil {
			return fmt.Errorf("harness: series ids of %s: %w", a.metric, err)
		}
		if !ids.Contains(a.id) || int(ids.GetCardinality()) != a.count {
			return fmt.Errorf("harness: series %s[%s] was planned as id %d, the index holds %v for %d series", a.metric, a.key, a.id, ids.ToArray(), a.count)
		}
	}
	return nil
}

// memParallelLoadShape: see sigMemParallelLoad.
func (e *env) memParallelLoadShape(q mQuery) bool {
	mm, ids := e.mdl.Metrics[q.Metric], e.seriesIDs[q.Metric]
	if mm == nil {
		return false
	}
	wanted := map[string]bool{}
	for _, it := range q.operandItems() {
		wanted[it.Field] = true
	}
	type memField struct {
		fam   int64
		gen   int
		field string
	}
	his := map[memField]map[uint32]bool{}
	for key, s := range mm.Series {
		id, ok := ids[key]
		if !ok {
			continue
		}
		matched := q.matches(s.Tags)
		if !matched {
			continue
		}
		for fname, pts := range s.Fields {
			if !wanted[fname] {
				continue
			}
			for _, p := range pts {
				if e.inFile(p) {
					continue
				}
				k := memField{p.Fam, p.Gen, fname}
				if his[k] == nil {
					his[k] = map[uint32]bool{}
				}
				his[k][id>>16] = true
				if len(his[k]) >= 2 {
					return true
				}
			}
		}
	}
	return false
}

// inFile: the point was moved to a file by a completed flush.
func (e *env) inFile(p mPoint) bool {
	if e.inFlush[p.Fam] {
		return p.Gen < e.gen[p.Fam]
	}
	return p.Gen < e.gen[p.Fam] || !e.dirty[p.Fam]
}

// seriesIDClasses describes where the series a statement reads sit in the roaring containers of the
// blocks that hold them. A block = the points of the metric one flush moved to a file (family, memory
// database generation), or everything a compaction merged.
func (e *env) seriesIDClasses(q mQuery) []string {
	mm := e.mdl.Metrics[q.Metric]
	ids := e.seriesIDs[q.Metric]
	if mm == nil || ids == nil {
		return nil
	}
	var out []string
	if e.planned[q.Metric] {
		out = append(out, "series-ids:metric-with-id-plan")
	}
	his := map[uint32]bool{}
	for _, id := range ids {
		his[id>>16] = true
	}
	if len(his) < 2 {
		return out
	}
	out = append(out, "series-ids:metric-in->=2-containers")
	wanted := map[string]bool{}
	for _, it := range q.operandItems() {
		wanted[it.Field] = true
	}
	start, end, _ := e.mdl.plan(q)
	type blockKey struct {
		fam int64
		gen int // -1 = merged by a compaction
	}
	type block struct {
		fields map[string]bool
		minID  map[uint32]uint32 // container -> smallest series id of the block
		read   map[uint32]bool   // series ids the statement reads from the block
	}
	blocks := map[blockKey]*block{}
	memHis, memRead := map[int64]map[uint32]bool{}, map[int64]bool{}
	for key, s := range mm.Series {
		id, ok := ids[key]
		if !ok {
			continue
		}
		matched := q.matches(s.Tags)
		for fname, pts := range s.Fields {
			for _, p := range pts {
				if !e.inFile(p) {
					if memHis[p.Fam] == nil {
						memHis[p.Fam] = map[uint32]bool{}
					}
					memHis[p.Fam][id>>16] = true
					if ss := e.mdl.slotStart(p.TS); matched && wanted[fname] && ss >= start && ss <= end && id>>16 > 0 {
						memRead[p.Fam] = true
					}
					continue
				}
				k := blockKey{p.Fam, p.Gen}
				if p.Gen < e.mergedUpTo[p.Fam] {
					k.gen = -1
				}
				b := blocks[k]
				if b == nil {
					b = &block{fields: map[string]bool{}, minID: map[uint32]uint32{}, read: map[uint32]bool{}}
					blocks[k] = b
				}
				b.fields[fname] = true
				if m, ok := b.minID[id>>16]; !ok || id < m {
					b.minID[id>>16] = id
				}
				if ss := e.mdl.slotStart(p.TS); matched && wanted[fname] && ss >= start && ss <= end {
					b.read[id] = true
				}
			}
		}
	}
	set := map[string]bool{}
	for f, h := range memHis {
		if len(h) >= 2 && memRead[f] {
			set["series-ids:read-beyond-first-container-of-memdb"] = true
		}
	}
	for k, b := range blocks {
		if len(b.minID) < 2 || len(b.read) == 0 {
			continue
		}
		kind := "file-block"
		if k.gen < 0 {
			kind = "compacted-block"
		}
		lowest := ^uint32(0)
		for hi := range b.minID {
			if hi < lowest {
				lowest = hi
			}
		}
		readHis := map[uint32]bool{}
		for id := range b.read {
			readHis[id>>16] = true
			if id>>16 != lowest {
				set["series-ids:read-beyond-first-container-of-"+kind] = true
				if b.minID[id>>16] == id {
					set["series-ids:read-first-series-of-later-container-of-"+kind] = true
					if len(b.fields) >= 2 {
						set["series-ids:read-first-series-of-later-container-of-"+kind+"-with->=2-fields"] = true
					}
				}
			}
			if id&0xffff == 0xffff || (id&0xffff == 0 && id > 0) {
				set["series-ids:read-series-at-container-edge-of-"+kind] = true
			}
		}
		if len(readHis) >= 2 {
			set["series-ids:read->=2-containers-of-"+kind] = true
		}
	}
	for c := range set {
		out = append(out, c)
	}
	sort.Strings(out)
	return out
}

// TestQueryModelSparseSeries: TestQueryModel with an id plan for every metric and mostly >= 2 fields per metric.
func TestQueryModelSparseSeries(t *testing.T) {
	rapid.Check(t, func(t *rapid.T) {
		sc := genSchema(t)
		for i := range sc.Metrics {
			md := &sc.Metrics[i]
			if md.IDPlan == nil {
				md.IDPlan = genIDPlan(t, len(md.Series))
			}
			if len(md.Fields) == 1 && rapid.IntRange(0, 3).Draw(t, "secondField") > 0 {
				typ := rapid.SampledFrom([]string{tSum, tMin, tMax, tLast, tFirst}).Draw(t, "fieldType2")
				md.Fields = append(md.Fields, fieldDef{Name: "f1" + typ, Type: typ})
			}
		}
		ops := genOps(t, sc)
		if rapid.Bool().Draw(t, "compactTail") {
			// everything to files, every family compacted (the merger writes the blocks with the same
			// flusher), then statements on the merged blocks
			written := map[string]map[string]bool{}
			for _, op := range ops {
				for _, r := range op.Rows {
					name := sc.Metrics[r.M].Name
					if written[name] == nil {
						written[name] = map[string]bool{}
					}
					for _, fv := range r.Vals {
						written[name][fv.Field] = true
					}
				}
			}
			ops = append(ops, opSpec{Kind: "write", Rows: genRows(t, sc, 6, newWindowTracker(sc.S))})
			for _, r := range ops[len(ops)-1].Rows {
				for _, fv := range r.Vals {
					if written[sc.Metrics[r.M].Name] == nil {
						written[sc.Metrics[r.M].Name] = map[string]bool{}
					}
					written[sc.Metrics[r.M].Name][fv.Field] = true
				}
			}
			ops = append(ops, opSpec{Kind: "flushFamilies"})
			for i := range sc.Fams {
				ops = append(ops, opSpec{Kind: "compact", Fam: i})
			}
			for i := rapid.IntRange(1, 3).Draw(t, "nCompactedQueries"); i > 0; i-- {
				q := genQuery(t, sc, written)
				ops = append(ops, opSpec{Kind: "query", Query: &q, SQL: q.sql()})
			}
		}
		classes, nt := runHistory(t, sc, ops)
		ev.Case("TestQueryModelSparseSeries", canon(sc, ops), nt, classes, map[string]any{"schema": sc, "ops": ops})
	})
}
