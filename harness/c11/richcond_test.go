package c11

import (
	"fmt"
	"regexp"
	"sort"
	"strings"
	"testing"

	"pgregory.net/rapid"

	"github.com/lindb/lindb/sql"
	"github.com/lindb/lindb/sql/stmt"
	"github.com/lindb/lindb/verifharness/sim/ev"
)

// ---- rich where-clauses and select lists ---------------------------------------------------------------
//
// The statements of the other generators use every tag filter once (a conjunction of at most two
// atoms). This file adds, to every history test of the package (a share of the statements) and to
// TestQueryModelRichConditions (every statement):
//
//   - conditions as and/or/parenthesis trees of depth <= 4 over =, !=, <>, like, not like, =~, !~, in,
//     not in, whose leaves are drawn from a small pool of atoms, so the same tag filter text occurs
//     several times in one condition at different positions: left and right operand of and/or, inside
//     parentheses ((a and b) or (a and c)), next to its own negation (a or not a = every series that
//     has the key, a and not a = none), and again in the later statements of the same history;
//   - select lists that name one field two or three times with different functions;
//   - two different filters with the same rewritten text next to each other (host =~ 'p' and
//     host = '~p'; host in ('a','b') and host in ('a,b')): a memo keyed by the text must not mix them up;
//   - every such statement is executed twice on the same node; the second answer is compared with the
//     model exactly like the first (state kept per statement - memoised filter results, reused
//     aggregators - must not leak into the next execution); in TestQueryModelRichConditions a quarter
//     of the statements are earlier statements of the history issued again after the writes, flushes
//     and compactions in between (a memo that outlives the statement must not serve stale series).
//
// The oracle stays the naive one: the predicate is evaluated on the tags of every written series
// (a series that lacks the key satisfies neither an atom nor its negation; like: `x*` prefix, `*x`
// suffix, `*x*` contains, `x` equals; regular expressions with Go search semantics); the selected
// series then go through the model of model_test.go.
//
// The text is parsed by the production parser and converted back, mechanically, into the tree type
// of this file: for fully parenthesised texts the result must have the generated shape (harness
// self check); for a bare chain (a and b or a and c) the tree the parser built is what the model
// evaluates (no document fixes the precedence of and/or, see DESIGN.md 7.4).

// condNode is an atom (Key != ""), a binary node (L, R) or a parenthesis (Inner).
type condNode struct {
	Key  string   `json:"k,omitempty"`
	Op   string   `json:"op,omitempty"` // "=", "like", "regex", "in"
	Neg  bool     `json:"neg,omitempty"`
	Vals []string `json:"v,omitempty"`
	Alt  bool     `json:"alt,omitempty"` // "<>" instead of "!="

	And bool      `json:"and,omitempty"`
	L   *condNode `json:"l,omitempty"`
	R   *condNode `json:"r,omitempty"`

	Inner *condNode `json:"p,omitempty"`
}

func (c *condNode) isAtom() bool { return c.L == nil && c.Inner == nil }

func sqlLit(s string) string {
	if strings.ContainsAny(s, "'\r\n") {
		panic(fmt.Sprintf("harness: literal %q is not expressible", s))
	}
	return "'" + s + "'"
}

func (c *condNode) sqlText() string {
	switch {
	case c.Inner != nil:
		return "(" + c.Inner.sqlText() + ")"
	case c.L != nil:
		if c.And {
			return c.L.sqlText() + " and " + c.R.sqlText()
		}
		return c.L.sqlText() + " or " + c.R.sqlText()
	}
	switch c.Op {
	case "=":
		switch {
		case c.Neg && c.Alt:
			return c.Key + " <> " + sqlLit(c.Vals[0])
		case c.Neg:
			return c.Key + " != " + sqlLit(c.Vals[0])
		}
		return c.Key + " = " + sqlLit(c.Vals[0])
	case "like":
		if c.Neg {
			return c.Key + " not like " + sqlLit(c.Vals[0])
		}
		return c.Key + " like " + sqlLit(c.Vals[0])
	case "regex":
		if c.Neg {
			return c.Key + " !~ " + sqlLit(c.Vals[0])
		}
		return c.Key + " =~ " + sqlLit(c.Vals[0])
	case "in":
		q := make([]string, len(c.Vals))
		for i, v := range c.Vals {
			q[i] = sqlLit(v)
		}
		if c.Neg {
			return c.Key + " not in (" + strings.Join(q, ",") + ")"
		}
		return c.Key + " in (" + strings.Join(q, ",") + ")"
	}
	panic("harness: operator " + c.Op)
}

// filterText identifies the tag filter of an atom without its negation (the negated form is a NOT
// around the same filter).
func (c *condNode) filterText() string { return fmt.Sprintf("%s %s %q", c.Key, c.Op, c.Vals) }

// shape renders the structure without spelling details.
func (c *condNode) shape() string {
	switch {
	case c.Inner != nil:
		return "(" + c.Inner.shape() + ")"
	case c.L != nil:
		if c.And {
			return "[" + c.L.shape() + " & " + c.R.shape() + "]"
		}
		return "[" + c.L.shape() + " | " + c.R.shape() + "]"
	}
	if c.Neg {
		return "!" + c.filterText()
	}
	return c.filterText()
}

func (c *condNode) depth() int {
	switch {
	case c.Inner != nil:
		return c.Inner.depth()
	case c.L != nil:
		l, r := c.L.depth(), c.R.depth()
		if r > l {
			l = r
		}
		return l + 1
	}
	return 0
}

// atomUse is one occurrence of an atom in a condition.
type atomUse struct {
	Atom   *condNode
	IsLeft bool // the occurrence (possibly inside parentheses) is the left operand of an and/or
	Depth  int  // number of binary nodes above it
}

func (c *condNode) uses(out []atomUse, isLeft bool, depth int) []atomUse {
	switch {
	case c.Inner != nil:
		return c.Inner.uses(out, isLeft, depth)
	case c.L != nil:
		return c.R.uses(c.L.uses(out, true, depth+1), false, depth+1)
	}
	return append(out, atomUse{Atom: c, IsLeft: isLeft, Depth: depth})
}

var richRx = map[string]*regexp.Regexp{}

func richRegexp(p string) *regexp.Regexp {
	if r, ok := richRx[p]; ok {
		return r
	}
	r, err := regexp.Compile(p)
	if err != nil {
		panic("harness: generated an invalid regular expression: " + p)
	}
	richRx[p] = r
	return r
}

// eval: the naive predicate. A series without the key satisfies neither an atom nor its negation.
func (c *condNode) eval(tags map[string]string) bool {
	switch {
	case c.Inner != nil:
		return c.Inner.eval(tags)
	case c.L != nil:
		if c.And {
			return c.L.eval(tags) && c.R.eval(tags)
		}
		return c.L.eval(tags) || c.R.eval(tags)
	}
	v, ok := tags[c.Key]
	if !ok {
		return false
	}
	var m bool
	switch c.Op {
	case "=":
		m = v == c.Vals[0]
	case "like":
		m = likeMatch(c.Vals[0], v)
	case "regex":
		m = richRegexp(c.Vals[0]).MatchString(v)
	default:
		for _, x := range c.Vals {
			if x == v {
				m = true
			}
		}
	}
	return m != c.Neg
}

// condFromStmt converts the parser's expression into a condNode (no evaluation).
func condFromStmt(e stmt.Expr) (*condNode, error) {
	switch x := e.(type) {
	case *stmt.EqualsExpr:
		return &condNode{Key: x.Key, Op: "=", Vals: []string{x.Value}}, nil
	case *stmt.LikeExpr:
		return &condNode{Key: x.Key, Op: "like", Vals: []string{x.Value}}, nil
	case *stmt.RegexExpr:
		return &condNode{Key: x.Key, Op: "regex", Vals: []string{x.Regexp}}, nil
	case *stmt.InExpr:
		return &condNode{Key: x.Key, Op: "in", Vals: append([]string{}, x.Values...)}, nil
	case *stmt.NotExpr:
		in, err := condFromStmt(x.Expr)
		if err != nil {
			return nil, err
		}
		if !in.isAtom() || in.Neg {
			return nil, fmt.Errorf("NOT over something else than a tag filter: %s", e.Rewrite())
		}
		in.Neg = true
		return in, nil
	case *stmt.ParenExpr:
		in, err := condFromStmt(x.Expr)
		if err != nil {
			return nil, err
		}
		return &condNode{Inner: in}, nil
	case *stmt.BinaryExpr:
		if x.Operator != stmt.AND && x.Operator != stmt.OR {
			return nil, fmt.Errorf("operator %s in a tag condition", stmt.BinaryOPString(x.Operator))
		}
		l, err := condFromStmt(x.Left)
		if err != nil {
			return nil, err
		}
		r, err := condFromStmt(x.Right)
		if err != nil {
			return nil, err
		}
		return &condNode{And: x.Operator == stmt.AND, L: l, R: r}, nil
	}
	return nil, fmt.Errorf("unexpected expression %T", e)
}

// parseWhere runs the production parser on the statement and returns its tag condition.
func parseWhere(sqlText string) (*condNode, error) {
	st, err := sql.Parse(sqlText)
	if err != nil {
		return nil, err
	}
	q, ok := st.(*stmt.Query)
	if !ok {
		return nil, fmt.Errorf("not a query: %T", st)
	}
	if q.Condition == nil {
		return nil, fmt.Errorf("the parsed statement has no tag condition")
	}
	return condFromStmt(q.Condition)
}

// ---- generator ---------------------------------------------------------------------------------------------

// tagValuesOf: key -> distinct values the series of the metric carry (sorted).
func tagValuesOf(md metricDef) map[string][]string {
	seen := map[string]map[string]bool{}
	for _, sr := range md.Series {
		for k, v := range sr {
			if seen[k] == nil {
				seen[k] = map[string]bool{}
			}
			seen[k][v] = true
		}
	}
	out := map[string][]string{}
	for k, vs := range seen {
		for v := range vs {
			out[k] = append(out[k], v)
		}
		sort.Strings(out[k])
	}
	return out
}

var absentValues = []string{"zz", "a", "1", "A1", "x y"}

// genRichAtom draws one atom on a tag key of the metric (rarely: a key no series of the metric has).
func genRichAtom(t *rapid.T, md metricDef) *condNode {
	values := tagValuesOf(md)
	c := &condNode{}
	if rapid.IntRange(0, 39).Draw(t, "atomUnknownKey") == 23 {
		c.Key = "nokey"
		values = map[string][]string{"nokey": {"a1", "x"}}
	} else {
		c.Key = md.Keys[rapid.IntRange(0, len(md.Keys)-1).Draw(t, "atomKey")]
	}
	pool := values[c.Key]
	present := func(label string) string { return rapid.SampledFrom(pool).Draw(t, label) }
	value := func(label string) string {
		if rapid.IntRange(0, 5).Draw(t, label+"Absent") == 0 {
			return rapid.SampledFrom(absentValues).Draw(t, label+"AbsentValue")
		}
		return present(label)
	}
	c.Neg = rapid.IntRange(0, 9).Draw(t, "atomNeg") < 3
	c.Alt = rapid.Bool().Draw(t, "atomNeqSpelling")
	switch rapid.IntRange(0, 8).Draw(t, "atomOp") {
	case 0, 1, 2:
		c.Op, c.Vals = "=", []string{value("eqValue")}
	case 3, 4:
		c.Op = "in"
		for i, n := 0, rapid.IntRange(1, 3).Draw(t, "inN"); i < n; i++ {
			c.Vals = append(c.Vals, value("inValue"))
		}
	case 5, 6:
		c.Op = "like"
		v := present("likeValue")
		var p string
		switch rapid.IntRange(0, 7).Draw(t, "likeKind") {
		case 0, 1:
			p = v[:1] + "*"
		case 2:
			p = "*" + v[len(v)-1:]
		case 3:
			p = "*" + v[:1] + "*"
		case 4:
			p = "*" + v[len(v)-1:] + "*"
		case 5:
			p = v
		case 6:
			p = "*" // every series that has the key
		default:
			p = "zz*" // none
		}
		c.Vals = []string{p}
	default:
		c.Op = "regex"
		v, w := present("rxValue"), present("rxValue2")
		var p string
		switch rapid.IntRange(0, 7).Draw(t, "rxKind") {
		case 0:
			p = "^" + regexp.QuoteMeta(v[:1])
		case 1:
			p = regexp.QuoteMeta(v[len(v)-1:]) + "$"
		case 2:
			p = "^(" + regexp.QuoteMeta(v) + "|" + regexp.QuoteMeta(w) + ")$"
		case 3:
			p = regexp.QuoteMeta(v[:1]) // unanchored
		case 4:
			p = "^" + regexp.QuoteMeta(v) + "$"
		case 5:
			p = "." // every series that has the key
		case 6:
			p = "[0-9]$"
		default:
			p = "^zz" // none
		}
		c.Vals = []string{p}
	}
	return c
}

// genAtomPool draws 2-4 atoms with distinct filter texts.
func genAtomPool(t *rapid.T, md metricDef) []condNode {
	n := rapid.IntRange(2, 4).Draw(t, "atomPoolSize")
	var pool []condNode
	seen := map[string]bool{}
	for try := 0; len(pool) < n && try < 12; try++ {
		a := genRichAtom(t, md)
		if seen[a.filterText()] {
			continue
		}
		seen[a.filterText()] = true
		pool = append(pool, *a)
	}
	return pool
}

// sigRewriteCollision: flow.StorageExecuteContext.TagFilterResult is keyed by the rewritten text of a
// tag filter (expr.Rewrite()), and two different filters can have the same text: host = '~a' and
// host =~ 'a' both give "host=~a", host in ('a','b') and host in ('a,b') both give "host in (a,b)".
// The tag value lookup stores the later filter of the condition over the earlier one, the series
// filtering reads both from the one entry: `host =~ 'a' or host = '~a'` selects nothing although
// `host =~ 'a'` alone selects host=a (TestRegression_TagFiltersWithEqualRewrittenTextCollide).
// Repaired in /repo (c8f3b29, flow.TagFilterKey): the shape is always generated.
const sigRewriteCollision = "C11/tag-filters-with-equal-rewritten-text-collide" // repaired in /repo (c8f3b29)

const (
	whereSameRewrite  = "different-filters-with-equal-rewritten-text"
	whereDistributive = "distributive"
	whereNestedRight  = "nested-right"
	whereNestedLeft   = "nested-left"
	whereWithNegation = "filter-and-its-negation"
	whereRandomTree   = "random-tree"
	whereFlatChain    = "flat-chain"
)

// genRichWhere draws a condition whose leaves come from the pool. flat = bare chain without
// parentheses (then the parser's reading is the one the model evaluates).
func genRichWhere(t *rapid.T, pool []condNode) (root *condNode, kind string, flat bool) {
	leafOf := func(i int) *condNode {
		a := pool[i]
		a.Vals = append([]string(nil), a.Vals...)
		if rapid.IntRange(0, 5).Draw(t, "leafFlipNeg") == 0 {
			a.Neg = !a.Neg
		}
		if rapid.IntRange(0, 11).Draw(t, "leafParen") == 0 {
			return &condNode{Inner: &a}
		}
		return &a
	}
	leaf := func() *condNode { return leafOf(rapid.IntRange(0, len(pool)-1).Draw(t, "leaf")) }
	// others: a leaf of another pool entry than i when there is one
	other := func(i int) *condNode {
		j := rapid.IntRange(0, len(pool)-1).Draw(t, "otherLeaf")
		if j == i {
			j = (j + 1) % len(pool)
		}
		return leafOf(j)
	}
	paren := func(x *condNode) *condNode {
		if x.L != nil {
			return &condNode{Inner: x}
		}
		return x
	}
	bin := func(and bool, l, r *condNode) *condNode { return &condNode{And: and, L: paren(l), R: paren(r)} }
	drawAnd := func(label string) bool { return rapid.Bool().Draw(t, label) }
	pair := func(and bool, a, b *condNode) *condNode { // a op b or b op a
		if rapid.Bool().Draw(t, "repeatedOnTheLeft") {
			return bin(and, a, b)
		}
		return bin(and, b, a)
	}
	switch k := rapid.IntRange(0, 12).Draw(t, "whereKind"); {
	case k == 12: // two different filters with one rewritten text, in both orders, alone or next to a third filter
		kind = whereSameRewrite
		var a, b condNode
		base := pool[rapid.IntRange(0, len(pool)-1).Draw(t, "collisionBase")]
		if base.Op == "in" && len(base.Vals) >= 2 {
			a = condNode{Key: base.Key, Op: "in", Vals: append([]string(nil), base.Vals...)}
			b = condNode{Key: base.Key, Op: "in", Vals: []string{strings.Join(base.Vals, ",")}}
		} else {
			p := base.Vals[0]
			if base.Op != "regex" {
				p = regexp.QuoteMeta(strings.Trim(p, "*"))
			}
			a = condNode{Key: base.Key, Op: "regex", Vals: []string{p}}
			b = condNode{Key: base.Key, Op: "=", Vals: []string{"~" + p}}
		}
		a.Neg, b.Neg = rapid.IntRange(0, 3).Draw(t, "collisionNegA") == 0, rapid.IntRange(0, 3).Draw(t, "collisionNegB") == 0
		root = pair(drawAnd("collisionAnd"), &a, &b)
		if rapid.Bool().Draw(t, "collisionContext") {
			root = pair(drawAnd("and1"), root, leaf())
		}
	case k <= 3: // (A op1 B) op2 (A op1 C) [op2 (A op1 D)]
		kind = whereDistributive
		i := rapid.IntRange(0, len(pool)-1).Draw(t, "repeated")
		op1 := drawAnd("innerAnd")
		op2 := !op1
		if rapid.IntRange(0, 4).Draw(t, "sameOperators") == 0 {
			op2 = op1
		}
		root = bin(op2, pair(op1, leafOf(i), other(i)), pair(op1, leafOf(i), other(i)))
		if rapid.IntRange(0, 2).Draw(t, "thirdBranch") == 0 {
			root = bin(op2, root, pair(op1, leafOf(i), other(i)))
		}
	case k == 4: // A op (B op (A op C)), optionally one level more
		kind = whereNestedRight
		i := rapid.IntRange(0, len(pool)-1).Draw(t, "repeated")
		root = bin(drawAnd("and3"), leafOf(i), other(i))
		root = bin(drawAnd("and2"), other(i), root)
		root = bin(drawAnd("and1"), leafOf(i), root)
		if rapid.Bool().Draw(t, "fourthLevel") {
			root = bin(drawAnd("and0"), leaf(), root)
		}
	case k == 5: // ((A op B) op C) op A
		kind = whereNestedLeft
		i := rapid.IntRange(0, len(pool)-1).Draw(t, "repeated")
		root = bin(drawAnd("and3"), leafOf(i), other(i))
		root = bin(drawAnd("and2"), root, other(i))
		root = bin(drawAnd("and1"), root, leafOf(i))
		if rapid.Bool().Draw(t, "fourthLevel") {
			root = bin(drawAnd("and0"), root, leaf())
		}
	case k == 6: // A or not A (every series with the key), A and not A (none), alone or inside a larger condition
		kind = whereWithNegation
		i := rapid.IntRange(0, len(pool)-1).Draw(t, "repeated")
		a, na := pool[i], pool[i]
		a.Vals, na.Vals = append([]string(nil), a.Vals...), append([]string(nil), na.Vals...)
		na.Neg = !a.Neg
		root = pair(drawAnd("withNegationAnd"), &a, &na)
		switch rapid.IntRange(0, 2).Draw(t, "negationContext") {
		case 1:
			root = pair(drawAnd("and1"), root, other(i))
		case 2:
			root = pair(drawAnd("and1"), root, bin(drawAnd("and2"), leafOf(i), other(i)))
		}
	default:
		kind = whereRandomTree
		var tree func(d int) *condNode
		tree = func(d int) *condNode {
			if d == 0 || rapid.IntRange(0, 4).Draw(t, "treeLeaf") == 0 {
				return leaf()
			}
			return bin(drawAnd("treeAnd"), tree(d-1), tree(d-1))
		}
		d := rapid.SampledFrom([]int{2, 3, 3, 4}).Draw(t, "treeDepth")
		root = bin(drawAnd("treeAnd"), tree(d-1), tree(d-1))
	case k == 11: // A op B op A op C ...: no parentheses between the operands
		kind, flat = whereFlatChain, true
		n := rapid.IntRange(3, 5).Draw(t, "chainLength")
		root = leaf()
		for i := 1; i < n; i++ {
			root = &condNode{And: drawAnd("chainAnd"), L: root, R: leaf()}
		}
	}
	return root, kind, flat
}

// setRichWhere puts the condition into the statement and lets the production parser read the whole
// statement: a fully parenthesised condition must come back with the generated shape (harness self
// check); for a bare chain the parser's tree is the one the model evaluates.
func setRichWhere(t *rapid.T, q *mQuery, root *condNode, flat bool) {
	q.Cond = nil
	q.WhereText = root.sqlText()
	q.Where = root
	q.TimeFirst = rapid.IntRange(0, 2).Draw(t, "timeRangeFirst") > 0
	parsed, err := parseWhere(q.sql())
	if err != nil {
		t.Fatalf("harness: the production parser rejects the generated statement: %v\n  %s", err, q.sql())
	}
	gu, pu := root.uses(nil, false, 0), parsed.uses(nil, false, 0)
	same := len(gu) == len(pu)
	for i := 0; same && i < len(gu); i++ {
		same = gu[i].Atom.shape() == pu[i].Atom.shape()
	}
	if !same {
		t.Fatalf("harness: the production parser changed the tag filters of the condition\n  %s\n  generated %s\n  parsed    %s", q.sql(), root.shape(), parsed.shape())
	}
	if !flat && parsed.shape() != root.shape() {
		t.Fatalf("harness: the production parser reads the fully parenthesised condition differently\n  %s\n  generated %s\n  parsed    %s", q.sql(), root.shape(), parsed.shape())
	}
	q.Where = parsed
}

// genSameFieldItems draws 2-3 select items on one field with different functions (plain field included).
func genSameFieldItems(t *rapid.T, fields []fieldDef) []selectItem {
	var cands []fieldDef
	for _, fd := range fields {
		if len(supportedFuncs(fd.Type)) >= 1 {
			cands = append(cands, fd)
		}
	}
	if len(cands) == 0 {
		return nil
	}
	// prefer a field type with several functions
	fd := cands[rapid.IntRange(0, len(cands)-1).Draw(t, "sameField")]
	for _, c := range cands {
		if len(supportedFuncs(c.Type)) > len(supportedFuncs(fd.Type)) && rapid.Bool().Draw(t, "sameFieldPreferRich") {
			fd = c
		}
	}
	fns := append([]string{""}, supportedFuncs(fd.Type)...)
	perm := rapid.Permutation(fns).Draw(t, "sameFieldFns")
	n := 2
	if len(perm) > 2 && rapid.Bool().Draw(t, "sameFieldThree") {
		n = 3
	}
	var items []selectItem
	for i := 0; i < n && i < len(perm); i++ {
		it := selectItem{Field: fd.Name, Fn: perm[i]}
		if rapid.IntRange(0, 2).Draw(t, "sameFieldAlias") == 0 || quoteIdent(fd.Name) != fd.Name {
			it.Alias = fmt.Sprintf("y%d", i)
		}
		items = append(items, it)
	}
	return items
}

// ---- classes -------------------------------------------------------------------------------------------------

// classRichNT: the non-trivial rule of TestQueryModelRichConditions for one statement: a tag filter
// occurs >= 2 times in its condition, the condition selects a non-empty proper subset of the series
// the metric has, the answer is not empty, and the statement was executed twice.
const (
	classRichFirst = "where:repeated-filter,selects-nonempty-proper-subset,answer-not-empty"
	classRichNT    = classRichFirst + ",executed-twice"
)

// checkRepeated executes the statement a second time on the same node, right after the first
// execution, and checks the answer against the model in the same way. Both answers agree with the
// model, so they can differ only inside cells the model checks by membership (last/first with
// several candidates); that is counted, not asserted.
func (e *env) checkRepeated(t failer, q mQuery, first []string, history func() string) []string {
	g1 := e.lastGot
	hist := func() string {
		return "  (this is the SECOND execution of the statement; the answer of the first one agreed with the model)\n" + history()
	}
	e.checkQuery(t, q, hist)
	out := []string{"repeat:statement-executed-twice"}
	if g1.String() != e.lastGot.String() {
		out = append(out, "info:second-execution-differs-inside-cells-checked-by-membership")
	}
	for _, c := range first {
		if c == classRichFirst {
			out = append(out, classRichNT)
		}
	}
	return out
}

// whereClasses describes the condition of q against the series the model holds for the metric.
func (e *env) whereClasses(q mQuery) (classes []string, repeated, properSubset bool) {
	if q.Where == nil {
		return nil, false, false
	}
	add := func(c string) { classes = append(classes, c) }
	uses := q.Where.uses(nil, false, 0)
	count, left, positions := map[string]int{}, map[string]bool{}, map[string]map[string]bool{}
	for _, u := range uses {
		k := u.Atom.filterText()
		count[k]++
		if positions[k] == nil {
			positions[k] = map[string]bool{}
		}
		positions[k][fmt.Sprintf("%v/%d/%v", u.IsLeft, u.Depth, u.Atom.Neg)] = true
		if u.IsLeft {
			left[k] = true
		}
		op := u.Atom.Op
		if u.Atom.Neg {
			op = "not-" + op
		}
		add("where:op=" + op)
		if u.Atom.Key == "nokey" {
			add("where:filter-on-unknown-key")
		}
	}
	maxN := 0
	for k, n := range count {
		if n > maxN {
			maxN = n
		}
		if n >= 2 {
			repeated = true
			if left[k] {
				add("where:repeated-filter-is-a-left-operand")
			}
			if len(positions[k]) >= 2 {
				add("where:repeated-filter-at-different-positions")
			}
		}
	}
	add(fmt.Sprintf("where:atoms=%d", minInt(len(uses), 8)))
	switch {
	case maxN >= 3:
		add("where:same-filter->=3-times")
		add("where:same-filter->=2-times")
	case maxN == 2:
		add("where:same-filter->=2-times")
	}
	add(fmt.Sprintf("where:depth=%d", q.Where.depth()))
	add("where:kind=" + q.WhereKind)
	if q.TimeFirst {
		add("where:time-range-first")
	}
	// what the condition selects among the series that exist
	mm := e.mdl.Metrics[q.Metric]
	if mm == nil {
		add("where:metric-absent")
		return classes, repeated, false
	}
	selected := func(c *condNode) (string, int) {
		var keys []string
		for k, s := range mm.Series {
			if c.eval(s.Tags) {
				keys = append(keys, k)
			}
		}
		sort.Strings(keys)
		return strings.Join(keys, ";"), len(keys)
	}
	_, n := selected(q.Where)
	switch {
	case n == 0:
		add("where:selects-nothing")
	case n == len(mm.Series):
		add("where:selects-everything")
	default:
		add("where:selects-nonempty-proper-subset")
		properSubset = true
	}
	var walk func(c *condNode)
	walk = func(c *condNode) {
		switch {
		case c.Inner != nil:
			walk(c.Inner)
		case c.L != nil:
			ls, ln := selected(c.L)
			rs, rn := selected(c.R)
			if ln > 0 && rn > 0 && ls != rs {
				if c.And {
					add("where:and-of-different-nonempty-subsets")
				} else {
					add("where:or-of-different-nonempty-subsets")
				}
			}
			walk(c.L)
			walk(c.R)
		}
	}
	walk(q.Where)
	return classes, repeated, properSubset
}

func minInt(a, b int) int {
	if a < b {
		return a
	}
	return b
}

// selectClasses: one field named several times.
func selectClasses(q mQuery) []string {
	fns := map[string]map[string]bool{}
	n := map[string]int{}
	for _, it := range q.Items {
		if it.Expr != nil {
			continue // see exprClasses
		}
		if fns[it.Field] == nil {
			fns[it.Field] = map[string]bool{}
		}
		fns[it.Field][it.Fn] = true
		n[it.Field]++
	}
	var out []string
	seenItem := map[string]bool{}
	for _, it := range q.Items {
		if it.Expr != nil {
			continue
		}
		k := it.Field + "/" + it.Fn
		if seenItem[k] {
			out = append(out, "select:same-field-and-function-twice-under-different-names")
		}
		seenItem[k] = true
	}
	for f, c := range n {
		if c >= 2 && len(fns[f]) >= 2 {
			out = append(out, "select:same-field-twice-with-different-functions")
		}
		if c >= 3 && len(fns[f]) >= 3 {
			out = append(out, "select:same-field-three-times-with-different-functions")
		}
	}
	return out
}

// ---- schema of TestQueryModelRichConditions ------------------------------------------------------------------

var richHostPool = []string{"a1", "a2", "b1", "ab"}
var rolePool = []string{"r1", "r2"}

// genRichSchema: 1-2 families, 1-2 metrics whose 4-9 series are distinct combinations of host (4
// values), dc (2) and, for half of the metrics, role (2): few series, but every value is shared by
// several series, so the branches of an or select different non-empty sets.
func genRichSchema(t *rapid.T) schema {
	sc := genSchemaBase(t, 2)
	sc.Rich = true
	types := []string{tSum, tSum, tMin, tMax, tLast, tFirst}
	nm := rapid.IntRange(1, 2).Draw(t, "nMetrics")
	for i := 0; i < nm; i++ {
		md := metricDef{Name: fmt.Sprintf("m%d", i)}
		nfld := rapid.IntRange(1, 3).Draw(t, "nFields")
		for j := 0; j < nfld; j++ {
			typ := rapid.SampledFrom(types).Draw(t, "fieldType")
			md.Fields = append(md.Fields, fieldDef{Name: fmt.Sprintf("f%d%s", j, typ), Type: typ})
		}
		md.Keys = []string{"host", "dc"}
		withRole := rapid.Bool().Draw(t, "withRole")
		if withRole {
			md.Keys = append(md.Keys, "role")
		}
		nser := rapid.IntRange(4, 9).Draw(t, "nSeries")
		if !withRole && nser > 7 {
			nser = 7
		}
		seen := map[string]bool{}
		for try := 0; len(md.Series) < nser && try < 64; try++ {
			tags := map[string]string{"host": rapid.SampledFrom(richHostPool).Draw(t, "host"), "dc": rapid.SampledFrom(dcPool).Draw(t, "dc")}
			if withRole {
				tags["role"] = rapid.SampledFrom(rolePool).Draw(t, "role")
			}
			if k := tagsKey(tags); !seen[k] {
				seen[k] = true
				md.Series = append(md.Series, tags)
			}
		}
		sc.Metrics = append(sc.Metrics, md)
	}
	addIDPlans(t, &sc, 1, 3)
	// the atoms the statements of the history share
	sc.AtomPools = map[string][]condNode{}
	for _, md := range sc.Metrics {
		sc.AtomPools[md.Name] = genAtomPool(t, md)
	}
	return sc
}

// TestQueryModelRichConditions: histories of TestQueryModel on a schema with shared tag values; every
// statement carries a generated and/or tree over a pool of atoms the statements of the history share,
// half of them name one field several times, and every statement is executed twice.
func TestQueryModelRichConditions(t *testing.T) {
	rapid.Check(t, func(t *rapid.T) {
		sc := genRichSchema(t)
		ops := genOps(t, sc)
		classes, _ := runHistory(t, sc, ops)
		nt := false
		for _, c := range classes {
			if c == classRichNT {
				nt = true
			}
		}
		ev.Case("TestQueryModelRichConditions", canon(sc, ops), nt, classes, map[string]any{"schema": sc, "ops": ops})
	})
}

// TestModelSelfTestRichConditions: the condition model on hand-written examples (statement text ->
// production parser -> condNode -> naive evaluation on tags).
func TestModelSelfTestRichConditions(t *testing.T) {
	s1 := map[string]string{"host": "a1", "dc": "x"}
	s2 := map[string]string{"host": "a1", "dc": "y"}
	s3 := map[string]string{"host": "b1", "dc": "x"}
	s4 := map[string]string{"host": "ab"} // no dc: satisfies neither a dc filter nor its negation
	for _, c := range []struct {
		text string
		want [4]bool
	}{
		{"host = 'a1'", [4]bool{true, true, false, false}},
		{"host != 'a1'", [4]bool{false, false, true, true}},
		{"dc <> 'x'", [4]bool{false, true, false, false}},
		{"(host = 'a1' and dc = 'x') or (host = 'a1' and dc = 'y')", [4]bool{true, true, false, false}},
		{"(host = 'a1' or dc = 'x') and (host = 'a1' or dc = 'y')", [4]bool{true, true, false, false}},
		{"host = 'a1' and (dc = 'y' or (host = 'a1' and dc = 'z'))", [4]bool{false, true, false, false}},
		{"dc = 'x' or dc != 'x'", [4]bool{true, true, true, false}},
		{"dc = 'x' and dc != 'x'", [4]bool{false, false, false, false}},
		{"host like 'a*' and host not like '*1'", [4]bool{false, false, false, true}},
		{"host like '*'", [4]bool{true, true, true, true}},
		{"host =~ '^(a1|b1)$' and dc in ('x','q')", [4]bool{true, false, true, false}},
		{"host !~ '1$' or dc not in ('x')", [4]bool{false, true, false, true}},
		{"host =~ 'b'", [4]bool{false, false, true, true}}, // search semantics
		{"nokey = 'v' or host = 'ab'", [4]bool{false, false, false, true}},
		{"nokey != 'v'", [4]bool{false, false, false, false}},
	} {
		for _, timeFirst := range []bool{false, true} {
			q := mQuery{Metric: "m", Items: []selectItem{{Field: "f"}}, WhereText: c.text, TimeFirst: timeFirst, Start: 1682935200000, End: 1682935260000}
			cn, err := parseWhere(q.sql())
			if err != nil {
				t.Fatalf("%s: %v", q.sql(), err)
			}
			got := [4]bool{cn.eval(s1), cn.eval(s2), cn.eval(s3), cn.eval(s4)}
			if got != c.want {
				t.Fatalf("%s (%s): got %v, want %v", c.text, cn.shape(), got, c.want)
			}
			q.Where = cn
			if q.matches(s1) != c.want[0] {
				t.Fatalf("matches: %s", c.text)
			}
		}
	}
	// rendering round trip and positions of the occurrences
	a := condNode{Key: "host", Op: "=", Vals: []string{"a1"}}
	b := condNode{Key: "dc", Op: "in", Vals: []string{"x", "y"}, Neg: true}
	na := a
	na.Neg, na.Alt = true, true
	g := &condNode{L: &condNode{Inner: &condNode{And: true, L: &a, R: &b}}, R: &condNode{Inner: &condNode{And: true, L: &b, R: &na}}}
	if got, want := g.sqlText(), "(host = 'a1' and dc not in ('x','y')) or (dc not in ('x','y') and host <> 'a1')"; got != want {
		t.Fatalf("text %q", got)
	}
	back, err := parseWhere("select f from m where " + g.sqlText() + " and time>='2023-05-01 10:00:00'")
	if err != nil || back.shape() != g.shape() || back.depth() != 2 {
		t.Fatalf("round trip: %v\n %s\n %s", err, g.shape(), back.shape())
	}
	uses := back.uses(nil, false, 0)
	if len(uses) != 4 || !uses[0].IsLeft || uses[1].IsLeft || !uses[2].IsLeft || uses[3].IsLeft || uses[0].Depth != 2 ||
		uses[0].Atom.filterText() != uses[3].Atom.filterText() || uses[1].Atom.filterText() != uses[2].Atom.filterText() || !uses[3].Atom.Neg {
		t.Fatalf("uses %+v", uses)
	}
}

// TestRegression_TagFiltersWithEqualRewrittenTextCollide: see sigRewriteCollision (repaired, so this is a
// plain regression test). Two series host=a, host=b; adding an alternative to a condition must not
// remove series from the answer.
func TestRegression_TagFiltersWithEqualRewrittenTextCollide(t *testing.T) {
	r := newRegEnv(t, fieldDef{"s", tSum})
	r.w(0, 0, v("s", 2))
	r.w(1, 0, v("s", 4))
	a := fmt.Sprintf("[host=a] s: %d=2\n", regBase)
	ab := a + fmt.Sprintf("[host=b] s: %d=4\n", regBase)
	for _, c := range []struct{ cond, want string }{
		{"host =~ 'a'", a},
		{"host = '~a'", ""},
		{"host = '~a' or host =~ 'a'", a},
		{"host =~ 'a' or host = '~a'", a},
		{"host in ('a','b')", ab},
		{"host in ('a,b')", ""},
		{"host in ('a,b') or host in ('a','b')", ab},
		{"host in ('a','b') or host in ('a,b')", ab},
		{"host !~ 'a' and host != '~a'", fmt.Sprintf("[host=b] s: %d=4\n", regBase)},
	} {
		if got := r.q(r.sel("s", c.cond) + " group by host"); got != c.want {
			t.Fatalf("where %s\ngot:\n%swant:\n%s", c.cond, indent(got), indent(c.want))
		}
	}
}
