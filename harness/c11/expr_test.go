package c11

import (
	"fmt"
	"sort"
	"strconv"
	"strings"
	"testing"

	"pgregory.net/rapid"

	"github.com/lindb/lindb/sql"
	"github.com/lindb/lindb/sql/stmt"
	"github.com/lindb/lindb/verifharness/sim/ev"
)

// ---- arithmetic expressions in the select list ---------------------------------------------------------
//
// The other generators select plain fields and functions of fields. This file adds select items that
// are arithmetic expressions (+ - * /) over fields, functions of fields and number literals, to a
// share of the statements of every history test and to every statement of TestQueryModelExpressions:
//
//   - field op literal and literal op field (100-f is not f-100), field op field with the same field on
//     both sides (f*f, f-f), ratios f/(f+g), two functions of one field (sum(f)+max(f));
//   - parentheses, nested parentheses ((f+g))*2, generated trees of depth <= 3 over a small pool of
//     operands, so that one operand occurs several times in one expression;
//   - bare chains without parentheses (f-g+f, f/g*2);
//   - the expression next to plain select items (and other expressions) of the same fields, before and
//     after them: an operand of an expression is not a temporary of that expression, the same series is
//     what the other select items return.
//
// The oracle stays the naive one: every operand is computed on its own exactly like a plain select item
// (model_test.go), then the operators are applied slot by slot. What a slot without a value in one
// operand means is taken from aggregation/binary_test.go (lindb's own statement of the evaluator):
//
//   - number literal op series: a value in exactly the slots of the series;
//   - series op series: a value in every slot one of the two has; the missing operand counts as 0;
//   - x / 0 = 0 (also when the divisor is missing);
//   - number literal op number literal is a number literal.
//
// An operand field without any point of the group inside the range: the production evaluator then
// has no series for it at all and drops the item for that group (aggregation/expression_test.go,
// "right is nil, return nil"), although the same missing data inside a longer range counts as 0.
// No document says which of the two a statement may rely on; such cells are optional for the model
// (if they are returned they must carry the "missing = 0" value), counted in a class of their own.
//
// The statement text is parsed by the production parser and converted back mechanically: an expression
// whose nested operators are all parenthesised must come back in the generated shape (harness self
// check); for a bare chain the tree the parser built is what the model evaluates (lindb's grammar lists
// * / + - as four precedence levels, so f-g+f is read f-(g+f); no document fixes that - counted as
// info:, like the equal precedence of and/or in DESIGN.md 7.4).

// sigLitLit: aggregation/binary.go binaryEval did not mark the result of "number literal op number
// literal" as a number literal, so the enclosing operator treated it as a series with a value in every
// slot of the range: select f+(1+1) answered 2 for every slot in which nothing was written (f+2 answers
// the written slots only). Found by this class, repaired in /repo (79e1fe1); the shape is generated.
const sigLitLit = "C11/literal-op-literal-operand-fills-every-slot"

// exprNode is an operand (Field, optional Fn), a number literal (Lit = its text), a binary node
// (Op, L, R) or a parenthesis (Inner).
type exprNode struct {
	Field string `json:"f,omitempty"`
	Fn    string `json:"fn,omitempty"`
	Lit   string `json:"lit,omitempty"`

	Op string    `json:"op,omitempty"`
	Sp bool      `json:"sp,omitempty"` // blanks around the operator
	L  *exprNode `json:"l,omitempty"`
	R  *exprNode `json:"r,omitempty"`

	Inner *exprNode `json:"p,omitempty"`
}

func (n *exprNode) isBinary() bool  { return n.Op != "" }
func (n *exprNode) isParen() bool   { return n.Inner != nil }
func (n *exprNode) isLiteral() bool { return n.Lit != "" }
func (n *exprNode) isOperand() bool { return n.Field != "" }

// key identifies an operand: field or fn(field).
func (n *exprNode) key() string {
	if n.Fn != "" {
		return n.Fn + "(" + n.Field + ")"
	}
	return n.Field
}

func (n *exprNode) litVal() float64 {
	v, err := strconv.ParseFloat(n.Lit, 64)
	if err != nil {
		panic("harness: literal " + n.Lit)
	}
	return v
}

func (n *exprNode) sqlText() string {
	switch {
	case n.isParen():
		return "(" + n.Inner.sqlText() + ")"
	case n.isBinary():
		l, r := n.L.sqlText(), n.R.sqlText()
		if n.Sp || strings.HasPrefix(r, "-") || strings.HasPrefix(r, "+") {
			return l + " " + n.Op + " " + r
		}
		return l + n.Op + r
	case n.isLiteral():
		return n.Lit
	case n.Fn != "":
		return n.Fn + "(" + quoteIdent(n.Field) + ")"
	default:
		return quoteIdent(n.Field)
	}
}

// shape: the structure without spelling (literals by value).
func (n *exprNode) shape() string {
	switch {
	case n.isParen():
		return "(" + n.Inner.shape() + ")"
	case n.isBinary():
		return "[" + n.L.shape() + " " + n.Op + " " + n.R.shape() + "]"
	case n.isLiteral():
		return "#" + strconv.FormatFloat(n.litVal(), 'g', -1, 64)
	default:
		return n.key()
	}
}

// leaves appends the operands (fields / functions of fields) in text order.
func (n *exprNode) leaves(out []*exprNode) []*exprNode {
	switch {
	case n.isParen():
		return n.Inner.leaves(out)
	case n.isBinary():
		return n.R.leaves(n.L.leaves(out))
	case n.isOperand():
		return append(out, n)
	}
	return out
}

// strip removes the parentheses around a node.
func (n *exprNode) strip() *exprNode {
	for n.isParen() {
		n = n.Inner
	}
	return n
}

// opDepth: nesting depth of the operators.
func (n *exprNode) opDepth() int {
	switch {
	case n.isParen():
		return n.Inner.opDepth()
	case n.isBinary():
		l, r := n.L.opDepth(), n.R.opDepth()
		if r > l {
			l = r
		}
		return l + 1
	}
	return 0
}

func (n *exprNode) parenDepth() int {
	switch {
	case n.isParen():
		return n.Inner.parenDepth() + 1
	case n.isBinary():
		l, r := n.L.parenDepth(), n.R.parenDepth()
		if r > l {
			l = r
		}
		return l
	}
	return 0
}

// hasBareChain: an operator whose operand is an operator without parentheses (the grouping is the parser's).
func (n *exprNode) hasBareChain() bool {
	switch {
	case n.isParen():
		return n.Inner.hasBareChain()
	case n.isBinary():
		return n.L.isBinary() || n.R.isBinary() || n.L.hasBareChain() || n.R.hasBareChain()
	}
	return false
}

// isConst: the sub expression holds number literals only.
func (n *exprNode) isConst() bool {
	switch {
	case n.isParen():
		return n.Inner.isConst()
	case n.isBinary():
		return n.L.isConst() && n.R.isConst()
	}
	return n.isLiteral()
}

// hasLitLit: some operator has number literals only on both sides (see sigLitLit).
func (n *exprNode) hasLitLit() bool {
	switch {
	case n.isParen():
		return n.Inner.hasLitLit()
	case n.isBinary():
		return n.L.isConst() && n.R.isConst() || n.L.hasLitLit() || n.R.hasLitLit()
	}
	return false
}

func (n *exprNode) walk(f func(*exprNode)) {
	f(n)
	switch {
	case n.isParen():
		n.Inner.walk(f)
	case n.isBinary():
		n.L.walk(f)
		n.R.walk(f)
	}
}

// exprFromStmt converts the parser's expression into an exprNode (no evaluation).
func exprFromStmt(e stmt.Expr) (*exprNode, error) {
	switch x := e.(type) {
	case *stmt.SelectItem:
		return exprFromStmt(x.Expr)
	case *stmt.FieldExpr:
		return &exprNode{Field: x.Name}, nil
	case *stmt.CallExpr:
		if len(x.Params) != 1 {
			return nil, fmt.Errorf("function with %d parameters: %s", len(x.Params), e.Rewrite())
		}
		f, ok := x.Params[0].(*stmt.FieldExpr)
		if !ok {
			return nil, fmt.Errorf("function of something else than a field: %s", e.Rewrite())
		}
		return &exprNode{Field: f.Name, Fn: x.FuncType.String()}, nil
	case *stmt.NumberLiteral:
		return &exprNode{Lit: strconv.FormatFloat(x.Val, 'g', -1, 64)}, nil
	case *stmt.ParenExpr:
		in, err := exprFromStmt(x.Expr)
		if err != nil {
			return nil, err
		}
		return &exprNode{Inner: in}, nil
	case *stmt.BinaryExpr:
		op := stmt.BinaryOPString(x.Operator)
		if op != "+" && op != "-" && op != "*" && op != "/" {
			return nil, fmt.Errorf("operator %s in a select item", op)
		}
		l, err := exprFromStmt(x.Left)
		if err != nil {
			return nil, err
		}
		r, err := exprFromStmt(x.Right)
		if err != nil {
			return nil, err
		}
		return &exprNode{Op: op, L: l, R: r}, nil
	}
	return nil, fmt.Errorf("unexpected expression %T", e)
}

// parseSelectItems runs the production parser on the statement and returns its select list.
func parseSelectItems(sqlText string) ([]stmt.Expr, error) {
	st, err := sql.Parse(sqlText)
	if err != nil {
		return nil, err
	}
	q, ok := st.(*stmt.Query)
	if !ok {
		return nil, fmt.Errorf("not a query: %T", st)
	}
	return q.SelectItems, nil
}

// ---- model -----------------------------------------------------------------------------------------------

// applyOp: aggregation/binary_test.go TestBinary_eval.
func applyOp(op string, x, y float64) float64 {
	switch op {
	case "+":
		return x + y
	case "-":
		return x - y
	case "*":
		return x * y
	case "/":
		if y == 0 {
			return 0
		}
		return x / y
	}
	panic("model: operator " + op)
}

// exprVal is the value of a sub expression for one group: a number literal (single) or a series.
type exprVal struct {
	single   bool
	lit      float64
	cells    map[int64]valueSet
	optional bool // an operand field has no point of the group inside the range
}

// exprNotes collects what the evaluation of the expression items of one statement met (classes only).
type exprNotes map[string]bool

func (x exprNotes) add(s string) {
	if x != nil {
		x[s] = true
	}
}

var zeroSet = valueSet{Vals: []float64{0}}

func combineBinary(op string, l, r valueSet) valueSet {
	out := valueSet{Points: l.Points + r.Points, Cands: l.Cands + r.Cands, Optional: l.Optional || r.Optional}
	if l.Ambiguous || r.Ambiguous || len(l.Vals)*len(r.Vals) > maxAlternatives {
		out.Ambiguous = true
		return out
	}
	vals := make([]float64, 0, len(l.Vals)*len(r.Vals))
	for _, x := range l.Vals {
		for _, y := range r.Vals {
			vals = append(vals, applyOp(op, x, y))
		}
	}
	out.Vals = dedupe(vals)
	return out
}

func evalExprNode(n *exprNode, group string, leaves map[string]fieldCells, notes exprNotes) exprVal {
	switch {
	case n.isParen():
		return evalExprNode(n.Inner, group, leaves, notes)
	case n.isLiteral():
		return exprVal{single: true, lit: n.litVal()}
	case n.isOperand():
		cells := leaves[n.key()][group]
		return exprVal{cells: cells, optional: len(cells) == 0}
	}
	l := evalExprNode(n.L, group, leaves, notes)
	r := evalExprNode(n.R, group, leaves, notes)
	if l.single && r.single {
		return exprVal{single: true, lit: applyOp(n.Op, l.lit, r.lit)}
	}
	out := exprVal{cells: map[int64]valueSet{}, optional: l.optional || r.optional}
	at := func(v exprVal, ts int64) (valueSet, bool) {
		if v.single {
			return valueSet{Vals: []float64{v.lit}}, true
		}
		vs, ok := v.cells[ts]
		return vs, ok
	}
	slots := map[int64]bool{}
	if !l.single {
		for ts := range l.cells {
			slots[ts] = true
		}
	}
	if !r.single {
		for ts := range r.cells {
			slots[ts] = true
		}
	}
	for ts := range slots {
		lv, lok := at(l, ts)
		rv, rok := at(r, ts)
		if l.single && !rok || r.single && !lok {
			continue // number literal op series: the slots of the series
		}
		if !lok {
			lv = zeroSet
			notes.add("expr:slot-missing-in-left-operand(counts-as-0)")
		}
		if !rok {
			rv = zeroSet
			notes.add("expr:slot-missing-in-right-operand(counts-as-0)")
		}
		if n.Op == "/" {
			for _, y := range rv.Vals {
				if y == 0 {
					notes.add("expr:division-by-zero-or-missing-divisor(=0)")
				}
			}
		}
		out.cells[ts] = combineBinary(n.Op, lv, rv)
	}
	return out
}

// evalExprItem evaluates the expression for every group some operand has a value in.
func evalExprItem(n *exprNode, leaves map[string]fieldCells, notes exprNotes) fieldCells {
	groups := map[string]bool{}
	for _, cells := range leaves {
		for g, pts := range cells {
			if len(pts) > 0 {
				groups[g] = true
			}
		}
	}
	out := fieldCells{}
	for g := range groups {
		v := evalExprNode(n, g, leaves, notes)
		if v.single || len(v.cells) == 0 {
			continue
		}
		if v.optional {
			notes.add("expr:operand-field-without-point-in-the-group(item-optional)")
			for ts, vs := range v.cells {
				vs.Optional = true
				v.cells[ts] = vs
			}
		}
		out[g] = v.cells
	}
	return out
}

// ---- items of a statement ------------------------------------------------------------------------------------

// operandItems lists every operand of the select list as a plain item (plain items as they are, the
// operands of the expressions), for the code that only needs fields and functions.
func (q mQuery) operandItems() []selectItem {
	var out []selectItem
	for _, it := range q.Items {
		if it.Expr == nil {
			out = append(out, it)
			continue
		}
		for _, lf := range it.Expr.leaves(nil) {
			out = append(out, selectItem{Field: lf.Field, Fn: lf.Fn})
		}
	}
	return out
}

func (q mQuery) hasExpr() bool {
	for _, it := range q.Items {
		if it.Expr != nil {
			return true
		}
	}
	return false
}

// classExprNT: the non-trivial rule of TestQueryModelExpressions for one statement: an expression whose
// operand occurs a second time in the select list (in the expression, as a plain item or in another
// expression) was answered with >= 2 slots.
const classExprNT = "expr:operand-repeated-in-select-list,expression-answered-with->=2-slots"

// exprClasses describes the expression items of q; exp is the model's answer.
func exprClasses(q mQuery, exp expectation) []string {
	if !q.hasExpr() {
		return nil
	}
	set := map[string]bool{}
	// how often every operand / field occurs in the select list, and where
	opCount, fieldCount := map[string]int{}, map[string]int{}
	plainAt := map[string][]int{}
	for i, it := range q.Items {
		if it.Expr == nil {
			k := (&exprNode{Field: it.Field, Fn: it.Fn}).key()
			opCount[k]++
			fieldCount[it.Field]++
			plainAt[k] = append(plainAt[k], i)
			continue
		}
		for _, lf := range it.Expr.leaves(nil) {
			opCount[lf.key()]++
			fieldCount[lf.Field]++
		}
	}
	nExpr := 0
	for i, it := range q.Items {
		if it.Expr == nil {
			continue
		}
		nExpr++
		n := it.Expr
		set[fmt.Sprintf("expr:operator-depth=%d", n.opDepth())] = true
		if it.Alias == "" {
			set["expr:item-without-alias"] = true
		}
		if d := n.parenDepth(); d >= 2 {
			set["expr:nested-parentheses"] = true
		} else if d == 1 {
			set["expr:parentheses"] = true
		}
		if n.hasBareChain() {
			set["expr:bare-chain(grouping-by-the-parser)"] = true
		}
		if n.hasLitLit() {
			set["expr:literal-op-literal-sub-expression"] = true
		}
		fns := map[string]map[string]bool{}
		inItem := map[string]int{}
		for _, lf := range n.leaves(nil) {
			inItem[lf.key()]++
			if fns[lf.Field] == nil {
				fns[lf.Field] = map[string]bool{}
			}
			fns[lf.Field][lf.Fn] = true
			if lf.Fn != "" {
				set["expr:function-operand"] = true
			}
		}
		repeated := false
		for k, c := range inItem {
			if c >= 2 {
				set["expr:operand-twice-in-one-expression"] = true
				repeated = true
			}
			if opCount[k] > c {
				repeated = true
			}
			for _, at := range plainAt[k] {
				if at < i {
					set["expr:operand-also-plain-item-before-the-expression"] = true
				} else {
					set["expr:operand-also-plain-item-after-the-expression"] = true
				}
			}
			if opCount[k]-c-len(plainAt[k]) > 0 {
				set["expr:operand-in-two-expression-items"] = true
			}
		}
		for f, s := range fns {
			if len(s) >= 2 {
				set["expr:two-functions-of-one-field-in-one-expression"] = true
			}
			n := 0
			for k, c := range inItem {
				if k == f || strings.HasSuffix(k, "("+f+")") {
					n += c
				}
			}
			if fieldCount[f] > n {
				set["expr:field-of-expression-named-elsewhere-in-select-list"] = true
			}
		}
		n.walk(func(x *exprNode) {
			if !x.isBinary() {
				return
			}
			set["expr:op="+x.Op] = true
			l, r := x.L.strip(), x.R.strip()
			switch {
			case x.L.isConst() && x.R.isConst():
			case x.L.isConst():
				set["expr:literal-on-the-left/"+x.Op] = true
			case x.R.isConst():
				set["expr:literal-on-the-right/"+x.Op] = true
			default:
				lk := map[string]bool{}
				for _, lf := range l.leaves(nil) {
					lk[lf.key()] = true
				}
				for _, lf := range r.leaves(nil) {
					if lk[lf.key()] {
						set["expr:same-operand-on-both-sides/"+x.Op] = true
					}
				}
				if l.isOperand() && r.isOperand() && l.key() == r.key() {
					set["expr:operand-op-itself/"+x.Op] = true
				}
			}
		})
		// answered slots of the item
		slots := map[int64]bool{}
		for _, fields := range exp {
			for ts := range fields[it.resultName()] {
				slots[ts] = true
			}
		}
		if len(slots) == 0 {
			set["expr:item-without-value"] = true
		}
		if repeated {
			set["expr:operand-repeated-in-select-list"] = true
			if len(slots) >= 2 {
				set[classExprNT] = true
			}
		}
	}
	set[fmt.Sprintf("expr:expression-items=%d", nExpr)] = true
	if nExpr == len(q.Items) {
		set["expr:only-expression-items"] = true
	}
	out := make([]string, 0, len(set))
	for c := range set {
		out = append(out, c)
	}
	sort.Strings(out)
	return out
}

// ---- generator ---------------------------------------------------------------------------------------------

var exprLiterals = []string{"100", "2", "2", "10", "1", "0", "3", "0.5", "1.25", "-1", "-2.5", "1000"}

var exprOps = []string{"+", "-", "*", "/"}

func paren(n *exprNode) *exprNode { return &exprNode{Inner: n} }

func bin(t *rapid.T, op string, l, r *exprNode) *exprNode {
	return &exprNode{Op: op, L: l, R: r, Sp: rapid.IntRange(0, 3).Draw(t, "exprBlanks") == 0}
}

// wrap puts an operator node into parentheses (operands and literals stay as they are).
func wrap(n *exprNode) *exprNode {
	if n.isBinary() {
		return paren(n)
	}
	return n
}

func cloneOperand(n *exprNode) *exprNode { return &exprNode{Field: n.Field, Fn: n.Fn} }

// usualTree builds the tree of a chain operands[0] ops[0] operands[1] ... by the usual rules (* and /
// before + and -, left to right). Rendered without parentheses it is the chain itself.
func usualTree(operands []*exprNode, ops []string, sp []bool) *exprNode {
	// first * and /
	terms := []*exprNode{operands[0]}
	var addOps []string
	var addSp []bool
	for i, op := range ops {
		if op == "*" || op == "/" {
			last := terms[len(terms)-1]
			terms[len(terms)-1] = &exprNode{Op: op, L: last, R: operands[i+1], Sp: sp[i]}
		} else {
			terms = append(terms, operands[i+1])
			addOps = append(addOps, op)
			addSp = append(addSp, sp[i])
		}
	}
	cur := terms[0]
	for i, op := range addOps {
		cur = &exprNode{Op: op, L: cur, R: terms[i+1], Sp: addSp[i]}
	}
	return cur
}

// genExprTree draws one expression over the operand pool (>= 1 operands).
func genExprTree(t *rapid.T, pool []*exprNode, twoFn [][2]*exprNode) (*exprNode, string) {
	pick := func(label string) *exprNode {
		return cloneOperand(pool[rapid.IntRange(0, len(pool)-1).Draw(t, label)])
	}
	lit := func() *exprNode { return &exprNode{Lit: rapid.SampledFrom(exprLiterals).Draw(t, "exprLiteral")} }
	op := func(label string) string { return rapid.SampledFrom(exprOps).Draw(t, label) }
	kinds := []string{"operand-op-literal", "literal-op-operand", "operand-op-operand", "operand-op-itself", "ratio", "paren-op-literal", "two-functions",
		"tree", "tree", "chain", "chain", "nested-parens", "shared-operand", "literal-op-literal"}
	kind := rapid.SampledFrom(kinds).Draw(t, "exprKind")
	if kind == "two-functions" && len(twoFn) == 0 {
		kind = "operand-op-itself"
	}
	if kind == "literal-op-literal" && (ev.Known(sigLitLit) || rapid.IntRange(0, 1).Draw(t, "exprLitLitRare") == 0) {
		kind = "paren-op-literal"
	}
	switch kind {
	case "operand-op-literal":
		return bin(t, op("exprOp"), pick("exprA"), lit()), kind
	case "literal-op-operand":
		return bin(t, op("exprOp"), lit(), pick("exprA")), kind
	case "operand-op-operand":
		return bin(t, op("exprOp"), pick("exprA"), pick("exprB")), kind
	case "operand-op-itself":
		a := pick("exprA")
		return bin(t, op("exprOp"), a, cloneOperand(a)), kind
	case "ratio": // a/(a+b), (a-b)/a, 100*a/(a+b) as a tree
		a, b := pick("exprA"), pick("exprB")
		sum := paren(bin(t, rapid.SampledFrom([]string{"+", "+", "-"}).Draw(t, "exprRatioOp"), cloneOperand(a), b))
		var n *exprNode
		if rapid.Bool().Draw(t, "exprRatioFlip") {
			n = bin(t, "/", sum, a)
		} else {
			n = bin(t, "/", a, sum)
		}
		if rapid.IntRange(0, 2).Draw(t, "exprRatioPct") == 0 {
			if rapid.Bool().Draw(t, "exprPctLeft") {
				n = bin(t, "*", &exprNode{Lit: "100"}, paren(n))
			} else {
				n = bin(t, "*", paren(n), &exprNode{Lit: "100"})
			}
		}
		return n, kind
	case "paren-op-literal":
		in := paren(bin(t, op("exprOp"), pick("exprA"), pick("exprB")))
		if rapid.Bool().Draw(t, "exprLitLeft") {
			return bin(t, op("exprOp2"), lit(), in), kind
		}
		return bin(t, op("exprOp2"), in, lit()), kind
	case "two-functions":
		p := twoFn[rapid.IntRange(0, len(twoFn)-1).Draw(t, "exprTwoFn")]
		return bin(t, op("exprOp"), cloneOperand(p[0]), cloneOperand(p[1])), kind
	case "nested-parens":
		a, b := pick("exprA"), pick("exprB")
		switch rapid.IntRange(0, 3).Draw(t, "exprNestKind") {
		case 0:
			return paren(paren(a)), kind
		case 1:
			return bin(t, op("exprOp2"), paren(paren(bin(t, op("exprOp"), a, b))), lit()), kind
		case 2:
			return bin(t, op("exprOp2"), pick("exprC"), paren(paren(bin(t, op("exprOp"), a, b)))), kind
		default:
			return paren(bin(t, op("exprOp2"), paren(bin(t, op("exprOp"), a, b)), paren(bin(t, op("exprOp3"), cloneOperand(a), lit())))), kind
		}
	case "shared-operand": // (a op b) op' (a op'' c)
		a := pick("exprA")
		l := paren(bin(t, op("exprOp"), a, pick("exprB")))
		var r *exprNode
		if rapid.Bool().Draw(t, "exprSharedLit") {
			r = paren(bin(t, op("exprOp3"), cloneOperand(a), lit()))
		} else {
			r = paren(bin(t, op("exprOp3"), pick("exprC"), cloneOperand(a)))
		}
		return bin(t, op("exprOp2"), l, r), kind
	case "literal-op-literal": // a op (lit op lit), (lit op lit) op a
		c := paren(bin(t, op("exprOp"), lit(), lit()))
		if rapid.Bool().Draw(t, "exprLitLeft") {
			return bin(t, op("exprOp2"), c, pick("exprA")), kind
		}
		return bin(t, op("exprOp2"), pick("exprA"), c), kind
	case "chain":
		n := rapid.IntRange(3, 4).Draw(t, "exprChainLen")
		var operands []*exprNode
		var ops []string
		var sp []bool
		hasOperand := false
		for i := 0; i < n; i++ {
			switch k := rapid.IntRange(0, 5).Draw(t, "exprChainOperand"); {
			case k == 0 && (hasOperand || i < n-1):
				operands = append(operands, lit())
			case k == 1:
				operands = append(operands, paren(bin(t, op("exprOp3"), pick("exprA"), pick("exprB"))))
				hasOperand = true
			default:
				operands = append(operands, pick("exprA"))
				hasOperand = true
			}
			if i > 0 {
				ops = append(ops, op("exprChainOp"))
				sp = append(sp, rapid.IntRange(0, 3).Draw(t, "exprBlanks") == 0)
			}
		}
		// two literals next to each other would be a literal-op-literal sub expression for some grouping
		for i := 1; i < len(operands); i++ {
			if operands[i].isLiteral() && operands[i-1].isLiteral() {
				operands[i] = pick("exprA")
			}
		}
		return usualTree(operands, ops, sp), kind
	}
	// tree: depth <= 3, every nested operator in parentheses
	var gen func(depth int) *exprNode
	gen = func(depth int) *exprNode {
		if depth == 0 || rapid.IntRange(0, 3).Draw(t, "exprLeaf") == 0 {
			if rapid.IntRange(0, 3).Draw(t, "exprLeafLit") == 0 {
				return lit()
			}
			return pick("exprA")
		}
		l, r := gen(depth-1), gen(depth-1)
		if l.isLiteral() && r.isLiteral() {
			r = pick("exprB")
		}
		n := bin(t, op("exprOp"), wrap(l), wrap(r))
		if rapid.IntRange(0, 5).Draw(t, "exprExtraParen") == 0 {
			return paren(n)
		}
		return n
	}
	n := gen(rapid.IntRange(1, 3).Draw(t, "exprDepth"))
	if len(n.leaves(nil)) == 0 { // a single literal
		n = bin(t, op("exprOp"), pick("exprA"), n)
	}
	for n.isParen() && !n.Inner.isParen() && n.Inner.isBinary() && rapid.Bool().Draw(t, "exprDropOuterParen") {
		n = n.Inner
	}
	return n, "tree"
}

// addExprItems adds 1-2 expression items to the select list (fields = the fields of the metric the
// statement may name). The operands come from a pool of 1-3 operands which prefers what the select list
// already names; afterwards, with probability 1/2, plain items of operands of the expressions are added.
func addExprItems(t *rapid.T, fields []fieldDef, items []selectItem, always bool) []selectItem {
	var plain []fieldDef
	for _, fd := range fields {
		if quoteIdent(fd.Name) == fd.Name { // histogram bucket names are not used inside expressions
			plain = append(plain, fd)
		}
	}
	fields = plain
	if len(fields) == 0 {
		return items
	}
	names := map[string]bool{}
	for _, it := range items {
		names[it.resultName()] = true
	}
	genOperand := func() *exprNode {
		fd := fields[rapid.IntRange(0, len(fields)-1).Draw(t, "exprField")]
		fns := append([]string{"", ""}, supportedFuncs(fd.Type)...)
		return &exprNode{Field: fd.Name, Fn: rapid.SampledFrom(fns).Draw(t, "exprFn")}
	}
	var pool []*exprNode
	inPool := map[string]bool{}
	addPool := func(n *exprNode) {
		if !inPool[n.key()] {
			inPool[n.key()] = true
			pool = append(pool, n)
		}
	}
	for _, it := range items {
		if it.Expr == nil && len(pool) < 2 && rapid.IntRange(0, 3).Draw(t, "exprPoolFromItem") > 0 {
			addPool(&exprNode{Field: it.Field, Fn: it.Fn})
		}
	}
	want := rapid.IntRange(1, 3).Draw(t, "exprPoolSize")
	for tries := 0; len(pool) < want && tries < 8; tries++ {
		addPool(genOperand())
	}
	if len(pool) == 0 {
		addPool(genOperand())
	}
	// pairs of different spellings fn(f) / f of one field
	var twoFn [][2]*exprNode
	for _, fd := range fields {
		fns := append([]string{""}, supportedFuncs(fd.Type)...)
		for i := range fns {
			for j := range fns {
				if i != j {
					twoFn = append(twoFn, [2]*exprNode{{Field: fd.Name, Fn: fns[i]}, {Field: fd.Name, Fn: fns[j]}})
				}
			}
		}
	}
	n := 1
	if rapid.IntRange(0, 2).Draw(t, "exprTwoItems") == 0 {
		n = 2
	}
	out := append([]selectItem(nil), items...)
	if always && len(out) > 1 && rapid.Bool().Draw(t, "exprDropPlain") {
		out = out[:1]
	}
	if always && len(out) == 1 && rapid.IntRange(0, 3).Draw(t, "exprOnly") == 0 {
		out = nil
	}
	var added []*exprNode
	for i := 0; i < n; i++ {
		tree, _ := genExprTree(t, pool, twoFn)
		alias := fmt.Sprintf("e%d", i)
		if names[alias] {
			continue
		}
		names[alias] = true
		it := selectItem{Alias: alias, Expr: tree, ExprText: tree.sqlText()}
		if i == 0 && (tree.isBinary() || tree.isParen()) && rapid.IntRange(0, 3).Draw(t, "exprNoAlias") == 0 {
			// no alias: the result key is the parser's rewritten text (set by setExprItems); only the first
			// expression, so that two keys cannot coincide (literals are rewritten with two decimals)
			it.Alias = ""
		}
		at := rapid.IntRange(0, len(out)).Draw(t, "exprItemAt")
		out = append(out[:at], append([]selectItem{it}, out[at:]...)...)
		added = append(added, tree)
	}
	// plain items of operands of the expressions
	for _, tree := range added {
		for _, lf := range tree.leaves(nil) {
			if len(out) >= 6 || rapid.IntRange(0, 2).Draw(t, "exprAddPlain") > 0 {
				continue
			}
			it := selectItem{Field: lf.Field, Fn: lf.Fn}
			if rapid.IntRange(0, 2).Draw(t, "exprPlainAlias") == 0 {
				it.Alias = fmt.Sprintf("p%d", len(out))
			}
			if names[it.resultName()] {
				continue
			}
			names[it.resultName()] = true
			at := rapid.IntRange(0, len(out)).Draw(t, "exprPlainAt")
			out = append(out[:at], append([]selectItem{it}, out[at:]...)...)
		}
	}
	return out
}

// setExprItems parses the finished statement with the production parser and checks / adopts the
// structure of its expression items (see the head of this file).
func setExprItems(t *rapid.T, q *mQuery) {
	if !q.hasExpr() {
		return
	}
	parsed, err := parseSelectItems(q.sql())
	if err != nil {
		t.Fatalf("harness: the production parser rejects the generated statement\n  %s\n  %v", q.sql(), err)
	}
	if len(parsed) != len(q.Items) {
		t.Fatalf("harness: the production parser reads %d select items, generated %d\n  %s", len(parsed), len(q.Items), q.sql())
	}
	for i := range q.Items {
		it := &q.Items[i]
		if it.Expr == nil {
			continue
		}
		si, ok := parsed[i].(*stmt.SelectItem)
		if !ok || si.Alias != it.Alias {
			t.Fatalf("harness: select item %d read as %s\n  %s", i, parsed[i].Rewrite(), q.sql())
		}
		if it.Alias == "" {
			it.ExprName = si.Rewrite()
			for j := range q.Items {
				if j != i && q.Items[j].resultName() == it.ExprName {
					t.Fatalf("harness: two select items with the result key %s\n  %s", it.ExprName, q.sql())
				}
			}
		}
		tree, err := exprFromStmt(si)
		if err != nil {
			t.Fatalf("harness: select item %d: %v\n  %s", i, err, q.sql())
		}
		if !it.Expr.hasBareChain() {
			if tree.shape() != it.Expr.shape() {
				t.Fatalf("harness: the production parser reads the parenthesised expression differently\n  %s\n  generated %s\n  parsed    %s", q.sql(), it.Expr.shape(), tree.shape())
			}
			continue
		}
		if tree.shape() != it.Expr.shape() {
			it.ChainRegrouped = true
		}
		tree.walk(func(x *exprNode) { // keep the spelling of the generated text
			if x.isBinary() {
				x.Sp = false
			}
		})
		it.Expr = tree
	}
}

// ---- test ------------------------------------------------------------------------------------------------------

// genExprSchema: 1-2 metrics with 2-3 fields (mostly sum fields: every cell is checked exactly), 1-4 series.
func genExprSchema(t *rapid.T) schema {
	sc := genSchemaBase(t, 2)
	sc.Expr = true
	nm := rapid.IntRange(1, 2).Draw(t, "nMetrics")
	types := []string{tSum, tSum, tSum, tSum, tMin, tMax, tLast, tFirst}
	for i := 0; i < nm; i++ {
		md := metricDef{Name: fmt.Sprintf("m%d", i), Keys: []string{"host"}}
		nfld := rapid.IntRange(2, 3).Draw(t, "nFields")
		for j := 0; j < nfld; j++ {
			typ := rapid.SampledFrom(types).Draw(t, "fieldType")
			md.Fields = append(md.Fields, fieldDef{Name: fmt.Sprintf("f%d%s", j, typ), Type: typ})
		}
		withDC := rapid.IntRange(0, 2).Draw(t, "withDC") == 0
		if withDC {
			md.Keys = append(md.Keys, "dc")
		}
		nser := rapid.IntRange(1, 4).Draw(t, "nSeries")
		seenS := map[string]bool{}
		for tries := 0; len(md.Series) < nser && tries < 12; tries++ {
			tags := map[string]string{"host": rapid.SampledFrom(hostPool).Draw(t, "host")}
			if withDC {
				tags["dc"] = rapid.SampledFrom(dcPool).Draw(t, "dc")
			}
			if k := tagsKey(tags); !seenS[k] {
				seenS[k] = true
				md.Series = append(md.Series, tags)
			}
		}
		sc.Metrics = append(sc.Metrics, md)
	}
	addIDPlans(t, &sc, 1, 6)
	return sc
}

// TestQueryModelExpressions: histories of TestQueryModel; every statement carries 1-2 arithmetic
// expressions next to (before / after) plain items, half of the statements are executed twice.
func TestQueryModelExpressions(t *testing.T) {
	rapid.Check(t, func(t *rapid.T) {
		sc := genExprSchema(t)
		ops := genOps(t, sc)
		classes, nt := runHistory(t, sc, ops)
		ev.Case("TestQueryModelExpressions", canon(sc, ops), nt, classes, map[string]any{"schema": sc, "ops": ops})
	})
}

// ---- self test of the expression model on hand-written examples ----------------------------------------------

func TestModelSelfTestExpressions(t *testing.T) {
	base := int64(1682935200000) // 2023-05-01 10:00:00 UTC
	m := newModel(10_000)
	a := map[string]string{"host": "a"}
	b := map[string]string{"host": "b"}
	m.add("m", a, "x", tSum, base, 1, 0)
	m.add("m", a, "y", tSum, base, 9, 0)
	m.add("m", a, "x", tSum, base+10_000, 4, 0)
	m.add("m", a, "y", tSum, base+20_000, 7, 0)
	m.add("m", b, "x", tSum, base+30_000, 2, 0)
	m.add("m", b, "y", tSum, base+30_000, 0, 0)
	m.add("m", b, "z", tSum, base+40_000, 5, 0)
	X, Y, Z := &exprNode{Field: "x"}, &exprNode{Field: "y"}, &exprNode{Field: "z"}
	L := func(s string) *exprNode { return &exprNode{Lit: s} }
	B := func(op string, l, r *exprNode) *exprNode { return &exprNode{Op: op, L: l, R: r} }
	item := func(n *exprNode) selectItem { return selectItem{Alias: "e", Expr: n, ExprText: n.sqlText()} }
	q := mQuery{Metric: "m", Start: base, End: base + 59_000}
	t0, t1, t2, t3, t4 := base, base+10_000, base+20_000, base+30_000, base+40_000
	for _, c := range []struct {
		n       *exprNode
		groupBy bool
		text    string
		want    string
	}{
		{B("*", X, L("100")), false, "x*100", fmt.Sprintf("[] e: %d=100 %d=400 %d=200\n", t0, t1, t3)},
		{B("-", L("100"), X), false, "100-x", fmt.Sprintf("[] e: %d=99 %d=96 %d=98\n", t0, t1, t3)},
		{B("-", X, L("-1")), false, "x - -1", fmt.Sprintf("[] e: %d=2 %d=5 %d=3\n", t0, t1, t3)},
		{B("+", X, Y), false, "x+y", fmt.Sprintf("[] e: %d=10 %d=4 %d=7 %d=2\n", t0, t1, t2, t3)},
		{B("/", X, paren(B("+", X, Y))), false, "x/(x+y)", fmt.Sprintf("[] e: %d=0.1 %d=1 %d=0 %d=1\n", t0, t1, t2, t3)},
		{B("/", Y, X), false, "y/x", fmt.Sprintf("[] e: %d=9 %d=0 %d=0 %d=0\n", t0, t1, t2, t3)},
		{B("*", paren(paren(B("+", X, Y))), L("2")), false, "((x+y))*2", fmt.Sprintf("[] e: %d=20 %d=8 %d=14 %d=4\n", t0, t1, t2, t3)},
		{B("-", X, B("+", Y, X)), false, "x-y+x", fmt.Sprintf("[] e: %d=-9 %d=0 %d=-7 %d=0\n", t0, t1, t2, t3)},
		{B("+", X, paren(B("+", L("1"), L("1")))), false, "x+(1+1)", fmt.Sprintf("[] e: %d=3 %d=6 %d=4\n", t0, t1, t3)},
		{B("+", X, Z), false, "x+z", fmt.Sprintf("[] e: %d=1 %d=4 %d=2 %d=5\n", t0, t1, t3, t4)},
		{B("+", X, Z), true, "x+z", fmt.Sprintf("[host=a] e: (%d=?) (%d=?)\n[host=b] e: %d=2 %d=5\n", t0, t1, t3, t4)},
		{B("*", X, X), true, "x*x", fmt.Sprintf("[host=a] e: %d=1 %d=16\n[host=b] e: %d=4\n", t0, t1, t3)},
		{B("+", &exprNode{Field: "x", Fn: "sum"}, &exprNode{Field: "x", Fn: "max"}), false, "sum(x)+max(x)", fmt.Sprintf("[] e: %d=2 %d=8 %d=4\n", t0, t1, t3)},
	} {
		if got := c.n.sqlText(); got != c.text {
			t.Fatalf("text %q, want %q", got, c.text)
		}
		q.Items = []selectItem{item(c.n)}
		q.GroupBy = nil
		if c.groupBy {
			q.GroupBy = []string{"host"}
		}
		exp, _, _ := m.eval(q, semantics{})
		if got := exp.String(); got != c.want {
			t.Fatalf("%s (group by %v):\n got %q\nwant %q", c.text, q.GroupBy, got, c.want)
		}
	}
	// the usual grouping of a chain
	tree := usualTree([]*exprNode{X, Y, Z, L("2")}, []string{"-", "*", "+"}, []bool{false, false, false})
	if tree.sqlText() != "x-y*z+2" || tree.shape() != "[[x - [y * z]] + #2]" {
		t.Fatalf("usualTree: %s %s", tree.sqlText(), tree.shape())
	}
	// the production parser, converted back
	items, err := parseSelectItems("select 100*(x/(x+y)) as e, max(x) - -1.5 as f from m")
	if err != nil || len(items) != 2 {
		t.Fatalf("parse: %v %d", err, len(items))
	}
	n0, err0 := exprFromStmt(items[0])
	n1, err1 := exprFromStmt(items[1])
	if err0 != nil || err1 != nil || n0.shape() != "[#100 * ([x / ([x + y])])]" || n1.shape() != "[max(x) - #-1.5]" {
		t.Fatalf("exprFromStmt: %v %v %s %s", err0, err1, n0.shape(), n1.shape())
	}
}

// ---- regression -----------------------------------------------------------------------------------------------

// select f+(1+1): binaryEval did not mark "number literal op number literal" as a number literal
// (FloatArray.SetSingle), so the outer operator saw a series with a value in every slot of the range
// and answered 0+2 for every slot in which nothing was written; f+2 answers the written slots only.
// Repaired in /repo (79e1fe1, proposed_fix_literal_op_literal_is_a_literal.diff).
func TestRegression_LiteralOpLiteralOperandFillsEverySlot(t *testing.T) {
	known(t, sigLitLit, "select f+(1+1) returns a value for every slot of the range, f+2 only for the written slots")
	r := newRegEnv(t, fieldDef{"s", tSum})
	r.w(0, 0, v("s", 1))
	r.w(0, 10_000, v("s", 4))
	want := fmt.Sprintf("[] x: %d=3 %d=6\n", regBase, regBase+10_000)
	if got := r.q(r.sel("s+2 as x", "")); got != want {
		t.Fatalf("s+2: got:\n%swant:\n%s", got, want)
	}
	for _, items := range []string{"s+(1+1) as x", "(1+1)+s as x", "s+(4/2) as x"} {
		got := r.q(r.sel(items, ""))
		if got != want {
			if len(got) > 300 {
				got = got[:300] + " ...\n"
			}
			t.Fatalf("%s: got:\n%swant:\n%s", items, got, want)
		}
	}
}

// tsdb/tblstore/metricsdata/reader.go metricReader.prepare is called by every Load of the reader and
// rebuilds r.readFieldIndexes in place (make, then fill), while the data load tasks of the other series
// containers of the same query - they share the reader and run concurrently - iterate it in
// readSeriesData: inside the window a task reads index 0 = the first field of the file block instead
// of the selected field (select max(f0sum) answered with f1sum's value; seen as a rapid "flaky" failure
// of TestQueryModelExpressions under load, about once in 160 000 repetitions of this query). Needs a
// metric with series in >= 2 roaring containers and a file block with >= 2 fields whose first field is
// not the selected one. Schedule dependent: this loop failed only rarely on the unrepaired tree; with
// time.Sleep(200us) between the make and the fill in prepare() its first queries failed, with the fix
// (and the same sleep) it passes. Repaired in /repo (64da98b,
// proposed_fix_file_reader_field_indexes_rebuilt_under_readers.diff).
func TestRegression_FileReaderFieldIndexesRebuiltWhileOtherContainersRead(t *testing.T) {
	f10 := int64(1695204000000) // 2023-09-20 10:00:00 UTC
	f11 := f10 + hourMs
	sc := schema{S: 10_000, Fams: []int64{f10, f11}}
	sc.Metrics = []metricDef{{Name: "m0", Fields: []fieldDef{{"f0sum", tSum}, {"f1sum", tSum}}, Keys: []string{"host"},
		Series: []map[string]string{{"host": "c"}, {"host": "a1"}, {"host": "a2"}}, IDPlan: []uint32{131071, 131073, 196609}}}
	row := func(s int, ts int64, vals ...fieldVal) rowSpec { return rowSpec{M: 0, S: s, TS: ts, Vals: vals} }
	ops := []opSpec{
		{Kind: "write", Rows: []rowSpec{row(0, f11+3520_001, v("f1sum", 0))}}, // f1sum becomes the first field of the block
		{Kind: "write", Rows: []rowSpec{
			row(1, f11+520_001, v("f0sum", 1.5), v("f1sum", 13.375)),
			row(2, f11+5_000, v("f0sum", -1.875), v("f1sum", -1)),
			row(0, f11+3520_001, v("f0sum", 6.875), v("f1sum", 14.875)),
			row(0, f10+1, v("f0sum", 5502), v("f1sum", 0.875)),
		}},
		{Kind: "flushFamily", Fam: 1},
		{Kind: "write", Rows: []rowSpec{row(0, f11+525_000, v("f0sum", -2), v("f1sum", -385.75)), row(1, f11, v("f1sum", 0.125))}},
	}
	q := mQuery{Metric: "m0", Items: []selectItem{{Field: "f0sum", Fn: "max"}}, Start: f10, End: f11 + hourMs - 1000}
	for i := 0; i < 1000; i++ {
		ops = append(ops, opSpec{Kind: "query", Query: &q, SQL: q.sql()})
	}
	runHistory(t, sc, ops)
}
