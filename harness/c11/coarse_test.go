package c11

import (
	"fmt"
	"testing"
	"time"

	"pgregory.net/rapid"

	"github.com/lindb/lindb/verifharness/sim/ev"
)

// ---- coarse storage intervals -------------------------------------------------------------------------
//
// Month-type interval (5m .. <1h): segment = month, family = day, slot = (ts - dayStart)/interval.
// Year-type interval (>= 1h): segment = year, family = month, slot = (ts - monthStart)/interval.
// Same histories, statements and oracle as TestQueryModel on a single-interval database of such an
// interval, with the families placed around day / month / year boundaries.

func dayOf(y int, m time.Month, d int) int64 {
	return time.Date(y, m, d, 0, 0, 0, 0, time.UTC).UnixMilli()
}

// family sets (start times) around calendar boundaries; an entry with two segments first.
func coarseFamilySets(typ string) [][]int64 {
	if typ == "month" { // family = day, segment = month
		return [][]int64{
			{dayOf(2023, 12, 30), dayOf(2023, 12, 31), dayOf(2024, 1, 1), dayOf(2024, 1, 2)}, // year end
			{dayOf(2024, 1, 30), dayOf(2024, 1, 31), dayOf(2024, 2, 1), dayOf(2024, 2, 3)},   // Jan 31 -> Feb 1
			{dayOf(2024, 2, 28), dayOf(2024, 2, 29), dayOf(2024, 3, 1), dayOf(2024, 3, 2)},   // leap day
			{dayOf(2023, 2, 27), dayOf(2023, 2, 28), dayOf(2023, 3, 1), dayOf(2023, 3, 31)},  // Feb 28 -> Mar 1
			{dayOf(2023, 4, 29), dayOf(2023, 4, 30), dayOf(2023, 5, 1), dayOf(2023, 6, 1)},   // three segments
			{dayOf(2023, 7, 9), dayOf(2023, 7, 10), dayOf(2023, 7, 11), dayOf(2023, 7, 20)},  // one segment
		}
	}
	return [][]int64{ // family = month, segment = year
		{dayOf(2023, 11, 1), dayOf(2023, 12, 1), dayOf(2024, 1, 1), dayOf(2024, 2, 1)}, // year end, leap February
		{dayOf(2022, 12, 1), dayOf(2023, 1, 1), dayOf(2023, 2, 1), dayOf(2023, 3, 1)},  // year end, 28-day February
		{dayOf(2023, 10, 1), dayOf(2023, 12, 1), dayOf(2024, 1, 1), dayOf(2024, 3, 1)}, // gaps
		{dayOf(2024, 1, 1), dayOf(2024, 2, 1), dayOf(2024, 3, 1), dayOf(2024, 4, 1)},   // one segment
	}
}

func genCoarseSchema(t *rapid.T) schema {
	sc := genSchema(t) // metrics, series, fields as in TestQueryModel
	sc.Coarse = true
	sc.S = rapid.SampledFrom([]int64{5 * 60_000, 10 * 60_000, 30 * 60_000, hourMs, 4 * hourMs}).Draw(t, "coarseInterval")
	typ := intervalType(sc.S)
	sets := coarseFamilySets(typ)
	set := sets[rapid.IntRange(0, len(sets)-1).Draw(t, "familySet")]
	// 2-4 families of the set, in order
	sc.Fams = nil
	n := rapid.IntRange(2, 4).Draw(t, "nCoarseFamilies")
	skip := len(set) - n
	for _, f := range set {
		if skip > 0 && rapid.Bool().Draw(t, "skipFamily") {
			skip--
			continue
		}
		if len(sc.Fams) < n {
			sc.Fams = append(sc.Fams, f)
		}
	}
	for i := len(set) - 1; len(sc.Fams) < 2; i-- { // unreachable in practice; keeps the invariant
		sc.Fams = append(sc.Fams, set[i])
	}
	// slots: family start / end, and a group in the middle that exercises the 15-slot write window
	minPerFam := int(dayMs / sc.S)
	if typ == "year" {
		minPerFam = int(28 * dayMs / sc.S)
	}
	mid := rapid.IntRange(3, minPerFam-20).Draw(t, "slotBase")
	cands := []int{0, 1, -1, -2, mid, mid + 1, mid + 14, mid + 15, mid + 16, 2}
	sc.Slots = nil
	seen := map[int]bool{}
	ns := rapid.IntRange(3, 6).Draw(t, "nCoarseSlots")
	for i := 0; len(sc.Slots) < ns && i < 40; i++ {
		s := rapid.SampledFrom(cands).Draw(t, "coarseSlot")
		if !seen[s] {
			seen[s] = true
			sc.Slots = append(sc.Slots, s)
		}
	}
	return sc
}

// TestQueryModelCoarseIntervals: the separately counted class of month- and year-type storage intervals.
func TestQueryModelCoarseIntervals(t *testing.T) {
	rapid.Check(t, func(t *rapid.T) {
		sc := genCoarseSchema(t)
		ops := genOps(t, sc)
		classes, _ := runHistory(t, sc, ops)
		nt := false
		for _, c := range classes {
			if c == classCrossSegment {
				nt = true
			}
		}
		classes = append(classes, "interval="+fmtDuration(sc.S), "type="+intervalType(sc.S), fmt.Sprintf("families=%d", len(sc.Fams)))
		ev.Case("TestQueryModelCoarseIntervals", canon(sc, ops), nt, classes, map[string]any{"schema": sc, "ops": ops})
	})
}
