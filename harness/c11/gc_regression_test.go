package c11

import (
	"fmt"
	"strings"
	"sync"
	"testing"
	"time"

	"github.com/lindb/lindb/tsdb/memdb"
)

// The metadata database of a database keeps metric id -> in-memory metric store. After every metadata
// flush a background gc scans the metric stores and, when at most half of the indexed metrics are
// "active", rebuilds that map from the scan. On the tree before the fix the scan ran outside the lock
// that guards the map: metrics written between the scan and the rebuild were in the map but not in the
// scan, the rebuild dropped them, and their points in the memory databases were invisible to every
// query until the metric was written again (seen as a rare, load dependent empty answer by C10/C11
// histories "write; flush; write new metrics; query").
//
// The interleaving is owned through memdb.VerifObserveMetadataGC (build tag verif): the gc calls back
// while it is inside its scan; the test writes the new metrics at that moment. On the repaired tree the
// scan holds the lock, the writes wait for the gc, and the callback gives up after a liveness timeout.
func TestRegression_MetadataGCDropsMetricsIndexedWhileItRuns(t *testing.T) {
	e, err := newEnv(10_000)
	if err != nil {
		t.Fatal(err)
	}
	e.forcePreRegister = true
	e.forceWaitTick = true
	t.Cleanup(e.close)
	var mds []metricDef
	for i := 0; i < 4; i++ {
		mds = append(mds, metricDef{Name: fmt.Sprintf("gcm%d", i), Fields: []fieldDef{{"s", tSum}}, Keys: []string{"host"},
			Series: []map[string]string{{"host": "a"}}})
	}
	row := func(m int, val float64) []rowSpec {
		return []rowSpec{{M: m, S: 0, TS: regBase + 60_000, Vals: []fieldVal{v("s", val)}}}
	}
	if err := e.write(mds, row(0, 1)); err != nil {
		t.Fatal(err)
	}
	db, ok := e.n.Engine.GetDatabase(e.db)
	if !ok {
		t.Fatal("harness: database not found")
	}
	inScan, writesDone, scanLeft := make(chan struct{}), make(chan struct{}), make(chan struct{})
	var once sync.Once
	if n := memdb.VerifObserveMetadataGC(db.MemMetaDB(), func() {
		once.Do(func() {
			close(inScan)
			select {
			case <-writesDone:
			case <-time.After(500 * time.Millisecond): // liveness only: the repaired gc holds the lock, the writes wait for it
			}
			close(scanLeft)
		})
	}); n != 1 {
		t.Fatalf("harness: %d metric stores wrapped, want 1", n)
	}
	if err := db.FlushMeta(); err != nil {
		t.Fatal(err)
	}
	select {
	case <-inScan:
	case <-time.After(10 * time.Second):
		t.Fatal("harness: the metadata gc did not start after FlushMeta")
	}
	for m := 1; m <= 3; m++ { // 3 new metrics next to 1 scanned one: "active <= half of the indexed metrics"
		if err := e.write(mds, row(m, float64(10*m))); err != nil {
			t.Fatal(err)
		}
	}
	close(writesDone)
	<-scanLeft
	time.Sleep(100 * time.Millisecond) // let the gc finish its rebuild (only the sensitivity depends on this)
	s, en := regRange()
	for m := 0; m <= 3; m++ {
		sqlText := fmt.Sprintf("select s from gcm%d where time>='%s' and time<='%s'", m, fmtTime(s), fmtTime(en))
		got, _, err := e.query(sqlText)
		if err != nil {
			t.Fatalf("%s: %v", sqlText, err)
		}
		want := fmt.Sprintf("=%v", []float64{1, 10, 20, 30}[m])
		if !strings.Contains(got.String(), want) {
			t.Fatalf("C11/metadata-gc-drops-metrics-indexed-while-it-runs: %s\nwritten: s%s at %s into the memory database, written after the metadata flush returned and while its background gc was scanning\n"+
				"answer: %q (not found: %q)", sqlText, want, fmtTime(regBase+60_000), got.String(), e.lastNotFound)
		}
	}
}
