package c11

import (
	"fmt"
	"strconv"
	"testing"

	"pgregory.net/rapid"

	"github.com/lindb/lindb/verifharness/sim/ev"
)

// bucketName is metric.BucketNameOfHistogramExplicitBound (reserved field names of histogram buckets).
func bucketName(bound float64) string {
	if bound == inf {
		return "__bucket_+Inf"
	}
	return "__bucket_" + strconv.FormatFloat(bound, 'f', -1, 32)
}

// addHist records a compound (histogram) field in the model: HistogramMin (min), HistogramMax (max),
// HistogramSum / HistogramCount (sum) and one sum-like field per bucket with a positive count
// (tsdb/memdb/database.go writeCompoundField: "if bucketValue > 0").
func (e *env) addHist(md metricDef, r rowSpec, gen int) {
	tags := md.Series[r.S]
	h := r.Hist
	e.mdl.add(md.Name, tags, "HistogramMin", tMin, r.TS, h.Min, gen)
	e.mdl.add(md.Name, tags, "HistogramMax", tMax, r.TS, h.Max, gen)
	e.mdl.add(md.Name, tags, "HistogramSum", tSum, r.TS, h.Sum, gen)
	e.mdl.add(md.Name, tags, "HistogramCount", tSum, r.TS, h.Count, gen)
	bounds := append(append([]float64(nil), h.Bounds...), inf)
	for i, v := range h.Values {
		if v > 0 {
			e.mdl.add(md.Name, tags, bucketName(bounds[i]), tHist, r.TS, v, gen)
		}
	}
}

// histFields lists the fields a compound field writes (name, type), buckets with a zero count excluded.
func histFields(h *histSpec) []fieldDef {
	out := []fieldDef{{"HistogramMin", tMin}, {"HistogramMax", tMax}, {"HistogramSum", tSum}, {"HistogramCount", tSum}}
	bounds := append(append([]float64(nil), h.Bounds...), inf)
	for i, v := range h.Values {
		if v > 0 {
			out = append(out, fieldDef{bucketName(bounds[i]), tHist})
		}
	}
	return out
}

func genHist(t *rapid.T, bounds []float64) *histSpec {
	nn := func(label string) float64 { return float64(rapid.IntRange(0, 1<<12).Draw(t, label)) / 8 }
	h := &histSpec{Min: nn("hmin"), Max: nn("hmax"), Sum: nn("hsum"), Count: nn("hcount"), Bounds: bounds}
	for i := 0; i <= len(bounds); i++ {
		v := 0.0
		if rapid.IntRange(0, 3).Draw(t, "bucketNonZero") > 0 {
			v = float64(rapid.IntRange(1, 64).Draw(t, "bucket")) / 8
		}
		h.Values = append(h.Values, v)
	}
	return h
}

// TestQueryModelHistogram: the separately counted class of compound (histogram) fields: the same
// histories and oracle as TestQueryModel over metrics whose rows carry a histogram (plus, sometimes,
// one simple field); statements select HistogramSum/Count/Min/Max and bucket fields (plain and the
// functions series/field/type.go allows; quantile is not generated).
func TestQueryModelHistogram(t *testing.T) {
	rapid.Check(t, func(t *rapid.T) {
		sc := genSchema(t)
		bounds := rapid.SampledFrom([][]float64{{1, 5}, {1, 5, 20}, {2, 4, 8, 16}}).Draw(t, "bounds")
		// metrics: histogram only, or histogram + one simple field
		for i := range sc.Metrics {
			if len(sc.Metrics[i].Fields) > 1 {
				sc.Metrics[i].Fields = sc.Metrics[i].Fields[:rapid.IntRange(0, 1).Draw(t, "simpleFields")]
			}
		}
		// query-side view of the metrics: the derived fields
		qsc := sc
		qsc.Metrics = nil
		for _, md := range sc.Metrics {
			q := md
			q.Fields = append([]fieldDef(nil), md.Fields...)
			q.Fields = append(q.Fields, fieldDef{"HistogramMin", tMin}, fieldDef{"HistogramMax", tMax}, fieldDef{"HistogramSum", tSum}, fieldDef{"HistogramCount", tSum})
			// the +Inf bucket cannot be named in a statement (a quoted identifier keeps its quotes and
			// is rejected as an unknown field), it is only reachable through quantile()
			for _, b := range bounds {
				q.Fields = append(q.Fields, fieldDef{bucketName(b), tHist})
			}
			qsc.Metrics = append(qsc.Metrics, q)
		}
		wt := newWindowTracker(sc.S)
		written := map[string]map[string]bool{}
		curFields := map[int64]map[string]map[string]bool{}
		fileCount := map[int64]int{}
		var ops []opSpec
		write := func(max int) {
			n := rapid.IntRange(1, max).Draw(t, "nRows")
			var rows []rowSpec
			for i := 0; i < n || len(rows) == 0; i++ {
				mi := rapid.IntRange(0, len(sc.Metrics)-1).Draw(t, "metric")
				md := sc.Metrics[mi]
				r := rowSpec{M: mi, S: rapid.IntRange(0, len(md.Series)-1).Draw(t, "series"), TS: genTS(t, sc), Hist: genHist(t, bounds)}
				for _, fd := range md.Fields {
					if rapid.Bool().Draw(t, "hasSimple") {
						r.Vals = append(r.Vals, fieldVal{Field: fd.Name, Val: genValue(t, "v")})
					}
				}
				names := histFields(r.Hist)
				for _, fv := range r.Vals {
					names = append(names, fieldDef{Name: fv.Field})
				}
				if ev.Known(sigWindowEnd) {
					ok := true
					probe := *wt // admit mutates: check all fields first on a copy of the windows touched
					_ = probe
					for _, fd := range names {
						if !wt.wouldAdmit(familyOfIv(sc.S, r.TS), md.Name, r.S, fd.Name, r.TS) {
							ok = false
						}
					}
					if !ok {
						continue
					}
					for _, fd := range names {
						wt.admit(familyOfIv(sc.S, r.TS), md.Name, r.S, fd.Name, r.TS)
					}
				}
				if written[md.Name] == nil {
					written[md.Name] = map[string]bool{}
				}
				fam := familyOfIv(sc.S, r.TS)
				if curFields[fam] == nil {
					curFields[fam] = map[string]map[string]bool{}
				}
				if curFields[fam][md.Name] == nil {
					curFields[fam][md.Name] = map[string]bool{}
				}
				for _, fd := range names {
					written[md.Name][fd.Name] = true
					curFields[fam][md.Name][fd.Name] = true
				}
				rows = append(rows, r)
			}
			ops = append(ops, opSpec{Kind: "write", Rows: rows})
		}
		flushedFam := func(f int64) {
			if len(curFields[f]) > 0 {
				fileCount[f]++
			}
			delete(curFields, f)
			wt.flushed(f)
		}
		write(6)
		n := rapid.IntRange(2, 10).Draw(t, "nOps")
		hasReopen := false
		for i := 0; i < n; i++ {
			switch k := rapid.IntRange(0, 9).Draw(t, "opKind"); {
			case k <= 3:
				write(5)
			case k == 4:
				ops = append(ops, opSpec{Kind: "flushDB"})
				for _, f := range sc.Fams {
					flushedFam(f)
				}
			case k <= 6:
				fi := rapid.IntRange(0, len(sc.Fams)-1).Draw(t, "flushFam")
				ops = append(ops, opSpec{Kind: "flushFamily", Fam: fi})
				flushedFam(sc.Fams[fi])
			case k == 7:
				for i, f := range sc.Fams {
					if fileCount[f] >= 2 {
						ops = append(ops, opSpec{Kind: "compact", Fam: i})
						fileCount[f] = 1
						break
					}
				}
			case k == 8:
				ops = append(ops, opSpec{Kind: "reopen"})
				hasReopen = true
				for _, f := range sc.Fams {
					flushedFam(f)
				}
			default:
				q := genQuery(t, qsc, written)
				ops = append(ops, opSpec{Kind: "query", Query: &q, SQL: q.sql()})
			}
		}
		if hasReopen && ev.Known(sigFlushWedged) {
			for i := range ops {
				if ops[i].Kind == "flushDB" {
					ops[i].Kind = "flushFamilies"
				}
			}
		}
		for i := 0; i < rapid.IntRange(1, 3).Draw(t, "nFinalQueries"); i++ {
			q := genQuery(t, qsc, written)
			ops = append(ops, opSpec{Kind: "query", Query: &q, SQL: q.sql()})
		}
		classes, nt := runHistory(t, sc, ops)
		ev.Case("TestQueryModelHistogram", canon(sc, ops), nt, classes, map[string]any{"schema": sc, "ops": ops})
	})
}

var _ = fmt.Sprintf
