package c11

import (
	"strconv"
)

// bucketName is metric.BucketNameOfHistogramExplicitBound (reserved field names of histogram buckets).
func bucketName(bound float64) string {
	if bound == inf {
		return "__bucket_+Inf"
	}
	return "__bucket_" + strconv.FormatFloat(bound, 'f', -1, 32)
}

// addHist records a compound (histogram) field in the model: HistogramMin (min), HistogramMax (max),
// HistogramSum / HistogramCount (sum) and one sum-like field per bucket with a positive count
// (tsdb/memdb/database.go writeCompoundField: "if bucketValue > 0").
func (e *env) addHist(md metricDef, r rowSpec, gen int) {
	tags := md.Series[r.S]
	h := r.Hist
	e.mdl.add(md.Name, tags, "HistogramMin", tMin, r.TS, h.Min, gen)
	e.mdl.add(md.Name, tags, "HistogramMax", tMax, r.TS, h.Max, gen)
	e.mdl.add(md.Name, tags, "HistogramSum", tSum, r.TS, h.Sum, gen)
	e.mdl.add(md.Name, tags, "HistogramCount", tSum, r.TS, h.Count, gen)
	bounds := append(append([]float64(nil), h.Bounds...), inf)
	for i, v := range h.Values {
		if v > 0 {
			e.mdl.add(md.Name, tags, bucketName(bounds[i]), tHist, r.TS, v, gen)
		}
	}
}
