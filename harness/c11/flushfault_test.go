package c11

import (
	"errors"
	"fmt"
	"sort"
	"strings"
	"sync"
	"sync/atomic"
	"testing"
	"time"

	"pgregory.net/rapid"

	"github.com/lindb/lindb/kv/table"
	"github.com/lindb/lindb/kv/version"
	"github.com/lindb/lindb/tsdb"
	"github.com/lindb/lindb/verifharness/sim/ev"
)

// ---- I/O faults inside the flush of a data family, as an operation of the history -------------------------
//
// TestQueryModelFlushFaults: the history of TestQueryModel (writes, statements, family.Flush, FlushDB,
// compaction, reopen) with one more operation class: a family.Flush during which ONE intercepted
// file-system operation of the kv layer fails (creation of the table file, a write into it, its close,
// the write of the manifest record; seams table.VerifSetFSHookWithFaults /
// version.VerifSetFSHookWithFaults: a failed create / write leaves nothing in the file, a failed close
// releases the descriptor and reports the error). The local replicator keeps writing while the flush job
// runs: a drawn batch of rows is written into the shard (the flushed family included) on the goroutine of
// the flush job at a drawn file-system operation between the switch mutable -> immutable and the failure
// (the first operation of the call or the failing one itself), where the family mutex is free
// (tsdb.VerifFamilyMutexFree; in production the writer would block until then). Afterwards the history
// goes on as production does: more writes, more Flush calls of the same family (the retry of the flush
// job), FlushDB, compaction, a graceful reopen (dataFamily.Close flushes what is in memory).
//
// Oracle: the naive model keeps every accepted point; a failed flush loses nothing that was accepted
// (the points stay in memory and stay visible to every statement; nothing of the half written file may
// be counted), so every statement after every step must equal the model exactly - after the failed
// flush, after the retries, after the reopen. The Flush call must report the injected fault or succeed
// completely (a swallowed fault is treated like a successful flush and judged by the same oracle).
//
// Faults are not injected into Close (reopen): a close that cannot write its files loses what only the
// write ahead log still has, which this harness does not model (C09 / C06 territory).

var errFlushFault = errors.New("injected I/O fault: no space left on device")

var flushFaultOps = []string{"tableCreate", "tableWrite", "tableWrite", "tableClose", "manifestWrite"}

type flushFaultPlan struct {
	Op   string `json:"op"`   // "" = no fault
	At   int    `json:"at"`   // the At-th operation of that kind of the call fails (1-based)
	Late string `json:"late"` // rows written inside the flush: "" none, "first" at the first seam of the call, "fault" at the failing operation
}

// flushFaultSeams is installed for the lifetime of one case (the manifest writer is wrapped when the
// store is opened); it does nothing unless armed.
type flushFaultSeams struct {
	mu      sync.Mutex
	armed   atomic.Bool
	match   string // only operations on paths containing this text count
	plan    flushFaultPlan
	seen    map[string]int
	ops     []string
	failNow bool
	fired   int
	atSeam  func(op string, failing bool)
}

func (s *flushFaultSeams) hook(op, path string, before bool) {
	if !before || !s.armed.Load() || !strings.Contains(path, s.match) {
		return
	}
	if !s.mu.TryLock() { // an operation of another goroutine or a nested one: not part of the plan
		return
	}
	defer s.mu.Unlock()
	s.seen[op]++
	s.ops = append(s.ops, op)
	failing := s.plan.Op == op && s.seen[op] == s.plan.At
	if s.atSeam != nil {
		s.atSeam(op, failing)
	}
	s.failNow = failing
}

func (s *flushFaultSeams) fault(op, path string) error {
	if !s.armed.Load() || !strings.Contains(path, s.match) {
		return nil
	}
	if s.failNow && s.plan.Op == op {
		s.failNow = false
		s.fired++
		return errFlushFault
	}
	return nil
}

func (s *flushFaultSeams) install() {
	table.VerifSetFSHookWithFaults(s.hook, s.fault)
	version.VerifSetFSHookWithFaults(s.hook, s.fault)
}

func (s *flushFaultSeams) uninstall() {
	s.armed.Store(false)
	table.VerifSetFSHook(nil)
	version.VerifSetFSHook(nil)
}

func genFlushFaultPlan(t *rapid.T, faulty bool) flushFaultPlan {
	var p flushFaultPlan
	if faulty {
		p.Op = rapid.SampledFrom(flushFaultOps).Draw(t, "faultOp")
		p.At = 1
		if p.Op == "tableWrite" {
			p.At = rapid.SampledFrom([]int{1, 2, 3, 4, 6, 9, 13, 16}).Draw(t, "faultAt")
		}
	}
	switch k := rapid.IntRange(0, 5).Draw(t, "lateWrite"); {
	case k <= 1:
	case k <= 3 && faulty:
		p.Late = "fault"
	default:
		p.Late = "first"
	}
	return p
}

func TestQueryModelFlushFaults(t *testing.T) {
	rapid.Check(t, func(t *rapid.T) {
		sc := genSchema(t)
		if len(sc.Fams) > 2 {
			sc.Fams = sc.Fams[:2]
		}
		seams := &flushFaultSeams{}
		seams.install()
		defer seams.uninstall()
		e, err := newEnv(sc.S)
		if err != nil {
			t.Fatalf("harness: %v", err)
		}
		defer e.close()
		seams.match = "/" + e.db + "/"

		wt := newWindowTracker(sc.S)
		written := map[string]map[string]bool{}
		var log []string
		history := func() string { return "  history:\n    " + strings.Join(log, "\n    ") + "\n" }
		classes := map[string]bool{}
		nonTrivial := false
		reported := 0 // Flush calls that reported the injected fault
		note := func(rows []rowSpec) {
			for _, r := range rows {
				name := sc.Metrics[r.M].Name
				if written[name] == nil {
					written[name] = map[string]bool{}
				}
				for _, fv := range r.Vals {
					written[name][fv.Field] = true
				}
			}
		}
		logRows := func(label string, rows []rowSpec) {
			for _, r := range rows {
				log = append(log, fmt.Sprintf("%s %s %v @%s (%d) %v", label, sc.Metrics[r.M].Name, sc.Metrics[r.M].Series[r.S], timeOf(r.TS).Format("15:04:05.000"), r.TS, r.Vals))
			}
		}
		write := func(label string, rows []rowSpec) {
			logRows(label, rows)
			if err := e.write(sc.Metrics, rows); err != nil {
				t.Fatalf("write rejected: %v\n%s", err, history())
			}
		}
		check := func(label string, q mQuery) {
			log = append(log, label+" query "+q.sql())
			cls, nt := e.checkQuery(t, q, history)
			afterFault := reported > 0
			for _, c := range cls {
				if strings.HasPrefix(c, "placement=") || strings.HasPrefix(c, "fn=") || strings.HasPrefix(c, "after-") || strings.HasPrefix(c, "excluded_known:") {
					classes[c] = true
				}
				if afterFault && strings.HasPrefix(c, "placement=") {
					classes["after-failed-flush:"+c] = true
					if strings.Contains(c, "immutable") {
						// the statement read points of the memory database whose flush failed
						classes["statement-read-the-memory-database-whose-flush-failed"] = true
						if nt || len(e.lastGot) > 0 {
							nonTrivial = true
						}
					}
				}
			}
			if afterFault && e.reopens > 0 {
				classes["statement-after-failed-flush-and-reopen"] = true
			}
		}
		queries := func(label string, n int) {
			for i := 0; i < n; i++ {
				check(fmt.Sprintf("%s[%d]", label, i), genQuery(t, sc, written))
			}
		}
		// wedged: the flush of the family failed, its former mutable memory database is the immutable one
		// (env.inFlush stays set: rows go to the next memory database) until the family is closed.
		wedged := func(f int64) bool { return e.inFlush[f] }
		flushFamily := func(fi int, faulty bool) {
			fam := sc.Fams[fi]
			plan := genFlushFaultPlan(t, faulty)
			switches := e.dirty[fam] && !wedged(fam)
			var lateRows []rowSpec
			if plan.Late != "" {
				if switches {
					wt.flushed(fam) // the rows go to the next memory database of the family
				}
				lateRows = genRows(t, sc, 4, wt)
				note(lateRows)
			}
			// a statement issued inside the flush, at the seam of the write (or, without a write, at the
			// failing operation / the first seam): the points exist in the two memory databases only
			var seamQuery *mQuery
			if rapid.Bool().Draw(t, "queryInsideFlush") {
				q := genQuery(t, sc, written)
				seamQuery = &q
			}
			nAfter := rapid.IntRange(1, 2).Draw(t, "nQueriesAfterFlush")
			log = append(log, fmt.Sprintf("flushFamily %s plan=%+v", fmtTime(fam), plan))
			f, err := e.family(fam)
			if err != nil {
				t.Fatalf("harness: %v", err)
			}
			if switches {
				e.inFlush[fam] = true
			}
			lateDone := false
			var seamDone chan struct{}
			var seamFail, seamLabel string
			seams.plan, seams.seen, seams.ops, seams.failNow, seams.fired = plan, map[string]int{}, nil, false, 0
			querySeam := func(op string, failing bool) {
				if seamQuery == nil || seamDone != nil {
					return
				}
				q := *seamQuery
				if ev.Known(sigFilterRace) && !doubleCountSafe(e.mdl, q) {
					classes["excluded_known:"+sigFilterRace] = true
					return
				}
				seamLabel = fmt.Sprintf("  inside flush at %s#%d (failing=%v)", op, seams.seen[op], failing)
				log = append(log, seamLabel+" query "+q.sql())
				exp, qiv := e.expectationOf(q) // every write is complete: the expectation does not depend on when the query runs
				hist := history()
				seamDone = make(chan struct{})
				done := seamDone
				go func() {
					defer close(done)
					var cf captureFailer
					func() {
						defer func() {
							if r := recover(); r != nil && r != errCaptured {
								cf.msg = fmt.Sprint("panic: ", r)
							}
						}()
						e.checkQueryIsolated(&cf, q, func() string { return hist }, exp, qiv)
					}()
					seamFail = cf.msg
				}()
				select {
				case <-done:
					classes["statement-inside-the-flush:checked-at-the-seam"] = true
				case <-time.After(2 * time.Second): // something the statement needs is held at this seam: let the flush go on
					classes["statement-inside-the-flush:overlapped-the-rest-of-the-call"] = true
				}
			}
			seams.atSeam = func(op string, failing bool) {
				if !strings.HasPrefix(op, "table") && op != "manifestWrite" {
					return
				}
				if lateRows == nil && (failing || plan.Op == "") && tsdb.VerifFamilyMutexFree(f) {
					querySeam(op, failing)
				}
				if lateDone || lateRows == nil || (plan.Late == "fault" && !failing) {
					return
				}
				if !tsdb.VerifFamilyMutexFree(f) {
					// the flush job holds the family mutex here (commit): a writer would block until the
					// end of the critical section
					classes["late-write-seam-under-family-mutex(skipped)"] = true
					return
				}
				lateDone = true
				logRows(fmt.Sprintf("  inside flush at %s#%d (failing=%v) write", op, seams.seen[op], failing), lateRows)
				if err := e.write(sc.Metrics, lateRows); err != nil {
					panic(fmt.Sprintf("write inside the flush rejected: %v", err))
				}
				classes["write-inside-flush"] = true
				if failing {
					classes["write-inside-flush:at-the-failing-operation"] = true
				} else {
					classes["write-inside-flush:at-"+op] = true
				}
				querySeam(op, failing)
			}
			seams.armed.Store(true)
			ferr := f.Flush()
			seams.armed.Store(false)
			seams.atSeam = nil
			fired := seams.fired
			if seamDone != nil {
				select {
				case <-seamDone:
				case <-time.After(30 * time.Second):
					t.Fatalf("the statement issued %s did not return\n%s", seamLabel, history())
				}
				if seamFail != "" {
					t.Fatalf("statement issued %s: %s", seamLabel, seamFail)
				}
			}
			log = append(log, fmt.Sprintf("  -> %v (fs operations: %s; fault fired %d)", ferr, strings.Join(seams.ops, ","), fired))
			switch {
			case ferr != nil && fired == 0:
				t.Fatalf("Flush failed without an injected fault: %v\n%s", ferr, history())
			case ferr != nil:
				reported++
				classes["fault:"+plan.Op] = true
				classes[fmt.Sprintf("fault:%s#%d", plan.Op, plan.At)] = true
				if lateDone {
					classes["fault-after-write-inside-the-flush"] = true
					if e.lateDirty[fam] {
						classes["fault-after-write-into-the-flushed-family"] = true
					}
				} else {
					classes["fault-without-write-inside-the-flush"] = true
				}
				if !switches {
					// not reachable on a tree whose Flush does nothing while the family holds an immutable
					// memory database; a tree that retries the failed flush may fail again (no claim here,
					// the statements decide)
					classes["fault-in-the-retry-of-a-wedged-family"] = true
				}
				// the family stays wedged: e.inFlush[fam] remains set
				classes[fmt.Sprintf("failed-flushes=%d", min(reported, 3))] = true
			default:
				if fired > 0 {
					classes["fault-swallowed:"+plan.Op] = true
				} else if plan.Op != "" {
					if !switches {
						classes["fault-planned:nothing-to-flush"] = true
					} else {
						classes["fault-planned:operation-not-reached"] = true
					}
				}
				if switches {
					delete(e.inFlush, fam)
					e.flushed(fam)
					classes["flush-succeeded"] = true
				} else if wedged(fam) {
					classes["flush-retry-of-a-wedged-family(no-op)"] = true
				}
			}
			if lateRows != nil && !lateDone {
				// no seam of the call was reached (nothing to flush / the family is wedged): the replicator
				// writes right after the call
				write("write(after the flush call)", lateRows)
			}
			queries("after-flush", nAfter)
		}

		first := genRows(t, sc, 8, wt)
		note(first)
		write("write", first)
		n := rapid.IntRange(4, 11).Draw(t, "nOps")
		for i := 0; i < n; i++ {
			k := rapid.IntRange(0, 14).Draw(t, "opKind")
			if i == 0 && k > 3 && k < 7 {
				k = 9
			}
			if k == 14 {
				any := false
				for _, f := range sc.Fams {
					if e.files[f] >= 2 {
						any = true
					}
				}
				if !any {
					k = 8
				}
			}
			switch {
			case k <= 3:
				rows := genRows(t, sc, 6, wt)
				note(rows)
				write("write", rows)
			case k <= 6:
				queries("query", 1)
			case k == 7:
				flushFamily(rapid.IntRange(0, len(sc.Fams)-1).Draw(t, "flushFam"), false)
			case k <= 11:
				// preferably a family whose Flush call has something to write (3 of 4 draws)
				var cands []int
				for i, f := range sc.Fams {
					if e.dirty[f] && !wedged(f) {
						cands = append(cands, i)
					}
				}
				if len(cands) == 0 || rapid.IntRange(0, 3).Draw(t, "anyFam") == 0 {
					cands = cands[:0]
					for i := range sc.Fams {
						cands = append(cands, i)
					}
				}
				flushFamily(cands[rapid.IntRange(0, len(cands)-1).Draw(t, "faultFam")], true)
			case k == 12:
				log = append(log, "flushDB")
				if err := e.n.FlushDB(e.db); err != nil {
					t.Fatalf("flushDB: %v\n%s", err, history())
				}
				for _, f := range sc.Fams {
					if wedged(f) {
						classes["flushDB-with-a-wedged-family"] = true
						continue
					}
					e.flushed(f)
					wt.flushed(f)
				}
				queries("after-flushDB", 1)
			case k == 13:
				log = append(log, "reopen")
				for _, f := range sc.Fams {
					if wedged(f) {
						// Close flushes the immutable memory database, then the mutable one
						classes["reopen-with-a-wedged-family"] = true
						delete(e.inFlush, f)
						e.flushed(f)
					}
				}
				if err := e.reopen(); err != nil {
					t.Fatalf("reopen: %v\n%s", err, history())
				}
				wt.flushedAll()
				queries("after-reopen", 2)
			default:
				var cands []int64
				for _, f := range sc.Fams {
					if e.files[f] >= 2 {
						cands = append(cands, f)
					}
				}
				f := cands[rapid.IntRange(0, len(cands)-1).Draw(t, "compactFam")]
				log = append(log, "compact "+fmtTime(f))
				ok, err := e.compact(f)
				if err != nil {
					t.Fatalf("compact: %v\n%s", err, history())
				}
				if ok {
					classes["compaction"] = true
				}
				queries("after-compact", 1)
			}
		}
		queries("final", rapid.IntRange(1, 3).Draw(t, "nFinalQueries"))
		var cls []string
		for c := range classes {
			cls = append(cls, c)
		}
		sort.Strings(cls)
		ev.Case("TestQueryModelFlushFaults", canon(sc, log), nonTrivial, cls, map[string]any{"schema": sc, "history": log})
	})
}
