package c11

import (
	"fmt"
	"os"
	"sort"
	"strings"
	"sync"
	"sync/atomic"
	"testing"
	"time"

	"github.com/lindb/common/pkg/fasttime"
	"pgregory.net/rapid"

	"github.com/lindb/lindb/kv"
	"github.com/lindb/lindb/kv/table"
	"github.com/lindb/lindb/kv/version"
	"github.com/lindb/lindb/verifharness/sim/ev"
)

// ---- queries inside a flush, at seams the harness owns ------------------------------------------------
//
// dataFamily.Flush: (1) mutable -> immutable memory database under f.mutex, (2) flushMemoryDatabase
// without the mutex: table file written, manifest record written + synced, version applied (the
// file is visible to new snapshots), sequence-ack callbacks invoked, memory database closed,
// (3) immutable = nil under f.mutex.
//
// Seams used:
//   - the kv / version / table file-system hooks fire while the table is written and the manifest
//     record is appended, i.e. while the points exist only in the immutable memory database. The query
//     runs on another goroutine with a time limit (locks of the kv layer may be held at the hook).
//   - the sequence-ack callback (DataFamily.AckSequence, the production seam the replica channel uses)
//     runs after the file is committed and before the immutable memory database is dropped, with no
//     lock of the family held (Flush path). Queries and further writes run re-entrantly there.
//
// All writes completed before each query starts, so every answer must equal the model exactly.

const ackLeader = int32(1)

// observer is installed per data family object.
type observer struct {
	armed    atomic.Bool
	inWindow func()
}

func (e *env) observerOf(fam int64) (*observer, error) {
	if e.observers == nil {
		e.observers = map[int64]*observer{}
	}
	if o, ok := e.observers[fam]; ok {
		return o, nil
	}
	f, err := e.family(fam)
	if err != nil {
		return nil, err
	}
	o := &observer{}
	// AckSequence calls the function at once (under the family mutex) when a persisted sequence
	// exists, and later from flushMemoryDatabase; only the armed call inside Flush() does anything.
	f.AckSequence(ackLeader, func(int64) {
		if o.armed.CompareAndSwap(true, false) && o.inWindow != nil {
			o.inWindow()
		}
	})
	e.observers[fam] = o
	return o, nil
}

// flushObserved flushes the family; inWindow runs between the commit of the file and the release of
// the immutable memory database; atHook runs at every file-system operation of the kv layer.
func (e *env) flushObserved(fam int64, inWindow func(), atHook func(op, path string, before bool)) error {
	o, err := e.observerOf(fam)
	if err != nil {
		return err
	}
	f, err := e.family(fam)
	if err != nil {
		return err
	}
	e.ackSeq++
	f.CommitSequence(ackLeader, e.ackSeq)
	if e.dirty[fam] {
		e.inFlush[fam] = true // the mutable memory database becomes the immutable one
	}
	defer delete(e.inFlush, fam)
	o.inWindow = inWindow
	o.armed.Store(inWindow != nil)
	if atHook != nil {
		kv.VerifSetFSHook(func(op, path string, before bool) { atHook(op, path, before) })
		version.VerifSetFSHook(func(op, path string, before bool) { atHook(op, path, before) })
		table.VerifSetFSHook(func(op, path string, before bool) { atHook(op, path, before) })
	}
	err = f.Flush()
	if atHook != nil {
		kv.VerifSetFSHook(nil)
		version.VerifSetFSHook(nil)
		table.VerifSetFSHook(nil)
	}
	o.armed.Store(false)
	o.inWindow = nil
	if err != nil {
		return err
	}
	e.flushed(fam)
	return nil
}

// doubleCountSafe: a statement whose answer cannot change when the same points are seen twice
// (used while sigFilterRace is listed as known).
func doubleCountSafe(m *model, q mQuery) bool {
	mm := m.Metrics[q.Metric]
	if mm == nil {
		return true
	}
	for _, it := range q.operandItems() {
		if _, ok := mm.Types[it.Field]; !ok {
			continue
		}
		agg := typeAgg(mm.Types[it.Field])
		if it.Fn != "" {
			agg = it.Fn
		}
		if agg == aSum {
			return false
		}
	}
	return true
}

func TestQueryDuringFlush(t *testing.T) {
	rapid.Check(t, func(t *rapid.T) {
		sc := genSchema(t)
		if len(sc.Fams) > 2 {
			sc.Fams = sc.Fams[:2]
		}
		e, err := newEnv(sc.S)
		if err != nil {
			t.Fatalf("harness: %v", err)
		}
		defer e.close()
		wt := newWindowTracker(sc.S)
		written := map[string]map[string]bool{}
		if ev.Known(sigOneFieldFile) {
			// statements of this test name one field only while single-field files are read wrongly
			written["\x00single"] = map[string]bool{}
			for _, md := range sc.Metrics {
				written["\x00single"][md.Name] = true
			}
		}
		var log []string
		history := func() string { return "  history:\n    " + strings.Join(log, "\n    ") + "\n" }
		write := func(label string, max int) {
			rows := genRows(t, sc, max, wt)
			for _, r := range rows {
				name := sc.Metrics[r.M].Name
				if written[name] == nil {
					written[name] = map[string]bool{}
				}
				for _, fv := range r.Vals {
					written[name][fv.Field] = true
				}
				log = append(log, fmt.Sprintf("%s write %s %v @%s (%d) %v", label, name, sc.Metrics[r.M].Series[r.S], timeOf(r.TS).Format("15:04:05.000"), r.TS, r.Vals))
			}
			if err := e.write(sc.Metrics, rows); err != nil {
				t.Fatalf("write rejected: %v\n%s", err, history())
			}
		}
		classes := map[string]bool{}
		nonTrivial := false
		check := func(label string, q mQuery) {
			log = append(log, label+" query "+q.sql())
			cls, nt := e.checkQuery(t, q, history)
			for _, c := range cls {
				classes[label+":"+c] = true
				if strings.HasPrefix(c, "placement=") || strings.HasPrefix(c, "fn=") {
					classes[c] = true
				}
			}
			if nt {
				nonTrivial = true
			}
		}

		write("before", 8)
		if rapid.Bool().Draw(t, "earlierFile") {
			log = append(log, "flushDB")
			if err := e.flushDB(); err != nil {
				t.Fatalf("flush: %v", err)
			}
			wt.flushedAll()
			write("before", 6)
		}
		fam := sc.Fams[rapid.IntRange(0, len(sc.Fams)-1).Draw(t, "flushFam")]
		// pre-generate what happens inside the flush (draws must not depend on hook timing)
		nWin := rapid.IntRange(1, 3).Draw(t, "nWindowQueries")
		var winQueries []mQuery
		for i := 0; i < nWin; i++ {
			winQueries = append(winQueries, genQuery(t, sc, written))
		}
		writeInWindow := rapid.Bool().Draw(t, "writeInWindow")
		var lateRows []rowSpec
		if writeInWindow {
			wt.flushed(fam)
			lateRows = genRows(t, sc, 4, wt)
		}
		hookOrdinals := map[int]mQuery{}
		for i := 0; i < rapid.IntRange(0, 3).Draw(t, "nHookQueries"); i++ {
			hookOrdinals[rapid.IntRange(0, 24).Draw(t, "hookOrdinal")] = genQuery(t, sc, written)
		}

		// hook queries: other goroutine, bounded wait
		type pending struct {
			label string
			q     mQuery
			done  chan struct{}
			fail  string
		}
		var pend []*pending
		ordinal := 0
		atHook := func(op, path string, before bool) {
			if !strings.Contains(path, e.db) {
				return
			}
			ord := ordinal
			ordinal++
			q, ok := hookOrdinals[ord]
			if !ok {
				return
			}
			label := fmt.Sprintf("hook[%s before=%v #%d]", op, before, ord)
			log = append(log, label+" query "+q.sql())
			p := &pending{label: label, q: q, done: make(chan struct{})}
			pend = append(pend, p)
			exp, qiv := e.expectationOf(q) // all writes are complete: the expectation does not depend on when the query runs
			hist := history()
			go func() {
				defer close(p.done)
				var cf captureFailer
				func() {
					defer func() {
						if r := recover(); r != nil && r != errCaptured {
							cf.msg = fmt.Sprint("panic: ", r)
						}
					}()
					if ev.Known(sigFilterRace) && !doubleCountSafe(e.mdl, q) {
						return
					}
					e.checkQueryIsolated(&cf, p.q, func() string { return hist }, exp, qiv)
				}()
				p.fail = cf.msg
			}()
			select {
			case <-p.done:
			case <-time.After(300 * time.Millisecond): // a kv lock is held at this hook: let the flush go on
				classes["hook-query-overlapped-rest-of-flush"] = true
			}
		}
		inWindow := func() {
			classes["window-reached"] = true
			for i, q := range winQueries {
				if ev.Known(sigFilterRace) && !doubleCountSafe(e.mdl, q) {
					classes["excluded_known:"+sigFilterRace] = true
					continue
				}
				check(fmt.Sprintf("window[%d]", i), q)
			}
			if writeInWindow {
				for _, p := range pend { // queries started at a hook must not overlap the new writes
					select {
					case <-p.done:
					case <-time.After(20 * time.Second):
						panic("query started at " + p.label + " did not finish")
					}
				}
				for _, r := range lateRows {
					log = append(log, fmt.Sprintf("window write %s %v @%s (%d) %v", sc.Metrics[r.M].Name, sc.Metrics[r.M].Series[r.S], timeOf(r.TS).Format("15:04:05.000"), r.TS, r.Vals))
				}
				// the new rows go to a fresh mutable memory database (env.write knows the family is inside Flush)
				if err := e.write(sc.Metrics, lateRows); err != nil {
					panic(fmt.Sprintf("write inside the flush window rejected: %v", err))
				}
				for i, q := range winQueries {
					if ev.Known(sigFilterRace) && !doubleCountSafe(e.mdl, q) {
						continue
					}
					check(fmt.Sprintf("window-after-write[%d]", i), q)
				}
			}
		}
		log = append(log, "flushFamily "+fmtTime(fam)+" (observed)")
		if err := e.flushObserved(fam, inWindow, atHook); err != nil {
			t.Fatalf("flush failed: %v\n%s", err, history())
		}
		for _, p := range pend {
			select {
			case <-p.done:
			case <-time.After(20 * time.Second):
				t.Fatalf("query started at %s did not finish\n%s", p.label, history())
			}
			if p.fail != "" {
				t.Fatalf("%s: %s", p.label, p.fail)
			}
			classes["hook-query-checked"] = true
		}
		for i, q := range winQueries {
			check(fmt.Sprintf("after[%d]", i), q)
		}
		var cls []string
		for c := range classes {
			cls = append(cls, c)
		}
		sort.Strings(cls)
		ev.Case("TestQueryDuringFlush", canon(sc, log), nonTrivial && classes["window-reached"], cls, map[string]any{"schema": sc, "history": log})
	})
}

var errCaptured = fmt.Errorf("captured")

// captureFailer records the first failure of a check that runs outside the test goroutine.
type captureFailer struct{ msg string }

func (c *captureFailer) Fatalf(format string, args ...any) {
	if c.msg == "" {
		c.msg = fmt.Sprintf(format, args...)
	}
	panic(errCaptured)
}

// checkQueryIsolated: like checkQuery but safe to call from another goroutine: the expectation is
// computed by the caller (expectationOf), only the query and the comparison run here.
func (e *env) checkQueryIsolated(t failer, q mQuery, history func() string, exp expectation, qiv int64) {
	sqlText := q.sql()
	rs, err := e.cl.Query(e.db, sqlText)
	got, gotIv := canonOf(rs)
	if err != nil {
		if !notFound(err) {
			t.Fatalf("query failed: %s\n  error: %v\n%s", sqlText, err, history())
		}
	}
	if _, _, msg := compare(exp, got, gotIv, qiv); msg != "" {
		if err != nil {
			msg += "\n  (the query returned the error: " + err.Error() + ")"
		}
		t.Fatalf("query answer differs from the model\n  sql: %s\n  %s\n  got:\n%s  model:\n%s%s", sqlText, msg, indent(got.String()), indent(exp.String()), history())
	}
}

func (e *env) expectationOf(q mQuery) (expectation, int64) {
	exp, _, qiv := e.mdl.evalWithRisk(q, currentSemantics(), e.riskFamilies(q))
	return exp, qiv
}

// ---- goroutine stress: flush / compaction / queries -------------------------------------------------------

// TestConcurrentFlushQuery: one writer goroutine adds 1/8 to a fixed set of slots of a sum field; a
// flusher flushes the family over and over, a compactor compacts it, readers repeat one query.
// Phase 1 (writer running): for every slot, writes completed before the query started <= answer <=
// writes started before the query returned. Phase 2 (writer finished): the answer equals the model
// exactly, nothing missing and nothing counted twice.
//
// The property quantifies over queries concurrent with a flush and over writes that completed before
// the query; it does not quantify over writes concurrent with the flush of their own family. A write
// and a Flush call therefore never overlap here (ingestMu); queries and compactions overlap
// everything. A query that overlapped no write (the write counters did not move while it ran) is
// checked exactly; a query that overlapped writes is checked against the bounds above, and is not
// checked at all while sigReadDuringWrite is listed. Under -race queries never overlap writes
// (the memory database is read without locks by design; the detector would report that, not the
// property). C11_WRITE_DURING_FLUSH=1 removes that restriction for experiments (on the unchanged
// tree the process then dies sooner or later: memoryDatabase.NumOfSeries, called by Flush/NeedFlush,
// reads the roaring bitmap that WriteRow mutates without a lock).
func TestConcurrentFlushQuery(t *testing.T) {
	rounds, writes := 4, 1500
	if os.Getenv("VERIF_TIER") == "thorough" {
		rounds, writes = 16, 4000
	}
	if raceEnabled {
		writes /= 3 // the detector slows every query down by an order of magnitude
	}
	rapid.Check(t, func(t *rapid.T) {
		for round := 0; round < rounds; round++ {
			stressRound(t, round, writes, rapid.IntRange(2, 6).Draw(t, "nSlots"), rapid.IntRange(1, 3).Draw(t, "nSeries"), rapid.SampledFrom([]int64{10_000, 1_000, 60_000}).Draw(t, "interval"))
		}
	})
}

func waitNextTick() {
	t0 := fasttime.UnixNano()
	for fasttime.UnixNano() == t0 {
		time.Sleep(time.Millisecond)
	}
}

func stressRound(t failer, round, writes, nSlots, nSeries int, s int64) {
	e, err := newEnv(s)
	if err != nil {
		t.Fatalf("harness: %v", err)
	}
	defer e.close()
	fam := int64(1682935200000) // 2023-05-01 10:00:00
	md := metricDef{Name: "m", Fields: []fieldDef{{Name: "f", Type: tSum}}, Keys: []string{"host"}}
	for i := 0; i < nSeries; i++ {
		md.Series = append(md.Series, map[string]string{"host": fmt.Sprintf("h%d", i)})
	}
	metrics := []metricDef{md}
	// slots spread so that window changes happen (slot i*9)
	slotTS := make([]int64, nSlots)
	for i := range slotTS {
		slotTS[i] = fam + int64(i*9)*s
	}
	// first row synchronously (creates schema, family)
	started := make([]atomic.Int64, nSlots)
	completed := make([]atomic.Int64, nSlots)
	writeOne := func(i int) error {
		slot := i % nSlots
		series := (i / nSlots) % nSeries
		started[slot].Add(1)
		err := e.write(metrics, []rowSpec{{M: 0, S: series, TS: slotTS[slot] + int64(i%7), Vals: []fieldVal{{Field: "f", Val: 0.125}}}})
		completed[slot].Add(1)
		return err
	}
	if err := writeOne(0); err != nil {
		t.Fatalf("write: %v", err)
	}
	totalCompleted := func() (n int64) {
		for i := range completed {
			n += completed[i].Load()
		}
		return n
	}
	f, err := e.family(fam)
	if err != nil {
		t.Fatalf("family: %v", err)
	}
	sqlText := fmt.Sprintf("select f from m where time>='%s' and time<='%s'", fmtTime(fam), fmtTime(fam+hourMs-1000))
	if _, err := e.cl.Query(e.db, sqlText); err != nil { // also initialises lazily created singletons of the query package
		t.Fatalf("query: %v", err)
	}
	var failMu sync.Mutex
	failure := ""
	fail := func(format string, args ...any) {
		failMu.Lock()
		if failure == "" {
			failure = fmt.Sprintf(format, args...)
		}
		failMu.Unlock()
	}
	failed := func() bool { failMu.Lock(); defer failMu.Unlock(); return failure != "" }
	var writerDone, stop atomic.Bool
	var wg sync.WaitGroup
	var ingestMu sync.Mutex
	var queryMu sync.RWMutex // only used when queries must not overlap writes
	exclusive := os.Getenv("C11_WRITE_DURING_FLUSH") == ""
	overlapWrites := !raceEnabled
	var exactQueries, boundQueries atomic.Int64
	_ = totalCompleted
	var flushes, compactions, queries1, queries2 atomic.Int64
	wg.Add(1)
	go func() { // writer (the only goroutine that writes, as in production)
		defer wg.Done()
		defer writerDone.Store(true)
		for i := 1; i < writes && !failed(); i++ {
			if exclusive {
				ingestMu.Lock()
			}
			if !overlapWrites {
				queryMu.Lock()
			}
			err := writeOne(i)
			if !overlapWrites {
				queryMu.Unlock()
			}
			if exclusive {
				ingestMu.Unlock()
			}
			if err != nil {
				fail("write: %v", err)
				return
			}
			if i%40 == 0 {
				time.Sleep(2 * time.Millisecond) // quiet periods: flushes and queries without a write in progress
			}
		}
	}()
	wg.Add(1)
	go func() { // flusher
		defer wg.Done()
		for !stop.Load() && !failed() {
			if ev.Known(sigCreatedTime) {
				// successive memory databases must not share a created time: let the writer create the
				// current one (two more completed writes), then wait for the coarse clock to move on
				base := totalCompleted()
				for !writerDone.Load() && totalCompleted() < base+2 {
					time.Sleep(100 * time.Microsecond)
				}
				waitNextTick()
			}
			if exclusive {
				ingestMu.Lock()
			}
			err := f.Flush()
			if exclusive {
				ingestMu.Unlock()
			}
			if err != nil {
				fail("flush: %v", err)
				return
			}
			flushes.Add(1)
			time.Sleep(50 * time.Microsecond)
		}
	}()
	wg.Add(1)
	go func() { // compactor
		defer wg.Done()
		for !stop.Load() && !failed() {
			ok, err := kv.VerifCompactSync(f.Family(), true)
			if err != nil {
				fail("compaction: %v", err)
				return
			}
			if ok {
				compactions.Add(1)
				kv.VerifDeleteObsoleteFiles(f.Family())
			}
			time.Sleep(200 * time.Microsecond)
		}
	}()
	readers := 3
	for r := 0; r < readers; r++ {
		wg.Add(1)
		go func() {
			defer wg.Done()
			for !stop.Load() && !failed() {
				phase2 := writerDone.Load()
				lo := make([]int64, nSlots)
				for i := range lo {
					lo[i] = completed[i].Load()
				}
				if !overlapWrites {
					queryMu.RLock()
				}
				rs, err := e.cl.Query(e.db, sqlText)
				if !overlapWrites {
					queryMu.RUnlock()
				}
				if err != nil && !notFound(err) {
					fail("query: %v", err)
					return
				}
				got, _ := canonOf(rs)
				his := make([]int64, nSlots)
				exact := true
				for i := range lo {
					his[i] = started[i].Load()
					if his[i] != lo[i] {
						exact = false
					}
				}
				if exact {
					exactQueries.Add(1)
				} else {
					boundQueries.Add(1)
				}
				for i := range lo {
					hi := his[i]
					if !exact && ev.Known(sigReadDuringWrite) {
						break // the answer of a query that overlapped a write is not checked while the finding is listed
					}
					ts := slotTS[i] - mod(slotTS[i]-fam, s)
					v, ok := got[""]["f"][ts]
					cnt := int64(v * 8)
					switch {
					case !ok && lo[i] > 0:
						fail("slot %s missing although %d writes of it completed before the query started (writer finished: %v)", fmtTime(ts), lo[i], phase2)
					case ok && ev.Known(sigFilterRace) && float64(cnt)/8 == v && cnt >= lo[i] && cnt <= 2*hi:
						// while the double count of the flush window is a listed finding only "nothing is missing" is checked
					case ok && (float64(cnt)/8 != v || cnt < lo[i] || cnt > hi):
						fail("slot %s = %v (= %d writes): %d writes completed before the query started, %d were started when it returned (writer finished: %v; flushes so far %d)",
							fmtTime(ts), v, cnt, lo[i], hi, phase2, flushes.Load())
					}
				}
				if phase2 {
					queries2.Add(1)
				} else {
					queries1.Add(1)
				}
			}
		}()
	}
	// run until the writer finished, then phase 2 for a while (flusher and compactor keep going)
	deadline := time.Now().Add(60 * time.Second)
	for !writerDone.Load() && !failed() && time.Now().Before(deadline) {
		time.Sleep(time.Millisecond)
	}
	p2 := time.Now().Add(150 * time.Millisecond)
	for time.Now().Before(p2) && !failed() {
		time.Sleep(time.Millisecond)
	}
	stop.Store(true)
	wg.Wait()
	if failure != "" {
		// is the data gone, or was it only invisible to the overlapping query?
		rs, err := e.cl.Query(e.db, sqlText)
		got, _ := canonOf(rs)
		after := fmt.Sprintf("after everything stopped the same query returns (err=%v):", err)
		for i := range slotTS {
			ts := slotTS[i] - mod(slotTS[i]-fam, s)
			after += fmt.Sprintf(" %s=%v (model %v)", fmtTime(ts), got[""]["f"][ts], float64(completed[i].Load())/8)
		}
		t.Fatalf("round %d (%d slots, %d series, interval %dms): %s\n  %s", round, nSlots, nSeries, s, failure, after)
	}
	// final exact check against the model on the quiescent engine
	q := mQuery{Metric: "m", Items: []selectItem{{Field: "f"}}, Start: fam, End: fam + hourMs - 1000}
	exp, qiv := e.expectationOf(q)
	e.checkQueryIsolated(t, q, func() string { return "" }, exp, qiv)
	nt := flushes.Load() >= 2 && queries1.Load()+queries2.Load() >= 10
	ev.Case("TestConcurrentFlushQuery", fmt.Sprintf("%d/%d/%d/%d/%d", round, nSlots, nSeries, s, writes), nt,
		[]string{"rounds"}, map[string]any{"slots": nSlots, "series": nSeries, "interval": s, "writes": writes,
			"flushes": flushes.Load(), "compactions": compactions.Load(), "queries-while-writing": queries1.Load(), "queries-after-writer-finished": queries2.Load()})
	ev.Class("TestConcurrentFlushQuery", "flush calls", int(flushes.Load()))
	ev.Class("TestConcurrentFlushQuery", "compactions", int(compactions.Load()))
	ev.Class("TestConcurrentFlushQuery", "queries while writing (bounds oracle)", int(queries1.Load()))
	ev.Class("TestConcurrentFlushQuery", "queries after the writer finished (exact oracle)", int(queries2.Load()))
	ev.Class("TestConcurrentFlushQuery", "queries that overlapped no write (exact oracle)", int(exactQueries.Load()))
	ev.Class("TestConcurrentFlushQuery", "queries that overlapped writes (bounds oracle)", int(boundQueries.Load()))
}
