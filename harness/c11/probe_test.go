package c11

import (
	"fmt"
	"os"
	"testing"
	"time"

	"github.com/lindb/common/pkg/logger"
	protoMetricsV1 "github.com/lindb/common/proto/gen/v1/linmetrics"

	"github.com/lindb/lindb/kv"
	"github.com/lindb/lindb/models"
	"github.com/lindb/lindb/pkg/timeutil"
	"github.com/lindb/lindb/verifharness/sim/node"
)

func init() {
	time.Local = time.UTC
	_ = logger.RunningAtomicLevel.UnmarshalText([]byte("error"))
}

func mk(name string, ts int64, host string, typ protoMetricsV1.SimpleFieldType, v float64) *protoMetricsV1.Metric {
	return &protoMetricsV1.Metric{
		Name: name, Timestamp: ts,
		Tags:         []*protoMetricsV1.KeyValue{{Key: "host", Value: host}},
		SimpleFields: []*protoMetricsV1.SimpleField{{Name: "f", Type: typ, Value: v}},
	}
}

func TestProbe(t *testing.T) {
	dir, _ := os.MkdirTemp("", "c11-")
	defer os.RemoveAll(dir)
	n, err := node.Start(dir)
	if err != nil {
		t.Fatal(err)
	}
	opt := node.DBOption(timeutil.Interval(10_000))
	if err := n.CreateDB("db", opt, 0); err != nil {
		t.Fatal(err)
	}
	base := time.Date(2023, 5, 1, 10, 0, 0, 0, time.UTC).UnixMilli()
	S := protoMetricsV1.SimpleFieldType_DELTA_SUM
	w := func(ms ...*protoMetricsV1.Metric) {
		if err := n.Write("db", 0, ms); err != nil {
			t.Fatal(err)
		}
	}
	c := node.NewCluster()
	defer c.Close()
	q := func(n *node.Node, sql string) {
		c2 := node.NewCluster()
		defer c2.Close()
		c2.AddLeaf("leaf0:1", n.Engine, "")
		c2.SetLayout("db", opt, map[string][]models.ShardID{"leaf0:1": {0}})
		rs, err := c2.Query("db", sql)
		if err != nil {
			fmt.Println("ERR", sql, "->", err)
			return
		}
		fmt.Printf("%s -> interval=%d start=%d\n%s", sql, rs.Interval, rs.StartTime, node.Canon(rs).String())
	}
	w(mk("m", base, "a", S, 1), mk("m", base+10_000, "a", S, 2), mk("m", base+3600_000, "a", S, 4))
	fs, _ := n.Families("db", 0)
	fmt.Println("families", len(fs))
	if err := fs[0].Flush(); err != nil {
		t.Fatal(err)
	}
	w(mk("m", base, "a", S, 8), mk("m", base+3600_000+20_000, "b", S, 16))
	tr := "time>='2023-05-01 10:00:00' and time<='2023-05-01 11:05:00'"
	q(n, "select f from m where "+tr+" group by host")
	q(n, "select max(f) as x, sum(f), min(f) from m where "+tr+" group by host")
	q(n, "select count(f) from m where "+tr)
	q(n, "select avg(f) from m where "+tr)
	q(n, "select last(f) from m where "+tr)
	q(n, "select f from m where "+tr+" and host='zz'")
	q(n, "select f from zz where "+tr)
	q(n, "select zz from m where "+tr)
	q(n, "select f from m where "+tr+" group by host,time(1m)")
	q(n, "select f from m where host like 'a*' and "+tr+" group by time(30s)")
	q(n, "select f from m where host in ('a','b') and time>='2023-05-01 10:00:05' and time<='2023-05-01 10:00:25' group by time(20s)")
	if err := n.FlushDB("db"); err != nil {
		t.Fatal(err)
	}
	ok, err := kv.VerifCompactSync(fs[0].Family(), true)
	fmt.Println("compact", ok, err)
	q(n, "select max(f) as x, sum(f), min(f) from m where "+tr+" group by host")
	n.Close()
	n, err = node.Start(dir)
	if err != nil {
		t.Fatal(err)
	}
	defer n.Close()
	fs, _ = n.Families("db", 0)
	fmt.Println("families after reopen", len(fs))
	q(n, "select max(f) as x, sum(f), min(f) from m where "+tr+" group by host")
	fs, _ = n.Families("db", 0)
	fmt.Println("families after query", len(fs))
	w(mk("m", base, "a", S, 32))
	q(n, "select f from m where "+tr+" group by host")
}
