package c11

import (
	"fmt"
	"testing"

	"github.com/lindb/lindb/verifharness/sim/ev"
)

// Plain reproductions (no rapid) of the findings of this property. Each one is skipped, with the
// KNOWN-FINDING line, while its signature is listed in known_findings.json.

const regBase = int64(1682935200000) // 2023-05-01 10:00:00 UTC

func regRange() (int64, int64) { return regBase, regBase + 2*hourMs - 1000 }

type regEnv struct {
	*env
	t       *testing.T
	metrics []metricDef
}

func newRegEnv(t *testing.T, fields ...fieldDef) *regEnv {
	t.Helper()
	e, err := newEnv(10_000)
	if err != nil {
		t.Fatal(err)
	}
	e.forcePreRegister = true // keep the (C09) metadata races of a metric's first row out of these tests
	e.forceWaitTick = true    // and the created-time collision (except in its own test)
	t.Cleanup(e.close)
	md := metricDef{Name: "m", Fields: fields, Keys: []string{"host"}, Series: []map[string]string{{"host": "a"}, {"host": "b"}}}
	return &regEnv{env: e, t: t, metrics: []metricDef{md}}
}

// w writes one row: series index, offset from regBase in ms, field values.
func (r *regEnv) w(series int, offset int64, vals ...fieldVal) {
	r.t.Helper()
	if err := r.write(r.metrics, []rowSpec{{M: 0, S: series, TS: regBase + offset, Vals: vals}}); err != nil {
		r.t.Fatal(err)
	}
}

func (r *regEnv) q(sqlText string) string {
	r.t.Helper()
	got, _, err := r.query(sqlText)
	if err != nil {
		r.t.Fatalf("%s: %v", sqlText, err)
	}
	return got.String()
}

func (r *regEnv) sel(items string, cond string) string {
	s, e := regRange()
	if cond != "" {
		cond += " and "
	}
	return fmt.Sprintf("select %s from m where %stime>='%s' and time<='%s'", items, cond, fmtTime(s), fmtTime(e))
}

func known(t *testing.T, sig, what string) {
	if ev.Known(sig) {
		ev.KnownFinding("C11", what+" ("+sig+")")
		t.Skip("known finding")
	}
}

func v(f string, x float64) fieldVal { return fieldVal{Field: f, Val: x} }

// Two memory databases of one shard that are created within one tick (5 ms) of fasttime.UnixNano share
// the key under which the shard's time series index keeps their slot range. Flushing the first one
// (memoryDatabase.Close -> IndexDatabase.Cleanup -> ClearTimeRange) deletes the range of the second:
// its points are invisible from then on and its own flush skips the metric ("no time range") - the
// points of the second family are lost for good.
func TestRegression_MemdbCreatedTimeCollision(t *testing.T) {
	known(t, sigCreatedTime, "one batch with rows of two families, FlushDB: the rows of the second family are never returned again")
	var prev *regEnv
	for attempt := 0; attempt < 5; attempt++ { // both databases are created microseconds apart; a tick boundary in between is possible
		if prev != nil {
			prev.stop() // one engine (and one set of query pools) per process at a time
		}
		r := newRegEnv(t, fieldDef{"s", tSum})
		prev = r
		r.forceWaitTick = false
		if err := r.write(r.metrics, []rowSpec{
			{M: 0, S: 0, TS: regBase + 57*60_000 + 1, Vals: []fieldVal{v("s", 13)}},
			{M: 0, S: 0, TS: regBase + hourMs + 170_000, Vals: []fieldVal{v("s", 7)}},
		}); err != nil {
			t.Fatal(err)
		}
		before := r.q(r.sel("s", ""))
		if err := r.flushDB(); err != nil {
			t.Fatal(err)
		}
		after := r.q(r.sel("s", ""))
		if before != after {
			t.Fatalf("answer changed by FlushDB\nbefore:\n%safter:\n%s", before, after)
		}
		if err := r.reopen(); err != nil {
			t.Fatal(err)
		}
		if again := r.q(r.sel("s", "")); again != before {
			t.Fatalf("answer changed by FlushDB + restart\nbefore:\n%safter:\n%s", before, again)
		}
	}
}

// max(f), sum(f), min(f) in one statement: FieldAggregator.Aggregate merges every aggregate series it
// receives (sum, min, max arrays of the leaf) into every aggregate series it keeps.
func TestRegression_MultiFunctionSameField(t *testing.T) {
	known(t, sigMultiFunc, "select max(f),sum(f),min(f): each value is a mix of the three aggregates")
	r := newRegEnv(t, fieldDef{"s", tSum})
	r.w(0, 0, v("s", 2))
	want := fmt.Sprintf("[] max(s): %d=2\n[] min(s): %d=2\n[] sum(s): %d=2\n", regBase, regBase, regBase)
	if got := r.q(r.sel("max(s),sum(s),min(s)", "")); got != want {
		t.Fatalf("got:\n%swant:\n%s", got, want)
	}
}

// max(f) of a sum field: 3 and 5 are written to one slot. The slot holds 8; max over one slot is 8.
// With a flush between the two writes the answer is 5 (the two parts are combined with the
// function's aggregate), and becomes 8 once the two files are compacted.
func TestRegression_FunctionAggregateBetweenPartsOfOneSlot(t *testing.T) {
	known(t, sigSplitFunc, "max(f) of a sum field depends on whether the writes of one slot were separated by a flush")
	r := newRegEnv(t, fieldDef{"s", tSum})
	r.w(0, 0, v("s", 3))
	if err := r.flushFamily(regBase); err != nil {
		t.Fatal(err)
	}
	r.w(0, 1, v("s", 5))
	want := fmt.Sprintf("[] max(s): %d=8\n", regBase)
	got1 := r.q(r.sel("max(s)", ""))
	if err := r.flushFamily(regBase); err != nil {
		t.Fatal(err)
	}
	if _, err := r.compact(regBase); err != nil {
		t.Fatal(err)
	}
	got2 := r.q(r.sel("max(s)", ""))
	if got1 != want || got2 != want {
		t.Fatalf("memory+file:\n%sfiles compacted:\n%swant:\n%s", got1, got2, want)
	}
}

// last field: slot 5 = 1, slot 30 (window change: slot 5 moves to the compressed buffer), slot 5 = 2
// (window change again, new window starts at 5). The flush merges the write buffer (new) with the
// compressed buffer (old) by AggType.Aggregate(new, old), which for Last returns its second
// argument: the older write wins.
func TestRegression_LastFirstMergeOrderReversed(t *testing.T) {
	known(t, sigMergeOrder, "last field written twice in one slot with a window change in between: the first write is returned")
	r := newRegEnv(t, fieldDef{"l", tLast}, fieldDef{"f", tFirst})
	r.w(0, 50_000, v("l", 1), v("f", 1))
	r.w(0, 300_000, v("l", 10), v("f", 10))
	r.w(0, 50_001, v("l", 2), v("f", 2))
	if err := r.flushFamily(regBase); err != nil {
		t.Fatal(err)
	}
	want := fmt.Sprintf("[] f: %d=1 %d=10\n[] l: %d=2 %d=10\n", regBase+50_000, regBase+300_000, regBase+50_000, regBase+300_000)
	if got := r.q(r.sel("l,f", "")); got != want {
		t.Fatalf("got:\n%swant:\n%s", got, want)
	}
}

// slots 7, 21, 8 of one series: 8 lies inside the write window [7,21] and below its highest slot;
// write() stores the smaller offset as the window's end, slot 21 is invisible and is dropped by the
// next compress/flush.
func TestRegression_OutOfOrderWriteInWindowLowersEnd(t *testing.T) {
	known(t, sigWindowEnd, "slots 7, 21, 8 written in this order: slot 21 is lost")
	r := newRegEnv(t, fieldDef{"s", tSum})
	r.w(0, 70_000, v("s", 1))
	r.w(0, 210_000, v("s", 2))
	r.w(0, 80_000, v("s", 4))
	want := fmt.Sprintf("[] s: %d=1 %d=4 %d=2\n", regBase+70_000, regBase+80_000, regBase+210_000)
	if got := r.q(r.sel("s", "")); got != want {
		t.Fatalf("memory: got:\n%swant:\n%s", got, want)
	}
	if err := r.flushFamily(regBase); err != nil {
		t.Fatal(err)
	}
	if got := r.q(r.sel("s", "")); got != want {
		t.Fatalf("after flush: got:\n%swant:\n%s", got, want)
	}
}

// dataFamily.Filter returns the "not found" of one source for the whole family.
func TestRegression_NotFoundInOneSourceHidesTheFamily(t *testing.T) {
	known(t, sigNotFoundHides, "a memory database without the queried field hides the family's files; files without the queried series hide the memory database")
	// (a) the file holds field s of series a; the new memory database only holds field t
	r := newRegEnv(t, fieldDef{"s", tSum}, fieldDef{"t", tSum})
	r.w(0, 0, v("s", 1), v("t", 1))
	if err := r.flushFamily(regBase); err != nil {
		t.Fatal(err)
	}
	r.w(0, 10_000, v("t", 2))
	want := fmt.Sprintf("[] s: %d=1\n", regBase)
	if got := r.q(r.sel("s", "")); got != want {
		t.Fatalf("(a) got:\n%swant:\n%s", got, want)
	}
	// (b) the file holds series a only; series b lives in the memory database
	r.stop() // one engine (and one set of query pools) per process at a time
	r = newRegEnv(t, fieldDef{"s", tSum})
	r.w(0, 0, v("s", 1))
	if err := r.flushFamily(regBase); err != nil {
		t.Fatal(err)
	}
	r.w(1, 10_000, v("s", 2))
	want = fmt.Sprintf("[] s: %d=2\n", regBase+10_000)
	if got := r.q(r.sel("s", "host='b'")); got != want {
		t.Fatalf("(b) got:\n%swant:\n%s", got, want)
	}
}

// A file whose metric block holds one field is read into query field 0: the 10:00 family only got
// field t (field id 1), the statement selects s (id 0) and t.
func TestRegression_SingleFieldFileReadAsFirstQueryField(t *testing.T) {
	known(t, sigOneFieldFile, "select s,t where one family's file holds only t: the values of t are returned as s")
	r := newRegEnv(t, fieldDef{"s", tSum}, fieldDef{"t", tSum})
	r.w(0, hourMs, v("s", 1), v("t", 2)) // 11:00 family: both fields (s gets field id 0)
	r.w(0, 0, v("t", 4))                 // 10:00 family: t only
	want := fmt.Sprintf("[] s: %d=1\n[] t: %d=4 %d=2\n", regBase+hourMs, regBase, regBase+hourMs)
	if got := r.q(r.sel("s,t", "")); got != want {
		t.Fatalf("memory: got:\n%swant:\n%s", got, want)
	}
	if err := r.flushFamily(regBase); err != nil {
		t.Fatal(err)
	}
	if err := r.flushFamily(regBase + hourMs); err != nil {
		t.Fatal(err)
	}
	if got := r.q(r.sel("s,t", "")); got != want {
		t.Fatalf("after flush: got:\n%swant:\n%s", got, want)
	}
}

// A query that runs after the flushed file is committed and before Flush() drops the immutable
// memory database sees the points in both places. The sequence-ack callback of the replica channel
// (DataFamily.AckSequence) runs exactly there; with real goroutines any query can.
func TestRegression_QueryBetweenFileCommitAndMemdbRelease(t *testing.T) {
	known(t, sigFilterRace, "a query between the commit of the flushed file and the release of the immutable memory database counts the points twice")
	r := newRegEnv(t, fieldDef{"s", tSum})
	r.w(0, 0, v("s", 1))
	r.w(1, 10_000, v("s", 2))
	want := r.q(r.sel("s", ""))
	var inWindow string
	reached := false
	if err := r.flushObserved(regBase, func() { reached = true; inWindow = r.q(r.sel("s", "")) }, nil); err != nil {
		t.Fatal(err)
	}
	if !reached {
		t.Fatalf("harness: ack callback not invoked")
	}
	if inWindow != want {
		t.Fatalf("inside Flush (file committed, immutable memory database not yet released):\n%swant:\n%s", inWindow, want)
	}
	if after := r.q(r.sel("s", "")); after != want {
		t.Fatalf("after flush:\n%swant:\n%s", after, want)
	}
}

// (repaired in /repo, 5ce1835) month-/year-type interval: segment.GetDataFamilies combined the day of
// month / month of year of the range's start with the base time of a later segment, so a range that
// starts in an earlier segment lost every family of the later one.
func TestRegression_RangeStartsInEarlierSegment(t *testing.T) {
	for _, s := range []int64{10 * 60_000, 4 * hourMs} {
		e, err := newEnv(s)
		if err != nil {
			t.Fatal(err)
		}
		e.forcePreRegister = true
		md := metricDef{Name: "m", Fields: []fieldDef{{"s", tSum}}, Keys: []string{"host"}, Series: []map[string]string{{"host": "a"}}}
		dec31 := dayOf(2023, 12, 31) + 20*hourMs
		jan1 := dayOf(2024, 1, 1) + 8*hourMs
		if err := e.write([]metricDef{md}, []rowSpec{
			{M: 0, S: 0, TS: dec31, Vals: []fieldVal{v("s", 1)}},
			{M: 0, S: 0, TS: jan1, Vals: []fieldVal{v("s", 2)}},
		}); err != nil {
			t.Fatal(err)
		}
		q := mQuery{Metric: "m", Items: []selectItem{{Field: "s"}}, Start: dec31 - hourMs, End: jan1 + hourMs}
		for _, stage := range []string{"memory", "flushed"} {
			e.checkQuery(t, q, func() string { return fmt.Sprintf("  interval %s, %s\n", fmtDuration(s), stage) })
			if err := e.flushDB(); err != nil {
				t.Fatal(err)
			}
		}
		e.close()
	}
}

// tsdb/memdb/time_series_index.go Load: the container of the queried high key is looked up in the
// shard's in-memory series map of the metric with `GetContainerIndex(highKey) == -1` as the only
// "not found" test; roaring answers -(insertion point + 1), i.e. -2, -3, ... when a lower container
// exists. A metric whose series ids cross 65536: after a restart only series a (id 0) reports again,
// the statement also matches series b (id 65536, in the file): "index out of range [-2]".
func TestRegression_MemdbLoadOfContainerAboveTheOnesInMemory(t *testing.T) {
	known(t, sigMemLoadContainer, "memory database asked for a series-id container above the ones its index holds: query fails with index out of range [-2]")
	r := newRegEnv(t, fieldDef{"s", tSum})
	r.metrics[0].IDPlan = []uint32{0, 65536}
	r.w(0, 0, v("s", 1))
	r.w(1, 0, v("s", 2))
	want := fmt.Sprintf("[] s: %d=3\n", regBase)
	if got := r.q(r.sel("s", "")); got != want {
		t.Fatalf("memory: got:\n%swant:\n%s", got, want)
	}
	if err := r.flushDB(); err != nil {
		t.Fatal(err)
	}
	if err := r.reopen(); err != nil {
		t.Fatal(err)
	}
	if got := r.q(r.sel("s", "")); got != want {
		t.Fatalf("after restart: got:\n%swant:\n%s", got, want)
	}
	r.w(0, 10_000, v("s", 4))
	want = fmt.Sprintf("[] s: %d=3 %d=4\n", regBase, regBase+10_000)
	if got := r.q(r.sel("s", "")); got != want {
		t.Fatalf("after restart and a write to series a: got:\n%swant:\n%s", got, want)
	}
}

// tsdb/memdb/time_series_index.go Load: the data load tasks of the series-id containers of a statement
// run concurrently and read the write pages through the shared *fieldEntry of the filter result set
// (fm.Reset(page)): series b (id 65536) shows the value of series a (id 0). Schedule dependent: the
// statement is repeated.
func TestRegression_MemdbParallelContainerLoadsSharePageReader(t *testing.T) {
	known(t, sigMemParallelLoad, "memory database read for >= 2 series-id containers in parallel: a series gets the values of another one")
	r := newRegEnv(t, fieldDef{"s", tSum})
	r.metrics[0].IDPlan = []uint32{0, 65536}
	r.w(0, 0, v("s", 1))
	r.w(1, 0, v("s", 2))
	r.w(0, hourMs, v("s", 4))
	r.w(1, hourMs, v("s", 8))
	want := fmt.Sprintf("[host=a] s: %d=1 %d=4\n[host=b] s: %d=2 %d=8\n", regBase, regBase+hourMs, regBase, regBase+hourMs)
	for i := 0; i < 600; i++ {
		if got := r.q(r.sel("s", "") + " group by host"); got != want {
			t.Fatalf("run %d: got:\n%swant:\n%s", i, got, want)
		}
	}
}
