package c11

import (
	"fmt"
	"sort"
	"testing"

	"pgregory.net/rapid"

	"github.com/lindb/lindb/verifharness/sim/ev"
)

// TestQueryModelManySeries: the dense form of the class "series ids across roaring containers" (see
// sparse_test.go), without any seam: one metric with 2-3 fields really gets more than 65536 (in a
// quarter of the cases more than 131072) series, every series one row in the first family (full
// containers: roaring switches from array to bitmap/run containers, the offset tables of the metric
// block are full). Then a short generated history (rows for the series around the container
// boundaries, flush, second flush + compaction, reopen) with statements that pick single series at
// the boundaries (host = / in), ten series across a boundary (host like 'h06553*', optionally grouped by host), a hundred
// series across the first boundary or all series (one group), or all
// series. One case costs 2-4 s; a few cases per quick run, more in the thorough tier.
func TestQueryModelManySeries(t *testing.T) {
	rapid.Check(t, func(t *rapid.T) {
		containers := rapid.SampledFrom([]int{1, 1, 1, 2}).Draw(t, "boundaries")
		total := containers*containerSize + rapid.IntRange(2, 300).Draw(t, "beyond")
		sc := schema{S: 10_000}
		day := int64(1709596800000) // 2024-03-05 00:00:00
		sc.Fams = []int64{day + 10*hourMs, day + 11*hourMs}
		base := rapid.IntRange(0, 300).Draw(t, "slotBase")
		sc.Slots = []int{base, base + 1, base + 20, 359}
		md := metricDef{Name: "big", Keys: []string{"host"}}
		nf := rapid.IntRange(2, 3).Draw(t, "nFields")
		for j := 0; j < nf; j++ {
			typ := rapid.SampledFrom([]string{tSum, tSum, tMin, tMax, tLast, tFirst}).Draw(t, "fieldType")
			md.Fields = append(md.Fields, fieldDef{Name: fmt.Sprintf("f%d%s", j, typ), Type: typ})
		}
		md.Series = make([]map[string]string, total)
		for i := range md.Series {
			md.Series[i] = map[string]string{"host": fmt.Sprintf("h%06d", i)}
		}
		sc.Metrics = []metricDef{md}
		// series the history and the statements concentrate on (creation order = series id)
		pick := map[int]bool{0: true, 1: true, total - 1: true, total - 2: true}
		for b := 1; b <= containers; b++ {
			for d := -2; d <= 2; d++ {
				if i := b*containerSize + d; i < total {
					pick[i] = true
				}
			}
		}
		for i := 0; i < 4; i++ {
			pick[rapid.IntRange(0, total-1).Draw(t, "otherSeries")] = true
		}
		var hot []int
		for i := range pick {
			hot = append(hot, i)
		}
		sort.Ints(hot)

		// bulk: one row per series, values and field subsets derived from a few drawn numbers
		mul := rapid.IntRange(1, 4095).Draw(t, "mul")
		dropMod := rapid.IntRange(2, 9).Draw(t, "dropMod")
		dropField := rapid.IntRange(0, nf-1).Draw(t, "dropField")
		var ops []opSpec
		const batch = 4096
		for at := 0; at < total; at += batch {
			var rows []rowSpec
			for i := at; i < at+batch && i < total; i++ {
				r := rowSpec{M: 0, S: i, TS: sc.Fams[0] + int64(sc.Slots[i%2])*sc.S + int64(i%3)}
				for j, fd := range md.Fields {
					if j == dropField && i%dropMod == 0 && !pick[i] {
						continue // this series lacks the field
					}
					r.Vals = append(r.Vals, fieldVal{Field: fd.Name, Val: float64((i*mul+j*977)%8192-4096) / 8})
				}
				rows = append(rows, r)
			}
			ops = append(ops, opSpec{Kind: "write", Rows: rows})
		}
		hotRows := func(label string) {
			n := rapid.IntRange(1, 8).Draw(t, label)
			var rows []rowSpec
			for i := 0; i < n; i++ {
				r := rowSpec{M: 0, S: hot[rapid.IntRange(0, len(hot)-1).Draw(t, "hotSeries")], TS: genTS(t, sc)}
				for len(r.Vals) == 0 {
					for _, fd := range md.Fields {
						if rapid.IntRange(0, 3).Draw(t, "hasField") > 0 {
							r.Vals = append(r.Vals, fieldVal{Field: fd.Name, Val: genValue(t, "v")})
						}
					}
				}
				rows = append(rows, r)
			}
			ops = append(ops, opSpec{Kind: "write", Rows: rows})
		}
		host := func(i int) string { return fmt.Sprintf("h%06d", i) }
		query := func() {
			q := mQuery{Metric: md.Name, Start: sc.Fams[0], End: sc.Fams[1] + hourMs - 1000}
			ni := rapid.IntRange(1, 2).Draw(t, "nItems")
			used := map[string]bool{}
			for i := 0; i < ni; i++ {
				fd := md.Fields[rapid.IntRange(0, nf-1).Draw(t, "qField")]
				fn := rapid.SampledFrom(append([]string{"", ""}, supportedFuncs(fd.Type)...)).Draw(t, "fn")
				it := selectItem{Field: fd.Name, Fn: fn}
				if used[it.resultName()] {
					continue
				}
				used[it.resultName()] = true
				q.Items = append(q.Items, it)
			}
			wide := false
			switch rapid.IntRange(0, 5).Draw(t, "condKind") {
			case 0, 1, 2:
				q.Cond = []tagAtom{{Key: "host", Op: "=", Values: []string{host(hot[rapid.IntRange(0, len(hot)-1).Draw(t, "condHost")])}}}
			case 3:
				var vs []string
				for i := rapid.IntRange(2, 6).Draw(t, "inN"); i > 0; i-- {
					vs = append(vs, host(hot[rapid.IntRange(0, len(hot)-1).Draw(t, "inHost")]))
				}
				q.Cond = []tagAtom{{Key: "host", Op: "in", Values: vs}}
			case 4:
				// ten series across a container boundary: h065530 .. h065539 (h131070 .. h131079)
				pats := []string{"h06553*"}
				if containers > 1 {
					pats = append(pats, "h13107*")
				}
				q.Cond = []tagAtom{{Key: "host", Op: "like", Values: []string{rapid.SampledFrom(pats).Draw(t, "likePattern")}}}
			case 5:
				wide = true // all series; or the hundred series h065500 .. h065599 in one group
				if rapid.Bool().Draw(t, "hundred") {
					q.Cond = []tagAtom{{Key: "host", Op: "like", Values: []string{"h0655*"}}}
				}
			}
			// a statement without LIMIT returns at most 20 series (sql/query_stmt_parser.go): group by host
			// only where the condition matches fewer
			if !wide && rapid.Bool().Draw(t, "groupByHost") {
				q.GroupBy = []string{"host"}
			}
			if rapid.IntRange(0, 2).Draw(t, "ivKind") == 0 {
				q.UserIv = rapid.SampledFrom([]int64{1, 2, 6, 360}).Draw(t, "ivMult") * sc.S
			}
			ops = append(ops, opSpec{Kind: "query", Query: &q, SQL: q.sql()})
		}
		queries := func(label string) {
			for i := rapid.IntRange(1, 4).Draw(t, label); i > 0; i-- {
				query()
			}
		}
		queries("nMemQueries")
		ops = append(ops, opSpec{Kind: "flushFamily", Fam: 0})
		queries("nFileQueries")
		hotRows("nHotRows")
		queries("nMixedQueries")
		switch rapid.IntRange(0, 3).Draw(t, "tail") {
		case 0, 1:
			ops = append(ops, opSpec{Kind: "flushDB"}, opSpec{Kind: "compact", Fam: 0})
			queries("nCompactedQueries")
		case 2:
			ops = append(ops, opSpec{Kind: "reopen"})
			hotRows("nHotRowsAfterReopen")
			queries("nReopenQueries")
		}
		classes, nt := runHistory(t, sc, ops)
		classes = append(classes, fmt.Sprintf("series->=%d-containers", containers+1))
		// the bulk rows are not part of the canonical form / sample (size): the drawn numbers determine them
		small := ops[(total+batch-1)/batch:]
		ev.Case("TestQueryModelManySeries", canon(total, mul, dropMod, dropField, md.Fields, small), nt, classes,
			map[string]any{"series": total, "fields": md.Fields, "mul": mul, "ops_after_bulk": small})
	})
}
