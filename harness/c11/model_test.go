package c11

import (
	"fmt"
	"sort"
	"strings"
	"testing"
	"time"
)

// ---- reference model ------------------------------------------------------------------------------
//
// The model keeps every written point. It is written from the property text, DESIGN.md (C11
// table) and the comments of series/field/type.go, not from the query code:
//
//   - a point (series, field, timestamp, value) belongs to the storage slot
//     floor((timestamp - familyStart) / storageInterval) of the family that contains the timestamp;
//   - points of one (series, field, storage slot) are combined by the field's type
//     (sum: +, min: min, max: max, last: latest write, first: earliest write);
//   - a query covers the storage slots whose start lies in [trunc(start), trunc(end)] (truncated to
//     the storage interval); query slot k collects the storage slots with
//     (slotStart - trunc(start)) / queryInterval == k and carries the timestamp
//     trunc(start) + k*queryInterval ("calc base slot based on start time of query");
//   - storage slots are folded into the query slot, and series into their group, with the aggregate
//     of the function (plain field: the aggregate of the type).

// field types
const (
	tSum   = "sum"
	tMin   = "min"
	tMax   = "max"
	tLast  = "last"
	tFirst = "first"
	tHist  = "histogram" // bucket field of a compound field, combined like sum
)

// mPoint is one written value of one field.
type mPoint struct {
	TS  int64 // timestamp as written
	Val float64
	Seq int   // global write order
	Fam int64 // family start
	Gen int   // how many flushes of the family happened before the write (same Gen = same memory database)
}

type mSeries struct {
	Tags   map[string]string
	Fields map[string][]mPoint // field name -> points in write order
}

type mMetric struct {
	Name   string
	Types  map[string]string // field name -> type
	Series map[string]*mSeries
}

type model struct {
	S       int64 // storage interval (ms); divides one hour
	Metrics map[string]*mMetric
	seq     int
	notes   exprNotes // what the expression items of the last evaluated statement met (classes only)
}

func newModel(s int64) *model { return &model{S: s, Metrics: map[string]*mMetric{}} }

const hourMs = int64(3600_000)
const dayMs = 24 * hourMs

// familyOf: day-type intervals keep one family per hour.
func familyOf(ts int64) int64 { return ts - mod(ts, hourMs) }

// Interval types (pkg/timeutil/interval.go Type): < 5 min "day" (segment = day, family = hour),
// 5 min .. < 1 h "month" (segment = month, family = day), >= 1 h "year" (segment = year, family = month).
// The slot of a point is floor((timestamp - familyStart) / interval). Calendar: UTC.
func intervalType(s int64) string {
	switch {
	case s >= hourMs:
		return "year"
	case s >= 5*60_000:
		return "month"
	default:
		return "day"
	}
}

// familyOfIv returns the start of the family of ts for a database with storage interval s.
func familyOfIv(s, ts int64) int64 {
	switch intervalType(s) {
	case "year":
		t := timeOf(ts)
		return time.Date(t.Year(), t.Month(), 1, 0, 0, 0, 0, time.UTC).UnixMilli()
	case "month":
		return ts - mod(ts, dayMs)
	default:
		return familyOf(ts)
	}
}

// familyEndIv returns the last millisecond of the family that starts at fam.
func familyEndIv(s, fam int64) int64 {
	switch intervalType(s) {
	case "year":
		t := timeOf(fam)
		return time.Date(t.Year(), t.Month()+1, 1, 0, 0, 0, 0, time.UTC).UnixMilli() - 1
	case "month":
		return fam + dayMs - 1
	default:
		return fam + hourMs - 1
	}
}

// segmentOfIv returns the start of the segment (day / month / year) of ts.
func segmentOfIv(s, ts int64) int64 {
	t := timeOf(ts)
	switch intervalType(s) {
	case "year":
		return time.Date(t.Year(), time.January, 1, 0, 0, 0, 0, time.UTC).UnixMilli()
	case "month":
		return time.Date(t.Year(), t.Month(), 1, 0, 0, 0, 0, time.UTC).UnixMilli()
	default:
		return ts - mod(ts, dayMs)
	}
}

func (m *model) familyOf(ts int64) int64 { return familyOfIv(m.S, ts) }

func mod(a, b int64) int64 {
	r := a % b
	if r < 0 {
		r += b
	}
	return r
}

func tagsKey(tags map[string]string) string {
	keys := make([]string, 0, len(tags))
	for k := range tags {
		keys = append(keys, k)
	}
	sort.Strings(keys)
	var b strings.Builder
	for i, k := range keys {
		if i > 0 {
			b.WriteByte(',')
		}
		b.WriteString(k + "=" + tags[k])
	}
	return b.String()
}

// add records one written field value.
func (m *model) add(metric string, tags map[string]string, fieldName, fieldType string, ts int64, val float64, gen int) {
	mm := m.Metrics[metric]
	if mm == nil {
		mm = &mMetric{Name: metric, Types: map[string]string{}, Series: map[string]*mSeries{}}
		m.Metrics[metric] = mm
	}
	if old, ok := mm.Types[fieldName]; ok && old != fieldType {
		panic(fmt.Sprintf("model: field %s.%s written as %s and %s", metric, fieldName, old, fieldType))
	}
	mm.Types[fieldName] = fieldType
	key := tagsKey(tags)
	s := mm.Series[key]
	if s == nil {
		cp := map[string]string{}
		for k, v := range tags {
			cp[k] = v
		}
		s = &mSeries{Tags: cp, Fields: map[string][]mPoint{}}
		mm.Series[key] = s
	}
	m.seq++
	s.Fields[fieldName] = append(s.Fields[fieldName], mPoint{TS: ts, Val: val, Seq: m.seq, Fam: m.familyOf(ts), Gen: gen})
}

// slotStart is the start of the storage slot of ts.
func (m *model) slotStart(ts int64) int64 {
	fam := m.familyOf(ts)
	return fam + ((ts-fam)/m.S)*m.S
}

// aggregates
const (
	aSum   = "sum"
	aMin   = "min"
	aMax   = "max"
	aLast  = "last"
	aFirst = "first"
)

func typeAgg(t string) string {
	switch t {
	case tSum, tHist:
		return aSum
	case tMin:
		return aMin
	case tMax:
		return aMax
	case tLast:
		return aLast
	case tFirst:
		return aFirst
	}
	panic("model: type " + t)
}

// supportedFuncs is series/field/type.go IsFuncSupported (without rate, which is a later class).
func supportedFuncs(t string) []string {
	switch t {
	case tSum:
		return []string{"sum", "min", "max"}
	case tMin:
		return []string{"min"}
	case tMax:
		return []string{"max"}
	case tLast:
		return []string{"sum", "min", "max", "last"}
	case tFirst:
		return []string{"sum", "min", "max", "first"}
	case tHist:
		return []string{"sum"}
	}
	return nil
}

// selectItem is one select list entry: Fn == "" is the plain field. Expr != nil: the item is an
// arithmetic expression over fields, functions of fields and number literals (expr_test.go); Field and
// Fn are empty then, ExprText is its SQL text; without alias its result key is ExprName.
type selectItem struct {
	Field    string
	Fn       string
	Alias    string
	Expr     *exprNode `json:",omitempty"`
	ExprText string    `json:",omitempty"`
	// ChainRegrouped: the production parser groups the bare chain differently from the usual rules
	ChainRegrouped bool `json:",omitempty"`
	// ExprName: result key of an expression item without alias (the parser's rewritten text)
	ExprName string `json:",omitempty"`
}

func quoteIdent(name string) string {
	for _, c := range name {
		if !(c >= 'a' && c <= 'z' || c >= 'A' && c <= 'Z' || c >= '0' && c <= '9' || c == '_') {
			return "`" + name + "`"
		}
	}
	return name
}

func (s selectItem) sql() string {
	if s.Expr != nil {
		if s.Alias == "" {
			return s.ExprText
		}
		return s.ExprText + " as " + s.Alias
	}
	x := quoteIdent(s.Field)
	if s.Fn != "" {
		x = s.Fn + "(" + x + ")"
	}
	if s.Alias != "" {
		x += " as " + s.Alias
	}
	return x
}

// resultName is the key of the item in the result set (alias, else the rewritten expression).
func (s selectItem) resultName() string {
	if s.Alias != "" {
		return s.Alias
	}
	if s.Expr != nil {
		return s.ExprName
	}
	if s.Fn != "" {
		return s.Fn + "(" + s.Field + ")"
	}
	return s.Field
}

// tagAtom is a simple tag condition.
type tagAtom struct {
	Key    string
	Op     string // "=", "in", "like"
	Values []string
}

func (a tagAtom) sql() string {
	switch a.Op {
	case "=":
		return fmt.Sprintf("%s='%s'", a.Key, a.Values[0])
	case "in":
		q := make([]string, len(a.Values))
		for i, v := range a.Values {
			q[i] = "'" + v + "'"
		}
		return fmt.Sprintf("%s in (%s)", a.Key, strings.Join(q, ","))
	default:
		return fmt.Sprintf("%s like '%s'", a.Key, a.Values[0])
	}
}

// likeMatch: documented like semantics: `*x` suffix, `x*` prefix, `*x*` contains, `x` equals.
func likeMatch(pattern, v string) bool {
	switch {
	case pattern == "*" || pattern == "**":
		return true
	case strings.HasPrefix(pattern, "*") && strings.HasSuffix(pattern, "*") && len(pattern) >= 2:
		return strings.Contains(v, pattern[1:len(pattern)-1])
	case strings.HasPrefix(pattern, "*"):
		return strings.HasSuffix(v, pattern[1:])
	case strings.HasSuffix(pattern, "*"):
		return strings.HasPrefix(v, pattern[:len(pattern)-1])
	default:
		return v == pattern
	}
}

func (a tagAtom) match(tags map[string]string) bool {
	v, ok := tags[a.Key]
	if !ok {
		return false
	}
	switch a.Op {
	case "=":
		return v == a.Values[0]
	case "in":
		for _, x := range a.Values {
			if v == x {
				return true
			}
		}
		return false
	default:
		return likeMatch(a.Values[0], v)
	}
}

// mQuery is a generated query.
type mQuery struct {
	Metric string
	Items  []selectItem
	Cond   []tagAtom // conjunction
	// Where (optional, see richcond_test.go): a generated and/or/parenthesis tree over =, !=, like, not like,
	// =~, !~, in, not in; WhereText is its SQL text, Where the tree the model evaluates on the tags of every
	// series. TimeFirst: the time range is written in front of the tag condition.
	Where     *condNode `json:",omitempty"`
	WhereText string    `json:",omitempty"`
	TimeFirst bool      `json:",omitempty"`
	WhereKind string    `json:",omitempty"`
	Start     int64     // ms, as written in the statement (second precision)
	End       int64
	UserIv    int64 // group by time(x) in ms, 0 = none
	GroupBy   []string
}

// matches: the naive predicate of the statement's tag condition on the tags of one series.
func (q mQuery) matches(tags map[string]string) bool {
	for _, a := range q.Cond {
		if !a.match(tags) {
			return false
		}
	}
	return q.Where == nil || q.Where.eval(tags)
}

func fmtTime(ms int64) string {
	return timeOf(ms).Format("2006-01-02 15:04:05")
}

func (q mQuery) sql() string {
	items := make([]string, len(q.Items))
	for i, it := range q.Items {
		items[i] = it.sql()
	}
	var conds []string
	for _, a := range q.Cond {
		conds = append(conds, a.sql())
	}
	if q.WhereText != "" {
		conds = append(conds, q.WhereText)
	}
	timeRange := fmt.Sprintf("time>='%s' and time<='%s'", fmtTime(q.Start), fmtTime(q.End))
	if q.TimeFirst {
		conds = append([]string{timeRange}, conds...)
	} else {
		conds = append(conds, timeRange)
	}
	s := fmt.Sprintf("select %s from %s where %s", strings.Join(items, ","), q.Metric, strings.Join(conds, " and "))
	var gb []string
	gb = append(gb, q.GroupBy...)
	if q.UserIv > 0 {
		gb = append(gb, "time("+fmtDuration(q.UserIv)+")")
	}
	if len(gb) > 0 {
		s += " group by " + strings.Join(gb, ",")
	}
	return s
}

func fmtDuration(ms int64) string {
	sec := ms / 1000
	switch {
	case sec%3600 == 0:
		return fmt.Sprintf("%dh", sec/3600)
	case sec%60 == 0:
		return fmt.Sprintf("%dm", sec/60)
	default:
		return fmt.Sprintf("%ds", sec)
	}
}

// autoInterval is timeutil.CalcQueryInterval (documented table: the longer the range, the coarser).
func autoInterval(diff, iv int64) int64 {
	const sec, min, hour, day = int64(1000), int64(60_000), int64(3600_000), int64(86400_000)
	switch {
	case diff < hour:
		return iv
	case diff < 3*hour:
		return 10 * sec
	case diff < 6*hour:
		return 30 * sec
	case diff < 12*hour:
		return min
	case diff < day:
		return 2 * min
	case diff < 2*day:
		return 5 * min
	case diff < 7*day:
		return 10 * min
	case diff < 30*day:
		return hour
	case diff < 60*day:
		return 4 * hour
	case diff < 90*day:
		return 12 * hour
	default:
		return day
	}
}

// plan returns the truncated range and the query interval for a database with the single storage interval S.
func (m *model) plan(q mQuery) (start, end, qiv int64) {
	iv := q.UserIv
	if iv <= 0 {
		iv = m.S
	}
	iv = autoInterval(q.End-q.Start, iv)
	if iv < q.UserIv {
		iv = q.UserIv
	}
	ratio := int64(1)
	if iv >= m.S {
		ratio = iv / m.S
	}
	start = q.Start - mod(q.Start, m.S)
	end = q.End - mod(q.End, m.S)
	return start, end, m.S * ratio
}

// semantics selects the strict reference or the relaxations that are switched on while a
// finding is listed as known (see the signatures in c11_test.go).
type semantics struct {
	// SplitRelaxed: fn(f) whose aggregate differs from the type's aggregate may have been applied
	// between parts of one storage slot (parts = data written before / after a flush or a window change).
	SplitRelaxed bool
	// OrderRelaxed: last/first inside one memory database may pick any written value.
	OrderRelaxed bool
}

// valueSet is the set of acceptable values of one result cell.
type valueSet struct {
	Vals      []float64 // distinct, sorted
	Ambiguous bool      // too many alternatives: the cell is not checked
	ByTime    float64   // last/first only: the "latest/earliest by time" value
	HasByTime bool
	Points    int  // number of written points that contribute
	Cands     int  // number of (series, storage slot) candidates
	Optional  bool // the cell may be absent (see sigNotFoundHides)
}

func (v valueSet) has(x float64) bool {
	for _, y := range v.Vals {
		if y == x {
			return true
		}
	}
	return false
}

const maxAlternatives = 4096

func dedupe(xs []float64) []float64 {
	sort.Float64s(xs)
	out := xs[:0]
	for i, x := range xs {
		if i == 0 || x != xs[i-1] {
			out = append(out, x)
		}
	}
	return out
}

func agg2(a string, x, y float64) float64 {
	switch a {
	case aSum:
		return x + y
	case aMin:
		if y < x {
			return y
		}
		return x
	case aMax:
		if y > x {
			return y
		}
		return x
	}
	panic("agg2 " + a)
}

func fold(a string, xs []float64) float64 {
	r := xs[0]
	for _, x := range xs[1:] {
		r = agg2(a, r, x)
	}
	return r
}

// slotAlternatives: acceptable contributions of one (series, field, storage slot) with the points
// pts (write order) of a field of type agg tAgg to an aggregation with fAgg.
func slotAlternatives(pts []mPoint, tAgg, fAgg string, sem semantics) (alts []float64, ambiguous bool) {
	n := len(pts)
	vals := make([]float64, n)
	sameGen := true
	for i, p := range pts {
		vals[i] = p.Val
		if p.Gen != pts[0].Gen {
			sameGen = false
		}
	}
	if n == 1 {
		return []float64{vals[0]}, false
	}
	ordered := tAgg == aLast || tAgg == aFirst
	pick := func() []float64 { // value of the slot by the field's type
		if !ordered {
			return []float64{fold(tAgg, vals)}
		}
		if sameGen && !sem.OrderRelaxed {
			if tAgg == aLast {
				return []float64{vals[n-1]}
			}
			return []float64{vals[0]}
		}
		return dedupe(append([]float64(nil), vals...)) // merge order across flushes is not fixed by any document
	}
	if fAgg == tAgg || !sem.SplitRelaxed {
		return pick(), false
	}
	// relaxed: the function's aggregate may have been applied between contiguous parts
	if n > 8 {
		return nil, true
	}
	var out []float64
	if ordered {
		// each part contributes one of its values: any non-empty subset of the points can remain
		for mask := 1; mask < 1<<n; mask++ {
			var xs []float64
			for i := 0; i < n; i++ {
				if mask&(1<<i) != 0 {
					xs = append(xs, vals[i])
				}
			}
			out = append(out, fold(fAgg, xs))
		}
		return dedupe(out), false
	}
	for mask := 0; mask < 1<<(n-1); mask++ { // bit i set = boundary after point i
		var parts []float64
		cur := vals[0]
		for i := 1; i < n; i++ {
			if mask&(1<<(i-1)) != 0 {
				parts = append(parts, cur)
				cur = vals[i]
			} else {
				cur = agg2(tAgg, cur, vals[i])
			}
		}
		parts = append(parts, cur)
		out = append(out, fold(fAgg, parts))
	}
	return dedupe(out), false
}

// combine folds the alternatives of several candidates with the function's aggregate.
func combine(fAgg string, sets [][]float64) (vals []float64, ambiguous bool) {
	if fAgg == aLast || fAgg == aFirst {
		var all []float64
		for _, s := range sets {
			all = append(all, s...)
		}
		return dedupe(all), false
	}
	cur := sets[0]
	for _, s := range sets[1:] {
		if len(cur)*len(s) > maxAlternatives*4 {
			return nil, true
		}
		next := make([]float64, 0, len(cur)*len(s))
		for _, x := range cur {
			for _, y := range s {
				next = append(next, agg2(fAgg, x, y))
			}
		}
		cur = dedupe(next)
		if len(cur) > maxAlternatives {
			return nil, true
		}
	}
	return cur, false
}

// expectation: group key -> result field -> timestamp -> acceptable values.
type expectation map[string]map[string]map[int64]valueSet

func groupKeyOf(groupBy []string, tags map[string]string) (string, bool) {
	if len(groupBy) == 0 {
		return "", true
	}
	g := map[string]string{}
	for _, k := range groupBy {
		v, ok := tags[k]
		if !ok {
			return "", false
		}
		g[k] = v
	}
	return tagsKey(g), true
}

// eval computes the expected answer of q. contributing receives every point that lies inside the
// answer (for the placement classes).
func (m *model) eval(q mQuery, sem semantics) (exp expectation, contributing []mPoint, qiv int64) {
	return m.evalWithRisk(q, sem, nil)
}

// fieldCells is the answer of one operand (field or function of a field): group -> timestamp -> acceptable values.
type fieldCells map[string]map[int64]valueSet

// evalWithRisk: cells that receive points of a family in riskFams are optional and their value is not checked.
func (m *model) evalWithRisk(q mQuery, sem semantics, riskFams map[int64]bool) (exp expectation, contributing []mPoint, qiv int64) {
	exp = expectation{}
	m.notes = exprNotes{}
	mm := m.Metrics[q.Metric]
	_, _, qiv = m.plan(q)
	if mm == nil {
		return exp, nil, qiv
	}
	put := func(name string, cells fieldCells) {
		for g, pts := range cells {
			if len(pts) == 0 {
				continue
			}
			if exp[g] == nil {
				exp[g] = map[string]map[int64]valueSet{}
			}
			exp[g][name] = pts
		}
	}
	for _, item := range q.Items {
		if item.Expr != nil {
			// every operand is computed on its own, exactly like a plain select item; the operators are
			// then applied slot by slot (expr_test.go)
			leaves := map[string]fieldCells{}
			ok := true
			for _, lf := range item.Expr.leaves(nil) {
				if _, done := leaves[lf.key()]; done {
					continue
				}
				cells, contrib, known := m.evalOperand(q, mm, lf.Field, lf.Fn, sem, riskFams)
				if !known {
					ok = false
					break
				}
				leaves[lf.key()] = cells
				contributing = append(contributing, contrib...)
			}
			if ok {
				put(item.resultName(), evalExprItem(item.Expr, leaves, m.notes))
			}
			continue
		}
		cells, contrib, known := m.evalOperand(q, mm, item.Field, item.Fn, sem, riskFams)
		if !known {
			continue
		}
		contributing = append(contributing, contrib...)
		put(item.resultName(), cells)
	}
	return exp, contributing, qiv
}

// evalOperand computes field (fn == "") or fn(field) for every group and query slot. known = the metric has the field.
func (m *model) evalOperand(q mQuery, mm *mMetric, fieldName, fn string, sem semantics, riskFams map[int64]bool) (out fieldCells, contributing []mPoint, known bool) {
	start, end, qiv := m.plan(q)
	type cellKey struct {
		group string
		ts    int64
	}
	type cand struct {
		series string
		slot   int64
		pts    []mPoint
	}
	seriesKeys := make([]string, 0, len(mm.Series))
	for k := range mm.Series {
		seriesKeys = append(seriesKeys, k)
	}
	sort.Strings(seriesKeys)
	out = fieldCells{}
	ft, ok := mm.Types[fieldName]
	if !ok {
		return out, nil, false
	}
	tAgg := typeAgg(ft)
	fAgg := tAgg
	if fn != "" {
		fAgg = fn
	}
	cells := map[cellKey][]cand{}
	var order []cellKey
	for _, sk := range seriesKeys {
		s := mm.Series[sk]
		if !q.matches(s.Tags) {
			continue
		}
		gk, ok := groupKeyOf(q.GroupBy, s.Tags)
		if !ok {
			continue // generator never groups by a key some series lacks
		}
		bySlot := map[int64][]mPoint{}
		var slots []int64
		for _, p := range s.Fields[fieldName] {
			ss := m.slotStart(p.TS)
			if ss < start || ss > end {
				continue
			}
			if _, ok := bySlot[ss]; !ok {
				slots = append(slots, ss)
			}
			bySlot[ss] = append(bySlot[ss], p)
		}
		sort.Slice(slots, func(i, j int) bool { return slots[i] < slots[j] })
		for _, ss := range slots {
			k := (ss - start) / qiv
			ck := cellKey{group: gk, ts: start + k*qiv}
			if _, ok := cells[ck]; !ok {
				order = append(order, ck)
			}
			cells[ck] = append(cells[ck], cand{series: sk, slot: ss, pts: bySlot[ss]})
			contributing = append(contributing, bySlot[ss]...)
		}
	}
	for _, ck := range order {
		cands := cells[ck]
		var sets [][]float64
		vs := valueSet{Cands: len(cands)}
		for _, c := range cands {
			if riskFams[c.pts[0].Fam] {
				vs.Optional, vs.Ambiguous = true, true
			}
			alts, amb := slotAlternatives(c.pts, tAgg, fAgg, sem)
			if amb {
				vs.Ambiguous = true
			}
			sets = append(sets, alts)
			vs.Points += len(c.pts)
		}
		if !vs.Ambiguous {
			vals, amb := combine(fAgg, sets)
			vs.Vals, vs.Ambiguous = vals, amb
		}
		if fAgg == aLast || fAgg == aFirst {
			// "latest / earliest by time": greatest (smallest) storage slot, then write order; only
			// defined when one series holds that slot.
			best := cands[0]
			unique := true
			for _, c := range cands[1:] {
				switch {
				case c.slot == best.slot:
					unique = false
				case fAgg == aLast && c.slot > best.slot, fAgg == aFirst && c.slot < best.slot:
					best, unique = c, true
				}
			}
			if unique {
				vs.HasByTime = true
				if fAgg == aLast {
					vs.ByTime = best.pts[len(best.pts)-1].Val
				} else {
					vs.ByTime = best.pts[0].Val
				}
			}
		}
		if out[ck.group] == nil {
			out[ck.group] = map[int64]valueSet{}
		}
		out[ck.group][ck.ts] = vs
	}
	return out, contributing, true
}

func (e expectation) String() string {
	var b strings.Builder
	groups := make([]string, 0, len(e))
	for g := range e {
		groups = append(groups, g)
	}
	sort.Strings(groups)
	for _, g := range groups {
		fields := make([]string, 0, len(e[g]))
		for f := range e[g] {
			fields = append(fields, f)
		}
		sort.Strings(fields)
		for _, f := range fields {
			tss := make([]int64, 0, len(e[g][f]))
			for ts := range e[g][f] {
				tss = append(tss, ts)
			}
			sort.Slice(tss, func(i, j int) bool { return tss[i] < tss[j] })
			fmt.Fprintf(&b, "[%s] %s:", g, f)
			for _, ts := range tss {
				vs := e[g][f][ts]
				switch {
				case vs.Optional:
					fmt.Fprintf(&b, " (%d=?)", ts)
				case vs.Ambiguous:
					fmt.Fprintf(&b, " %d=?", ts)
				case len(vs.Vals) == 1:
					fmt.Fprintf(&b, " %d=%v", ts, vs.Vals[0])
				default:
					fmt.Fprintf(&b, " %d=%v", ts, vs.Vals)
				}
			}
			b.WriteByte('\n')
		}
	}
	return b.String()
}

// ---- self test of the model on hand-written examples ------------------------------------------------

func TestModelSelfTest(t *testing.T) {
	base := int64(1682935200000) // 2023-05-01 10:00:00 UTC
	m := newModel(10_000)
	a := map[string]string{"host": "a"}
	b := map[string]string{"host": "b"}
	m.add("m", a, "s", tSum, base+1, 1, 0)
	m.add("m", a, "s", tSum, base+9_999, 2, 0)  // same slot
	m.add("m", a, "s", tSum, base+10_000, 4, 1) // next slot, after a flush
	m.add("m", b, "s", tSum, base+25_000, 8, 0) // slot 2
	m.add("m", a, "l", tLast, base, 5, 0)
	m.add("m", a, "l", tLast, base+3, 6, 0)
	m.add("m", a, "l", tLast, base+hourMs, 7, 0) // next family
	q := mQuery{Metric: "m", Items: []selectItem{{Field: "s"}}, Start: base, End: base + 59_000}
	exp, contrib, qiv := m.eval(q, semantics{})
	if qiv != 10_000 || len(contrib) != 4 {
		t.Fatalf("qiv %d contrib %d", qiv, len(contrib))
	}
	if got, want := exp.String(), fmt.Sprintf("[] s: %d=3 %d=4 %d=8\n", base, base+10_000, base+20_000); got != want {
		t.Fatalf("got %q want %q", got, want)
	}
	q.GroupBy = []string{"host"}
	q.UserIv = 30_000
	q.Items = []selectItem{{Field: "s", Fn: "max", Alias: "x"}}
	exp, _, qiv = m.eval(q, semantics{})
	if got, want := exp.String(), fmt.Sprintf("[host=a] x: %d=4\n[host=b] x: %d=8\n", base, base); got != want || qiv != 30_000 {
		t.Fatalf("got %q want %q", got, want)
	}
	// range start inside a slot: truncated to the slot start; the query slots are anchored there
	q = mQuery{Metric: "m", Items: []selectItem{{Field: "s"}}, Start: base + 15_000, End: base + 40_000, UserIv: 20_000}
	exp, _, _ = m.eval(q, semantics{})
	if got, want := exp.String(), fmt.Sprintf("[] s: %d=12\n", base+10_000); got != want {
		t.Fatalf("got %q want %q", got, want)
	}
	// last: two writes of one slot in one memory database: the later one; over two families: by membership
	q = mQuery{Metric: "m", Items: []selectItem{{Field: "l"}}, Start: base, End: base + 30_000}
	exp, _, _ = m.eval(q, semantics{})
	if got, want := exp.String(), fmt.Sprintf("[] l: %d=6\n", base); got != want {
		t.Fatalf("got %q want %q", got, want)
	}
	q = mQuery{Metric: "m", Items: []selectItem{{Field: "l", Fn: "sum"}}, Start: base, End: base + 2*hourMs}
	exp, _, qiv = m.eval(q, semantics{})
	if got, want := exp.String(), fmt.Sprintf("[] sum(l): %d=6 %d=7\n", base, base+hourMs); got != want || qiv != 10_000 {
		t.Fatalf("got %q want %q (qiv %d)", got, want, qiv)
	}
	// relaxed split semantics: max over parts of sums of {1,2}: 3 or 2
	alts, _ := slotAlternatives([]mPoint{{Val: 1}, {Val: 2}}, aSum, aMax, semantics{SplitRelaxed: true})
	if fmt.Sprint(alts) != "[2 3]" {
		t.Fatalf("alts %v", alts)
	}
	alts, _ = slotAlternatives([]mPoint{{Val: 1}, {Val: 2}}, aSum, aMax, semantics{})
	if fmt.Sprint(alts) != "[3]" {
		t.Fatalf("alts %v", alts)
	}
	alts, _ = slotAlternatives([]mPoint{{Val: 1, Gen: 0}, {Val: 2, Gen: 1}}, aLast, aLast, semantics{})
	if fmt.Sprint(alts) != "[1 2]" {
		t.Fatalf("alts %v", alts)
	}
	if !likeMatch("a*", "ab") || likeMatch("a*", "ba") || !likeMatch("*a", "ba") || !likeMatch("*b*", "abc") || likeMatch("ab", "abc") {
		t.Fatalf("likeMatch")
	}
	// coarse intervals: month type (family = day), year type (family = month)
	dec31 := time.Date(2023, 12, 31, 23, 50, 0, 0, time.UTC).UnixMilli()
	jan1 := time.Date(2024, 1, 1, 0, 0, 0, 0, time.UTC).UnixMilli()
	if familyOfIv(600_000, dec31) != jan1-dayMs || familyOfIv(600_000, jan1+1) != jan1 || familyEndIv(600_000, jan1) != jan1+dayMs-1 {
		t.Fatalf("month-type families")
	}
	if familyOfIv(4*hourMs, dec31) != time.Date(2023, 12, 1, 0, 0, 0, 0, time.UTC).UnixMilli() || familyOfIv(hourMs, jan1) != jan1 ||
		familyEndIv(hourMs, time.Date(2024, 2, 1, 0, 0, 0, 0, time.UTC).UnixMilli()) != time.Date(2024, 3, 1, 0, 0, 0, 0, time.UTC).UnixMilli()-1 {
		t.Fatalf("year-type families")
	}
	if segmentOfIv(600_000, dec31) == segmentOfIv(600_000, jan1) || segmentOfIv(hourMs, dec31) == segmentOfIv(hourMs, jan1) {
		t.Fatalf("segments")
	}
	mc := newModel(4 * hourMs)
	mc.add("m", a, "s", tSum, dec31, 1, 0)                                                                    // slot 2023-12-31 20:00
	mc.add("m", a, "s", tSum, jan1+5*hourMs, 2, 0)                                                            // slot 2024-01-01 04:00, other family and segment
	mc.add("m", a, "s", tSum, jan1+7*hourMs+1, 4, 0)                                                          // same slot
	qc := mQuery{Metric: "m", Items: []selectItem{{Field: "s"}}, Start: dec31 - 3*dayMs, End: jan1 + 2*dayMs} // > 2 days: automatic interval 10m < 4h
	exp, _, qiv = mc.eval(qc, semantics{})
	if got, want := exp.String(), fmt.Sprintf("[] s: %d=1 %d=6\n", jan1-4*hourMs, jan1+4*hourMs); got != want || qiv != 4*hourMs {
		t.Fatalf("got %q want %q (qiv %d)", got, want, qiv)
	}
	mc5 := newModel(300_000)
	if _, _, qiv := mc5.plan(mQuery{Start: dec31 - 3*dayMs, End: jan1 + 2*dayMs}); qiv != 600_000 { // 2..7 days: 10m = 2 x 5m
		t.Fatalf("qiv %d", qiv)
	}
	if _, _, qiv := mc5.plan(mQuery{Start: dec31, End: jan1 + 10*60_000, UserIv: 900_000}); qiv != 900_000 {
		t.Fatalf("qiv %d", qiv)
	}
	// interval table
	if _, _, qiv := m.plan(mQuery{Start: base, End: base + 4*hourMs}); qiv != 30_000 {
		t.Fatalf("qiv %d", qiv)
	}
	if _, _, qiv := m.plan(mQuery{Start: base, End: base + 2*hourMs, UserIv: 60_000}); qiv != 60_000 {
		t.Fatalf("qiv %d", qiv)
	}
}
