// Package c11 checks property C11: a query returns what a naive model computes from the written points.
package c11

import (
	"encoding/json"
	"fmt"
	"os"
	"runtime"
	"sort"
	"strings"
	"sync/atomic"
	"testing"
	"time"

	commonmodels "github.com/lindb/common/models"
	"github.com/lindb/common/pkg/fasttime"
	"github.com/lindb/common/pkg/logger"
	protoMetricsV1 "github.com/lindb/common/proto/gen/v1/linmetrics"
	"pgregory.net/rapid"

	"github.com/lindb/lindb/kv"
	"github.com/lindb/lindb/models"
	"github.com/lindb/lindb/pkg/option"
	"github.com/lindb/lindb/pkg/timeutil"
	"github.com/lindb/lindb/series/field"
	"github.com/lindb/lindb/tsdb"
	"github.com/lindb/lindb/verifharness/sim/ev"
	"github.com/lindb/lindb/verifharness/sim/node"
)

func TestMain(m *testing.M) { ev.Main(m) }

func init() {
	if !raceEnabled { // the driver exports TZ=UTC; assigning time.Local races with the timer goroutines of dependencies
		time.Local = time.UTC
	}
	_ = logger.RunningAtomicLevel.UnmarshalText([]byte("error"))
}

func timeOf(ms int64) time.Time { return time.UnixMilli(ms).UTC() }

// Signatures of the findings of this property (see the report / known_findings.json). While a
// signature is listed as known the shape is kept out of the generator (or the oracle is relaxed
// to what the shape can produce), so that the remaining search is not hidden behind it.
const (
	// two memory databases of one shard created within one tick (5 ms) of fasttime share the key of
	// the per-metric slot range; flushing one of them deletes the range of the other, whose data
	// then is invisible and is skipped by its own flush (lost).
	sigCreatedTime = "C11/memdb-created-in-same-tick-loses-flush" // repaired in /repo (035c997)
	// two functions with different aggregates on one field in one statement (max(f), sum(f)):
	// every aggregate array of a leaf is merged into every aggregate array of the next level.
	sigMultiFunc = "C12/merge-of-field-with-several-functions-mixes-aggregates" // repaired in /repo (2d5a3af)
	// fn(f) with an aggregate other than the type's: points of one storage slot that live in
	// different places (file / memory database / compressed buffer / write buffer) are combined with
	// the function's aggregate instead of the type's, so the answer depends on flush placement.
	sigSplitFunc = "C11/function-aggregate-between-parts-of-one-slot"
	// last/first: merging the write buffer with the compressed buffer passes (new, old) to
	// AggType.Aggregate, so the older write wins for last and the newer for first.
	sigMergeOrder = "C11/last-first-merge-order-reversed"
	// dataFamily.Filter reads the memory databases and then the files: a flush that commits in
	// between makes the same points visible twice.
	sigFilterRace = "C11/filter-memory-then-files-double-count"
	// tsdb/memdb/field_writer.go write(): a slot that lies inside the current 15-slot write window
	// but before the window's highest written slot overwrites the window's end marker with the
	// smaller offset; the later slots of the window become invisible to queries and are dropped by
	// the next compress/flush (out-of-order write loses newer points).
	sigWindowEnd = "C11/memdb-out-of-order-slot-lost" // repaired in /repo (b1a5d12)
	// (property C09) the first row of a new metric is handled by the metadata worker (GenMetricID,
	// GenFieldID) and the shard's index worker (GenMetricID, GenTagKeyID) concurrently;
	// indexKVStore.getOrCreateValue and metricSchemaStore.genFieldID/genTagKeyID check outside the
	// lock and do not re-check under it, so the metric can get two ids or the schema loses its
	// fields / tag keys ("field not found" for every later query). While listed, the harness
	// registers metric, tag keys and fields sequentially before the first write that needs them.
	sigSchemaRace = "C09/concurrent-get-or-create-two-ids" // repaired in /repo (7b804d6)
	// (property C09) a metadata/index flush cycle of a store that has nothing to flush leaves an empty
	// immutable map behind; PrepareFlush never switches again, so names created later (here: a new
	// series) are never written and are gone after an orderly restart. While listed, a history that
	// reopens the engine flushes the data families only (no FlushMeta/FlushIndex before the Close).
	sigFlushWedged = "C09/empty-flush-cycle-wedges-later-flushes" // repaired in /repo (3940569)
	// tsdb/tblstore/metricsdata/reader.go readSeriesData: a file whose metric block holds a single
	// field is read into query field index 0 whatever field it is; with >= 2 fields in the statement
	// the values show up under the wrong field. While listed, statements with >= 2 distinct fields are
	// only generated when every flushed memory database held >= 2 fields of the metric.
	sigOneFieldFile = "C03/single-field-block-read-by-multi-field-query" // repaired in /repo (862bf81)
	// the memory database is read without any synchronisation with its single writer: a write that
	// leaves the 15-slot window moves the window into the compressed buffer and resets the page; a
	// query that read the compressed buffer before and reads the page after that misses points whose
	// writes completed long before the query started (they are returned again by the next query); a
	// value that is being aggregated is copied byte-wise and can be read half-written.
	// dataFamily.Filter gives up on the whole family when one of its sources answers "not found":
	// a memory database that holds the metric but not the queried field / series hides the family's
	// files, files that hold the metric but not the queried series hide the memory databases. While
	// listed, result cells fed by such a family may be absent and their values are not checked.
	sigNotFoundHides   = "C10/family-filter-not-found-hides-files" // repaired in /repo (569f143)
	sigReadDuringWrite = "C11/memdb-query-overlapping-a-write-misses-completed-points"
	// tsdb/memdb/time_series_index.go Load tests "container not found" with == -1, roaring answers
	// -(insertion point + 1): a statement that matches a series of a container the shard's in-memory
	// series map of the metric does not hold, while the map holds a lower container and a matched
	// series, fails with "index out of range [-2]" (metric with > 65536 series after a restart).
	sigMemLoadContainer = "C11/memdb-load-container-above-those-in-memory-panics"
	// tsdb/memdb/time_series_index.go Load reads the write page of a series through the *fieldEntry of
	// the filter result set (fm.Reset(page)); the data load tasks of the series-id containers of one
	// statement run concurrently and share these entries, so a task reads the page the other one just
	// set: a series shows another series' values (schedule dependent). While listed, statements for
	// which one memory database holds a selected field for matched series of >= 2 containers are not run.
	sigMemParallelLoad = "C11/memdb-parallel-container-loads-share-page-reader"
)

// Every engine gets its own database name: lindb keeps worker-pool gauges (WorkersAlive) in a
// process-wide registry keyed by the database name and never stops a database's executor pools, so
// a second database of the same name in one process would wait for idle workers of the first.
var dbSeq atomic.Int64

// classCrossSegment marks a statement whose range spans >= 2 segments and whose answer has >= 2 slots
// from >= 2 families (the non-trivial rule of TestQueryModelCoarseIntervals).
const classCrossSegment = "range->=2-segments,answer->=2-families,>=2-slots"

// ---- schema and history -----------------------------------------------------------------------------

type fieldDef struct {
	Name string `json:"name"`
	Type string `json:"type"`
}

type metricDef struct {
	Name   string              `json:"name"`
	Fields []fieldDef          `json:"fields"`
	Series []map[string]string `json:"series"`
	Keys   []string            `json:"keys"` // tag keys every series carries
	// IDPlan (optional, strictly increasing, one entry per series): the k-th series of the metric that is
	// created in the shard's index gets the series id IDPlan[k] (see sparse_test.go); nil = 0, 1, 2, ...
	IDPlan []uint32 `json:"series_ids,omitempty"`
}

type fieldVal struct {
	Field string  `json:"f"`
	Val   float64 `json:"v"`
}

type rowSpec struct {
	M    int        `json:"m"`
	S    int        `json:"s"`
	TS   int64      `json:"ts"`
	Vals []fieldVal `json:"vals"`
	Hist *histSpec  `json:"hist,omitempty"`
}

type histSpec struct {
	Min, Max, Sum, Count float64
	Bounds               []float64 // without the trailing +Inf
	Values               []float64 // len(Bounds)+1
}

type opSpec struct {
	Kind  string    `json:"op"` // write, flushDB, flushFamily, compact, reopen, query
	Rows  []rowSpec `json:"rows,omitempty"`
	Fam   int       `json:"fam,omitempty"`
	Query *mQuery   `json:"query,omitempty"`
	SQL   string    `json:"sql,omitempty"`
	// Repeat: the statement is executed a second time right away; the second answer is checked like the first.
	Repeat bool `json:"repeat,omitempty"`
	// Again: the statement is an earlier statement of the history, issued again after the operations in between.
	Again bool `json:"again,omitempty"`
}

var protoType = map[string]protoMetricsV1.SimpleFieldType{
	tSum:   protoMetricsV1.SimpleFieldType_DELTA_SUM,
	tMin:   protoMetricsV1.SimpleFieldType_Min,
	tMax:   protoMetricsV1.SimpleFieldType_Max,
	tLast:  protoMetricsV1.SimpleFieldType_LAST,
	tFirst: protoMetricsV1.SimpleFieldType_FIRST,
}

// ---- engine under test ---------------------------------------------------------------------------------

type env struct {
	dir string
	db  string
	n   *node.Node
	cl  *node.Cluster
	opt *option.DatabaseOption
	S   int64

	mdl *model

	gen      map[int64]int  // family -> number of flushes that moved points of the family to a file
	dirty    map[int64]bool // family has points in its mutable memory database
	files    map[int64]int  // family -> level-0 files written since the last compaction
	compacts int
	reopens  int
	lastTick int64

	registered map[string]bool

	seriesIDs  map[string]map[string]uint32 // metric -> tags key -> series id in the shard's index
	planned    map[string]bool              // metric has a series id plan
	memIDs     map[string]map[uint32]bool   // metric -> series ids written since the engine was started (the shard's in-memory series map)
	mergedUpTo map[int64]int                // family -> memory database generations below this one were merged by a compaction

	lastNotFound string      // text of the "not found" error the last query returned ("" = none)
	lastGot      node.Result // answer of the last checked statement

	forcePreRegister bool // regression tests: always register names sequentially (see sigSchemaRace)
	forceWaitTick    bool // regression tests: never create two memory databases in one clock tick (see sigCreatedTime)

	// flush-window tests
	observers map[int64]*observer
	ackSeq    int64
	inFlush   map[int64]bool // family is inside Flush and its former mutable memory database is the immutable one
	lateDirty map[int64]bool // rows were written into the family while it was inside Flush
}

func newEnv(s int64) (*env, error) {
	dir, err := os.MkdirTemp("", "c11-")
	if err != nil {
		return nil, err
	}
	e := &env{dir: dir, db: fmt.Sprintf("db%d", dbSeq.Add(1)), S: s, mdl: newModel(s), gen: map[int64]int{}, dirty: map[int64]bool{}, files: map[int64]int{},
		inFlush: map[int64]bool{}, lateDirty: map[int64]bool{}}
	e.opt = node.DBOption(timeutil.Interval(s))
	if err := e.start(); err != nil {
		os.RemoveAll(dir)
		return nil, err
	}
	if err := e.n.CreateDB(e.db, e.opt, 0); err != nil {
		e.close()
		return nil, err
	}
	return e, nil
}

func (e *env) start() error {
	n, err := node.Start(e.dir)
	if err != nil {
		return err
	}
	e.n = n
	e.cl = node.NewCluster()
	e.cl.AddLeaf("leaf0:1", n.Engine, "")
	e.cl.SetLayout(e.db, e.opt, map[string][]models.ShardID{"leaf0:1": {0}})
	return nil
}

func (e *env) stop() {
	if e.cl != nil {
		e.cl.Close()
		e.cl = nil
	}
	if e.n != nil {
		e.n.Close()
		e.n = nil
	}
}

func (e *env) close() {
	e.stop()
	os.RemoveAll(e.dir)
}

func (e *env) family(fam int64) (tsdb.DataFamily, error) {
	shard, err := e.n.Shard(e.db, 0)
	if err != nil {
		return nil, err
	}
	return shard.GetOrCrateDataFamily(fam)
}

// waitTick: while the created-time collision is a known finding no two memory databases are created
// within one tick of lindb's coarse clock.
func (e *env) waitTick() {
	if !ev.Known(sigCreatedTime) && !e.forceWaitTick {
		return
	}
	for fasttime.UnixNano() <= e.lastTick {
		time.Sleep(500 * time.Microsecond)
	}
}

func (e *env) noteTick() { e.lastTick = fasttime.UnixNano() }

func buildMetric(md metricDef, r rowSpec) *protoMetricsV1.Metric {
	m := &protoMetricsV1.Metric{Name: md.Name, Timestamp: r.TS}
	tags := md.Series[r.S]
	keys := make([]string, 0, len(tags))
	for k := range tags {
		keys = append(keys, k)
	}
	sort.Strings(keys)
	for _, k := range keys {
		m.Tags = append(m.Tags, &protoMetricsV1.KeyValue{Key: k, Value: tags[k]})
	}
	for _, fv := range r.Vals {
		var typ string
		for _, fd := range md.Fields {
			if fd.Name == fv.Field {
				typ = fd.Type
			}
		}
		m.SimpleFields = append(m.SimpleFields, &protoMetricsV1.SimpleField{Name: fv.Field, Type: protoType[typ], Value: fv.Val})
	}
	if r.Hist != nil {
		m.CompoundField = &protoMetricsV1.CompoundField{
			Min: r.Hist.Min, Max: r.Hist.Max, Sum: r.Hist.Sum, Count: r.Hist.Count,
			ExplicitBounds: append(append([]float64(nil), r.Hist.Bounds...), inf),
			Values:         append([]float64(nil), r.Hist.Values...),
		}
	}
	return m
}

var fieldTypeOf = map[string]field.Type{tSum: field.SumField, tMin: field.MinField, tMax: field.MaxField, tLast: field.LastField, tFirst: field.FirstField, tHist: field.HistogramField}

// preRegister: see sigSchemaRace.
func (e *env) preRegister(md metricDef, r rowSpec) error {
	if !ev.Known(sigSchemaRace) && !e.forcePreRegister {
		return nil
	}
	if e.registered == nil {
		e.registered = map[string]bool{}
	}
	type nf struct{ name, typ string }
	var fields []nf
	for _, fv := range r.Vals {
		for _, fd := range md.Fields {
			if fd.Name == fv.Field {
				fields = append(fields, nf{fd.Name, fd.Type})
			}
		}
	}
	if r.Hist != nil {
		fields = append(fields, nf{"HistogramMin", tMin}, nf{"HistogramMax", tMax}, nf{"HistogramSum", tSum}, nf{"HistogramCount", tSum})
		bounds := append(append([]float64(nil), r.Hist.Bounds...), inf)
		for i, v := range r.Hist.Values {
			if v > 0 {
				fields = append(fields, nf{bucketName(bounds[i]), tHist})
			}
		}
	}
	var todo []string
	for _, f := range fields {
		if k := md.Name + "/f/" + f.name; !e.registered[k] {
			todo = append(todo, k)
		}
	}
	for k := range md.Series[r.S] {
		if kk := md.Name + "/t/" + k; !e.registered[kk] {
			todo = append(todo, kk)
		}
	}
	if len(todo) == 0 {
		return nil
	}
	db, ok := e.n.Engine.GetDatabase(e.db)
	if !ok {
		return fmt.Errorf("harness: database not found")
	}
	meta := db.MetaDB()
	mid, err := meta.GenMetricID([]byte("default-ns"), []byte(md.Name))
	if err != nil {
		return err
	}
	for _, f := range fields {
		if k := md.Name + "/f/" + f.name; !e.registered[k] {
			if _, err := meta.GenFieldID(mid, field.Meta{Name: field.Name(f.name), Type: fieldTypeOf[f.typ]}); err != nil {
				return err
			}
			e.registered[k] = true
		}
	}
	keys := make([]string, 0, 2)
	for k := range md.Series[r.S] {
		keys = append(keys, k)
	}
	sort.Strings(keys)
	for _, k := range keys {
		if kk := md.Name + "/t/" + k; !e.registered[kk] {
			if _, err := meta.GenTagKeyID(mid, []byte(k)); err != nil {
				return err
			}
			e.registered[kk] = true
		}
	}
	return nil
}

// write writes the rows (one production WriteRows call per family, in row order) and records them in the model.
func (e *env) write(metrics []metricDef, rows []rowSpec) error {
	for _, r := range rows {
		if err := e.preRegister(metrics[r.M], r); err != nil {
			return err
		}
	}
	byFam := map[int64][]rowSpec{}
	var order []int64
	for _, r := range rows {
		f := e.mdl.familyOf(r.TS)
		if _, ok := byFam[f]; !ok {
			order = append(order, f)
		}
		byFam[f] = append(byFam[f], r)
	}
	for _, f := range order {
		var ms []*protoMetricsV1.Metric
		for _, r := range byFam[f] {
			ms = append(ms, buildMetric(metrics[r.M], r))
		}
		gen := e.gen[f]
		creates := !e.dirty[f]
		if e.inFlush[f] {
			gen++ // the family is inside Flush: the rows go to the next memory database
			creates = !e.lateDirty[f]
		}
		if creates {
			e.waitTick()
		}
		// one production write call, unless the rows create series of a metric with a series id plan
		// (see sparse_test.go): then the batch is cut in front of such a row
		at := 0
		for _, ch := range e.planSeriesIDs(metrics, byFam[f]) {
			if err := e.applySeriesIDs(ch.assign); err != nil {
				return err
			}
			if err := e.n.Write(e.db, 0, ms[at:at+ch.n]); err != nil {
				return err
			}
			at += ch.n
			if err := e.verifySeriesIDs(ch.assign); err != nil {
				return err
			}
		}
		if creates {
			e.noteTick()
		}
		if e.inFlush[f] {
			e.lateDirty[f] = true
		} else {
			e.dirty[f] = true
		}
		for _, r := range byFam[f] {
			md := metrics[r.M]
			for _, fv := range r.Vals {
				var typ string
				for _, fd := range md.Fields {
					if fd.Name == fv.Field {
						typ = fd.Type
					}
				}
				e.mdl.add(md.Name, md.Series[r.S], fv.Field, typ, r.TS, fv.Val, gen)
			}
			if r.Hist != nil {
				e.addHist(md, r, gen)
			}
		}
	}
	return nil
}

func (e *env) flushed(f int64) {
	if e.dirty[f] {
		e.dirty[f] = false
		e.gen[f]++
		e.files[f]++
	}
	if e.lateDirty[f] {
		delete(e.lateDirty, f)
		e.dirty[f] = true
	}
}

func (e *env) flushDB() error {
	if err := e.n.FlushDB(e.db); err != nil {
		return err
	}
	for f := range e.dirty {
		e.flushed(f)
	}
	return nil
}

func (e *env) flushFamily(f int64) error {
	fam, err := e.family(f)
	if err != nil {
		return err
	}
	if err := fam.Flush(); err != nil {
		return err
	}
	e.flushed(f)
	return nil
}

func (e *env) compact(f int64) (bool, error) {
	fam, err := e.family(f)
	if err != nil {
		return false, err
	}
	ok, err := kv.VerifCompactSync(fam.Family(), true)
	if err != nil {
		return false, err
	}
	if ok {
		e.files[f] = 1
		e.compacts++
		if e.mergedUpTo == nil {
			e.mergedUpTo = map[int64]int{}
		}
		e.mergedUpTo[f] = e.gen[f]
	}
	return ok, nil
}

func (e *env) reopen() error {
	e.stop()
	for f := range e.dirty {
		e.flushed(f)
	}
	e.reopens++
	e.registered = nil
	e.memIDs = nil
	e.observers = nil
	return e.start()
}

func notFound(err error) bool {
	s := strings.ToLower(err.Error())
	return strings.Contains(s, "not found") || strings.Contains(s, "notfound")
}

// query runs the statement through the production root/leaf path.
func canonOf(rs *commonmodels.ResultSet) (node.Result, int64) {
	if rs == nil {
		return node.Result{}, 0
	}
	return node.Canon(rs), rs.Interval
}

func (e *env) query(sqlText string) (node.Result, int64, error) {
	e.lastNotFound = ""
	t0 := time.Now()
	var watchdog *time.Timer
	if os.Getenv("C11_DEBUG") != "" {
		watchdog = time.AfterFunc(2*time.Second, func() {
			buf := make([]byte, 1<<20)
			fmt.Printf("WATCHDOG %s\n%s\n", sqlText, buf[:runtime.Stack(buf, true)])
		})
	}
	rs, err := e.cl.Query(e.db, sqlText)
	if watchdog != nil {
		watchdog.Stop()
	}
	if d := time.Since(t0); d > time.Second && os.Getenv("C11_DEBUG") != "" {
		fmt.Printf("SLOW QUERY %v: %s -> %v\n", d, sqlText, err)
	}
	if err != nil {
		if notFound(err) {
			e.lastNotFound = err.Error()
			return node.Result{}, 0, nil
		}
		return nil, 0, err
	}
	if rs == nil {
		return node.Result{}, 0, nil
	}
	return node.Canon(rs), rs.Interval, nil
}

type failer interface {
	Fatalf(format string, args ...any)
}

// checkQuery runs q and compares the answer with the model. It returns the classes of the query and
// whether it is non-trivial (>= 2 slots, data from >= 2 places).
func (e *env) checkQuery(t failer, q mQuery, history func() string) (classes []string, nonTrivial bool) {
	return e.checkQueryWith(t, q, history, nil)
}

func currentSemantics() semantics {
	return semantics{SplitRelaxed: ev.Known(sigSplitFunc), OrderRelaxed: ev.Known(sigMergeOrder)}
}

// checkQueryWith: placeOf (optional) overrides the placement of a contributing point (used by the
// flush-window tests, where the immutable memory database is observable).
func (e *env) checkQueryWith(t failer, q mQuery, history func() string, placeOf func(p mPoint) string) (classes []string, nonTrivial bool) {
	sqlText := q.sql()
	e.lastGot = nil
	if ev.Known(sigMemLoadContainer) && e.memLoadContainerShape(q) {
		return []string{"excluded_known:" + sigMemLoadContainer}, false
	}
	if ev.Known(sigMemParallelLoad) && e.memParallelLoadShape(q) {
		return []string{"excluded_known:" + sigMemParallelLoad}, false
	}
	got, gotIv, err := e.query(sqlText)
	if err != nil {
		t.Fatalf("query failed: %s\n  error: %v\n%s", sqlText, err, history())
	}
	e.lastGot = got
	exp, contributing, qiv := e.mdl.evalWithRisk(q, currentSemantics(), e.riskFamilies(q))
	cls, nt, msg := compare(exp, got, gotIv, qiv)
	if msg != "" {
		nf := ""
		if e.lastNotFound != "" {
			nf = "  (the query returned the error: " + e.lastNotFound + ")\n"
		}
		t.Fatalf("query answer differs from the model\n  sql: %s\n  %s\n%s  got:\n%s  model:\n%s%s", sqlText, msg, nf, indent(got.String()), indent(exp.String()), history())
	}
	classes = append(classes, cls...)
	// placement
	places := map[string]bool{}
	for _, p := range contributing {
		var pl string
		switch {
		case placeOf != nil:
			pl = placeOf(p)
		case e.inFlush[p.Fam] && p.Gen == e.gen[p.Fam]:
			pl = "immutable"
		case e.inFlush[p.Fam] && p.Gen == e.gen[p.Fam]+1:
			pl = "mutable"
		case !e.inFlush[p.Fam] && p.Gen == e.gen[p.Fam] && e.dirty[p.Fam]:
			pl = "mutable"
		default:
			pl = "file"
		}
		places[pl] = true
	}
	var pls []string
	for p := range places {
		pls = append(pls, p)
	}
	sort.Strings(pls)
	if len(pls) > 0 {
		classes = append(classes, "placement="+strings.Join(pls, "+"))
	}
	classes = append(classes, shapeClasses(contributing, e.S)...)
	classes = append(classes, e.seriesIDClasses(q)...)
	fams := map[int64]bool{}
	multiFile, compacted := false, false
	for _, p := range contributing {
		fams[p.Fam] = true
		if e.files[p.Fam] >= 2 {
			multiFile = true
		}
	}
	if multiFile {
		classes = append(classes, "family-with->=2-files")
	}
	if e.compacts > 0 {
		compacted = true
		classes = append(classes, "after-compaction")
	}
	_ = compacted
	if e.reopens > 0 {
		classes = append(classes, "after-reopen")
	}
	classes = append(classes, fmt.Sprintf("families-in-answer=%d", len(fams)))
	segs := map[int64]bool{}
	for f := range fams {
		segs[segmentOfIv(e.S, f)] = true
	}
	if len(segs) >= 2 {
		classes = append(classes, "answer-from->=2-segments")
	}
	if rs, re, _ := e.mdl.plan(q); segmentOfIv(e.S, rs) != segmentOfIv(e.S, re) {
		classes = append(classes, "range-spans->=2-segments")
		if len(fams) >= 2 && nt {
			classes = append(classes, classCrossSegment)
		}
	}
	if d := q.End - q.Start; d < hourMs {
		classes = append(classes, "range<1h")
	} else if d < dayMs {
		classes = append(classes, "range-1h..1d")
	} else if d < 2*dayMs {
		classes = append(classes, "range-1d..2d")
	} else {
		classes = append(classes, "range>=2d")
	}
	for _, it := range q.operandItems() {
		mm := e.mdl.Metrics[q.Metric]
		typ := "unknown"
		if mm != nil {
			if x, ok := mm.Types[it.Field]; ok {
				typ = x
			}
		}
		fn := it.Fn
		if fn == "" {
			fn = "plain"
		}
		classes = append(classes, "fn="+fn+"/"+typ)
	}
	if qiv > e.S {
		classes = append(classes, "downsampling")
	}
	if len(q.GroupBy) > 0 {
		classes = append(classes, "group-by-tags")
	}
	for _, a := range q.Cond {
		classes = append(classes, "cond="+a.Op)
	}
	classes = append(classes, selectClasses(q)...)
	classes = append(classes, exprClasses(q, exp)...)
	for c := range e.mdl.notes {
		classes = append(classes, c)
	}
	for _, it := range q.Items {
		if it.ChainRegrouped {
			classes = append(classes, "info:bare-chain-grouped-by-the-parser-unlike-the-usual-precedence")
		}
	}
	wcls, repeated, proper := e.whereClasses(q)
	classes = append(classes, wcls...)
	if repeated && proper && len(got) > 0 {
		classes = append(classes, classRichFirst)
	}
	return classes, nt && len(pls) >= 2
}

// shapeClasses describes the write pattern behind an answer: same slot written twice, slots written
// out of order, and slots further apart than the 15-slot write window of the memory database
// (the earlier window then lives in the compressed buffer).
func shapeClasses(points []mPoint, s int64) []string {
	dup, ooo, win := false, false, false
	type k struct {
		fam  int64
		gen  int
		slot int64
	}
	// points of one field of one series arrive grouped: eval appends them per series and slot; use seq order per (fam, gen)
	sorted := append([]mPoint(nil), points...)
	sort.Slice(sorted, func(i, j int) bool { return sorted[i].Seq < sorted[j].Seq })
	seen := map[k]bool{}
	for _, p := range sorted {
		kk := k{p.Fam, p.Gen, (p.TS - p.Fam) / s}
		if seen[kk] {
			dup = true
		}
		seen[kk] = true
	}
	for i := 1; i < len(sorted); i++ {
		a, b := sorted[i-1], sorted[i]
		if a.Fam == b.Fam && a.Gen == b.Gen {
			sa, sb := (a.TS-a.Fam)/s, (b.TS-b.Fam)/s
			if sb < sa {
				ooo = true
			}
			if sb-sa >= writeWindow || sa-sb >= writeWindow {
				win = true
			}
		}
	}
	var out []string
	if dup {
		out = append(out, "shape:slot-written-more-than-once")
	}
	if ooo {
		out = append(out, "shape:out-of-order-slots")
	}
	if win {
		out = append(out, "shape:write-window-change")
	}
	return out
}

// riskFamilies: see sigNotFoundHides. A family is at risk when one of its sources (the files, a memory
// database) holds points of the metric but none that the statement can use.
func (e *env) riskFamilies(q mQuery) map[int64]bool {
	if !ev.Known(sigNotFoundHides) {
		return nil
	}
	mm := e.mdl.Metrics[q.Metric]
	if mm == nil {
		return nil
	}
	wanted := map[string]bool{}
	for _, it := range q.operandItems() {
		wanted[it.Field] = true
	}
	start, end, _ := e.mdl.plan(q)
	type src struct {
		fam int64
		id  int // -1 = files, else generation of the memory database
	}
	present, useful := map[src]bool{}, map[src]bool{}
	for _, s := range mm.Series {
		matched := q.matches(s.Tags)
		for fname, pts := range s.Fields {
			for _, p := range pts {
				k := src{p.Fam, -1}
				inMem := (p.Gen == e.gen[p.Fam] && (e.dirty[p.Fam] || e.inFlush[p.Fam])) || (e.inFlush[p.Fam] && p.Gen == e.gen[p.Fam]+1)
				if inMem {
					k.id = p.Gen
				}
				present[k] = true
				if ss := e.mdl.slotStart(p.TS); matched && wanted[fname] && ss >= start && ss <= end {
					useful[k] = true
				}
			}
		}
	}
	risk := map[int64]bool{}
	for k := range present {
		if !useful[k] {
			risk[k.fam] = true
		}
	}
	return risk
}

func indent(s string) string {
	if s == "" {
		return "    (empty)\n"
	}
	return "    " + strings.ReplaceAll(strings.TrimRight(s, "\n"), "\n", "\n    ") + "\n"
}

// compare checks got against exp in both directions. nt = the answer has >= 2 slots.
func compare(exp expectation, got node.Result, gotIv, qiv int64) (classes []string, twoSlots bool, msg string) {
	if len(got) > 0 && gotIv != qiv {
		return nil, false, fmt.Sprintf("result interval %d, model %d", gotIv, qiv)
	}
	slots := map[int64]bool{}
	cells, exact, member, ambiguous, notByTime, optionalMissing := 0, 0, 0, 0, 0, 0
	for g, fields := range exp {
		for f, pts := range fields {
			for ts, vs := range pts {
				slots[ts] = true
				cells++
				gv, ok := got[g][f][ts]
				if !ok && vs.Optional {
					optionalMissing++
					continue
				}
				if !ok {
					return nil, false, fmt.Sprintf("missing: group [%s] field %s timestamp %d (%s), model %v", g, f, ts, fmtTime(ts), vs.Vals)
				}
				switch {
				case vs.Ambiguous:
					ambiguous++
				case !vs.has(gv):
					return nil, false, fmt.Sprintf("value: group [%s] field %s timestamp %d (%s): got %v, model %v (from %d points in %d series-slots)", g, f, ts, fmtTime(ts), gv, vs.Vals, vs.Points, vs.Cands)
				case len(vs.Vals) == 1:
					exact++
				default:
					member++
				}
				if vs.HasByTime && gv != vs.ByTime {
					notByTime++
				}
			}
		}
	}
	for g, fields := range got {
		for f, pts := range fields {
			for ts, v := range pts {
				if _, ok := exp[g][f][ts]; !ok {
					return nil, false, fmt.Sprintf("unexpected: group [%s] field %s timestamp %d (%s) = %v", g, f, ts, fmtTime(ts), v)
				}
			}
		}
	}
	if cells == 0 {
		classes = append(classes, "empty-answer")
	}
	if optionalMissing > 0 {
		classes = append(classes, "excluded_known:"+sigNotFoundHides)
	}
	if member > 0 {
		classes = append(classes, "cells-checked-by-membership")
	}
	if exact > 0 {
		classes = append(classes, "cells-checked-exactly")
	}
	if ambiguous > 0 {
		classes = append(classes, "cells-not-checked(too-many-alternatives)")
	}
	if notByTime > 0 {
		classes = append(classes, "info:last/first-differs-from-latest/earliest-by-time")
	}
	return classes, len(slots) >= 2, ""
}

// ---- generators ----------------------------------------------------------------------------------------

var inf = func() float64 { var z float64; return 1 / z }()

func genValue(t *rapid.T, label string) float64 {
	if rapid.IntRange(0, 3).Draw(t, label+"small") == 0 {
		return float64(rapid.IntRange(-16, 16).Draw(t, label)) / 8
	}
	return float64(rapid.IntRange(-(1<<20)+1, (1<<20)-1).Draw(t, label)) / 8
}

type schema struct {
	S       int64       `json:"interval_ms"`
	Fams    []int64     `json:"families"`
	Slots   []int       `json:"slots"` // slot of a family; negative: counted from the family's end (-1 = last slot)
	Metrics []metricDef `json:"metrics"`
	Coarse  bool        `json:"coarse,omitempty"` // month-/year-type interval (TestQueryModelCoarseIntervals)
	// Rich (TestQueryModelRichConditions, richcond_test.go): every statement has a generated and/or tree
	// as its tag condition, drawn mostly from the metric's pool of atoms, and is executed twice.
	// Expr (TestQueryModelExpressions, expr_test.go): every statement carries arithmetic expressions.
	Expr      bool                  `json:"expr,omitempty"`
	Rich      bool                  `json:"rich,omitempty"`
	AtomPools map[string][]condNode `json:"atom_pools,omitempty"`
}

var hostPool = []string{"a1", "a2", "b1", "ab", "ba", "c"}
var dcPool = []string{"x", "y"}

func genSchema(t *rapid.T) schema {
	sc := genSchemaBase(t, 3)
	genSchemaMetrics(t, &sc)
	return sc
}

// genSchemaBase draws the storage interval, 1..maxFams families and the slot pool.
func genSchemaBase(t *rapid.T, maxFams int) schema {
	var sc schema
	sc.S = rapid.SampledFrom([]int64{10_000, 10_000, 10_000, 1_000, 5_000, 30_000, 60_000}).Draw(t, "interval")
	// families: 1-3 different hours, adjacent, with a gap, or across midnight (next segment)
	day := time.Date(2023, time.Month(rapid.IntRange(1, 12).Draw(t, "month")), rapid.IntRange(1, 28).Draw(t, "day"), 0, 0, 0, 0, time.UTC).UnixMilli()
	h0 := rapid.SampledFrom([]int{0, 9, 10, 22, 23}).Draw(t, "hour")
	nf := rapid.IntRange(1, maxFams).Draw(t, "nFamilies")
	cur := day + int64(h0)*hourMs
	for i := 0; i < nf; i++ {
		sc.Fams = append(sc.Fams, cur)
		cur += int64(rapid.SampledFrom([]int{1, 1, 1, 2, 4}).Draw(t, "familyGap")) * hourMs
	}
	// slot pool: few slots so that duplicates happen; near ones (inside the 15-slot write window of
	// the memory database), far ones (window change -> compressed buffer), first/last slot of the family
	perFam := int(hourMs / sc.S)
	base := rapid.IntRange(0, perFam-1).Draw(t, "slotBase")
	cands := []int{0, perFam - 1, base, base + 1, base + 2, base + 14, base + 15, base + 16, base + 40, base - 20}
	ns := rapid.IntRange(2, 6).Draw(t, "nSlots")
	seen := map[int]bool{}
	for len(sc.Slots) < ns {
		s := rapid.SampledFrom(cands).Draw(t, "slot")
		s = int(mod(int64(s), int64(perFam)))
		if !seen[s] {
			seen[s] = true
			sc.Slots = append(sc.Slots, s)
		} else if len(seen) >= len(cands)-3 {
			break
		}
	}
	return sc
}

func genSchemaMetrics(t *rapid.T, sc *schema) {
	nm := rapid.IntRange(1, 3).Draw(t, "nMetrics")
	types := []string{tSum, tMin, tMax, tLast, tFirst}
	for i := 0; i < nm; i++ {
		md := metricDef{Name: fmt.Sprintf("m%d", i)}
		nfld := rapid.IntRange(1, 3).Draw(t, "nFields")
		for j := 0; j < nfld; j++ {
			typ := rapid.SampledFrom(types).Draw(t, "fieldType")
			md.Fields = append(md.Fields, fieldDef{Name: fmt.Sprintf("f%d%s", j, typ), Type: typ})
		}
		withDC := rapid.Bool().Draw(t, "withDC")
		md.Keys = []string{"host"}
		if withDC {
			md.Keys = append(md.Keys, "dc")
		}
		nser := rapid.IntRange(1, 6).Draw(t, "nSeries")
		seenS := map[string]bool{}
		for len(md.Series) < nser {
			tags := map[string]string{"host": rapid.SampledFrom(hostPool).Draw(t, "host")}
			if withDC {
				tags["dc"] = rapid.SampledFrom(dcPool).Draw(t, "dc")
			}
			k := tagsKey(tags)
			if seenS[k] {
				if len(seenS) >= 4 {
					break
				}
				continue
			}
			seenS[k] = true
			md.Series = append(md.Series, tags)
		}
		sc.Metrics = append(sc.Metrics, md)
	}
	addIDPlans(t, sc, 2, 5)
}

// windowTracker mirrors the write window of the memory database per (family, metric, series, field),
// only to keep the shape of sigWindowEnd out of the generated histories while that finding is known.
type windowTracker struct {
	S   int64
	win map[string]*window
}

type window struct {
	start, end int
	marked     map[int]bool
}

const writeWindow = 15 // (page size 128 - header 8) / 8

func newWindowTracker(s int64) *windowTracker { return &windowTracker{S: s, win: map[string]*window{}} }

// admit reports whether writing the slot keeps clear of the shape, and records the write if so.
func (w *windowTracker) admit(fam int64, metric string, series int, fieldName string, ts int64) bool {
	key := fmt.Sprintf("%d/%s/%d/%s", fam, metric, series, fieldName)
	slot := int((ts - fam) / w.S)
	cur := w.win[key]
	if cur == nil || slot < cur.start || slot > cur.start+writeWindow-1 {
		w.win[key] = &window{start: slot, end: slot, marked: map[int]bool{slot: true}}
		return true
	}
	if cur.marked[slot] {
		return true
	}
	if slot < cur.end {
		return false
	}
	cur.end = slot
	cur.marked[slot] = true
	return true
}

// wouldAdmit is admit without recording.
func (w *windowTracker) wouldAdmit(fam int64, metric string, series int, fieldName string, ts int64) bool {
	key := fmt.Sprintf("%d/%s/%d/%s", fam, metric, series, fieldName)
	slot := int((ts - fam) / w.S)
	cur := w.win[key]
	if cur == nil || slot < cur.start || slot > cur.start+writeWindow-1 || cur.marked[slot] {
		return true
	}
	return slot >= cur.end
}

// flushed forgets the windows of a family (its memory database is gone).
func (w *windowTracker) flushed(fam int64) {
	prefix := fmt.Sprintf("%d/", fam)
	for k := range w.win {
		if strings.HasPrefix(k, prefix) {
			delete(w.win, k)
		}
	}
}

func (w *windowTracker) flushedAll() { w.win = map[string]*window{} }

func genTS(t *rapid.T, sc schema) int64 {
	fam := sc.Fams[rapid.IntRange(0, len(sc.Fams)-1).Draw(t, "fam")]
	slot := sc.Slots[rapid.IntRange(0, len(sc.Slots)-1).Draw(t, "slotIdx")]
	if slot < 0 {
		slot += int((familyEndIv(sc.S, fam) + 1 - fam) / sc.S)
	}
	off := rapid.SampledFrom([]int64{0, 1, sc.S / 2, sc.S - 1}).Draw(t, "inSlot")
	return fam + int64(slot)*sc.S + off
}

func genRows(t *rapid.T, sc schema, maxRows int, wt *windowTracker) []rowSpec {
	n := rapid.IntRange(1, maxRows).Draw(t, "nRows")
	rows := make([]rowSpec, 0, n)
	for i := 0; i < n || len(rows) == 0; i++ {
		mi := rapid.IntRange(0, len(sc.Metrics)-1).Draw(t, "metric")
		md := sc.Metrics[mi]
		r := rowSpec{M: mi, S: rapid.IntRange(0, len(md.Series)-1).Draw(t, "series"), TS: genTS(t, sc)}
		// a row carries a non-empty subset of the metric's fields
		for len(r.Vals) == 0 {
			for _, fd := range md.Fields {
				if rapid.IntRange(0, 3).Draw(t, "hasField") > 0 {
					r.Vals = append(r.Vals, fieldVal{Field: fd.Name, Val: genValue(t, "v")})
				}
			}
		}
		if ev.Known(sigWindowEnd) {
			kept := r.Vals[:0]
			for _, fv := range r.Vals {
				if wt.admit(familyOfIv(sc.S, r.TS), md.Name, r.S, fv.Field, r.TS) {
					kept = append(kept, fv)
				}
			}
			r.Vals = kept
			if len(r.Vals) == 0 {
				continue
			}
		}
		rows = append(rows, r)
	}
	return rows
}

// genQuery: written = fields that exist in the schema at this point of the history (metric -> field);
// a statement that names a field the metric does not have (yet) is rejected by the planner and
// therefore not generated.
func genQuery(t *rapid.T, sc schema, written map[string]map[string]bool) mQuery {
	mi := rapid.IntRange(0, len(sc.Metrics)-1).Draw(t, "qMetric")
	if len(written[sc.Metrics[mi].Name]) == 0 && rapid.IntRange(0, 9).Draw(t, "absentMetric") > 0 {
		for i, md := range sc.Metrics { // prefer a metric that exists
			if len(written[md.Name]) > 0 {
				mi = i
				break
			}
		}
	}
	md := sc.Metrics[mi]
	hosts := []string{"zz"}
	for _, sr := range md.Series {
		hosts = append(hosts, sr["host"], sr["host"])
	}
	q := mQuery{Metric: md.Name}
	if len(written[md.Name]) > 0 {
		var fs []fieldDef
		for _, fd := range md.Fields {
			if written[md.Name][fd.Name] {
				fs = append(fs, fd)
			}
		}
		md.Fields = fs
	} // else: the metric does not exist (yet): "metric not found" = empty answer
	absent := len(written[md.Name]) == 0
	// select list
	ni := rapid.SampledFrom([]int{1, 1, 2, 3}).Draw(t, "nItems")
	if absent {
		ni = 1 // should the metric come into being later, a statement naming a field it lacks is rejected as a whole
	}
	used := map[string]string{} // field -> aggregate already requested
	names := map[string]bool{}
	// one field two or three times with different functions (richcond_test.go)
	if !absent && !ev.Known(sigMultiFunc) {
		sameField := false
		if sc.Rich {
			sameField = rapid.Bool().Draw(t, "sameFieldItems")
		} else {
			sameField = rapid.IntRange(0, 5).Draw(t, "sameFieldItems") == 0
		}
		if sameField {
			for _, it := range genSameFieldItems(t, md.Fields) {
				names[it.resultName()] = true
				used[it.Field] = it.Fn
				q.Items = append(q.Items, it)
			}
			ni--
		}
	}
	for i := 0; i < ni; i++ {
		fd := md.Fields[rapid.IntRange(0, len(md.Fields)-1).Draw(t, "qField")]
		fns := append([]string{""}, supportedFuncs(fd.Type)...)
		fn := rapid.SampledFrom(fns).Draw(t, "fn")
		agg := fn
		if agg == "" {
			agg = typeAgg(fd.Type)
		}
		if prev, ok := used[fd.Name]; ok && prev != agg && ev.Known(sigMultiFunc) {
			continue
		}
		if _, ok := used[fd.Name]; !ok && len(used) > 0 && ev.Known(sigOneFieldFile) && written["\x00single"][md.Name] {
			continue
		}
		it := selectItem{Field: fd.Name, Fn: fn}
		if rapid.IntRange(0, 2).Draw(t, "alias") == 0 || quoteIdent(fd.Name) != fd.Name {
			it.Alias = fmt.Sprintf("x%d", i)
		}
		if names[it.resultName()] {
			continue
		}
		names[it.resultName()] = true
		used[fd.Name] = agg
		q.Items = append(q.Items, it)
	}
	if len(q.Items) == 0 {
		q.Items = []selectItem{{Field: md.Fields[0].Name}}
	}
	// arithmetic expressions (expr_test.go): every statement of the expression test, a fifth of the others
	if !absent && !ev.Known(sigMultiFunc) && !ev.Known(sigOneFieldFile) && (sc.Expr || rapid.IntRange(0, 4).Draw(t, "exprItems") == 0) {
		q.Items = addExprItems(t, md.Fields, q.Items, sc.Expr)
	}
	// tag condition: an and/or tree over a small pool of atoms (richcond_test.go), or the simple forms
	var richRoot *condNode
	var richFlat bool
	if sc.Rich || rapid.IntRange(0, 3).Draw(t, "richWhere") == 0 {
		pool := sc.AtomPools[md.Name]
		if len(pool) < 2 || rapid.IntRange(0, 3).Draw(t, "freshAtomPool") == 0 {
			pool = genAtomPool(t, md)
		}
		if len(pool) >= 2 {
			richRoot, q.WhereKind, richFlat = genRichWhere(t, pool)
		}
	}
	condKind := 7
	if richRoot == nil {
		condKind = rapid.IntRange(0, 7).Draw(t, "condKind")
	}
	switch condKind {
	case 0:
		q.Cond = append(q.Cond, tagAtom{Key: "host", Op: "=", Values: []string{rapid.SampledFrom(hosts).Draw(t, "condHost")}})
	case 1:
		k := rapid.IntRange(1, 3).Draw(t, "inN")
		var vs []string
		for i := 0; i < k; i++ {
			vs = append(vs, rapid.SampledFrom(hosts).Draw(t, "inHost"))
		}
		q.Cond = append(q.Cond, tagAtom{Key: "host", Op: "in", Values: vs})
	case 2:
		q.Cond = append(q.Cond, tagAtom{Key: "host", Op: "like", Values: []string{rapid.SampledFrom([]string{"a*", "*a", "*b*", "*1", "ab", "b*", "z*"}).Draw(t, "likePattern")}})
	case 3:
		if len(md.Keys) > 1 {
			q.Cond = append(q.Cond, tagAtom{Key: "dc", Op: "=", Values: []string{rapid.SampledFrom(dcPool).Draw(t, "condDC")}})
			if rapid.Bool().Draw(t, "condAnd") {
				q.Cond = append(q.Cond, tagAtom{Key: "host", Op: "like", Values: []string{rapid.SampledFrom([]string{"a*", "*a", "*b*"}).Draw(t, "likePattern2")}})
			}
		}
	}
	// group by tags (only keys every series of the metric carries)
	switch rapid.IntRange(0, 3).Draw(t, "groupKind") {
	case 0:
		q.GroupBy = []string{"host"}
	case 1:
		if len(md.Keys) > 1 {
			q.GroupBy = []string{rapid.SampledFrom([]string{"dc", "host"}).Draw(t, "gbKey")}
			if rapid.Bool().Draw(t, "gbBoth") {
				q.GroupBy = []string{"host", "dc"}
			}
		}
	case 2:
		if sc.Rich { // any non-empty subset of the metric's keys (every series carries all of them)
			q.GroupBy = nil
			for _, k := range md.Keys {
				if rapid.Bool().Draw(t, "gbHas"+k) {
					q.GroupBy = append(q.GroupBy, k)
				}
			}
		}
	}
	// time range (second precision): all data, or cut near the generated slots
	first, last := sc.Fams[0], familyEndIv(sc.S, sc.Fams[len(sc.Fams)-1])-999
	rangeKind := rapid.IntRange(0, 4).Draw(t, "rangeKind")
	if sc.Coarse {
		rangeKind = rapid.IntRange(0, 7).Draw(t, "coarseRangeKind") + 10
	}
	switch rangeKind {
	case 10, 11: // everything (>= 2 families; > 2 days for most family sets)
		q.Start, q.End = first, last
	case 12: // everything and up to three days around it
		q.Start = first - int64(rapid.IntRange(0, 3*86400).Draw(t, "before"))*1000
		q.End = last + int64(rapid.IntRange(0, 3*86400).Draw(t, "after"))*1000
	case 13: // shorter than one hour across a family boundary
		b := sc.Fams[rapid.IntRange(1, len(sc.Fams)-1).Draw(t, "boundary")]
		q.Start = b - int64(rapid.IntRange(0, 40*60).Draw(t, "before"))*1000
		q.End = b + int64(rapid.IntRange(0, 19*60).Draw(t, "after"))*1000
	case 14: // one hour .. one day across a family boundary
		b := sc.Fams[rapid.IntRange(1, len(sc.Fams)-1).Draw(t, "boundary")]
		q.Start = b - int64(rapid.IntRange(3600, 20*3600).Draw(t, "before"))*1000
		q.End = b + int64(rapid.IntRange(0, 3*3600).Draw(t, "after"))*1000
	case 15: // from inside one family to inside a later one
		i := rapid.IntRange(0, len(sc.Fams)-2).Draw(t, "fromFam")
		j := rapid.IntRange(i+1, len(sc.Fams)-1).Draw(t, "toFam")
		q.Start = familyEndIv(sc.S, sc.Fams[i]) + 1 - int64(rapid.IntRange(1, 30).Draw(t, "startSlots"))*sc.S
		q.End = sc.Fams[j] + int64(rapid.IntRange(0, 30).Draw(t, "endSlots"))*sc.S + 1000
	case 0, 1:
		q.Start, q.End = first, last
	case 2:
		q.Start = first - int64(rapid.IntRange(0, 3600).Draw(t, "before"))*1000
		q.End = last + int64(rapid.IntRange(0, 3600).Draw(t, "after"))*1000
	default:
		a := genTS(t, sc)/1000*1000 + int64(rapid.IntRange(-2, 2).Draw(t, "startOff"))*sc.S
		b := genTS(t, sc)/1000*1000 + int64(rapid.IntRange(-2, 2).Draw(t, "endOff"))*sc.S
		if a > b {
			a, b = b, a
		}
		q.Start, q.End = a, b
	}
	// group by time(multiple of the storage interval)
	if rapid.IntRange(0, 2).Draw(t, "ivKind") > 0 {
		mults := []int64{1, 2, 3, 6, 30, 360}
		if sc.Coarse {
			mults = []int64{1, 2, 3, 6, 12, 48}
		}
		q.UserIv = rapid.SampledFrom(mults).Draw(t, "ivMult") * sc.S
	}
	if richRoot != nil {
		setRichWhere(t, &q, richRoot, richFlat)
	}
	setExprItems(t, &q)
	return q
}

func genOps(t *rapid.T, sc schema) []opSpec {
	n := rapid.IntRange(3, 14).Draw(t, "nOps")
	ops := make([]opSpec, 0, n+3)
	wt := newWindowTracker(sc.S)
	written := map[string]map[string]bool{}
	// fields of a metric written into the current memory database of a family (family -> metric -> fields)
	curFields := map[int64]map[string]map[string]bool{}
	note := func(rows []rowSpec) []rowSpec {
		for _, r := range rows {
			name := sc.Metrics[r.M].Name
			if written[name] == nil {
				written[name] = map[string]bool{}
			}
			fam := familyOfIv(sc.S, r.TS)
			if curFields[fam] == nil {
				curFields[fam] = map[string]map[string]bool{}
			}
			if curFields[fam][name] == nil {
				curFields[fam][name] = map[string]bool{}
			}
			for _, fv := range r.Vals {
				written[name][fv.Field] = true
				curFields[fam][name][fv.Field] = true
			}
		}
		return rows
	}
	// noteFlush: the memory database of the family becomes a file
	fileCount := map[int64]int{}
	noteFlush := func(fam int64) {
		if len(curFields[fam]) > 0 {
			fileCount[fam]++
		}
		for name, fs := range curFields[fam] {
			if len(fs) == 1 {
				if written["\x00single"] == nil {
					written["\x00single"] = map[string]bool{}
				}
				written["\x00single"][name] = true // some file of the metric may hold a single field
			}
		}
		delete(curFields, fam)
	}
	noteFlushAll := func() {
		for _, f := range sc.Fams {
			noteFlush(f)
		}
	}
	// nextQuery: a new statement; in the rich test a quarter of the statements are earlier statements of
	// the history issued again (whatever was written, flushed or compacted in between)
	var asked []mQuery
	nextQuery := func() opSpec {
		if sc.Rich && len(asked) > 0 && rapid.IntRange(0, 3).Draw(t, "askAgain") == 0 {
			q := asked[rapid.IntRange(0, len(asked)-1).Draw(t, "askedStatement")]
			return opSpec{Kind: "query", Query: &q, SQL: q.sql(), Repeat: true, Again: true}
		}
		q := genQuery(t, sc, written)
		asked = append(asked, q)
		return opSpec{Kind: "query", Query: &q, SQL: q.sql(), Repeat: genRepeat(t, sc, q)}
	}
	firstRows := 8
	if sc.Rich {
		firstRows = 12
	}
	ops = append(ops, opSpec{Kind: "write", Rows: note(genRows(t, sc, firstRows, wt))})
	for i := 1; i < n; i++ {
		opKinds := 13
		if sc.Rich {
			opKinds = 17 // more statements: they share the atoms of the schema
		}
		k := rapid.IntRange(0, opKinds).Draw(t, "opKind")
		if k == 8 || k == 9 { // a compaction needs a family with >= 2 files, else flush something instead
			any := false
			for _, f := range sc.Fams {
				if fileCount[f] >= 2 {
					any = true
				}
			}
			if !any {
				k = 6
			}
		}
		switch {
		case k <= 4:
			ops = append(ops, opSpec{Kind: "write", Rows: note(genRows(t, sc, 6, wt))})
		case k == 5:
			ops = append(ops, opSpec{Kind: "flushDB"})
			wt.flushedAll()
			noteFlushAll()
		case k <= 7:
			op := opSpec{Kind: "flushFamily", Fam: rapid.IntRange(0, len(sc.Fams)-1).Draw(t, "flushFam")}
			ops = append(ops, op)
			wt.flushed(sc.Fams[op.Fam])
			noteFlush(sc.Fams[op.Fam])
		case k <= 9:
			var cands []int
			for i, f := range sc.Fams {
				if fileCount[f] >= 2 {
					cands = append(cands, i)
				}
			}
			fi := cands[rapid.IntRange(0, len(cands)-1).Draw(t, "compactFam")]
			ops = append(ops, opSpec{Kind: "compact", Fam: fi})
			fileCount[sc.Fams[fi]] = 1
		case k == 10:
			ops = append(ops, opSpec{Kind: "reopen"})
			wt.flushedAll()
			noteFlushAll()
		default:
			ops = append(ops, nextQuery())
		}
	}
	if ev.Known(sigFlushWedged) {
		hasReopen := false
		for _, op := range ops {
			if op.Kind == "reopen" {
				hasReopen = true
			}
		}
		if hasReopen {
			for i := range ops {
				if ops[i].Kind == "flushDB" {
					ops[i].Kind = "flushFamilies"
				}
			}
		}
	}
	nq := rapid.IntRange(1, 3).Draw(t, "nFinalQueries")
	for i := 0; i < nq; i++ {
		ops = append(ops, nextQuery())
	}
	return ops
}

// genRepeat: statements with a generated and/or tree are executed twice (always in the rich test, else half of them).
func genRepeat(t *rapid.T, sc schema, q mQuery) bool {
	if sc.Expr && q.hasExpr() {
		return rapid.Bool().Draw(t, "repeat")
	}
	if q.Where == nil {
		return false
	}
	return sc.Rich || rapid.Bool().Draw(t, "repeat")
}

func describe(sc schema, ops []opSpec, upto int) string {
	var b strings.Builder
	fmt.Fprintf(&b, "  storage interval %dms, families %v\n", sc.S, fmtTimes(sc.Fams))
	for _, md := range sc.Metrics {
		if len(md.Series) > 64 {
			fmt.Fprintf(&b, "  metric %s fields %v series %v ... %v (%d, created in this order)\n", md.Name, md.Fields, md.Series[:2], md.Series[len(md.Series)-1], len(md.Series))
		} else {
			fmt.Fprintf(&b, "  metric %s fields %v series %v\n", md.Name, md.Fields, md.Series)
		}
		if md.IDPlan != nil {
			fmt.Fprintf(&b, "         series ids in creation order %v\n", md.IDPlan)
		}
	}
	for i, op := range ops {
		if i > upto {
			break
		}
		switch op.Kind {
		case "write":
			fmt.Fprintf(&b, "  %2d write\n", i)
			for ri, r := range op.Rows {
				if len(op.Rows) > 64 && ri >= 3 && ri < len(op.Rows)-2 {
					if ri == 3 {
						fmt.Fprintf(&b, "       ... %d rows in all ...\n", len(op.Rows))
					}
					continue
				}
				fmt.Fprintf(&b, "       %s %v @%s (%d) %v", sc.Metrics[r.M].Name, sc.Metrics[r.M].Series[r.S], timeOf(r.TS).Format("2006-01-02 15:04:05.000"), r.TS, r.Vals)
				if r.Hist != nil {
					fmt.Fprintf(&b, " histogram %+v", *r.Hist)
				}
				b.WriteByte('\n')
			}
		case "flushFamily", "compact":
			fmt.Fprintf(&b, "  %2d %s %s\n", i, op.Kind, fmtTime(sc.Fams[op.Fam]))
		case "query":
			fmt.Fprintf(&b, "  %2d query %s\n", i, op.SQL)
		default:
			fmt.Fprintf(&b, "  %2d %s\n", i, op.Kind)
		}
	}
	return b.String()
}

func canon(v ...any) string {
	b, err := json.Marshal(v)
	if err != nil {
		panic(err)
	}
	return string(b)
}

func fmtTimes(ts []int64) []string {
	out := make([]string, len(ts))
	for i, x := range ts {
		out[i] = fmtTime(x)
	}
	return out
}

// runHistory applies the operations and checks every query.
func runHistory(t failer, sc schema, ops []opSpec) (classes []string, nonTrivial bool) {
	e, err := newEnv(sc.S)
	if err != nil {
		t.Fatalf("harness: %v", err)
	}
	defer e.close()
	seen := map[string]bool{}
	for i, op := range ops {
		hist := func() string { return "  history:\n" + describe(sc, ops, i) }
		if os.Getenv("C11_DEBUG") != "" {
			t0, kind := time.Now(), op.Kind
			defer func() {
				if d := time.Since(t0); d > 50*time.Millisecond {
					fmt.Printf("SLOW OP %s %v\n", kind, d)
				}
			}()
		}
		switch op.Kind {
		case "write":
			if err := e.write(sc.Metrics, op.Rows); err != nil {
				t.Fatalf("write rejected: %v\n%s", err, hist())
			}
		case "flushDB":
			if err := e.flushDB(); err != nil {
				t.Fatalf("flush failed: %v\n%s", err, hist())
			}
		case "flushFamily":
			if err := e.flushFamily(sc.Fams[op.Fam]); err != nil {
				t.Fatalf("flush failed: %v\n%s", err, hist())
			}
		case "flushFamilies":
			for _, f := range sc.Fams {
				if err := e.flushFamily(f); err != nil {
					t.Fatalf("flush failed: %v\n%s", err, hist())
				}
			}
		case "compact":
			if _, err := e.compact(sc.Fams[op.Fam]); err != nil {
				t.Fatalf("compaction failed: %v\n%s", err, hist())
			}
		case "reopen":
			if err := e.reopen(); err != nil {
				t.Fatalf("reopen failed: %v\n%s", err, hist())
			}
		case "query":
			cls, nt := e.checkQuery(t, *op.Query, hist)
			if op.Repeat {
				cls = append(cls, e.checkRepeated(t, *op.Query, cls, hist)...)
			}
			if op.Again {
				cls = append(cls, "repeat:earlier-statement-issued-again-later-in-the-history")
			}
			for _, c := range cls {
				if !seen[c] {
					seen[c] = true
					classes = append(classes, c)
				}
			}
			if sc.Expr { // non-trivial rule of TestQueryModelExpressions (classExprNT), on top of the rule of the package
				has := false
				for _, c := range cls {
					if c == classExprNT {
						has = true
					}
				}
				nt = nt && has
			}
			if nt {
				nonTrivial = true
			}
		}
	}
	sort.Strings(classes)
	return classes, nonTrivial
}

// TestQueryModel: generated write/flush/compact/reopen histories with queries anywhere; every answer
// must equal the model.
func TestQueryModel(t *testing.T) {
	rapid.Check(t, func(t *rapid.T) {
		sc := genSchema(t)
		ops := genOps(t, sc)
		classes, nt := runHistory(t, sc, ops)
		ev.Case("TestQueryModel", canon(sc, ops), nt, classes, map[string]any{"schema": sc, "ops": ops})
	})
}
