//go:build race

package c11

// raceEnabled: the binary was built with -race.
const raceEnabled = true
