package c16

// TestInfluxEscapes: the line-protocol form of a metric whose measurement, tag keys, tag values
// and field keys carry backslashes in every position that matters to a tokenizer.
//
// What a client may write is taken from the line protocol reference ("Special characters": in
// a measurement escape comma and space, in tag keys / tag values / field keys escape comma,
// equals sign and space, each with ONE backslash; a backslash itself is a literal character and
// is not escaped) - that is the escaper escInflux. The dialect of lindb (parser.go doc comments
// and its in-tree cases `cpu\\\,\ a` -> `cpu\\, a`, `regions=eas\t`, `\a=1`): a separator is
// escaped iff an odd number of backslashes stands directly before it; unescaping removes the
// one backslash before an escaped special character and nothing else.
//
// Generated literal tokens (per token kind): segments of plain text, special characters, and
// runs of 1-4 backslashes directly before ',' / ' ' / '=' / an ordinary character / the end of
// the token; tokens that start with a special character or a run. On the wire this gives runs
// of 1..5 backslashes before every separator kind and before the structural separator that ends
// the token. Two shapes cannot be carried by the dialect and are repaired before sending
// (dialectRepair, counted as excluded_out_of_scope_*): an odd literal run directly before a
// special character, an odd literal run at the end of a token.
//
// Field keys: with a recognised type suffix (one abstract field) or without (documented mapping:
// the key stands for <key>_sum (delta sum) and <key>_last (last) - such a key may END in a run).
//
// Oracle: (1) the parsed row equals the sent metric (model `expect`: name, canonical tags, fields,
// hashes), for 2-3 tag orders of the same line and with other escape-rich lines before / after it
// in the request; all orders give the same acceptance and the same row; (2) the protobuf
// rendering of the same abstract metric gives the same series identity and content.

import (
	"fmt"
	"sort"
	"strconv"
	"strings"
	"testing"
	"time"

	"pgregory.net/rapid"

	"github.com/lindb/lindb/verifharness/sim/ev"
)

const (
	kName = iota
	kTagKey
	kTagVal
	kFieldKey
)

var kindName = [...]string{"name", "tagkey", "tagval", "fieldkey"}

func specialsOf(kind int) string {
	if kind == kName {
		return lpNameSpecials
	}
	return lpKeySpecials
}

var (
	escPlain    = []string{"a", "b", "cpu", "host", "x1", "é", "日", "C:", "srv", "-", "_", ".", "/", "|", "dir", "Z"}
	escOrdinary = []string{"n", "t", "x", "é", "0", "/", "_", "'"} // characters with no meaning in the line protocol
)

// genEscToken draws a literal token (what the client means) for the given token kind.
func genEscToken(t *rapid.T, label string) string {
	var b strings.Builder
	run := func() { b.WriteString(strings.Repeat(`\`, rapid.IntRange(1, 4).Draw(t, label+"Run"))) }
	special := func() { b.WriteString(rapid.SampledFrom([]string{",", " ", "="}).Draw(t, label+"Special")) }
	n := rapid.IntRange(1, 4).Draw(t, label+"Segs")
	for i := 0; i < n; i++ {
		switch rapid.IntRange(0, 7).Draw(t, label+"Seg") {
		case 0, 1:
			b.WriteString(rapid.SampledFrom(escPlain).Draw(t, label+"Plain"))
		case 2:
			special() // an escaped separator, no literal backslash before it
		case 3, 4, 5:
			run()
			special()
		default:
			run()
			b.WriteString(rapid.SampledFrom(escOrdinary).Draw(t, label+"Ordinary"))
		}
	}
	if rapid.IntRange(0, 2).Draw(t, label+"EndRun") == 0 {
		run() // the token ends in backslashes
	}
	return b.String()
}

// wireRunClasses labels every run of backslashes of the WIRE token by its length and by what
// follows it: esc:<kind>:<n>bs+comma|space|equal|other|end.
func wireRunClasses(kind int, wire string, into map[string]bool) (sensitive bool) {
	run := 0
	emit := func(follower string) {
		if run == 0 {
			return
		}
		n := strconv.Itoa(run)
		if run >= 5 {
			n = "5+"
		}
		into["esc:"+kindName[kind]+":"+n+"bs+"+follower] = true
		if run >= 2 && follower != "other" {
			sensitive = true // parity decides
		}
	}
	for i := 0; i < len(wire); i++ {
		c := wire[i]
		if c == '\\' {
			run++
			continue
		}
		switch c {
		case ',':
			emit("comma")
		case ' ':
			emit("space")
		case '=':
			emit("equal")
		default:
			emit("other")
		}
		run = 0
	}
	emit("end")
	return sensitive
}

// ---- a line ------------------------------------------------------------------------------------

type lpField struct {
	Key   string // literal key as the client means it
	Bare  bool   // no type suffix: the key stands for <key>_sum and <key>_last
	Type  int
	Value float64
}

type lpLine struct {
	Name   string
	Tags   []kv
	Fields []lpField
	TS     int64  // what the client means, in milliseconds
	Unit   string // the unit the client writes it in ("" = ms)
	tsKey  string // the draws behind TS (clock independent; identifies the case)
}

// wire writes the line with the documented escapes.
func (l *lpLine) wire() string {
	var b strings.Builder
	b.WriteString(escInflux(l.Name, lpNameSpecials))
	for _, t := range l.Tags {
		b.WriteByte(',')
		b.WriteString(escInflux(t.K, lpKeySpecials))
		b.WriteByte('=')
		b.WriteString(escInflux(t.V, lpKeySpecials))
	}
	b.WriteByte(' ')
	for i, f := range l.Fields {
		if i > 0 {
			b.WriteByte(',')
		}
		b.WriteString(escInflux(f.Key, lpKeySpecials))
		b.WriteByte('=')
		b.WriteString(strconv.FormatFloat(f.Value, 'g', -1, 64))
	}
	b.WriteByte(' ')
	b.WriteString(strconv.FormatInt(tsInUnit(l.TS, l.Unit), 10))
	return b.String()
}

// body is the line without its timestamp (clock independent).
func (l *lpLine) body() string {
	w := l.wire()
	return w[:strings.LastIndexByte(w, ' ')]
}

// meaning is the abstract metric the line is documented to mean.
func (l *lpLine) meaning(withWire bool) *am {
	m := &am{Name: l.Name, TS: l.TS, Tags: append([]kv{}, l.Tags...)}
	for _, f := range l.Fields {
		if f.Bare {
			m.Fields = append(m.Fields, sfield{f.Key + "_sum", tDeltaSum, f.Value}, sfield{f.Key + "_last", tLast, f.Value})
		} else {
			m.Fields = append(m.Fields, sfield{f.Key, f.Type, f.Value})
		}
	}
	if withWire {
		m.Wire = l.wire()
	}
	return m
}

func genEscLine(t *rapid.T, group string, rc *reqCtx, now int64, classes map[string]bool) (*lpLine, bool) {
	sensitive := false
	tok := func(kind int, label string) string {
		s := dialectRepair(group, genEscToken(t, label), specialsOf(kind))
		return s
	}
	note := func(kind int, literal string) {
		if wireRunClasses(kind, escInflux(literal, specialsOf(kind)), classes) {
			sensitive = true
		}
	}
	// the latest timestamps the request's unit can express: now +- 1 minute cut to the unit, and
	// for the coarse units (minute, hour) up to two units back
	l := &lpLine{Unit: rc.Unit}
	off, back := rapid.Int64Range(-msMinute, msMinute).Draw(t, "tsOffset"), int64(rapid.IntRange(0, 2).Draw(t, "tsUnitsBack"))
	l.TS, l.tsKey = now+off, fmt.Sprint(off)
	if u := unitMs[rc.Unit]; u > 1 {
		if u < msMinute {
			back = 0
		}
		l.TS = ((now+off)/u - back) * u
		l.tsKey = fmt.Sprintf("%s:%d:-%d", rc.Unit, off, back)
	}
	l.Name = tok(kName, "name")
	if l.Name[0] == '#' {
		l.Name = "h" + l.Name // a line starting with '#' is a comment
	}
	nTags := rapid.SampledFrom([]int{0, 1, 2, 2, 3, 3, 4, 6}).Draw(t, "nTags")
	for i := 0; i < nTags; i++ {
		k := tok(kTagKey, "tagK")
		if len(l.Tags) > 0 && rapid.IntRange(0, 9).Draw(t, "dupKey") == 0 {
			k = l.Tags[rapid.IntRange(0, len(l.Tags)-1).Draw(t, "dupOf")].K // a repeated key: the last value wins
		}
		l.Tags = append(l.Tags, kv{k, tok(kTagVal, "tagV")})
	}
	// the influx path has no tag-count check at the broker: never send more than the limit
	if max := rc.Limits.MaxTagsPerMetric; max > 0 {
		for len(l.Tags) > 0 && len(canonTags(l.Tags))+len(rc.Enriched) > max {
			l.Tags = l.Tags[:len(l.Tags)-1]
		}
	}
	nFields := rapid.SampledFrom([]int{1, 1, 2, 3}).Draw(t, "nFields")
	if len(l.Tags) == 0 && nFields > 1 {
		nFields = 1 // (a line without tags and with >= 2 fields is refused by lindb: out of scope, see DESIGN 7.4)
		ev.Class(group, "excluded_out_of_scope_influx_no_tags_multi_field", 1)
	}
	for i := 0; i < nFields; i++ {
		f := lpField{Value: float64(rapid.IntRange(-1000, 1000).Draw(t, "fVal")) / 8}
		key := genEscToken(t, "fieldK")
		switch rapid.IntRange(0, 3).Draw(t, "fKind") {
		case 0: // no suffix: two abstract fields
			f.Bare = true
		case 1:
			key, f.Type = key+"_last", tLast
		case 2:
			key, f.Type = key+"_sum", tDeltaSum
		default:
			key, f.Type = key+"_first", tFirst
		}
		key = dialectRepair(group, key, lpKeySpecials)
		if f.Bare {
			if strings.TrimSpace(key) == "" {
				key = "f" + key // a blank key is a malformed field
			}
			if typ := influxTypeOf(key); typ >= 0 { // ends in last / first / sum by accident
				f.Bare, f.Type = false, typ
			}
		}
		f.Key = key
		l.Fields = append(l.Fields, f)
		if f.Bare {
			classes["field-key-without-suffix(two-fields)"] = true
		}
	}
	note(kName, l.Name)
	for _, tg := range l.Tags {
		note(kTagKey, tg.K)
		note(kTagVal, tg.V)
	}
	for _, f := range l.Fields {
		note(kFieldKey, f.Key)
	}
	return l, sensitive
}

// genEscPrecision draws how the request tells the unit of its timestamps: the precision parameter
// of the write API (ns us ms s m h, case-insensitive), or no parameter at all - then the parser is
// documented to guess the unit from the magnitude ("guesses the real timestamp precision": ms,
// ns, us, minutes, hours; seconds are not among the guessed units, so a client that counts in
// seconds has to say so). Either way the stored timestamp must be the one the client sent.
func genEscPrecision(t *rapid.T, rc *reqCtx) (class string) {
	if rapid.IntRange(0, 2).Draw(t, "precisionGiven") == 0 {
		rc.PrecAbsent, rc.Prec = true, ""
		rc.Unit = rapid.SampledFrom([]string{"ms", "ns", "us", "m", "h"}).Draw(t, "clientUnit")
		return "precision=absent,client-writes-" + rc.Unit
	}
	rc.PrecAbsent = false
	rc.Unit = rapid.SampledFrom([]string{"ns", "us", "ms", "s", "m", "h"}).Draw(t, "precisionUnit")
	rc.Prec = genLetterCase(t, rc.Unit, "precisionCase")
	if rc.Prec != rc.Unit {
		return "precision=" + rc.Unit + ",not-lower-case"
	}
	return "precision=" + rc.Unit
}

func TestInfluxEscapes(t *testing.T) {
	const group = "TestInfluxEscapes"
	rapid.Check(t, func(t *rapid.T) {
		defer isolatePool()()
		now := time.Now().UnixMilli()
		caseNow = now
		rc, custom := genReqCtx(t)
		if custom && rapid.Bool().Draw(t, "defaultLimitsAnyway") {
			rc, custom = &reqCtx{NS: rc.NS, Enriched: nil, Limits: defaultCtx().Limits}, false
		}
		classes := map[string]bool{}
		classes[genEscPrecision(t, rc)] = true
		target, sensitive := genEscLine(t, group, rc, now, classes)
		if len(target.Tags)+len(rc.Enriched) > 12 {
			rc.Enriched = nil // (keeps clear of the unstable de-duplication beyond 12 tags, a recorded finding)
		}
		want, why := expect(target.meaning(false), rc, fInflux)

		// (1) 2-3 orders of the tags, each inside its own request with other lines around it
		orders := rapid.IntRange(2, 3).Draw(t, "orders")
		var rows []string
		for o := 0; o < orders; o++ {
			variant := *target
			if o > 0 {
				variant.Tags = permuteKeepingDuplicateOrder(t, target.Tags, "perm")
			}
			nb := rapid.IntRange(0, 2).Draw(t, "before")
			na := rapid.IntRange(0, 2).Draw(t, "after")
			var ms []*am
			pos := 0
			scratch := map[string]bool{}
			for i := 0; i < nb+na+1; i++ {
				if i == nb {
					ms = append(ms, variant.meaning(true))
					continue
				}
				nbLine, _ := genEscLine(t, group, rc, now, scratch)
				m := nbLine.meaning(true)
				if i < nb {
					if c, _ := expect(m, rc, fInflux); c != nil {
						pos++
					}
				}
				ms = append(ms, m)
			}
			batch, acc, _ := ingest(t, fInflux, ms, make([]bool, len(ms)), genJunk(t, len(ms)), rc)
			got := "<rejected>"
			if want != nil {
				if batch == nil || pos >= batch.Len() || acc[pos].c.String() != want.String() {
					t.Fatalf("harness: target row not at position %d", pos)
				}
				got = readBrokerRow(&batch.Rows()[pos]).String()
			}
			if batch != nil {
				batch.Release()
			}
			rows = append(rows, got)
			if got != rows[0] {
				t.Fatalf("the same line with its tags in another order is stored differently\n  line 0: %s\n  row  0: %s\n  line %d: %s\n  row  %d: %s",
					target.wire(), rows[0], o, variant.wire(), o, got)
			}
		}

		// (2) the protobuf rendering of the same metric
		pm := target.meaning(false)
		pwant, _ := expect(pm, rc, fProto)
		pbatch, _, _ := ingest(t, fProto, []*am{pm}, []bool{false}, genJunk(t, 1), rc)
		if pwant != nil && want != nil {
			prow := readBrokerRow(&pbatch.Rows()[0])
			if prow.TagsHash != want.TagsHash || prow.String() != rows[0] {
				t.Fatalf("line protocol and protobuf disagree on the same metric\n  line   %s\n  influx %s\n  proto  %s", target.wire(), rows[0], prow)
			}
			classes["compared-with-proto"] = true
		}
		if pbatch != nil {
			pbatch.Release()
		}

		if want != nil {
			classes["accepted"] = true
		} else {
			classes["rejected:"+why] = true
		}
		if custom {
			classes["limits=custom"] = true
		}
		if hasDupKeys(target.Tags) {
			classes["dup-tag-keys"] = true
		}
		if len(target.Tags) == 0 {
			classes["no-tags"] = true
		}
		if sensitive {
			classes["wire-run>=2-before-separator-or-end"] = true
		}
		var cl []string
		for c := range classes {
			cl = append(cl, c)
		}
		sort.Strings(cl)
		// non-trivial: accepted, a run of >= 2 backslashes on the wire directly before a separator
		// character or the end of a token (where the parity decides), and >= 2 tags (an order exists)
		nt := want != nil && sensitive && len(canonTags(target.Tags)) >= 2
		ev.Case(group, fmt.Sprintf("%s|%s|%q|%v|%q|%v|%v|%v", target.body(), target.tsKey, rc.NS, rc.Enriched, rc.Prec, rc.PrecAbsent, rc.Unit, *rc.Limits), nt, cl,
			map[string]any{"line": target.wire(), "precision": rc.Prec, "precision_absent": rc.PrecAbsent, "accepted": want != nil, "row": rows[0]})
	})
}
