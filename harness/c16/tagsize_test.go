package c16

// TestTagSetSizes: series whose SIZE sits on the boundaries the ingestion code has: the default
// limits (tag key 128 B, tag value 1024 B, 32 tags, metric name 256 B, field name 128 B; one
// more = refused), the internal buffer sizes a tag set is copied through on its way to the
// series identity (256 B stack buffer and pooled slices of series/tag, 512 / 1024 / 1536 B flat
// builders, 2048 / 4096 / 8192 B growth steps), a single key=value pair at / above such a size,
// and the largest legal tag set (32 x (128 + 1024) B). Every such series is sent in every format
// that can carry it, together with a twin that differs from it in ONE byte (at the start, at the
// end, or at a buffer-size offset of the sorted "k=v,k=v" string), a re-ordered copy of itself,
// short series and optionally a second sized series (a pooled buffer that was longer / shorter
// is reused). Oracle: the per-row model comparison of ingest (TagsHash = independently computed
// xxhash of the sorted k=v string, tags, name hash), the routing oracle of route (shard = jump
// hash, storage view of the written bytes), and across the requests of a case: one tag set has
// one identity in every format, two different tag sets never share one.

import (
	"fmt"
	"sort"
	"strings"
	"testing"
	"time"

	"pgregory.net/rapid"

	"github.com/lindb/lindb/models"
	"github.com/lindb/lindb/verifharness/sim/ev"
)

const sizeAlphabet = "abcdefghijklmnopqrstuvwxyz0123456789-_."

// bufferSizes: sizes of the fixed / pooled / initial buffers on the tag-set path.
var bufferSizes = []int{256, 512, 1024, 1536, 2048, 4096, 8192}

// sizedText returns a text of exactly n bytes (n >= 1). style 0/1: ASCII; 2: with 2- and 3-byte
// runes; 3: additionally the characters the line protocol has to escape, never first or last.
func sizedText(n, style, seed int) string {
	var b strings.Builder
	b.Grow(n)
	i := seed
	for b.Len() < n {
		rest := n - b.Len()
		switch {
		case style >= 2 && rest >= 3 && i%7 == 0:
			b.WriteString("日")
		case style >= 2 && rest >= 2 && i%5 == 0:
			b.WriteString("é")
		case style == 3 && i%11 == 3 && b.Len() > 0 && rest > 1:
			b.WriteByte(", ="[i%3])
		default:
			b.WriteByte(sizeAlphabet[i%len(sizeAlphabet)])
		}
		i += 1 + style%2*2
	}
	return b.String()
}

func genSizedText(t *rapid.T, label string, n int) string {
	if n < 1 {
		n = 1
	}
	return sizedText(n, rapid.IntRange(0, 3).Draw(t, label+"Style"), rapid.IntRange(0, 1000).Draw(t, label+"Seed"))
}

// concatLen: length of the sorted "k=v,k=v" string of a tag set without repeated keys.
func concatLen(tags []kv) int {
	n := 0
	for _, t := range tags {
		n += len(t.K) + len(t.V) + 2
	}
	if n > 0 {
		n--
	}
	return n
}

type pairLen struct{ k, v int }

// splitSizes distributes payload bytes over n pairs, 1 <= k <= kmax, 1 <= v <= vmax.
func splitSizes(t *rapid.T, payload, n, kmax, vmax int) []pairLen {
	out := make([]pairLen, n)
	for i := range out {
		out[i] = pairLen{1, 1}
	}
	rest := payload - 2*n
	for round := 0; rest > 0 && round < 4; round++ {
		for i := 0; i < n && rest > 0; i++ {
			if room := kmax - out[i].k; room > 0 && rapid.IntRange(0, 2).Draw(t, "growKey") == 0 {
				g := rapid.IntRange(0, min(room, rest)).Draw(t, "kGrow")
				out[i].k += g
				rest -= g
			}
			if room := vmax - out[i].v; room > 0 && rest > 0 {
				hi := min(room, rest)
				g := hi
				if round < 3 && i < n-1 {
					g = rapid.IntRange(0, hi).Draw(t, "vGrow")
				}
				out[i].v += g
				rest -= g
			}
		}
	}
	for i := 0; i < n && rest > 0; i++ { // whatever is left: fill up greedily
		g := min(vmax-out[i].v, rest)
		out[i].v += g
		rest -= g
		g = min(kmax-out[i].k, rest)
		out[i].k += g
		rest -= g
	}
	return out
}

type sizedSeries struct {
	tags  []kv
	shape string
	cls   []string
}

// genSizedSeries draws one series by its size shape. kmax / vmax / maxTags are the lengths that
// are still legal (the limits, or generous stand-ins when the limits are disabled); extra is
// what the enriched tags of the request add to the sorted string (incl. their separators).
func genSizedSeries(t *rapid.T, label string, l *models.Limits, nEnriched, extra int, allowOver bool) *sizedSeries {
	kmax, vmax, maxTags := l.MaxTagNameLength, l.MaxTagValueLength, l.MaxTagsPerMetric
	if kmax == 0 {
		kmax = 300
	}
	if vmax == 0 {
		vmax = 3000
	}
	if maxTags == 0 {
		maxTags = 40
	}
	maxTags -= nEnriched
	s := &sizedSeries{}
	var lens []pairLen
	near := func(lbl string, top int) int { // top, or a little below it
		d := rapid.SampledFrom([]int{0, 0, 0, 1, 1, 2, 3, 4, 5, 6, 7, 8, 16, 40}).Draw(t, label+lbl)
		if top-d < 1 {
			return top
		}
		return top - d
	}
	sortedKeys := false
	switch shape := rapid.SampledFrom([]string{"one-long-value", "one-long-value", "one-long-key", "total-at-buffer-size", "total-at-buffer-size",
		"pair-across-buffer-size", "pair-across-buffer-size", "all-at-limits", "over-limit", "short"}).Draw(t, label+"Shape"); shape {
	case "one-long-value":
		s.shape = shape
		lens = append(lens, pairLen{rapid.SampledFrom([]int{1, 2, 3, 4, 4, 5, 8, 30, kmax}).Draw(t, label+"KLen"), near("VLen", vmax)})
		for i := rapid.IntRange(0, 3).Draw(t, label+"Others"); i > 0; i-- {
			lens = append(lens, pairLen{rapid.IntRange(1, 10).Draw(t, label+"oK"), rapid.IntRange(1, 20).Draw(t, label+"oV")})
		}
	case "one-long-key":
		s.shape = shape
		v := rapid.SampledFrom([]int{1, 5, 100, 127, 128, 1024 - kmax - 2, 1024 - kmax, vmax}).Draw(t, label+"VLen")
		if v < 1 || v > vmax {
			v = 1
		}
		lens = append(lens, pairLen{near("KLen", kmax), v})
		for i := rapid.IntRange(0, 3).Draw(t, label+"Others"); i > 0; i-- {
			lens = append(lens, pairLen{near("oK", kmax), rapid.IntRange(1, 20).Draw(t, label+"oV")})
		}
	case "total-at-buffer-size":
		s.shape = shape
		size := rapid.SampledFrom(bufferSizes).Draw(t, label+"Buffer")
		d := rapid.IntRange(-3, 3).Draw(t, label+"Delta")
		total := size + d - extra
		// n pairs take payload + 2n - 1 bytes
		lo := (total + 1 + kmax + vmax + 1) / (kmax + vmax + 2)
		hi := min(maxTags, (total+1)/4)
		if lo < 1 {
			lo = 1
		}
		if hi < lo {
			lens = []pairLen{{3, 5}}
			s.shape = "short"
			break
		}
		n := rapid.IntRange(lo, min(hi, lo+rapid.SampledFrom([]int{0, 1, 3, 8, 31}).Draw(t, label+"Spread"))).Draw(t, label+"N")
		lens = splitSizes(t, total+1-2*n, n, kmax, vmax)
		s.cls = append(s.cls, fmt.Sprintf("total=%d%+d", size, d))
	case "pair-across-buffer-size":
		// pairs in sorted order: a prefix ending r bytes before a buffer size, then one long pair
		s.shape = shape
		sortedKeys = true
		size := rapid.SampledFrom(bufferSizes[:6]).Draw(t, label+"Buffer")
		r := rapid.SampledFrom([]int{0, 1, 2, 3, 10, 40, 100, 200}).Draw(t, label+"Before")
		prefix := size - r - extra - 1 // bytes before the long pair, incl. its leading comma
		if lo, hi := (prefix+kmax+vmax+1)/(kmax+vmax+2), min(maxTags-1, prefix/4); prefix >= 4 && lo >= 1 && hi >= lo {
			n := rapid.IntRange(lo, min(hi, lo+3)).Draw(t, label+"NPrefix")
			lens = splitSizes(t, prefix-2*n, n, kmax, vmax)
		}
		lens = append(lens, pairLen{rapid.SampledFrom([]int{1, 4, 20, kmax}).Draw(t, label+"KLen"),
			rapid.SampledFrom([]int{60, 250, 254, 500, 1000, 1018, 1019, 1020, 1021, 1022, 1023, 1024}).Draw(t, label+"VLen")})
		if lens[len(lens)-1].v > vmax {
			lens[len(lens)-1].v = vmax
		}
		for i := rapid.IntRange(0, 2).Draw(t, label+"Suffix"); i > 0 && len(lens) < maxTags; i-- {
			lens = append(lens, pairLen{rapid.IntRange(1, 10).Draw(t, label+"sK"), rapid.IntRange(1, 300).Draw(t, label+"sV")})
		}
	case "all-at-limits":
		s.shape = shape
		n := maxTags - rapid.SampledFrom([]int{0, 0, 1, 2, 20}).Draw(t, label+"Fewer")
		if n < 1 {
			n = 1
		}
		for i := 0; i < n; i++ {
			lens = append(lens, pairLen{near("KLen", kmax), near("VLen", vmax)})
		}
	case "over-limit":
		if !allowOver || l.MaxTagValueLength == 0 {
			s.shape = "short"
			lens = []pairLen{{4, 6}, {2, 9}}
			break
		}
		s.shape = shape
		switch what := rapid.SampledFrom([]string{"value", "value", "key", "tags"}).Draw(t, label+"Over"); what {
		case "value":
			lens = append(lens, pairLen{rapid.IntRange(1, 8).Draw(t, label+"KLen"), vmax + rapid.SampledFrom([]int{1, 1, 2, 100}).Draw(t, label+"By")})
		case "key":
			lens = append(lens, pairLen{kmax + rapid.SampledFrom([]int{1, 1, 2, 100}).Draw(t, label+"By"), rapid.IntRange(1, 8).Draw(t, label+"VLen")})
		case "tags":
			for i := 0; i < maxTags+1; i++ {
				lens = append(lens, pairLen{rapid.IntRange(1, 6).Draw(t, label+"oK"), rapid.IntRange(1, 6).Draw(t, label+"oV")})
			}
		}
		s.cls = append(s.cls, "over-limit:"+fmt.Sprint(len(lens) > 1))
	default:
		s.shape = "short"
		for i := rapid.IntRange(1, 4).Draw(t, label+"N"); i > 0; i-- {
			lens = append(lens, pairLen{rapid.IntRange(1, 10).Draw(t, label+"oK"), rapid.IntRange(1, 20).Draw(t, label+"oV")})
		}
	}
	// unique keys: the first byte of every key is distinct (ascending when the shape fixes the
	// sorted order, else drawn)
	first := rapid.Permutation([]byte(sizeAlphabet[:36])).Draw(t, label+"KeyHeads")
	for len(first) < len(lens) {
		first = append(first, "ABCDEFGHIJKLMNOP"[len(first)-36])
	}
	first = first[:len(lens)]
	if sortedKeys {
		sort.Slice(first, func(i, j int) bool { return first[i] < first[j] })
	}
	style := rapid.IntRange(0, 3).Draw(t, label+"Style")
	seed := rapid.IntRange(0, 1000).Draw(t, label+"Seed")
	for i, pl := range lens {
		k := string(first[i])
		if pl.k > 1 {
			k += sizedText(pl.k-1, style, seed+i)
		}
		s.tags = append(s.tags, kv{k, sizedText(pl.v, style, seed+31*i+7)})
	}
	if style >= 2 {
		s.cls = append(s.cls, "multi-byte-runes")
	}
	return s
}

// twinOf returns a copy of tags that differs in exactly one byte, chosen by a position in the
// sorted "k=v,k=v" string of all (own + enriched) tags.
func twinOf(t *rapid.T, tags, enriched []kv) ([]kv, string) {
	if len(tags) == 0 {
		return nil, ""
	}
	own := map[string]int{}
	for i, tg := range tags {
		own[tg.K] = i
	}
	all := canonTags(append(append([]kv{}, tags...), enriched...))
	total := concatLen(all)
	cands := []int{0, total - 1, total - 2, total / 2}
	names := []string{"first", "last", "last-but-one", "middle"}
	for _, b := range bufferSizes {
		for _, d := range []int{-1, 0} {
			if b+d < total-2 {
				cands = append(cands, b+d)
				names = append(names, fmt.Sprintf("offset=%d%+d", b, d))
			}
		}
	}
	pick := rapid.IntRange(0, len(cands)-1).Draw(t, "twinAt")
	target := cands[pick]
	if target < 0 {
		target = 0
	}
	// token (key or value of an own tag) at or after the offset; else the last own value
	off := 0
	ti, inKey, pos := -1, false, 0
	for _, tg := range all {
		kEnd := off + len(tg.K)
		vEnd := kEnd + 1 + len(tg.V)
		if i, ok := own[tg.K]; ok && ti < 0 {
			switch {
			case target < kEnd:
				ti, inKey, pos = i, true, max(target-off, 0)
			case target < vEnd:
				ti, inKey, pos = i, false, max(target-kEnd-1, 0)
			}
		}
		off = vEnd + 1
	}
	if ti < 0 {
		ti, inKey, pos = len(tags)-1, false, len(tags[len(tags)-1].V)-1
	}
	if inKey && pos == 0 {
		// the first byte of a key is what keeps the keys of a series distinct
		inKey, pos = false, 0
	}
	tok := tags[ti].V
	if inKey {
		tok = tags[ti].K
	}
	// an ASCII letter / digit at or near the position (runes and escaped characters stay whole)
	at := -1
	for d := 0; d < len(tok) && at < 0; d++ {
		for _, p := range []int{pos + d, pos - d} {
			if p >= 0 && p < len(tok) && (inKey && p == 0) == false && strings.IndexByte(sizeAlphabet, tok[p]) >= 0 {
				at = p
				break
			}
		}
	}
	if at < 0 {
		return nil, ""
	}
	repl := byte('Q')
	if tok[at] == repl {
		repl = 'W'
	}
	ntok := tok[:at] + string(repl) + tok[at+1:]
	out := append([]kv{}, tags...)
	cls := "twin:" + names[pick]
	if inKey {
		out[ti].K = ntok
		cls += ":key"
	} else {
		out[ti].V = ntok
		cls += ":value"
	}
	return out, cls
}

func sizeBucket(n int) string {
	switch {
	case n <= 256:
		return "<=256"
	case n <= 512:
		return "257-512"
	case n <= 1024:
		return "513-1024"
	case n <= 1536:
		return "1025-1536"
	case n <= 4096:
		return "1537-4096"
	case n <= 10240:
		return "4097-10240"
	}
	return ">10240"
}

func tagSetKey(tags []kv) string {
	var b strings.Builder
	for _, tg := range tags {
		fmt.Fprintf(&b, "%d:%s=%d:%s,", len(tg.K), tg.K, len(tg.V), tg.V)
	}
	return b.String()
}

func TestTagSetSizes(t *testing.T) {
	const group = "TestTagSetSizes"
	rapid.Check(t, func(t *rapid.T) {
		defer isolatePool()()
		now := time.Now().UnixMilli()
		caseNow = now
		db := genDB(t)

		// limits: the defaults, or every limit disabled (documented: 0 = no limit)
		l := models.NewDefaultLimits()
		limitsClass := "limits=default"
		if rapid.IntRange(0, 5).Draw(t, "limitsOff") == 0 {
			l = &models.Limits{}
			limitsClass = "limits=disabled"
		}
		rc := &reqCtx{Limits: l, NS: rapid.SampledFrom(nsPool).Draw(t, "reqNS"), Unit: "ms", Prec: "ms"}
		excludeKnown(group, rc, true)
		switch rapid.IntRange(0, 5).Draw(t, "enriched") {
		case 0:
			rc.Enriched = []kv{{"~zone", "nj"}} // sorts behind every own key
		case 1:
			rc.Enriched = []kv{{"!env", genSizedText(t, "enrichedV", rapid.SampledFrom([]int{3, 200, 1000, 1024}).Draw(t, "enrichedVLen"))}} // sorts in front
		}
		extra := 0
		for _, e := range rc.Enriched {
			extra += len(e.K) + len(e.V) + 2
		}

		classes := map[string]bool{limitsClass: true}
		mkMetric := func(label string, tags []kv, i int) *am {
			m := &am{TS: now - int64(i), Tags: tags}
			switch rapid.IntRange(0, 19).Draw(t, label+"Name") {
			case 7, 12: // (rapid favours the ends of a range: the common shape sits there)
				m.Name = genSizedText(t, label+"NameText", rapid.IntRange(250, 256).Draw(t, label+"NameLen"))
				classes[fmt.Sprintf("name-length=%d", len(m.Name))] = true
			case 9:
				if l.MaxMetricNameLength > 0 {
					m.Name = genSizedText(t, label+"NameText", 257)
					classes["name-length=257"] = true
					break
				}
				fallthrough
			default:
				m.Name = rapid.SampledFrom([]string{"cpu", "mem.used", "m", "system.cpu.load.avg.1m"}).Draw(t, label+"ShortName")
			}
			fname := "v"
			if rapid.IntRange(0, 9).Draw(t, label+"LongField") == 6 {
				fname = genSizedText(t, label+"FieldText", rapid.IntRange(120, 123).Draw(t, label+"FieldLen"))
				classes["field-name>=120+suffix"] = true
			}
			m.Fields = []sfield{{fname + "_last", tLast, genFinite(t, label+"Val")}}
			if rapid.Bool().Draw(t, label+"TwoFields") {
				m.Fields = append(m.Fields, sfield{"c_sum", tDeltaSum, genFinite(t, label+"Val2")})
			}
			return m
		}

		target := genSizedSeries(t, "target", l, len(rc.Enriched), extra, true)
		type sent struct {
			m    *am
			role string
		}
		var ms []sent
		ms = append(ms, sent{mkMetric("target", target.tags, 0), "target"})
		twinCls := ""
		if twin, cls := twinOf(t, target.tags, rc.Enriched); twin != nil {
			ms = append(ms, sent{mkMetric("twin", twin, 1), "twin"})
			twinCls = cls
		}
		if rapid.Bool().Draw(t, "again") {
			ms = append(ms, sent{mkMetric("again", permuteKeepingDuplicateOrder(t, target.tags, "againPerm"), 2), "again"})
		}
		var second *sizedSeries
		if rapid.Bool().Draw(t, "second") {
			second = genSizedSeries(t, "second", l, len(rc.Enriched), extra, false)
			ms = append(ms, sent{mkMetric("second", second.tags, 3), "second"})
		}
		for i := rapid.IntRange(0, 2).Draw(t, "shortRows"); i > 0; i-- {
			var tags []kv
			for j := rapid.IntRange(0, 3).Draw(t, "shortN"); j > 0; j-- {
				tags = append(tags, kv{fmt.Sprintf("s%d", j), genSizedText(t, "shortV", rapid.IntRange(1, 20).Draw(t, "shortVLen"))})
			}
			ms = append(ms, sent{mkMetric("short", tags, 4+i), "short"})
		}
		order := rapid.Permutation(ms).Draw(t, "order")

		allTarget := append(append([]kv{}, target.tags...), rc.Enriched...)
		total := concatLen(canonTags(allTarget))
		longestPair := 0
		for _, tg := range allTarget {
			longestPair = max(longestPair, len(tg.K)+len(tg.V)+1)
			if l.MaxTagValueLength > 0 && len(tg.V) == l.MaxTagValueLength {
				classes["value-length=limit"] = true
			}
			if l.MaxTagValueLength > 0 && len(tg.V) < l.MaxTagValueLength && len(tg.V) >= l.MaxTagValueLength-8 {
				classes["value-length=limit-1..8"] = true
			}
			if l.MaxTagNameLength > 0 && len(tg.K) == l.MaxTagNameLength {
				classes["key-length=limit"] = true
			}
			if len(tg.V) > 1024 {
				classes["value-length>1024(limits disabled)"] = true
			}
		}
		if l.MaxTagsPerMetric > 0 && len(allTarget) == l.MaxTagsPerMetric {
			classes["tags=limit"] = true
		}
		classes["shape="+target.shape] = true
		classes["sorted-tags-length:"+sizeBucket(total)] = true
		for _, b := range []int{256, 512, 1024} {
			for _, d := range []int{-2, -1, 0, 1, 2} {
				if longestPair == b+d {
					classes[fmt.Sprintf("longest-pair=%d%+d", b, d)] = true
				}
			}
			if longestPair > b+2 && b == 1024 {
				classes["longest-pair>1026"] = true
			}
		}
		for _, c := range target.cls {
			classes[c] = true
		}
		if twinCls != "" {
			classes[twinCls] = true
		}
		if second != nil {
			st := concatLen(canonTags(append(append([]kv{}, second.tags...), rc.Enriched...)))
			switch {
			case st > 256 && total > 256 && st < total:
				classes["request-holds-a-shorter-heap-sized-series"] = true
			case st > 256 && total > 256 && st > total:
				classes["request-holds-a-longer-heap-sized-series"] = true
			}
		}

		// one request per format, in a drawn order of the formats
		identity := map[string]uint64{} // canonical tag set -> identity
		owner := map[uint64]string{}    // identity -> canonical tag set
		compared := 0
		targetAccepted := false
		for _, f := range rapid.Permutation([]format{fProto, fFlatClient, fFlatRaw, fInflux}).Draw(t, "formats") {
			var req []*am
			holdsTarget := false
			for _, s := range order {
				m := excludeKnownShapes(group, s.m, rc, f)
				if !expressible(m, rc, f) {
					if f == fInflux {
						classes["not-on-line-protocol:"+s.role] = true
					}
					continue
				}
				if f == fFlatClient || f == fFlatRaw {
					// the flat decoder reads rows below 10 KiB only (documented constant of the wire format)
					var body []byte
					if f == fFlatRaw {
						body = renderFlatRaw([]*am{m}, []junk{{}})
					} else {
						var err error
						if body, err = renderFlatClient([]*am{m}); err != nil {
							t.Fatalf("harness: client builder refused a metric declared expressible: %v", err)
						}
					}
					if len(body)-4 >= 10*1024 {
						classes["flat-row>=10KiB-not-sent:"+s.role] = true
						continue
					}
				}
				if f == fInflux && len(renderInfluxIn([]*am{m}, rc.Unit)) >= 60000 {
					// the line reader refuses lines that do not fit its 64 KiB block (ErrInfluxLineTooLong);
					// only reachable with the tag limits disabled
					classes["influx-line>=60000B-not-sent:"+s.role] = true
					continue
				}
				if s.role == "target" {
					holdsTarget = true
				}
				req = append(req, m)
			}
			if !holdsTarget {
				continue
			}
			batch, want, rejects := ingest(t, f, req, make([]bool, len(req)), genJunk(t, len(req)), rc)
			for why := range rejects {
				classes["rejected:"+why] = true
			}
			compared++
			classes["format="+f.String()] = true
			if batch == nil {
				continue
			}
			for i := range want {
				row := readBrokerRow(&batch.Rows()[i])
				key := tagSetKey(row.Tags)
				if id, ok := identity[key]; ok && id != row.TagsHash {
					t.Fatalf("[%s] one series has two identities: %016x here, %016x in an earlier request of the case (sorted tags %d bytes): %s", f, row.TagsHash, id, concatLen(row.Tags), row)
				}
				if other, ok := owner[row.TagsHash]; ok && other != key {
					t.Fatalf("[%s] two series share the identity %016x (sorted tags %d bytes):\n  %s\n  %s", f, row.TagsHash, concatLen(row.Tags), key, other)
				}
				identity[key], owner[row.TagsHash] = row.TagsHash, key
				if want[i].src.TS == now {
					targetAccepted = true
				}
			}
			route(t, f, batch, want, db)
			batch.Release()
		}
		if targetAccepted {
			classes["target-accepted"] = true
		} else {
			classes["target-refused"] = true
		}
		classes[fmt.Sprintf("formats-compared=%d", compared)] = true
		var cl []string
		for c := range classes {
			cl = append(cl, c)
		}
		sort.Strings(cl)
		var canonical strings.Builder
		fmt.Fprintf(&canonical, "%s|%v|%d|", limitsClass, rc.Enriched, db.shards)
		for _, s := range order {
			fmt.Fprintf(&canonical, "%s:%s:%d:%s;", s.role, s.m.Name, len(s.m.Fields), tagSetKey(s.m.Tags))
		}
		atEdge := total > 256 || classes["value-length=limit"] || classes["key-length=limit"] || classes["tags=limit"]
		ev.Case(group, canonical.String(), targetAccepted && compared >= 2 && atEdge, cl,
			map[string]any{"shape": target.shape, "sortedTagsLength": total, "longestPair": longestPair, "tags": len(allTarget), "rows": len(order), "formats": compared})
	})
}
