package c16

import (
	"context"
	"fmt"
	"testing"
	"time"

	"github.com/lindb/lindb/config"
	"github.com/lindb/lindb/models"
	"github.com/lindb/lindb/replica"
)

// TestRegression_ChannelNotFoundOverwrittenByLaterShard: a write request that meets a database
// whose shard channels exist only in part (the shard-state callback creates them one by one
// while requests are served). databaseChannel.Write serves the shard groups of the batch in
// ascending shard order; for a group without channel it counts ShardNotFound, remembers
// errChannelNotFound and goes on; the rows of that group are written nowhere.
//
//   - asserted (shrunk form of what TestChannelWrite asserts): when the group without channel is
//     the LAST one of the request, Write returns an error, the rows of the shards that have a
//     channel reach storage, the others arrive nowhere;
//   - observation, never fails: when a LATER group is written successfully, `err =
//     familyChannel.Write(...)` replaces the remembered error by nil, so the same loss is answered
//     as a success. (The comment next to the assignment says "broker error, do not return to
//     client", the code returns it unless it is overwritten: the intention is not documented, so
//     C16 does not decide it. A proposed change that keeps the first error is in
//     proposed_fix_channel_write_keeps_first_error.diff.)
func TestRegression_ChannelNotFoundOverwrittenByLaterShard(t *testing.T) {
	now := time.Now().UnixMilli()
	// one series per shard of a 2-shard database (shard = jump hash of the tags hash)
	series := map[int32][]kv{}
	for i := 0; len(series) < 2 && i < 1000; i++ {
		tags := []kv{{"host", fmt.Sprintf("h%d", i)}}
		if sh := jumpHash(tagsHash(tags), 2); series[sh] == nil {
			series[sh] = tags
		}
	}
	if len(series) < 2 {
		t.Fatalf("harness: no series found for both shards")
	}

	run := func(withChannel int32) (error, map[int32]int) {
		defer isolatePool()()
		config.SetGlobalBrokerConfig(config.NewDefaultBrokerBase())
		d := &wdb{name: fmt.Sprintf("c16reg%d", withChannel), behindS: "1d", aheadS: "1d", intervals: []string{"10s"}, shards: 2}
		dbCfg := d.config(t)
		sk := &sink{got: map[groupKey][]string{}}
		sm := &fakeStateMgr{}
		ctx, cancel := context.WithCancel(context.Background())
		defer cancel()
		cm := replica.NewChannelManager(ctx, &fakeStreamFct{s: sk}, sm)
		creator := cm.(shardChannelCreator)
		live := map[models.NodeID]models.StatefulNode{1: {StatelessNode: models.StatelessNode{HostIP: "127.0.0.1", GRPCPort: 2}, ID: 1}}
		state := func(id int32) models.ShardState {
			return models.ShardState{ID: models.ShardID(id), State: models.OnlineShard, Leader: 1, Replica: models.Replica{Replicas: []models.NodeID{1}}}
		}
		// the first of the callback's per-shard steps only
		ch, err := creator.CreateChannel(dbCfg, 2, models.ShardID(withChannel))
		if err != nil {
			t.Fatalf("CreateChannel: %v", err)
		}
		ch.SyncShardState(state(withChannel), live)

		ms := []*am{
			{Name: "cpu", TS: now, Tags: series[0], Fields: oneField()},
			{Name: "cpu", TS: now, Tags: series[1], Fields: oneField()},
		}
		batch := mustParse(t, fProto, ms, defaultCtx())
		werr := cm.Write(context.Background(), d.name, batch)

		// stop both shard channels (the second one is created empty here), then nothing is in flight
		for s := int32(0); s < 2; s++ {
			c, err := creator.CreateChannel(dbCfg, 2, models.ShardID(s))
			if err != nil {
				t.Fatalf("CreateChannel: %v", err)
			}
			c.Stop()
		}
		cancel()
		waitStreamsClosed(sk)
		sk.mu.Lock()
		defer sk.mu.Unlock()
		if len(sk.faults) > 0 {
			t.Fatalf("storage side: %s", sk.faults[0])
		}
		perShard := map[int32]int{}
		for k, rows := range sk.got {
			perShard[k.shard] += len(rows)
		}
		return werr, perShard
	}

	// shard 1 (the last group of the request) has no channel
	err, got := run(0)
	if got[0] != 1 || got[1] != 0 {
		t.Fatalf("only shard 0 has a channel: storage received %d rows for shard 0 and %d for shard 1, want 1 and 0", got[0], got[1])
	}
	if err == nil {
		t.Fatalf("only shard 0 has a channel: the row of shard 1 is written nowhere, yet ChannelManager.Write returned nil")
	}
	// shard 0 (served first) has no channel, shard 1 is written successfully afterwards
	err, got = run(1)
	if got[0] != 0 || got[1] != 1 {
		t.Fatalf("only shard 1 has a channel: storage received %d rows for shard 0 and %d for shard 1, want 0 and 1", got[0], got[1])
	}
	if err == nil {
		t.Logf("observation: only shard 1 has a channel: the row of shard 0 is written nowhere and ChannelManager.Write returned nil (the error of the shard group without channel is replaced by the nil result of the later group)")
	}
}
