// Package c16 checks property C16: ingestion canonicalises rows and routes them
// deterministically (proto / flat / influx parsers -> BrokerBatchRows -> eviction ->
// shard x family iterators -> bytes -> StorageBatchRows).
package c16

import (
	"bytes"
	"fmt"
	"runtime/debug"
	"sort"
	"testing"
	"time"

	"pgregory.net/rapid"

	"github.com/lindb/lindb/pkg/option"
	"github.com/lindb/lindb/pkg/timeutil"
	"github.com/lindb/lindb/series/metric"
	"github.com/lindb/lindb/verifharness/sim/ev"
)

func TestMain(m *testing.M) { ev.Main(m) }

func init() { time.Local = time.UTC }

type failer interface {
	Fatalf(format string, args ...any)
}

// ---- pool control -------------------------------------------------------------------------------
//
// BrokerBatchRows come from a sync.Pool. Whether Get returns a recycled batch depends on the
// garbage collector; to make a run a pure function of the seed every case (1) disables the
// collector while it runs, so that a released batch is certainly the next one handed out, and
// (2) starts by emptying the pool, so nothing leaks in from the previous case.

func isolatePool() (restore func()) {
	old := debug.SetGCPercent(-1)
	for {
		b := metric.NewBrokerBatchRows()
		if cap(b.Rows()) == 0 { // a batch that never held a row: the pool is empty now
			break
		}
	}
	return func() { debug.SetGCPercent(old) }
}

// ---- known findings (excluded from the generators only while listed in known_findings.json) --

// sigFlatNS: the flat decoder ignores the request's namespace for rows that carry none
// (series/metric/row_flat_decoder.go: rebuild() asks NameSpace(), which already substitutes
// "default-ns", so the documented fallback to the request's namespace is dead code).
const sigFlatNS = "C16/flat-request-namespace-ignored"

func excludeKnown(group string, rc *reqCtx, flatInvolved bool) {
	if flatInvolved && ev.Known(sigFlatNS) && rc.NS != "default-ns" {
		rc.NS = "default-ns"
		if lim(rc.Limits.MaxNamespaceLength, len(rc.NS)) {
			rc.Limits.MaxNamespaceLength = 256
		}
		ev.Class(group, "excluded_known", 1)
	}
}

// ---- database configuration ------------------------------------------------------------------

type dbCfg struct {
	opt           option.DatabaseOption
	behind, ahead int64
	interval      timeutil.Interval
	shards        int32
}

func genDB(t *rapid.T) *dbCfg {
	d := &dbCfg{}
	d.opt.Behind = rapid.SampledFrom([]string{"", "30m", "1h", "6h", "1d", "1d", "7d"}).Draw(t, "behind")
	d.opt.Ahead = rapid.SampledFrom([]string{"", "30m", "1h", "2h", "1d"}).Draw(t, "ahead")
	ivs := rapid.SampledFrom([][]string{{"10s"}, {"10s", "5m", "1h"}, {"1h", "1m"}, {"5m"}, {"30m", "2h"}, {"1h"}, {"1s", "10m"}}).Draw(t, "intervals")
	for _, s := range ivs {
		var iv, ret timeutil.Interval
		if err := iv.ValueOf(s); err != nil {
			t.Fatalf("harness: %v", err)
		}
		_ = ret.ValueOf("30d")
		d.opt.Intervals = append(d.opt.Intervals, option.Interval{Interval: iv, Retention: ret})
	}
	if err := d.opt.Validate(); err != nil {
		t.Fatalf("harness: database option invalid: %v", err)
	}
	// exactly what newDatabaseChannel does
	d.ahead, d.behind = d.opt.GetAcceptWritableRange()
	sort.Sort(d.opt.Intervals)
	d.interval = d.opt.Intervals[0].Interval
	if rapid.Bool().Draw(t, "fewShards") {
		d.shards = int32(rapid.SampledFrom([]int{1, 1, 2, 2, 3, 4}).Draw(t, "shards"))
	} else {
		d.shards = int32(rapid.IntRange(1, 64).Draw(t, "shards"))
	}
	return d
}

func parseIntervalMs(s string) int64 {
	if s == "" {
		return 0
	}
	unit := map[byte]int64{'m': msMinute, 'h': msHour, 'd': msDay}[s[len(s)-1]]
	var n int64
	fmt.Sscanf(s[:len(s)-1], "%d", &n)
	return n * unit
}

// ---- one request: parse, compare with the model ------------------------------------------

type accepted struct {
	c       *canon
	outside bool
	src     *am
}

// ingest renders ms in format f, runs the production parser and checks that the batch holds
// exactly the canonical rows of the valid metrics, in the order sent.
func ingest(t failer, f format, ms []*am, outside []bool, jk []junk, rc *reqCtx) (*metric.BrokerBatchRows, []accepted, map[string]int) {
	var want []accepted
	rejects := map[string]int{}
	for i, m := range ms {
		c, why := expect(m, rc, f)
		if c == nil {
			rejects[why]++
			continue
		}
		want = append(want, accepted{c, outside[i], m})
	}
	batch, err := parse(f, ms, jk, rc)
	if err != nil {
		t.Fatalf("[%s] parser failed on a well-formed request: %v", f, err)
	}
	got := 0
	if batch != nil {
		got = batch.Len()
	}
	for i := 0; i < got || i < len(want); i++ {
		g, w, src := "<no row>", "<no row>", ""
		if i < got {
			g = readBrokerRow(&batch.Rows()[i]).String()
		}
		if i < len(want) {
			w = want[i].c.String()
			src = fmt.Sprintf("%+v comp=%+v enriched=%v", *want[i].src, want[i].src.Comp, rc.Enriched)
		}
		if g != w {
			t.Fatalf("[%s] %d metrics sent, model accepts %d (rejects %v), batch holds %d rows; first difference at row %d\n  got  %s\n  want %s\n  sent %s",
				f, len(ms), len(want), rejects, got, i, g, w, src)
		}
	}
	return batch, want, rejects
}

// ---- routing: what databaseChannel.Write does with a batch --------------------------------

type routeStats struct {
	shards, families map[int64]bool
	groups           int
	evicted          int
	written          int
}

// route replays databaseChannel.Write (evict, shard iterator, family iterator, WriteTo into
// the family chunk) and checks the partition / window / storage-view claims.
func route(t failer, f format, batch *metric.BrokerBatchRows, want []accepted, db *dbCfg) routeStats {
	st := routeStats{shards: map[int64]bool{}, families: map[int64]bool{}}
	wantAll := map[string]int{}
	wantOutside := map[string]bool{}
	nOutside := 0
	for _, w := range want {
		s := w.c.String()
		wantAll[s]++
		wantOutside[s] = w.outside // identical rows have identical timestamps, hence one verdict
		if w.outside {
			nOutside++
		}
	}

	evicted := batch.EvictOutOfTimeRange(db.behind, db.ahead)
	if evicted != nOutside {
		t.Fatalf("[%s] EvictOutOfTimeRange(behind=%d, ahead=%d) evicted %d rows, %d are outside the window", f, db.behind, db.ahead, evicted, nOutside)
	}
	st.evicted = nOutside

	calc := db.interval.Calculator()
	gotAll := map[string]int{}
	seenGroup := map[[2]int64]bool{}
	var sbr = metric.NewStorageBatchRows()

	it := batch.NewShardGroupIterator(db.shards)
	for it.HasRowsForNextShard() {
		shardIdx, fit := it.FamilyRowsForNextShard(db.interval)
		if shardIdx < 0 || int32(shardIdx) >= db.shards {
			t.Fatalf("[%s] shard index %d with %d shards", f, shardIdx, db.shards)
		}
		if st.shards[int64(shardIdx)] {
			t.Fatalf("[%s] shard %d visited twice", f, shardIdx)
		}
		st.shards[int64(shardIdx)] = true
		for fit.HasNextFamily() {
			familyTime, rows := fit.NextFamily()
			if len(rows) == 0 {
				t.Fatalf("[%s] empty group shard=%d family=%d", f, shardIdx, familyTime)
			}
			key := [2]int64{int64(shardIdx), familyTime}
			if seenGroup[key] {
				t.Fatalf("[%s] group (shard=%d,family=%d) delivered twice", f, shardIdx, familyTime)
			}
			seenGroup[key] = true
			st.families[familyTime] = true
			st.groups++
			famEnd := calc.CalcFamilyEndTime(familyTime)
			var chunk bytes.Buffer // stands for familyChannel.chunk
			var wrote []string
			for i := range rows {
				row := &rows[i]
				c := readBrokerRow(row)
				s := c.String()
				gotAll[s]++
				if _, known := wantAll[s]; !known {
					t.Fatalf("[%s] iterator delivered a row that was never accepted: %s", f, s)
				}
				// shard: function of the series identity only
				if ws := jumpHash(c.TagsHash, db.shards); int32(shardIdx) != ws {
					t.Fatalf("[%s] row routed to shard %d, jump hash of its tags hash gives %d (of %d): %s", f, shardIdx, ws, db.shards, s)
				}
				// family contains the timestamp
				if !(familyTime <= c.TS && c.TS <= famEnd) || calc.CalcFamilyTime(c.TS) != familyTime {
					t.Fatalf("[%s] row with timestamp %d delivered to family [%d,%d] (interval %s)", f, c.TS, familyTime, famEnd, db.interval)
				}
				// ... and it is the CALENDAR family of that timestamp (independent model, not the calculator)
				if first, last := familyOf(db.interval.Int64(), c.TS); familyTime != first {
					t.Fatalf("[%s] row with timestamp %s (%d) delivered in the group of family %s (%d); its calendar family for interval %s is %s .. %s (arrival order of the shard's rows: %v)",
						f, msText(c.TS), c.TS, msText(familyTime), familyTime, db.interval, msText(first), msText(last), arrivalOf(want, db, int32(shardIdx)))
				}
				before := chunk.Len()
				n, err := row.WriteTo(&chunk)
				if err != nil {
					t.Fatalf("[%s] WriteTo: %v", f, err)
				}
				if n != row.Size() || chunk.Len()-before != n {
					t.Fatalf("[%s] WriteTo wrote %d bytes, Size() = %d", f, n, row.Size())
				}
				dropped := n == 0
				if dropped != wantOutside[s] {
					t.Fatalf("[%s] row dropped=%v but outside-window=%v (ts-now=%dms, behind=%dms ahead=%dms; flag IsOutOfTimeRange=%v): %s",
						f, dropped, wantOutside[s], c.TS-nowOf(db), db.behind, db.ahead, row.IsOutOfTimeRange, s)
				}
				if !dropped {
					// the storage-side accessor documents: a row without namespace reads as the default one
					sv := *c
					if sv.NS == "" {
						sv.NS = "default-ns"
					}
					wrote = append(wrote, sv.String())
					st.written++
				}
			}
			// storage-side view of exactly these bytes
			sbr.UnmarshalRows(chunk.Bytes())
			if sbr.Len() != len(wrote) {
				t.Fatalf("[%s] storage decoded %d rows from a chunk of %d rows", f, sbr.Len(), len(wrote))
			}
			for i, sr := range sbr.Rows() {
				if g := readStorageRow(sr).String(); g != wrote[i] {
					t.Fatalf("[%s] storage view of row %d differs\n  got  %s\n  want %s", f, i, g, wrote[i])
				}
			}
		}
	}
	for s, n := range wantAll {
		if gotAll[s] != n {
			t.Fatalf("[%s] not a partition: row accepted %d times, delivered %d times: %s", f, n, gotAll[s], s)
		}
	}
	return st
}

func msText(ms int64) string { return time.UnixMilli(ms).UTC().Format("2006-01-02T15:04:05.000Z") }

// arrivalOf lists, for failure messages, the timestamps of the accepted in-window rows of one
// shard in the order they were sent, as offsets from the first millisecond of the family of
// the first of them.
func arrivalOf(want []accepted, db *dbCfg, shard int32) []string {
	var out []string
	var base int64
	for _, w := range want {
		if w.outside || jumpHash(w.c.TagsHash, db.shards) != shard {
			continue
		}
		if out == nil {
			base, _ = familyOf(db.interval.Int64(), w.c.TS)
			out = append(out, "family "+msText(base)+":")
		}
		out = append(out, fmt.Sprintf("%+dms", w.c.TS-base))
	}
	return out
}

// familyShape classifies the in-window rows of one request per shard (by the model): how many
// calendar families the shard's rows span, whether rows sit on the first / last millisecond of
// a family, whether a first-millisecond row follows (in time) a row of the family before it in
// the same shard, and the arrival order of the shard's timestamps.
type familyShape struct {
	multiFamilyShards  int // shards whose rows span >= 2 families
	singleFamilyShards int // shards with >= 2 rows, all of one family (the iterator's fast path)
	firstMs, lastMs    int // rows on the first / last millisecond of their family
	seam               int // shards holding a row on the last ms (or anywhere) of family F and one on the first ms of the next family
	fastPathEdges      int // single-family shards that hold both the first and the last ms of the family
	sorted, reversed   int // multi-row shards whose timestamps arrive ascending / descending
	unsorted           int
}

func shapeOf(want []accepted, db *dbCfg) familyShape {
	var sh familyShape
	iv := db.interval.Int64()
	byShard := map[int32][]int64{}
	var order []int32
	for _, w := range want {
		if w.outside {
			continue
		}
		s := jumpHash(w.c.TagsHash, db.shards)
		if _, ok := byShard[s]; !ok {
			order = append(order, s)
		}
		byShard[s] = append(byShard[s], w.c.TS)
	}
	for _, s := range order {
		tss := byShard[s]
		fams := map[int64]bool{}
		firstOf := map[int64]bool{} // families whose first ms carries a row
		lastSeen := map[int64]bool{}
		asc, desc := true, true
		for i, ts := range tss {
			first, last := familyOf(iv, ts)
			fams[first] = true
			if ts == first {
				sh.firstMs++
				firstOf[first] = true
			}
			if ts == last {
				sh.lastMs++
				lastSeen[first] = true
			}
			if i > 0 && tss[i-1] > ts {
				asc = false
			}
			if i > 0 && tss[i-1] < ts {
				desc = false
			}
		}
		for fam := range firstOf {
			if prevFirst, _ := familyOf(iv, fam-1); fams[prevFirst] {
				sh.seam++
				break
			}
		}
		if len(tss) >= 2 {
			switch {
			case len(fams) >= 2:
				sh.multiFamilyShards++
			default:
				sh.singleFamilyShards++
				for fam := range fams {
					if firstOf[fam] && lastSeen[fam] {
						sh.fastPathEdges++
					}
				}
			}
			switch {
			case asc && !desc:
				sh.sorted++
			case desc && !asc:
				sh.reversed++
			case !asc && !desc:
				sh.unsorted++
			}
		}
	}
	return sh
}

func (sh familyShape) classes(into map[string]bool) {
	set := func(c string, n int) {
		if n > 0 {
			into[c] = true
		}
	}
	set("family:shard-spans>=2-families", sh.multiFamilyShards)
	set("family:shard-all-rows-one-family(fast-path)", sh.singleFamilyShards)
	set("family:row-on-first-ms", sh.firstMs)
	set("family:row-on-last-ms", sh.lastMs)
	set("family:first-ms-row-with-previous-family-row-in-shard", sh.seam)
	set("family:fast-path-with-first-and-last-ms", sh.fastPathEdges)
	set("family:shard-arrival-ascending", sh.sorted)
	set("family:shard-arrival-descending", sh.reversed)
	set("family:shard-arrival-unsorted", sh.unsorted)
}

// amKey identifies a generated metric independently of the clock (timestamp as offset from
// the case's now) and of addresses.
func amKey(m *am, now int64) string {
	k := fmt.Sprintf("%q/%q/%d/%q/", m.NS, m.Name, m.TS-now, m.Tags)
	for _, f := range m.Fields {
		k += fmt.Sprintf("%q:%d:%s,", f.Name, f.Type, fbits(f.Value))
	}
	if c := m.Comp; c != nil {
		k += fmt.Sprintf("/comp:%v:%v:%s:%s:%s:%s", c.Bounds, c.Values, fbits(c.Min), fbits(c.Max), fbits(c.Sum), fbits(c.Count))
	}
	return k
}

// nowOf is only used to print offsets in failure messages.
var caseNow int64

func nowOf(*dbCfg) int64 { return caseNow }

// ---- the history property -----------------------------------------------------------------

func genBatchSize(t *rapid.T) int {
	switch rapid.IntRange(0, 9).Draw(t, "sizeKind") {
	case 0, 1, 2, 3:
		return rapid.IntRange(1, 5).Draw(t, "n")
	case 4, 5, 6, 7:
		return rapid.IntRange(6, 30).Draw(t, "n")
	default:
		return rapid.IntRange(31, 200).Draw(t, "n")
	}
}

func TestIngestRoute(t *testing.T) {
	rapid.Check(t, func(t *rapid.T) {
		defer isolatePool()()
		now := time.Now().UnixMilli() // sampled once; only offsets from it are generated / recorded
		caseNow = now
		db := genDB(t)
		e := &env{now: now, behind: db.behind, ahead: db.ahead, interval: db.interval.Int64()}
		if db.behind != parseIntervalMs(db.opt.Behind) || db.ahead != parseIntervalMs(db.opt.Ahead) {
			t.Fatalf("GetAcceptWritableRange() = ahead %d behind %d for option ahead=%q behind=%q", db.ahead, db.behind, db.opt.Ahead, db.opt.Behind)
		}
		for i, n := 0, rapid.IntRange(1, 5).Draw(t, "nSeries"); i < n; i++ {
			e.series = append(e.series, genSeries(t))
		}
		steps := rapid.IntRange(1, 4).Draw(t, "steps")
		classes := map[string]bool{}
		canonCase := fmt.Sprintf("db{b=%s a=%s iv=%s sh=%d}", db.opt.Behind, db.opt.Ahead, db.interval, db.shards)
		nontrivialStep := false
		routed := 0
		var sample []map[string]any
		for s := 0; s < steps; s++ {
			f := format(rapid.IntRange(0, 3).Draw(t, "format"))
			rc, custom := genReqCtx(t)
			excludeKnown("TestIngestRoute", rc, f == fFlatClient || f == fFlatRaw)
			noReqNS := genNoRequestNamespace(t, rc, f)
			multiTenant := genTenancy(t, e, rc, noReqNS)
			n := genBatchSize(t)
			var ms []*am
			var outside []bool
			for i := 0; i < n; i++ {
				m, out, tsClass := genMetric(t, e)
				ms, outside = append(ms, m), append(outside, out)
				classes[tsClass] = true
			}
			ownNSWithinLimit("TestIngestRoute", ms, rc, f)
			ms, outside = fit("TestIngestRoute", ms, outside, rc, f)
			if len(ms) == 0 {
				classes["step=nothing-to-send"] = true
				continue
			}
			jk := genJunk(t, len(ms))
			batch, want, rejects := ingest(t, f, ms, outside, jk, rc)
			classes["format="+f.String()] = true
			if custom {
				classes["limits=custom"] = true
			}
			for why := range rejects {
				classes["reject="+why] = true
			}
			if multiTenant {
				classes["request=multi-tenant"] = true
			}
			if noReqNS {
				classes["proto-no-request-ns"] = true
			}
			if varied, adjacent := nsShape(want); varied {
				classes["rows-of-several-namespaces:"+f.String()] = true
				if adjacent {
					classes["same-name-adjacent-rows-different-ns:"+f.String()] = true
				}
				if noReqNS {
					classes["proto-no-request-ns+rows-of-several-namespaces"] = true
					if adjacent {
						classes["proto-no-request-ns+same-name-adjacent-rows-different-ns"] = true
					}
				}
			}
			for _, m := range ms {
				if hasDupKeys(m.Tags) {
					classes["dup-tag-keys"] = true
				}
				if len(m.Tags) > 12 {
					classes["tags>12"] = true
				}
				if m.Comp != nil {
					classes["compound"] = true
				}
			}
			canonCase += fmt.Sprintf("|%s ns=%q en=%v lim=%v:", f, rc.NS, rc.Enriched, *rc.Limits)
			for _, m := range ms {
				canonCase += amKey(m, now) + ";"
			}
			if batch == nil { // nothing accepted: production returns an error to the client, no routing
				classes["step=all-rejected"] = true
				continue
			}
			// channelManager.Write: route, then release the batch to the pool
			shapeOf(want, db).classes(classes)
			st := route(t, f, batch, want, db)
			batch.Release()
			routed++
			if len(st.shards) >= 2 && len(st.families) >= 2 && st.evicted >= 1 {
				nontrivialStep = true
				classes["step=multi-shard+multi-family+evicted"] = true
			}
			if st.evicted > 0 {
				classes["step=evicted"] = true
			}
			if st.groups > len(st.shards) {
				classes["step=shard-with-several-families"] = true
			}
			if len(sample) < 2 {
				sample = append(sample, map[string]any{"format": f.String(), "metrics": len(ms), "accepted": len(want),
					"rejects": rejects, "shards_hit": len(st.shards), "families": len(st.families), "evicted": st.evicted, "written": st.written})
			}
		}
		if routed >= 2 {
			classes["history>=2"] = true
		}
		var cl []string
		for c := range classes {
			cl = append(cl, c)
		}
		sort.Strings(cl)
		ev.Case("TestIngestRoute", canonCase, nontrivialStep && routed >= 2, cl, map[string]any{
			"behind": db.opt.Behind, "ahead": db.opt.Ahead, "interval": db.interval.String(), "shards": db.shards, "steps": sample})
	})
}

// ---- metamorphic: one metric, every format, permuted tags, different neighbours ------------

func TestFormatsAgree(t *testing.T) {
	rapid.Check(t, func(t *rapid.T) {
		defer isolatePool()()
		now := time.Now().UnixMilli()
		caseNow = now
		e := &env{now: now, behind: msDay, ahead: msDay}
		rc, custom := genReqCtx(t)
		excludeKnown("TestFormatsAgree", rc, true)
		// the protobuf request may come without request-level namespace (own namespaces are kept)
		rcProto := *rc
		noReqNS := genNoRequestNamespace(t, &rcProto, fProto)
		multiTenant := genTenancy(t, e, rc, noReqNS)
		target, _, _ := genMetric(t, e)
		ownNSWithinLimit("TestFormatsAgree", []*am{target}, &rcProto, fProto)
		if len(target.Tags) == 0 || rapid.Bool().Draw(t, "freshTags") {
			target.Tags = genSeries(t)
		}
		influxy := rapid.Bool().Draw(t, "influxy")
		if influxy {
			target = forInflux("TestFormatsAgree", target, rc)
		}
		for f := fProto; f <= fInflux; f++ {
			target = excludeKnownShapes("TestFormatsAgree", target, rc, f)
		}
		shards := int32(rapid.IntRange(1, 64).Draw(t, "shards"))

		type outcome struct {
			f     format
			c     *canon // nil = rejected
			model *canon
			shard int
		}
		var outs []outcome
		classes := []string{}
		nbClass := map[string]bool{}
		rcAll := rc
		for f := fProto; f <= fInflux; f++ {
			rc := rcAll
			if f == fProto {
				rc = &rcProto
			}
			if !expressible(target, rc, f) {
				continue
			}
			variant := *target
			variant.Tags = permuteKeepingDuplicateOrder(t, target.Tags, "perm"+f.String())
			// neighbours: other rows of the batch, before and after
			var ms []*am
			nb := rapid.IntRange(0, 3).Draw(t, "before")
			na := rapid.IntRange(0, 3).Draw(t, "after")
			for i := 0; i < nb+na; i++ {
				m, _, _ := genMetric(t, e)
				ms = append(ms, m)
			}
			outside := make([]bool, len(ms))
			ownNSWithinLimit("TestFormatsAgree", ms, rc, f)
			ms, _ = fit("TestFormatsAgree", ms, outside, rc, f)
			if nb > len(ms) {
				nb = len(ms)
			}
			pos := 0
			for _, m := range ms[:nb] {
				if c, _ := expect(m, rc, f); c != nil {
					pos++
				}
			}
			all := append(append(append([]*am{}, ms[:nb]...), &variant), ms[nb:]...)
			batch, want, _ := ingest(t, f, all, make([]bool, len(all)), genJunk(t, len(all)), rc)
			wc, _ := expect(&variant, rc, f)
			o := outcome{f: f, shard: -1, model: wc}
			if wc != nil {
				row := &batch.Rows()[pos]
				o.c = readBrokerRow(row)
				if o.c.String() != wc.String() || want[pos].c.String() != wc.String() {
					t.Fatalf("harness: target row not at position %d", pos)
				}
				for _, p := range []int{pos - 1, pos + 1} {
					if p >= 0 && p < len(want) && want[p].c.Name == wc.Name && want[p].c.NS != wc.NS {
						nbClass["neighbour-same-name-other-ns:"+f.String()] = true
					}
				}
				it := batch.NewShardGroupIterator(shards)
				for it.HasRowsForNextShard() {
					sh, fit := it.FamilyRowsForNextShard(timeutil.Interval(10 * 1000))
					for fit.HasNextFamily() {
						_, rows := fit.NextFamily()
						for i := range rows {
							if readBrokerRow(&rows[i]).String() == wc.String() {
								if o.shard >= 0 && o.shard != sh {
									t.Fatalf("[%s] identical rows of one batch routed to shards %d and %d", f, o.shard, sh)
								}
								o.shard = sh
							}
						}
					}
				}
				if o.shard < 0 {
					t.Fatalf("[%s] target row not delivered by the iterators", f)
				}
			}
			if batch != nil {
				batch.Release()
			}
			outs = append(outs, o)
			classes = append(classes, "format="+f.String())
		}
		// agreement between formats (the per-format comparison with the model already happened)
		for i := 1; i < len(outs); i++ {
			a, b := outs[0], outs[i]
			// own namespace: documented to be treated differently by proto (the request's wins, if
			// there is one) and flat (the row's wins); content is comparable when the model says
			// that both formats store the same namespace
			sameNS := a.model != nil && b.model != nil && a.model.NS == b.model.NS
			if (a.model == nil) != (b.model == nil) {
				// the limits are applied to what is on the wire, which two formats may render
				// differently (client-side renaming, tag map of a line): no claim
				continue
			}
			if (a.c == nil) != (b.c == nil) {
				t.Fatalf("formats disagree on acceptance: %s accepted=%v, %s accepted=%v: %+v", a.f, a.c != nil, b.f, b.c != nil, target)
			}
			if a.c == nil {
				continue
			}
			if a.c.TagsHash != b.c.TagsHash || a.shard != b.shard {
				t.Fatalf("series identity differs between %s (hash %x shard %d) and %s (hash %x shard %d)", a.f, a.c.TagsHash, a.shard, b.f, b.c.TagsHash, b.shard)
			}
			if sameNS && a.c.String() != b.c.String() {
				t.Fatalf("content differs between %s and %s\n  %s\n  %s", a.f, b.f, a.c, b.c)
			}
		}
		acceptedAny := len(outs) > 0 && outs[0].c != nil
		if acceptedAny {
			classes = append(classes, "accepted")
		} else {
			classes = append(classes, "rejected")
		}
		if hasDupKeys(target.Tags) {
			classes = append(classes, "dup-tag-keys")
		}
		if len(target.Tags) > 12 {
			classes = append(classes, "tags>12")
		}
		if custom {
			classes = append(classes, "limits=custom")
		}
		if influxy {
			classes = append(classes, "influx-expressible")
		}
		if multiTenant {
			classes = append(classes, "request=multi-tenant")
		}
		if target.NS != "" {
			classes = append(classes, "target-own-ns")
		}
		if noReqNS {
			classes = append(classes, "proto-no-request-ns")
			if target.NS != "" && acceptedAny {
				classes = append(classes, "proto-no-request-ns+target-own-ns-stored")
			}
			if nbClass["neighbour-same-name-other-ns:proto"] {
				classes = append(classes, "proto-no-request-ns+neighbour-same-name-other-ns")
			}
		}
		for i := 1; i < len(outs); i++ {
			if target.NS != "" && outs[0].model != nil && outs[i].model != nil && outs[0].model.NS == outs[i].model.NS {
				classes = append(classes, "own-ns-content-compared:proto~"+outs[i].f.String())
			}
		}
		for c := range nbClass {
			classes = append(classes, c)
		}
		sort.Strings(classes)
		// non-trivial: accepted, >= 2 tags (a permutation exists) and >= 2 formats compared
		nt := acceptedAny && len(target.Tags) >= 2 && len(outs) >= 2
		ev.Case("TestFormatsAgree", fmt.Sprintf("%s|%q|%v|%v|%v|%d", amKey(target, now), rc.NS, noReqNS, rc.Enriched, *rc.Limits, shards), nt, classes,
			map[string]any{"name": target.Name, "tags": fmt.Sprint(target.Tags), "fields": fmt.Sprint(target.Fields), "formats": len(outs), "accepted": acceptedAny})
	})
}
