package c16

// TestFamilyBoundaries: "every row of a batch goes ... to the family whose range contains its
// timestamp", checked where it is decided - at the edges of the calendar families.
//
// The write path groups the rows of one shard by family with BrokerBatchShardFamilyIterator:
// a fast path when all rows of the shard lie in the family of the FIRST row (arrival order),
// otherwise the rows are sorted by time and cut where the time range of a group's first row
// ends. Both decisions depend on the exact first / last millisecond of a family. The general
// history test draws timestamps over a window of hours to weeks, so rows on these milliseconds
// are rare there; this test places them on purpose:
//
//   - 1-3 anchor families inside the write window (hour / day / calendar-month families, i.e.
//     all three interval types), rows in the anchor, the family before and the family after it;
//   - positions: first ms, first+1, first+2, last-2, last-1, last ms, or somewhere inside;
//   - few shards (1-4) and few series, so that a shard holds several rows of >= 2 families;
//   - request shapes: mixed | all rows of the request in one family (fast path, both edge
//     milliseconds included) | one family plus 1-2 rows on the first ms of the next / last ms of
//     the previous family (the rows a wrong range end or start would swallow);
//   - arrival order: as drawn (unsorted), ascending, descending, edge rows first;
//   - 1-3 requests per case through the pooled batch (the iterators live inside the batch).
//
// Oracle (route): exact partition, shard = jump hash, and for every delivered row
// group family == first millisecond of the row's calendar family (familyOf, an independent
// model written from the documentation of the interval types), no group delivered twice,
// dropped <=> outside the window.

import (
	"fmt"
	"sort"
	"testing"
	"time"

	"pgregory.net/rapid"

	"github.com/lindb/lindb/pkg/option"
	"github.com/lindb/lindb/pkg/timeutil"
	"github.com/lindb/lindb/verifharness/sim/ev"
)

// genBoundaryDB: every interval type, a window wide enough to hold >= 2 boundaries of the
// type's families (hours: >= 6h; days: >= 2d; calendar months: 45d or unlimited).
func genBoundaryDB(t *rapid.T) *dbCfg {
	d := &dbCfg{}
	type shape struct {
		ivs     []string
		windows []string
	}
	sh := rapid.SampledFrom([]shape{
		{[]string{"10s"}, []string{"6h", "1d", "7d", ""}},
		{[]string{"1s", "10m"}, []string{"6h", "1d", ""}},
		{[]string{"1m", "1h"}, []string{"6h", "2d"}},
		{[]string{"10s", "5m", "1h"}, []string{"12h", "1d"}},
		{[]string{"5m"}, []string{"2d", "7d", ""}},
		{[]string{"30m", "2h"}, []string{"3d", "7d", "45d"}},
		{[]string{"1h"}, []string{"45d", ""}},
		{[]string{"2h"}, []string{"45d", "90d", ""}},
	}).Draw(t, "dbShape")
	d.opt.Behind = rapid.SampledFrom(sh.windows).Draw(t, "behind")
	d.opt.Ahead = rapid.SampledFrom(sh.windows).Draw(t, "ahead")
	for _, s := range sh.ivs {
		var iv, ret timeutil.Interval
		if err := iv.ValueOf(s); err != nil {
			t.Fatalf("harness: %v", err)
		}
		_ = ret.ValueOf("365d")
		d.opt.Intervals = append(d.opt.Intervals, option.Interval{Interval: iv, Retention: ret})
	}
	if err := d.opt.Validate(); err != nil {
		t.Fatalf("harness: database option invalid: %v", err)
	}
	d.ahead, d.behind = d.opt.GetAcceptWritableRange() // exactly what newDatabaseChannel does
	sort.Sort(d.opt.Intervals)
	d.interval = d.opt.Intervals[0].Interval
	d.shards = int32(rapid.SampledFrom([]int{1, 1, 1, 2, 2, 3, 4}).Draw(t, "shards"))
	return d
}

const (
	reqMixed      = 0
	reqOneFamily  = 1
	reqFamilyPlus = 2
)

// edgePos: position inside a family [first, last]; permille is used for "inside".
func edgePos(first, last int64, pos int, permille int64) int64 {
	switch pos {
	case 0:
		return first
	case 1:
		return last
	case 2:
		return first + 1
	case 3:
		return last - 1
	case 4:
		return first + 2
	case 5:
		return last - 2
	}
	return first + (last-first)*permille/1000
}

func TestFamilyBoundaries(t *testing.T) {
	rapid.Check(t, func(t *rapid.T) {
		defer isolatePool()()
		now := time.Now().UnixMilli() // sampled once; only offsets from it are generated / recorded
		caseNow = now
		db := genBoundaryDB(t)
		iv := db.interval.Int64()
		if db.behind != parseIntervalMs(db.opt.Behind) || db.ahead != parseIntervalMs(db.opt.Ahead) {
			t.Fatalf("GetAcceptWritableRange() = ahead %d behind %d for option ahead=%q behind=%q", db.ahead, db.behind, db.opt.Ahead, db.opt.Behind)
		}
		// guarded in-window range, as offsets from now (an unlimited side still uses plausible times)
		lo, hi := -45*msDay, 45*msDay
		if db.behind > 0 {
			lo = -db.behind + guard
		}
		if db.ahead > 0 {
			hi = db.ahead - guard
		}
		inWindow := func(ts int64) bool { return lo <= ts-now && ts-now <= hi }

		// few small series: many rows per shard
		var series [][]kv
		for i, n := 0, rapid.IntRange(1, 4).Draw(t, "nSeries"); i < n; i++ {
			var s []kv
			for j, k := 0, rapid.IntRange(0, 3).Draw(t, "nTags"); j < k; j++ {
				s = append(s, kv{rapid.SampledFrom([]string{"host", "zone", "k1", "k2", "a b"}).Draw(t, "tagK"),
					rapid.SampledFrom([]string{"1", "2", "x", "us-east-1", "v,v"}).Draw(t, "tagV")})
			}
			series = append(series, s)
		}

		ivType := "interval-type=day(hour-families)"
		switch {
		case iv >= msHour:
			ivType = "interval-type=year(calendar-month-families)"
		case iv >= 5*msMinute:
			ivType = "interval-type=month(day-families)"
		}
		classes := map[string]bool{ivType: true}
		canonCase := fmt.Sprintf("db{b=%s a=%s iv=%s sh=%d}", db.opt.Behind, db.opt.Ahead, db.interval, db.shards)
		nontrivial := false
		routed := 0
		var sample []map[string]any

		steps := rapid.IntRange(1, 3).Draw(t, "steps")
		for s := 0; s < steps; s++ {
			f := format(rapid.SampledFrom([]int{0, 0, 1, 2, 3}).Draw(t, "format"))
			rc := defaultCtx()
			shape := rapid.SampledFrom([]int{reqMixed, reqMixed, reqOneFamily, reqFamilyPlus, reqFamilyPlus}).Draw(t, "reqShape")
			// anchors: a timestamp inside the window each; its family and the two around it
			nAnchors := 1
			if shape == reqMixed {
				nAnchors = rapid.IntRange(1, 3).Draw(t, "nAnchors")
			}
			var anchors []int64
			for i := 0; i < nAnchors; i++ {
				anchors = append(anchors, now+rapid.Int64Range(lo, hi).Draw(t, "anchorOffset"))
			}
			n := rapid.IntRange(2, 12).Draw(t, "n")
			plus := 0
			if shape == reqFamilyPlus {
				plus = rapid.IntRange(1, 2).Draw(t, "plus")
			}
			plusSide := rapid.Bool().Draw(t, "plusAfter")
			var ms []*am
			var outside []bool
			var edgeRow []bool
			for i := 0; i < n; i++ {
				a := anchors[rapid.IntRange(0, len(anchors)-1).Draw(t, "anchor")]
				first, last := familyOf(iv, a)
				shift := rapid.SampledFrom([]int{-1, 0, 0, 1}).Draw(t, "familyShift")
				pos := rapid.IntRange(0, 8).Draw(t, "pos")
				permille := rapid.Int64Range(0, 1000).Draw(t, "permille")
				tooOld := rapid.IntRange(0, 11).Draw(t, "tooOld") == 0
				switch shape {
				case reqOneFamily:
					shift = 0
					tooOld = false
				case reqFamilyPlus:
					shift, tooOld = 0, false
					if i < plus { // the rows just across the edge
						if plusSide {
							shift, pos = 1, 0
						} else {
							shift, pos = -1, 1
						}
					}
				}
				switch shift {
				case -1:
					first, last = familyOf(iv, first-1)
				case 1:
					first, last = familyOf(iv, last+1)
				}
				ts := edgePos(first, last, pos, permille)
				if !inWindow(ts) {
					ts = a // the anchor itself is inside the guarded window
					first, last = familyOf(iv, ts)
				}
				out := false
				if tooOld && db.behind > 0 {
					ts, out = now-db.behind-guard-permille*msMinute, true
				}
				m := &am{Name: "edge", TS: ts, Fields: []sfield{{"v_last", tLast, float64(i)}}}
				m.Tags = append([]kv{}, series[rapid.IntRange(0, len(series)-1).Draw(t, "series")]...)
				ms, outside = append(ms, m), append(outside, out)
				edgeRow = append(edgeRow, !out && (ts == first || ts == last))
			}
			// arrival order
			order := rapid.SampledFrom([]string{"as-drawn", "ascending", "descending", "edges-first", "edges-last"}).Draw(t, "arrival")
			idx := make([]int, len(ms))
			for i := range idx {
				idx[i] = i
			}
			switch order {
			case "ascending":
				sort.SliceStable(idx, func(a, b int) bool { return ms[idx[a]].TS < ms[idx[b]].TS })
			case "descending":
				sort.SliceStable(idx, func(a, b int) bool { return ms[idx[a]].TS > ms[idx[b]].TS })
			case "edges-first":
				sort.SliceStable(idx, func(a, b int) bool { return edgeRow[idx[a]] && !edgeRow[idx[b]] })
			case "edges-last":
				sort.SliceStable(idx, func(a, b int) bool { return !edgeRow[idx[a]] && edgeRow[idx[b]] })
			}
			var ms2 []*am
			var outside2 []bool
			for _, i := range idx {
				ms2, outside2 = append(ms2, ms[i]), append(outside2, outside[i])
			}
			ms, outside = fit("TestFamilyBoundaries", ms2, outside2, rc, f)
			if len(ms) == 0 {
				continue
			}
			batch, want, _ := ingest(t, f, ms, outside, genJunk(t, len(ms)), rc)
			canonCase += fmt.Sprintf("|%s:", f)
			for _, m := range ms {
				first, _ := familyOf(iv, m.TS)
				// (position relative to the family and the family relative to now's family: clock independent enough for distinctness)
				nowFirst, _ := familyOf(iv, now)
				canonCase += fmt.Sprintf("%d+%d/%v;", (first-nowFirst)/msHour, m.TS-first, m.Tags)
			}
			if batch == nil {
				t.Fatalf("harness: a request of plain valid metrics was not accepted")
			}
			shp := shapeOf(want, db)
			shp.classes(classes)
			classes["format="+f.String()] = true
			classes["arrival="+order] = true
			classes[[...]string{"request=mixed", "request=one-family", "request=one-family-plus-rows-across-the-edge"}[shape]] = true
			st := route(t, f, batch, want, db)
			batch.Release()
			routed++
			if st.evicted > 0 {
				classes["step=evicted"] = true
			}
			if shp.seam > 0 || shp.fastPathEdges > 0 || (shp.multiFamilyShards > 0 && shp.firstMs+shp.lastMs > 0) {
				nontrivial = true
			}
			if len(sample) < 2 {
				sample = append(sample, map[string]any{"format": f.String(), "shape": shape, "arrival": order, "rows": len(ms), "shards_hit": len(st.shards),
					"families": len(st.families), "groups": st.groups, "first_ms_rows": shp.firstMs, "last_ms_rows": shp.lastMs, "seam_shards": shp.seam})
			}
		}
		if routed >= 2 {
			classes["history>=2"] = true
		}
		var cl []string
		for c := range classes {
			cl = append(cl, c)
		}
		sort.Strings(cl)
		ev.Case("TestFamilyBoundaries", canonCase, nontrivial, cl, map[string]any{
			"behind": db.opt.Behind, "ahead": db.opt.Ahead, "interval": db.interval.String(), "shards": db.shards, "steps": sample})
	})
}
