package c16

// TestInfluxMalformedLines: a line-protocol request in which some lines are damaged.
//
// C16 says "invalid metrics are rejected as a whole" and that an accepted metric is stored as
// sent, independently "of the other rows of the batch". The line protocol is a text format
// written by many third-party agents: cut, half-written and foreign lines are ordinary input, and
// influx.Parse documents per-line handling (a bad line is logged, counted as dropped and the
// loop goes on). So for a request of several lines of which some are damaged:
//
//   - Parse neither fails nor panics (a panic is turned into a 500 by the HTTP middleware: every
//     valid line of the request would be lost with the damaged one);
//   - every WELL-FORMED line gives exactly the row the model expects (or none when the limits
//     refuse it), in the order sent - whatever stands before or after it;
//   - a line damaged so that it cannot be a metric any more (see certainlyInvalid) gives NO row;
//   - any other damaged line gives no row or ONE row, and a row it gives is canonical (non-empty
//     sanitised name, sorted unique non-empty tags, hashes recomputed from the content, >= 1 valid
//     field, the request's namespace). What a damaged line "means" is not modelled: a cut may
//     leave a shorter but complete line.
//
// Damage kinds (classes damage=*): cut on / right after a separator character (',' ' ' '='),
// cut anywhere, blanks appended, a blank / empty / comment line, the field section removed, the
// timestamp replaced by text, a separator doubled, a field value that is no number, no boolean (text, quoted
// string, bare integer suffix, two dots), arbitrary bytes. Lines are escape-rich (genEscLine) or
// plain (short tokens, so that the structural positions right after the measurement / a tag /
// a field are hit by the cuts).

import (
	"fmt"
	"sort"
	"strconv"
	"strings"
	"testing"
	"time"

	"pgregory.net/rapid"

	"github.com/lindb/lindb/verifharness/sim/ev"
)

var (
	plainNames  = []string{"cpu", "mem", "disk.io", "net"}
	plainKeys   = []string{"host", "zone", "dc", "app"}
	plainVals   = []string{"a", "b1", "web-01", "eu"}
	plainFields = []string{"usage_last", "idle_sum", "n_first", "load"}
)

// genPlainLine: a line without any escape, 0-3 distinct tags, 1-3 fields.
func genPlainLine(t *rapid.T, rc *reqCtx, now int64) *lpLine {
	l := &lpLine{Unit: rc.Unit, Name: rapid.SampledFrom(plainNames).Draw(t, "plainName")}
	off := rapid.Int64Range(-msMinute, msMinute).Draw(t, "plainTsOffset")
	l.TS, l.tsKey = now+off, fmt.Sprint(off)
	nTags := rapid.IntRange(0, 3).Draw(t, "plainTags")
	if max := rc.Limits.MaxTagsPerMetric; max > 0 && nTags+len(rc.Enriched) > max {
		nTags = max - len(rc.Enriched)
		if nTags < 0 {
			nTags = 0
		}
	}
	for i := 0; i < nTags; i++ {
		l.Tags = append(l.Tags, kv{plainKeys[i], rapid.SampledFrom(plainVals).Draw(t, "plainVal")})
	}
	nFields := rapid.IntRange(1, 3).Draw(t, "plainFields")
	if nTags == 0 {
		nFields = 1 // (no tags and >= 2 fields: refused by lindb, out of scope, DESIGN 7.4)
	}
	for i := 0; i < nFields; i++ {
		f := lpField{Key: plainFields[(i+int(off&3))%len(plainFields)], Value: float64(rapid.IntRange(-40, 40).Draw(t, "plainFVal")) / 4}
		if i > 0 && f.Key == l.Fields[0].Key {
			f.Key = "x" + f.Key
		}
		if typ := influxTypeOf(f.Key); typ >= 0 {
			f.Type = typ
		} else {
			f.Bare = true
		}
		l.Fields = append(l.Fields, f)
	}
	return l
}

// separatorsOf lists the positions of ',' ' ' '=' in the wire text (escaped or not).
func separatorsOf(w string) []int {
	var at []int
	for i := 0; i < len(w); i++ {
		if w[i] == ',' || w[i] == ' ' || w[i] == '=' {
			at = append(at, i)
		}
	}
	return at
}

var damageKinds = []string{"cut-on-separator", "cut-after-separator", "cut-anywhere", "blanks-appended", "blank-line", "empty-line",
	"comment-line", "field-section-removed", "timestamp-is-text", "separator-doubled", "field-value-not-a-number", "arbitrary-bytes"}

// damage returns the damaged form of the well-formed line l (never containing a line break).
func damage(t *rapid.T, l *lpLine) (wire, kind string) {
	w := l.wire()
	seps := separatorsOf(w)
	sep := func() int { return seps[rapid.IntRange(0, len(seps)-1).Draw(t, "sepIdx")] }
	kind = rapid.SampledFrom(damageKinds).Draw(t, "damage")
	switch kind {
	case "cut-on-separator":
		return w[:sep()], kind
	case "cut-after-separator":
		return w[:sep()+1], kind
	case "cut-anywhere":
		return w[:rapid.IntRange(1, len(w)-1).Draw(t, "cutAt")], kind
	case "blanks-appended":
		return w + strings.Repeat(" ", rapid.IntRange(1, 3).Draw(t, "blanks")), kind
	case "blank-line":
		return strings.Repeat(" ", rapid.IntRange(1, 3).Draw(t, "blanks")), kind
	case "empty-line":
		return "", kind
	case "comment-line":
		return "#" + w, kind
	case "field-section-removed":
		o := *l
		o.Fields = nil
		head, ts := o.wire(), strconv.FormatInt(tsInUnit(l.TS, l.Unit), 10)
		return head[:len(head)-len(ts)-1] + ts, kind // "<name>[,tags] <timestamp>"
	case "timestamp-is-text":
		return l.body() + " " + rapid.SampledFrom([]string{"now", "12ab", "1.5e3", "-", "0x10", "١٢٣"}).Draw(t, "tsText"), kind
	case "separator-doubled":
		i := sep()
		return w[:i+1] + w[i:], kind
	case "field-value-not-a-number":
		o := *l
		o.Fields = nil
		head, ts := o.wire(), strconv.FormatInt(tsInUnit(l.TS, l.Unit), 10)
		head = head[:len(head)-len(ts)-2] // "<name>[,tags]": the empty field section left two blanks before the timestamp
		v := rapid.SampledFrom([]string{"abc", `"str"`, "i", "u", "1.2.3", "--1", "1e", "tr", ""}).Draw(t, "badValue")
		return head + " " + escInflux(l.Fields[0].Key, lpKeySpecials) + "=" + v + " " + ts, kind
	default:
		n := rapid.IntRange(1, 24).Draw(t, "junkLen")
		b := make([]byte, n)
		for i := range b {
			c := byte(rapid.IntRange(0, 255).Draw(t, "junkByte"))
			if c == '\n' {
				c = ' '
			}
			b[i] = c
		}
		return string(b), "arbitrary-bytes"
	}
}

// certainlyInvalid: damage kinds after which the line cannot be a metric whatever it was before -
// nothing to store (blank, empty, comment), no field section (the digits of the timestamp are no
// field), a timestamp that is no integer, an only field whose value is no number (the parser
// documents that unsupported values such as strings are dropped and that a line whose fields are
// all dropped is an error). "Invalid metrics are rejected as a whole": such a line gives NO row.
var certainlyInvalid = map[string]bool{"blank-line": true, "empty-line": true, "comment-line": true,
	"field-section-removed": true, "timestamp-is-text": true, "field-value-not-a-number": true}

// rowFault says why a row is not a canonical accepted row ("" = it is one).
func rowFault(c *canon, ns string) string {
	switch {
	case c.Name == "" || strings.Contains(c.Name, "|"):
		return "empty / unsanitised name"
	case c.NS != sanitizeName(ns):
		return fmt.Sprintf("namespace %q, the request's is %q", c.NS, ns)
	case c.TagsHash != tagsHash(c.Tags):
		return "TagsHash is not the hash of the row's tags"
	case c.NameHash != nameHash(c.NS, c.Name):
		return "NameHash is not the hash of namespace+name"
	case len(c.Fields) == 0:
		return "no field"
	}
	for i, tg := range c.Tags {
		if tg.K == "" || tg.V == "" {
			return "empty tag key / value"
		}
		if i > 0 && !(c.Tags[i-1].K < tg.K) {
			return "tags not sorted and unique"
		}
	}
	for _, f := range c.Fields {
		if f.Name == "" || f.Type == tUnspecified || f.Value != f.Value || f.Value-f.Value != 0 {
			return fmt.Sprintf("invalid simple field %+v", f)
		}
	}
	return ""
}

type sentLine struct {
	wire   string
	damage string // "" = well-formed
	want   *canon // well-formed: the row the model expects, nil = refused (limits)
	why    string
}

func TestInfluxMalformedLines(t *testing.T) {
	const group = "TestInfluxMalformedLines"
	rapid.Check(t, func(t *rapid.T) {
		defer isolatePool()()
		now := time.Now().UnixMilli()
		caseNow = now
		rc, custom := genReqCtx(t)
		if custom && rapid.Bool().Draw(t, "defaultLimitsAnyway") {
			rc.Limits, custom = defaultCtx().Limits, false
		}
		classes := map[string]bool{}
		n := rapid.IntRange(2, 6).Draw(t, "lines")
		nDamaged := rapid.IntRange(1, 3).Draw(t, "damaged")
		if nDamaged > n {
			nDamaged = n
		}
		// which lines are damaged: a drawn subset of the positions
		damagedAt := map[int]bool{}
		for len(damagedAt) < nDamaged {
			damagedAt[rapid.IntRange(0, n-1).Draw(t, "damagedAt")] = true
		}
		var lines []sentLine
		var body strings.Builder
		key := ""
		for i := 0; i < n; i++ {
			var l *lpLine
			if rapid.Bool().Draw(t, "escapeRich") {
				l, _ = genEscLine(t, group, rc, now, map[string]bool{})
				classes["line=escape-rich"] = true
			} else {
				l = genPlainLine(t, rc, now)
				classes["line=plain"] = true
			}
			sl := sentLine{wire: l.wire()}
			if damagedAt[i] {
				sl.wire, sl.damage = damage(t, l)
				classes["damage="+sl.damage] = true
				// (clock independent: the timestamp has a constant number of digits)
				key += fmt.Sprintf("|D:%s:%s:%s:%d", sl.damage, l.body(), l.tsKey, len(sl.wire)-len(l.wire()))
				if sl.damage == "arbitrary-bytes" || sl.damage == "timestamp-is-text" || sl.damage == "field-value-not-a-number" {
					key += ":" + strings.TrimSuffix(sl.wire, strconv.FormatInt(tsInUnit(l.TS, l.Unit), 10))
				}
			} else {
				sl.want, sl.why = expect(l.meaning(false), rc, fInflux)
				key += "|W:" + l.body() + l.tsKey
			}
			lines = append(lines, sl)
			body.WriteString(sl.wire)
			if i < n-1 || rapid.Bool().Draw(t, "finalNewline") {
				body.WriteByte('\n')
			} else {
				classes["request-without-final-newline"] = true
			}
		}

		batch, err := parseBody(fInflux, []byte(body.String()), rc)
		if err != nil {
			t.Fatalf("influx.Parse fails on a request with damaged lines (documented: a bad line is dropped, the others are kept): %v\nrequest:\n%s", err, body.String())
		}
		var rows []*canon
		if batch != nil {
			for i := range batch.Rows() {
				rows = append(rows, readBrokerRow(&batch.Rows()[i]))
			}
			batch.Release()
		}

		// alignment: lines[i:] can have produced rows[j:]
		memo := map[[2]int]bool{}
		seen := map[[2]int]bool{}
		var feasible func(i, j int) bool
		feasible = func(i, j int) bool {
			if i == len(lines) {
				return j == len(rows)
			}
			k := [2]int{i, j}
			if seen[k] {
				return memo[k]
			}
			seen[k] = true
			l := lines[i]
			ok := false
			switch {
			case l.damage == "" && l.want != nil:
				ok = j < len(rows) && rows[j].String() == l.want.String() && feasible(i+1, j+1)
			case l.damage == "":
				ok = feasible(i+1, j)
			case certainlyInvalid[l.damage]:
				ok = feasible(i+1, j)
			default:
				ok = feasible(i+1, j) || (j < len(rows) && rowFault(rows[j], rc.NS) == "" && feasible(i+1, j+1))
			}
			memo[k] = ok
			return ok
		}
		if !feasible(0, 0) {
			var b strings.Builder
			for i, l := range lines {
				switch {
				case certainlyInvalid[l.damage]:
					fmt.Fprintf(&b, "  line %d (damaged: %s; cannot be a metric: no row): %q\n", i, l.damage, l.wire)
				case l.damage != "":
					fmt.Fprintf(&b, "  line %d (damaged: %s; no row or one canonical row): %q\n", i, l.damage, l.wire)
				case l.want != nil:
					fmt.Fprintf(&b, "  line %d (well-formed): %q\n      must give %s\n", i, l.wire, l.want)
				default:
					fmt.Fprintf(&b, "  line %d (well-formed, refused by the limits: %s; no row): %q\n", i, l.why, l.wire)
				}
			}
			for j, r := range rows {
				fault := rowFault(r, rc.NS)
				if fault == "" {
					fault = "canonical"
				}
				fmt.Fprintf(&b, "  row %d (%s): %s\n", j, fault, r)
			}
			t.Fatalf("the rows of the batch are not the rows of the well-formed lines in the order sent plus at most one canonical row per damaged line (precision=%s, namespace %q, enriched %v)\n%s",
				rc.Prec, rc.NS, rc.Enriched, b.String())
		}

		wellFormed, accepted := 0, 0
		for i, l := range lines {
			if l.damage != "" {
				if i+1 < len(lines) && lines[i+1].damage == "" && lines[i+1].want != nil {
					classes["accepted-line-right-after-a-damaged-one"] = true
				}
				continue
			}
			wellFormed++
			if l.want != nil {
				accepted++
			} else {
				classes["well-formed-line-refused:"+l.why] = true
			}
		}
		if len(rows) > accepted {
			classes["damaged-line-gave-a-row"] = true
		}
		if len(rows) == 0 {
			classes["nothing-accepted"] = true
		}
		if custom {
			classes["limits=custom"] = true
		}
		classes["precision="+rc.Unit] = true
		var cl []string
		for c := range classes {
			cl = append(cl, c)
		}
		sort.Strings(cl)
		// non-trivial: >= 1 damaged line and >= 1 accepted well-formed line in one request
		ev.Case(group, fmt.Sprintf("%s|%q|%v|%s|%v", key, rc.NS, rc.Enriched, rc.Prec, *rc.Limits), accepted >= 1, cl,
			map[string]any{"lines": len(lines), "damaged": nDamaged, "rows": len(rows), "request": body.String()})
	})
}
