package c16

import (
	"bytes"
	"fmt"
	"net/http"
	"strconv"
	"strings"

	flatbuffers "github.com/google/flatbuffers/go"
	"github.com/lindb/common/proto/gen/v1/flatMetricsV1"
	protoMetricsV1 "github.com/lindb/common/proto/gen/v1/linmetrics"
	commonseries "github.com/lindb/common/series"

	"github.com/lindb/lindb/ingestion/flat"
	"github.com/lindb/lindb/ingestion/influx"
	"github.com/lindb/lindb/ingestion/proto"
	"github.com/lindb/lindb/series/metric"
	"github.com/lindb/lindb/series/tag"
)

// junk supplies the values of wire fields the server must ignore and recompute
// (client-side hashes); drawn by the generator.
type junk struct{ TagsHash, NameHash uint64 }

// ---- protobuf -----------------------------------------------------------------------------------

func renderProto(ms []*am, jk []junk) []byte {
	var ml protoMetricsV1.MetricList
	for i, m := range ms {
		pm := &protoMetricsV1.Metric{Namespace: m.NS, Name: m.Name, Timestamp: m.TS, TagsHash: jk[i].TagsHash}
		for _, t := range m.Tags {
			pm.Tags = append(pm.Tags, &protoMetricsV1.KeyValue{Key: t.K, Value: t.V})
		}
		for _, f := range m.Fields {
			pm.SimpleFields = append(pm.SimpleFields, &protoMetricsV1.SimpleField{
				Name: f.Name, Type: protoMetricsV1.SimpleFieldType(f.Type), Value: f.Value})
		}
		if c := m.Comp; c != nil {
			pm.CompoundField = &protoMetricsV1.CompoundField{Min: c.Min, Max: c.Max, Sum: c.Sum, Count: c.Count,
				ExplicitBounds: append([]float64{}, c.Bounds...), Values: append([]float64{}, c.Values...)}
		}
		ml.Metrics = append(ml.Metrics, pm)
	}
	data, err := ml.Marshal()
	if err != nil {
		panic("harness: proto marshal: " + err.Error())
	}
	return data
}

// ---- flat buffer, official client -----------------------------------------------------------

func renderFlatClient(ms []*am) ([]byte, error) {
	var out []byte
	rb := commonseries.CreateRowBuilder()
	for _, m := range ms {
		rb.Reset()
		rb.AddNameSpace([]byte(m.NS))
		rb.AddMetricName([]byte(m.Name))
		rb.AddTimestamp(m.TS)
		for _, t := range m.Tags {
			if err := rb.AddTag([]byte(t.K), []byte(t.V)); err != nil {
				return nil, err
			}
		}
		for _, f := range m.Fields {
			if err := rb.AddSimpleField([]byte(f.Name), flatMetricsV1.SimpleFieldType(f.Type), f.Value); err != nil {
				return nil, err
			}
		}
		if c := m.Comp; c != nil {
			if err := rb.AddCompoundFieldData(c.Values, c.Bounds); err != nil {
				return nil, err
			}
			if err := rb.AddCompoundFieldMMSC(c.Min, c.Max, c.Sum, c.Count); err != nil {
				return nil, err
			}
		}
		data, err := rb.Build()
		if err != nil {
			return nil, err
		}
		out = append(out, data...)
	}
	return out, nil
}

// ---- flat buffer, written directly against the schema (any client) ---------------------

func renderFlatRawOne(b *flatbuffers.Builder, m *am, jk junk) []byte {
	b.Reset()
	var kvs, fields []flatbuffers.UOffsetT
	for _, t := range m.Tags {
		k := b.CreateString(t.K)
		v := b.CreateString(t.V)
		flatMetricsV1.KeyValueStart(b)
		flatMetricsV1.KeyValueAddKey(b, k)
		flatMetricsV1.KeyValueAddValue(b, v)
		kvs = append(kvs, flatMetricsV1.KeyValueEnd(b))
	}
	for _, f := range m.Fields {
		n := b.CreateString(f.Name)
		flatMetricsV1.SimpleFieldStart(b)
		flatMetricsV1.SimpleFieldAddName(b, n)
		flatMetricsV1.SimpleFieldAddType(b, flatMetricsV1.SimpleFieldType(f.Type))
		flatMetricsV1.SimpleFieldAddValue(b, f.Value)
		fields = append(fields, flatMetricsV1.SimpleFieldEnd(b))
	}
	flatMetricsV1.MetricStartKeyValuesVector(b, len(kvs))
	for i := len(kvs) - 1; i >= 0; i-- {
		b.PrependUOffsetT(kvs[i])
	}
	kvVec := b.EndVector(len(kvs))
	flatMetricsV1.MetricStartSimpleFieldsVector(b, len(fields))
	for i := len(fields) - 1; i >= 0; i-- {
		b.PrependUOffsetT(fields[i])
	}
	fVec := b.EndVector(len(fields))
	var comp flatbuffers.UOffsetT
	if c := m.Comp; c != nil {
		flatMetricsV1.CompoundFieldStartExplicitBoundsVector(b, len(c.Bounds))
		for i := len(c.Bounds) - 1; i >= 0; i-- {
			b.PrependFloat64(c.Bounds[i])
		}
		bv := b.EndVector(len(c.Bounds))
		flatMetricsV1.CompoundFieldStartValuesVector(b, len(c.Values))
		for i := len(c.Values) - 1; i >= 0; i-- {
			b.PrependFloat64(c.Values[i])
		}
		vv := b.EndVector(len(c.Values))
		flatMetricsV1.CompoundFieldStart(b)
		flatMetricsV1.CompoundFieldAddMin(b, c.Min)
		flatMetricsV1.CompoundFieldAddMax(b, c.Max)
		flatMetricsV1.CompoundFieldAddSum(b, c.Sum)
		flatMetricsV1.CompoundFieldAddCount(b, c.Count)
		flatMetricsV1.CompoundFieldAddExplicitBounds(b, bv)
		flatMetricsV1.CompoundFieldAddValues(b, vv)
		comp = flatMetricsV1.CompoundFieldEnd(b)
	}
	name := b.CreateString(m.Name)
	var ns flatbuffers.UOffsetT
	if m.NS != "" {
		ns = b.CreateString(m.NS)
	}
	flatMetricsV1.MetricStart(b)
	if m.NS != "" {
		flatMetricsV1.MetricAddNamespace(b, ns)
	}
	flatMetricsV1.MetricAddName(b, name)
	flatMetricsV1.MetricAddTimestamp(b, m.TS)
	flatMetricsV1.MetricAddNameHash(b, jk.NameHash)
	flatMetricsV1.MetricAddKvsHash(b, jk.TagsHash)
	flatMetricsV1.MetricAddKeyValues(b, kvVec)
	flatMetricsV1.MetricAddSimpleFields(b, fVec)
	if comp != 0 {
		flatMetricsV1.MetricAddCompoundField(b, comp)
	}
	b.FinishSizePrefixed(flatMetricsV1.MetricEnd(b))
	return append([]byte{}, b.FinishedBytes()...)
}

func renderFlatRaw(ms []*am, jk []junk) []byte {
	b := flatbuffers.NewBuilder(512)
	var out []byte
	for i, m := range ms {
		out = append(out, renderFlatRawOne(b, m, jk[i])...)
	}
	return out
}

// ---- influx line protocol -------------------------------------------------------------------

func escInflux(s string, set string) string {
	var b strings.Builder
	for i := 0; i < len(s); i++ {
		if strings.IndexByte(set, s[i]) >= 0 {
			b.WriteByte('\\')
		}
		b.WriteByte(s[i])
	}
	return b.String()
}

// unitMs is the length of a timestamp unit of the write API in milliseconds (0: finer than ms).
var unitMs = map[string]int64{"": 1, "ms": 1, "us": 0, "ns": 0, "s": 1000, "m": msMinute, "h": msHour}

// tsInUnit is the number a client that counts in `unit` writes for the millisecond timestamp ms.
// The harness only sends timestamps the unit can express exactly.
func tsInUnit(ms int64, unit string) int64 {
	switch unit {
	case "ns":
		return ms * 1e6
	case "us":
		return ms * 1e3
	}
	u, ok := unitMs[unit]
	if !ok || ms%u != 0 {
		panic(fmt.Sprintf("harness: timestamp %d ms cannot be written in unit %q", ms, unit))
	}
	return ms / u
}

func renderInflux(ms []*am) []byte { return renderInfluxIn(ms, "ms") }

func renderInfluxIn(ms []*am, unit string) []byte {
	var b bytes.Buffer
	for _, m := range ms {
		if m.Wire != "" {
			b.WriteString(m.Wire)
			b.WriteByte('\n')
			continue
		}
		b.WriteString(escInflux(m.Name, ", "))
		for _, t := range m.Tags {
			b.WriteByte(',')
			b.WriteString(escInflux(t.K, ", ="))
			b.WriteByte('=')
			b.WriteString(escInflux(t.V, ", ="))
		}
		b.WriteByte(' ')
		for i, f := range m.Fields {
			if i > 0 {
				b.WriteByte(',')
			}
			b.WriteString(escInflux(f.Name, ", ="))
			b.WriteByte('=')
			b.WriteString(strconv.FormatFloat(f.Value, 'g', -1, 64))
		}
		b.WriteByte(' ')
		b.WriteString(strconv.FormatInt(tsInUnit(m.TS, unit), 10))
		b.WriteByte('\n')
	}
	return b.Bytes()
}

// ---- driving the production entry points ---------------------------------------------------

func toTags(kvs []kv) tag.Tags {
	var out tag.Tags
	for _, t := range kvs {
		out = append(out, tag.NewTag([]byte(t.K), []byte(t.V)))
	}
	return out
}

// parse renders the metrics in format f and hands the body to the same function the HTTP
// handler calls. A nil batch with nil error means "nothing accepted" (the proto and flat
// entry points report an empty batch as an error).
func parse(f format, ms []*am, jk []junk, rc *reqCtx) (*metric.BrokerBatchRows, error) {
	var body []byte
	if rc.NS == "" && f != fProto {
		return nil, fmt.Errorf("harness: a request without namespace is only generated for the protobuf path")
	}
	switch f {
	case fProto:
		body = renderProto(ms, jk)
	case fFlatClient:
		var err error
		if body, err = renderFlatClient(ms); err != nil {
			return nil, fmt.Errorf("harness: client builder refused a metric declared expressible: %w", err)
		}
	case fFlatRaw:
		body = renderFlatRaw(ms, jk)
	case fInflux:
		body = renderInfluxIn(ms, rc.Unit)
	}
	return parseBody(f, body, rc)
}

// parseBody hands a request body to the entry point of format f.
func parseBody(f format, body []byte, rc *reqCtx) (*metric.BrokerBatchRows, error) {
	url := "http://broker/api/v1/write?db=db&precision=ms"
	if f == fInflux {
		switch {
		case rc.PrecAbsent:
			url = "http://broker/api/v1/write?db=db"
		case rc.Prec != "":
			url = "http://broker/api/v1/write?db=db&precision=" + rc.Prec
		}
	}
	req, err := http.NewRequest(http.MethodPost, url, bytes.NewReader(body))
	if err != nil {
		return nil, fmt.Errorf("harness: %w", err)
	}
	// The handler's namespace is a heap string taken from the URL. The influx and flat paths
	// sanitise '|' IN PLACE through an unsafe string->[]byte cast, so a string constant must
	// never be handed in (it would fault on the write); a private copy per request also keeps
	// that mutation away from the model's inputs.
	ns := strings.Clone(rc.NS)
	var batch *metric.BrokerBatchRows
	switch f {
	case fProto:
		batch, err = proto.Parse(req, toTags(rc.Enriched), ns, rc.Limits)
	case fFlatClient, fFlatRaw:
		batch, err = flat.Parse(req, toTags(rc.Enriched), ns, rc.Limits)
	case fInflux:
		batch, err = influx.Parse(req, toTags(rc.Enriched), ns, rc.Limits)
	}
	if err != nil {
		if strings.Contains(err.Error(), "empty metrics") {
			return nil, nil
		}
		return nil, err
	}
	if batch != nil && batch.Len() == 0 {
		return nil, nil // (influx returns an empty batch; channelManager.Write ignores it)
	}
	return batch, nil
}

// ---- reading rows back through the accessors ----------------------------------------------

func readBrokerRow(row *metric.BrokerRow) *canon {
	m := row.Metric()
	c := &canon{NS: string(m.Namespace()), Name: string(m.Name()), TS: m.Timestamp(),
		TagsHash: m.KvsHash(), NameHash: m.NameHash()}
	var kvo flatMetricsV1.KeyValue
	for i := 0; i < m.KeyValuesLength(); i++ {
		if !m.KeyValues(&kvo, i) {
			panic("key value missing")
		}
		c.Tags = append(c.Tags, kv{string(kvo.Key()), string(kvo.Value())})
	}
	var sf flatMetricsV1.SimpleField
	for i := 0; i < m.SimpleFieldsLength(); i++ {
		if !m.SimpleFields(&sf, i) {
			panic("simple field missing")
		}
		c.Fields = append(c.Fields, sfield{string(sf.Name()), int(sf.Type()), sf.Value()})
	}
	var cf flatMetricsV1.CompoundField
	if m.CompoundField(&cf) != nil {
		cc := &compound{Min: cf.Min(), Max: cf.Max(), Sum: cf.Sum(), Count: cf.Count()}
		for i := 0; i < cf.ExplicitBoundsLength(); i++ {
			cc.Bounds = append(cc.Bounds, cf.ExplicitBounds(i))
		}
		for i := 0; i < cf.ValuesLength(); i++ {
			cc.Values = append(cc.Values, cf.Values(i))
		}
		c.Comp = cc
	}
	return c
}

// storage field type numbering (series/field): only used to map back to the wire numbering.
func readStorageRow(row *metric.StorageRow) *canon {
	c := &canon{NS: string(row.NameSpace()), Name: string(row.Name()), TS: row.Timestamp(),
		TagsHash: row.TagsHash(), NameHash: row.NameHash()}
	kit := row.NewKeyValueIterator()
	for kit.HasNext() {
		c.Tags = append(c.Tags, kv{string(kit.NextKey()), string(kit.NextValue())})
	}
	if len(c.Tags) != row.TagsLen() {
		panic(fmt.Sprintf("TagsLen %d but iterator gave %d", row.TagsLen(), len(c.Tags)))
	}
	fit := row.NewSimpleFieldIterator()
	for fit.HasNext() {
		if string(fit.NextName()) != string(fit.NextRawName()) {
			panic("NextName != NextRawName")
		}
		c.Fields = append(c.Fields, sfield{string(fit.NextRawName()), int(fit.NextRawType()), fit.NextValue()})
	}
	if len(c.Fields) != row.SimpleFieldsLen() {
		panic(fmt.Sprintf("SimpleFieldsLen %d but iterator gave %d", row.SimpleFieldsLen(), len(c.Fields)))
	}
	if cit, ok := row.NewCompoundFieldIterator(); ok {
		cc := &compound{Min: cit.Min(), Max: cit.Max(), Sum: cit.Sum(), Count: cit.Count()}
		for cit.HasNextBucket() {
			cc.Bounds = append(cc.Bounds, cit.NextExplicitBound())
			cc.Values = append(cc.Values, cit.NextValue())
		}
		c.Comp = cc
	}
	return c
}
