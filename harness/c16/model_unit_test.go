package c16

import (
	"testing"
	"time"
)

// Hand-written examples for the two reference models the extension added (the line-protocol
// dialect helpers and the calendar family). They check the harness, not lindb.

func TestModel_LineProtocolDialect(t *testing.T) {
	type ex struct {
		literal, specials string
		before, atEnd     bool
		repaired          string
		wire              string // the repaired token written with the documented escapes
	}
	for _, e := range []ex{
		{`plain`, lpKeySpecials, false, false, `plain`, `plain`},
		{`tag,value`, lpKeySpecials, false, false, `tag,value`, `tag\,value`},
		{`tag key`, lpKeySpecials, false, false, `tag key`, `tag\ key`},
		{`a=b`, lpKeySpecials, false, false, `a=b`, `a\=b`},
		{`a=b`, lpNameSpecials, false, false, `a=b`, `a=b`}, // '=' is an ordinary character in a measurement
		{`a\=b`, lpNameSpecials, false, false, `a\=b`, `a\=b`},
		{`a\=b`, lpKeySpecials, true, false, `a\\=b`, `a\\\=b`},
		{`C:\\`, lpKeySpecials, false, false, `C:\\`, `C:\\`},
		{`C:\`, lpKeySpecials, false, true, `C:\\`, `C:\\`},
		{`x\\\`, lpNameSpecials, false, true, `x\\\\`, `x\\\\`},
		{`p\\,q`, lpKeySpecials, false, false, `p\\,q`, `p\\\,q`},
		{`p\,q`, lpNameSpecials, true, false, `p\\,q`, `p\\\,q`},
		{`p\\\ q\`, lpKeySpecials, true, true, `p\\\\ q\\`, `p\\\\\ q\\`},
		{`a\n\\t`, lpKeySpecials, false, false, `a\n\\t`, `a\n\\t`}, // runs before ordinary characters: any length
		{`\,k`, lpKeySpecials, true, false, `\\,k`, `\\\,k`},
		{`,k`, lpKeySpecials, false, false, `,k`, `\,k`},
	} {
		before, atEnd := oddBackslashRuns(e.literal, e.specials)
		if before != e.before || atEnd != e.atEnd {
			t.Errorf("oddBackslashRuns(%q, %q) = %v, %v; want %v, %v", e.literal, e.specials, before, atEnd, e.before, e.atEnd)
		}
		if influxSafe(e.literal, e.specials) != (!e.before && !e.atEnd) {
			t.Errorf("influxSafe(%q, %q) wrong", e.literal, e.specials)
		}
		r := dialectRepair("", e.literal, e.specials)
		if r != e.repaired {
			t.Errorf("dialectRepair(%q, %q) = %q; want %q", e.literal, e.specials, r, e.repaired)
		}
		if b, a := oddBackslashRuns(r, e.specials); b || a {
			t.Errorf("dialectRepair(%q, %q) = %q is still not expressible", e.literal, e.specials, r)
		}
		if w := escInflux(r, e.specials); w != e.wire {
			t.Errorf("escInflux(%q, %q) = %q; want %q", r, e.specials, w, e.wire)
		}
	}
	// the example of the line protocol reference (special characters), with lindb's type suffix
	l := &lpLine{Name: "my Measurement", Tags: []kv{{"tag Key1", "tag Value1"}, {"tag,Key2", "tag=Value2"}},
		Fields: []lpField{{Key: "field=Key_last", Type: tLast, Value: 100}, {Key: "bare", Bare: true, Value: 0.5}}, TS: 1556813561098}
	if got, want := l.wire(), `my\ Measurement,tag\ Key1=tag\ Value1,tag\,Key2=tag\=Value2 field\=Key_last=100,bare=0.5 1556813561098`; got != want {
		t.Errorf("wire() = %s; want %s", got, want)
	}
	m := l.meaning(false)
	if len(m.Fields) != 3 || m.Fields[1] != (sfield{"bare_sum", tDeltaSum, 0.5}) || m.Fields[2] != (sfield{"bare_last", tLast, 0.5}) {
		t.Errorf("meaning() fields = %+v", m.Fields)
	}
	cl := map[string]bool{}
	if !wireRunClasses(kTagVal, `p\\\,q\\`, cl) || !cl["esc:tagval:3bs+comma"] || !cl["esc:tagval:2bs+end"] || len(cl) != 2 {
		t.Errorf("wireRunClasses = %v", cl)
	}
}

func TestModel_CalendarFamily(t *testing.T) {
	ms := func(s string) int64 {
		tm, err := time.Parse("2006-01-02T15:04:05.000Z", s)
		if err != nil {
			t.Fatal(err)
		}
		return tm.UnixMilli()
	}
	for _, e := range []struct {
		interval    int64
		ts          string
		first, last string
	}{
		{10 * 1000, "2024-05-17T10:59:59.999Z", "2024-05-17T10:00:00.000Z", "2024-05-17T10:59:59.999Z"},
		{10 * 1000, "2024-05-17T11:00:00.000Z", "2024-05-17T11:00:00.000Z", "2024-05-17T11:59:59.999Z"},
		{5*msMinute - 1, "2024-05-17T23:00:00.001Z", "2024-05-17T23:00:00.000Z", "2024-05-17T23:59:59.999Z"},
		{5 * msMinute, "2024-02-29T23:59:59.999Z", "2024-02-29T00:00:00.000Z", "2024-02-29T23:59:59.999Z"},
		{30 * msMinute, "2024-03-01T00:00:00.000Z", "2024-03-01T00:00:00.000Z", "2024-03-01T23:59:59.999Z"},
		{msHour - 1, "2023-12-31T12:00:00.000Z", "2023-12-31T00:00:00.000Z", "2023-12-31T23:59:59.999Z"},
		{msHour, "2024-02-29T23:59:59.999Z", "2024-02-01T00:00:00.000Z", "2024-02-29T23:59:59.999Z"},
		{msHour, "2023-02-10T00:00:00.000Z", "2023-02-01T00:00:00.000Z", "2023-02-28T23:59:59.999Z"},
		{2 * msHour, "2023-12-31T23:59:59.999Z", "2023-12-01T00:00:00.000Z", "2023-12-31T23:59:59.999Z"},
		{msDay, "2024-01-01T00:00:00.000Z", "2024-01-01T00:00:00.000Z", "2024-01-31T23:59:59.999Z"},
	} {
		first, last := familyOf(e.interval, ms(e.ts))
		if first != ms(e.first) || last != ms(e.last) {
			t.Errorf("familyOf(%d ms, %s) = %s .. %s; want %s .. %s", e.interval, e.ts, msText(first), msText(last), e.first, e.last)
		}
		for edge, want := range []int64{ms(e.first), ms(e.last), ms(e.last) + 1, ms(e.first) - 1, ms(e.first) + 1, ms(e.last) - 1} {
			if got := atFamilyEdge(e.interval, ms(e.ts), edge); got != want {
				t.Errorf("atFamilyEdge(%d ms, %s, %d) = %s; want %s", e.interval, e.ts, edge, msText(got), msText(want))
			}
		}
	}
}
