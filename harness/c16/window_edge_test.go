package c16

import (
	"fmt"
	"sort"
	"testing"

	"github.com/lindb/common/pkg/fasttime"
	"pgregory.net/rapid"

	"github.com/lindb/lindb/verifharness/sim/ev"
)

// ---- rows exactly on the thresholds of the write window ------------------------------------
//
// "Rows outside the accepted write window are dropped and nothing else is": a row whose distance
// from now is not larger than the configured span (behind / ahead; 0 = that side is not limited)
// is inside, one millisecond further it is outside. The other tests keep every row `guard` away
// from the thresholds because EvictOutOfTimeRange reads the clock itself. Here the rows sit on
// the thresholds, next to them (+-1, +-2 ms) and far beyond an unlimited side.
//
// The clock of the code under test is fasttime's cached millisecond, stored by a 5 ms ticker and
// never decreasing. The timestamps of a request are written relative to a reading n0 of that
// clock taken before the request is rendered; after the routing the clock is read again. Only
// when both readings are equal is the value that EvictOutOfTimeRange read known (it lies between
// them), and only then is the verdict looked at; otherwise the same offsets are sent again
// relative to a new reading (no draw depends on the clock, the verdict never depends on how many
// attempts were needed). A case that never meets a quiet clock is counted, not failed.

// softFailer records the first failure of ingest / route and aborts them; whether it counts is
// decided after the clock has been read again.
type softFailer struct{ msg string }

type softAbort struct{}

func (s *softFailer) Fatalf(format string, args ...any) {
	if s.msg == "" {
		s.msg = fmt.Sprintf(format, args...)
	}
	panic(softAbort{})
}

func attempt(fn func()) {
	defer func() {
		if r := recover(); r != nil {
			if _, ok := r.(softAbort); !ok {
				panic(r)
			}
		}
	}()
	fn()
}

const edgeAttempts = 200

// genEdgeOffset draws an offset from now and its class; ok=false: the class needs a limit the
// database does not have.
func genEdgeOffset(t *rapid.T, behind, ahead int64) (off int64, class string) {
	near := []int64{0, 0, 1, -1, 2, -2}
	switch k := rapid.IntRange(0, 9).Draw(t, "edgeKind"); {
	case k <= 2 && behind > 0:
		d := rapid.SampledFrom(near).Draw(t, "dBehind")
		return -behind + d, fmt.Sprintf("edge=behind%+dms", -d) // -d: positive = further into the past = outside
	case k <= 5 && ahead > 0:
		d := rapid.SampledFrom(near).Draw(t, "dAhead")
		return ahead + d, fmt.Sprintf("edge=ahead%+dms", d)
	case k == 6 && behind == 0:
		return -rapid.Int64Range(2*msDay, 400*msDay).Draw(t, "farOld"), "edge=unlimited-behind,far-old"
	case k == 7 && ahead == 0:
		return rapid.Int64Range(2*msDay, 400*msDay).Draw(t, "farNew"), "edge=unlimited-ahead,far-new"
	case k == 8:
		// the other side's span, mirrored: exactly there and 1 ms next to it
		d := rapid.SampledFrom(near).Draw(t, "dMirror")
		if ahead > 0 && rapid.Bool().Draw(t, "mirrorAhead") {
			return -ahead + d, "edge=ahead-span-in-the-past"
		}
		if behind > 0 {
			return behind + d, "edge=behind-span-in-the-future"
		}
	}
	return rapid.Int64Range(-msMinute, msMinute).Draw(t, "nearNow"), "edge=near-now"
}

func TestWriteWindowEdges(t *testing.T) {
	const group = "TestWriteWindowEdges"
	rapid.Check(t, func(t *rapid.T) {
		defer isolatePool()()
		db := genDB(t)
		f := rapid.SampledFrom([]format{fProto, fFlatClient, fFlatRaw}).Draw(t, "format")
		rc := defaultCtx()
		// plain series (the tag shapes are the subject of the other tests), enough of them to hit several shards
		var series [][]kv
		for i, n := 0, rapid.IntRange(1, 6).Draw(t, "nSeries"); i < n; i++ {
			series = append(series, []kv{{"host", fmt.Sprintf("h%d", rapid.IntRange(0, 99).Draw(t, "host"))}, {"zone", "z"}})
		}
		classes := map[string]bool{"format=" + f.String(): true}
		switch {
		case db.behind == 0 && db.ahead == 0:
			classes["window=unlimited"] = true
		case db.behind == 0 || db.ahead == 0:
			classes["window=one-side-unlimited"] = true
		case db.behind == db.ahead:
			classes["window=symmetric"] = true
		default:
			classes["window=asymmetric"] = true
		}
		n := rapid.IntRange(1, 10).Draw(t, "rows")
		offs := make([]int64, n)
		tags := make([][]kv, n)
		outside := make([]bool, n)
		onEdgeIn, justOut := 0, 0
		canonCase := fmt.Sprintf("db{b=%s a=%s iv=%s sh=%d}%s:", db.opt.Behind, db.opt.Ahead, db.interval, db.shards, f)
		for i := range offs {
			var class string
			offs[i], class = genEdgeOffset(t, db.behind, db.ahead)
			tags[i] = series[rapid.IntRange(0, len(series)-1).Draw(t, "series")]
			outside[i] = outsideWindow(offs[i], db.behind, db.ahead)
			if outside[i] {
				class += ",dropped"
			} else {
				class += ",kept"
			}
			classes[class] = true
			if !outside[i] && (offs[i] == -db.behind && db.behind > 0 || offs[i] == db.ahead && db.ahead > 0) {
				onEdgeIn++
			}
			if outside[i] && (offs[i] == -db.behind-1 || offs[i] == db.ahead+1) {
				justOut++
			}
			canonCase += fmt.Sprintf("%d%v;", offs[i], tags[i])
		}

		decided := false
		var st routeStats
		for a := 0; a < edgeAttempts && !decided; a++ {
			n0 := fasttime.UnixMilliseconds()
			caseNow = n0
			ms := make([]*am, n)
			for i := range ms {
				ms[i] = &am{Name: "edge", TS: n0 + offs[i], Tags: tags[i], Fields: []sfield{{"f", tLast, float64(i + 1)}}}
			}
			rec := &softFailer{}
			attempt(func() {
				batch, want, _ := ingest(rec, f, ms, outside, make([]junk, n), rc)
				if batch == nil {
					rec.Fatalf("[%s] no row of a well-formed request was accepted", f)
				}
				st = route(rec, f, batch, want, db)
				batch.Release()
			})
			if fasttime.UnixMilliseconds() != n0 {
				isolatePool()() // a batch that was not released may not leak into the next attempt
				continue
			}
			if rec.msg != "" {
				t.Fatalf("now=%d (clock unchanged during the request), offsets %v, behind=%d ahead=%d: %s", n0, offs, db.behind, db.ahead, rec.msg)
			}
			decided = true
		}
		if !decided {
			classes["undecided:clock-moved-in-every-attempt"] = true
		}
		if st.evicted > 0 {
			classes["request=some-dropped"] = true
		}
		if st.written > 0 {
			classes["request=some-kept"] = true
		}
		var cl []string
		for c := range classes {
			cl = append(cl, c)
		}
		sort.Strings(cl)
		ev.Case(group, canonCase, decided && onEdgeIn >= 1 && justOut >= 1, cl,
			map[string]any{"behind": db.opt.Behind, "ahead": db.opt.Ahead, "format": f.String(), "offsets_ms": offs, "dropped": st.evicted, "kept": st.written})
	})
}
