package c16

import (
	"fmt"
	"math"
	"net/http"
	"strings"
	"testing"
	"time"

	"github.com/lindb/lindb/ingestion/influx"
	"github.com/lindb/lindb/models"
	"github.com/lindb/lindb/series/metric"
	"github.com/lindb/lindb/verifharness/sim/ev"
)

// Plain reproductions (no rapid) of the shrunk failures the property tests found. Each one
// fails on a tree that has the defect, unless the defect is listed in known_findings.json, in
// which case it prints the KNOWN-FINDING line and passes.

const sigStaleFlag = "C16/stale-out-of-range-flag-in-pooled-batch"

func verdict(t *testing.T, sig string, reproduced bool, what string) {
	t.Helper()
	if !reproduced {
		return
	}
	if ev.Known(sig) {
		ev.KnownFinding("C16", sig+": "+what)
		return
	}
	t.Fatalf("%s: %s", sig, what)
}

func defaultCtx() *reqCtx { return &reqCtx{NS: "default-ns", Limits: models.NewDefaultLimits()} }

func oneField() []sfield { return []sfield{{"f", tLast, 1}} }

func mustParse(t *testing.T, f format, ms []*am, rc *reqCtx) *metric.BrokerBatchRows {
	t.Helper()
	batch, err := parse(f, ms, make([]junk, len(ms)), rc)
	if err != nil {
		t.Fatalf("parse: %v", err)
	}
	return batch
}

// D5. BrokerRow.IsOutOfTimeRange is set by EvictOutOfTimeRange and never cleared; the batch
// (with its row slots) goes back to a sync.Pool (channelManager.Write), so the next request
// that is decoded into the same slot is silently dropped although it is inside the window.
func TestRegression_StaleOutOfRangeFlag(t *testing.T) {
	defer isolatePool()()
	now := time.Now().UnixMilli()
	rc := defaultCtx()
	window := msHour

	old := &am{Name: "cpu", TS: now - 3*msHour, Tags: []kv{{"host", "a"}}, Fields: oneField()}
	b1 := mustParse(t, fProto, []*am{old}, rc)
	if n := b1.EvictOutOfTimeRange(window, window); n != 1 {
		t.Fatalf("a row 3h old with a 1h window: evicted %d", n)
	}
	b1.Release() // what channelManager.Write does when it is done

	fresh := &am{Name: "cpu", TS: now, Tags: []kv{{"host", "a"}}, Fields: oneField()}
	b2 := mustParse(t, fProto, []*am{fresh}, rc)
	if b2 != b1 {
		t.Fatalf("VERIF-INCONCLUSIVE: the pool did not hand the released batch back")
	}
	if n := b2.EvictOutOfTimeRange(window, window); n != 0 {
		t.Fatalf("a row stamped now with a 1h window: evicted %d", n)
	}
	written := 0
	it := b2.NewShardGroupIterator(4)
	for it.HasRowsForNextShard() {
		_, fit := it.FamilyRowsForNextShard(10 * 1000)
		for fit.HasNextFamily() {
			_, rows := fit.NextFamily()
			for i := range rows {
				written += rows[i].Size()
			}
		}
	}
	b2.Release()
	verdict(t, sigStaleFlag, written == 0,
		"an in-window row decoded into a pooled slot that held an evicted row is dropped (Size()==0, nothing written to the shard channel)")
}

// The flat decoder documents "if row namespace is empty, use request's namespace" but asks
// readOnlyRow.NameSpace(), which already substitutes "default-ns": ?ns=... is ignored.
func TestRegression_FlatRequestNamespaceIgnored(t *testing.T) {
	defer isolatePool()()
	rc := defaultCtx()
	rc.NS = "tenant-a"
	m := &am{Name: "cpu", TS: time.Now().UnixMilli(), Tags: []kv{{"host", "a"}}, Fields: oneField()}
	for _, f := range []format{fFlatClient, fFlatRaw} {
		b := mustParse(t, f, []*am{m}, rc)
		got := readBrokerRow(&b.Rows()[0]).NS
		verdict(t, sigFlatNS, got != "tenant-a",
			fmt.Sprintf("%s row without a namespace of its own sent to /write?ns=tenant-a is stored in namespace %q (proto and influx use tenant-a)", f, got))
	}
}

func twelveTagsPlusEnriched() (*am, *reqCtx) {
	m := &am{Name: "cpu", TS: time.Now().UnixMilli(), Fields: oneField()}
	m.Tags = append(m.Tags, kv{"host", "from-metric"})
	for i := 0; i <= 10; i++ {
		m.Tags = append(m.Tags, kv{fmt.Sprintf("k%02d", i), "v"})
	}
	rc := defaultCtx()
	rc.Enriched = []kv{{"host", "from-request"}}
	return m, rc
}

func tagValue(c *canon, key string) string {
	for _, t := range c.Tags {
		if t.K == key {
			return t.V
		}
	}
	return "<absent>"
}

// deDupTags: "high index key has higher priority", but the sort before it is sort.Sort, which is
// not stable beyond 12 elements: with 12 own tags the enriched tag (appended last) loses.
func TestRegression_ProtoDedupUnstableSort(t *testing.T) {
	defer isolatePool()()
	m, rc := twelveTagsPlusEnriched()
	b := mustParse(t, fProto, []*am{m}, rc)
	got := tagValue(readBrokerRow(&b.Rows()[0]), "host")
	verdict(t, sigProtoDedup, got != "from-request",
		fmt.Sprintf("12 tags (host first) + enriched host=from-request: stored host=%q; with 11 tags the enriched value wins", got))
	// control: one tag less -> stable insertion sort -> documented rule holds
	m.Tags = m.Tags[:11]
	b = mustParse(t, fProto, []*am{m}, rc)
	if got := tagValue(readBrokerRow(&b.Rows()[0]), "host"); got != "from-request" {
		t.Fatalf("control with 11 tags: host=%q", got)
	}
}

// Same root cause in RowBuilder.dedupTagsThenXXHash of github.com/lindb/common (dependency,
// not part of /repo), reached through the flat decoder (and the influx path).
func TestRegression_BuilderDedupUnstableSort(t *testing.T) {
	defer isolatePool()()
	m, rc := twelveTagsPlusEnriched()
	for _, f := range []format{fFlatClient, fFlatRaw} {
		b := mustParse(t, f, []*am{m}, rc)
		got := tagValue(readBrokerRow(&b.Rows()[0]), "host")
		verdict(t, sigBuilderDedup, got != "from-request",
			fmt.Sprintf("%s: 12 tags (host first) + enriched host=from-request: stored host=%q", f, got))
	}
}

// validateMetric compares the histogram numbers with "< 0" only, so NaN (and +Inf bucket
// counts) pass on the proto path; the flat path refuses exactly these.
func TestRegression_ProtoCompoundNaNAccepted(t *testing.T) {
	defer isolatePool()()
	rc := defaultCtx()
	mk := func(edit func(c *compound)) *am {
		c := &compound{Min: 1, Max: 2, Sum: 3, Count: 4, Bounds: []float64{1, 2, math.Inf(1)}, Values: []float64{1, 2, 1}}
		edit(c)
		return &am{Name: "latency", TS: time.Now().UnixMilli(), Comp: c}
	}
	cases := map[string]*am{
		"NaN bucket value":  mk(func(c *compound) { c.Values[1] = math.NaN() }),
		"+Inf bucket value": mk(func(c *compound) { c.Values[1] = math.Inf(1) }),
		"NaN sum":           mk(func(c *compound) { c.Sum = math.NaN() }),
		"NaN count":         mk(func(c *compound) { c.Count = math.NaN() }),
	}
	for _, name := range []string{"NaN bucket value", "+Inf bucket value", "NaN sum", "NaN count"} {
		m := cases[name]
		if b := mustParse(t, fFlatRaw, []*am{m}, rc); b != nil {
			t.Fatalf("flat path accepted a histogram with %s", name)
		}
		b := mustParse(t, fProto, []*am{m}, rc)
		verdict(t, sigProtoCompNaN, b != nil, "proto path accepts a histogram with "+name+" (flat path refuses it)")
	}
}

// scanMetricName takes the first unescaped comma as the end of the measurement even when a
// blank comes first: a line without tags and with >= 2 fields is mis-split and refused.
func TestRegression_InfluxNoTagsMultiField(t *testing.T) {
	defer isolatePool()()
	rc := defaultCtx()
	m := &am{Name: "cpu", TS: time.Now().UnixMilli(), Fields: []sfield{{"idle_last", tLast, 1}, {"busy_last", tLast, 2}}}
	b := mustParse(t, fInflux, []*am{m}, rc)
	// observation only (outside C16, see excludeKnownShapes): never fails the check
	if b == nil || b.Len() != 1 {
		t.Logf("observation: line %q is refused (bad_fields); the same line with one field or with a tag is accepted", string(renderInflux([]*am{m})))
	}
	// controls
	one := *m
	one.Fields = m.Fields[:1]
	if b := mustParse(t, fInflux, []*am{&one}, rc); b == nil || b.Len() != 1 {
		t.Fatalf("control (one field) refused")
	}
	tagged := *m
	tagged.Tags = []kv{{"host", "a"}}
	if b := mustParse(t, fInflux, []*am{&tagged}, rc); b == nil || b.Len() != 1 {
		t.Fatalf("control (with tag) refused")
	}
}

// Found by FuzzInfluxParse: a field value that consists of the integer suffix only ("f=i",
// "f=u") makes parseField call strutil.ByteSlice2String on an empty slice, which panics
// (&bytes[0]). The HTTP recovery middleware turns that into a 500: one malformed line loses
// every valid line of the request instead of being dropped alone.
const sigInfluxBareSuffix = "C16/influx-bare-integer-suffix-panics"

func TestRegression_InfluxBareIntegerSuffixPanics(t *testing.T) {
	defer isolatePool()()
	body := "cpu,host=a idle_last=1 1700000000000\ncpu,host=b idle_last=i 1700000000000\ncpu,host=c idle_last=3 1700000000000\n"
	req, _ := http.NewRequest(http.MethodPost, "http://broker/api/v1/write?db=db&precision=ms", strings.NewReader(body))
	rows, panicked := -1, ""
	func() {
		defer func() {
			if r := recover(); r != nil {
				panicked = fmt.Sprint(r)
			}
		}()
		b, err := influx.Parse(req, nil, strings.Clone("default-ns"), models.NewDefaultLimits())
		if err != nil {
			t.Fatalf("parse: %v", err)
		}
		rows = b.Len()
	}()
	verdict(t, sigInfluxBareSuffix, panicked != "",
		"influx.Parse panics ("+panicked+") on the line \"cpu,host=b idle_last=i ...\"; the two valid lines of the request are lost with it")
	if panicked == "" && rows != 2 {
		t.Fatalf("expected the two valid lines to be accepted and the malformed one dropped, got %d rows", rows)
	}
}
