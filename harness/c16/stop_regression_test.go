package c16

// Plain reproduction (no rapid) of a failure the thorough tier of TestChannelWrite hit three
// times in 80000 cases: `panic: send on closed channel` in
//
//	replica.(*familyChannel).flushChunk <- checkFlush <- writeTask      (the 1 s flush checker)
//	replica.(*familyChannel).flushChunkOnFull <- Write                  (an ingestion goroutine)
//
// familyChannel.Stop closed the chunk channel (fc.ch) although the channel's own flush checker
// and every ingestion goroutine that holds the family channel can still send into it. Stop is
// what databaseChannel.Stop (shutdown) and the expired-family GC call while the broker keeps
// ingesting. The panic kills the broker process.
//
// Oracle (independent of the interleaving): the process does not panic. A Write that overlaps
// or follows the Stop may succeed or return an error; nothing else is asserted.
//
// The production code is driven the way TestChannelWrite drives it: NewChannelManager with the
// fake state manager / stream factory, the shard-state callback creates the database and shard
// channels, rows go in through ChannelManager.Write, the shard channel (fetched through the
// manager's CreateChannel) is stopped.

import (
	"context"
	"fmt"
	"runtime/debug"
	"testing"
	"time"

	"github.com/lindb/common/pkg/ltoml"

	"github.com/lindb/lindb/config"
	"github.com/lindb/lindb/models"
	"github.com/lindb/lindb/replica"
	"github.com/lindb/lindb/series/metric"
	"github.com/lindb/lindb/verifharness/sim/ev"
)

const sigStopPanic = "C16/family-channel-stop-panics-concurrent-writer"

// sigStopChunkRace: a second defect that the overlapping variant ("write") runs into on a tree
// that no longer closes the chunk channel: when the family channel is stopping, writeTask
// (sendBeforeStop) reads and compresses fc.chunk WITHOUT lock4write while an ingestion goroutine
// inside familyChannel.Write (which holds lock4write) writes / compresses the same chunk. Two
// concurrent Close calls of the shared s2 writer end in `panic: send on closed channel` in
// s2.(*Writer).Flush <- chunk.Compress <- writeTask, on lindb's own goroutine: the process dies.
// Only while this signature is listed in known_findings.json the overlapping variant is skipped
// (it cannot be demonstrated without killing the test process).
const sigStopChunkRace = "C16/family-channel-stop-compresses-chunk-unlocked"

// stopRig = one channel manager with one database of one shard, created through the shard-state
// callback. A stopped shard channel cannot be stopped again (Stop is not idempotent and the
// families stay registered), so every round has its own rig and ends with cancel(), not Close().
type stopRig struct {
	db     string
	cm     replica.ChannelManager
	shard  replica.ShardChannel
	sk     *sink
	cancel context.CancelFunc
}

func newStopRig(t *testing.T, db, behind, ahead string) *stopRig {
	t.Helper()
	d := &wdb{name: db, behindS: behind, aheadS: ahead, intervals: []string{"10s"}, shards: 1}
	dbCfg := d.config(t)
	sk := &sink{got: map[groupKey][]string{}}
	sm := &fakeStateMgr{}
	ctx, cancel := context.WithCancel(context.Background())
	cm := replica.NewChannelManager(ctx, &fakeStreamFct{s: sk}, sm)
	creator, ok := cm.(shardChannelCreator)
	if sm.fn == nil || !ok {
		cancel()
		t.Fatalf("harness: the channel manager did not subscribe to shard state changes / has no CreateChannel method any more")
	}
	node := models.StatefulNode{StatelessNode: models.StatelessNode{HostIP: "127.0.0.1", GRPCPort: 2}, ID: 1}
	sm.fn(dbCfg, map[models.ShardID]models.ShardState{0: {ID: 0, State: models.OnlineShard, Leader: 1,
		Replica: models.Replica{Replicas: []models.NodeID{1}}}}, map[models.NodeID]models.StatefulNode{1: node})
	shard, err := creator.CreateChannel(dbCfg, 1, 0)
	if err != nil {
		cancel()
		t.Fatalf("harness: shard channel %s/0: %v", db, err)
	}
	return &stopRig{db: db, cm: cm, shard: shard, sk: sk, cancel: cancel}
}

func (r *stopRig) close() {
	r.cancel()
	waitStreamsClosed(r.sk)
}

// stopBatch builds n rows of one series with the given timestamps (cycled) through the
// production protobuf parser.
func stopBatch(n int, ts ...int64) (*metric.BrokerBatchRows, error) {
	ms := make([]*am, n)
	for i := range ms {
		ms[i] = &am{Name: "cpu", TS: ts[i%len(ts)], Tags: []kv{{"host", "a"}}, Fields: oneField()}
	}
	batch, err := parse(fProto, ms, make([]junk, n), defaultCtx())
	if err != nil || batch == nil {
		return nil, fmt.Errorf("harness: parse: %v", err)
	}
	return batch, nil
}

// mustWrite is for the set-up writes (nothing is stopped yet, so they have to succeed).
func (r *stopRig) mustWrite(t *testing.T, n int, ts ...int64) {
	t.Helper()
	batch, err := stopBatch(n, ts...)
	if err == nil {
		err = r.cm.Write(context.Background(), r.db, batch)
	}
	if err != nil {
		t.Fatalf("harness: set-up write of %d rows: %v", n, err)
	}
}

// stopRounds: per round one goroutine writes small batches into ONE family of one shard
// (BatchBlockSize = 1: every written row fills the chunk, so every row is sent into the family's
// chunk channel from inside Write); as soon as it reported its first successful write the test
// goroutine stops the shard channel. overlap = the writer keeps writing while Stop runs;
// otherwise it pauses until Stop returned. In both cases it sends tailBatches more batches after
// Stop returned, then it is joined.
func stopRounds(t *testing.T, overlap bool, rounds int, budget time.Duration) {
	cfg := config.NewDefaultBrokerBase()
	cfg.Write.BatchBlockSize = ltoml.Size(1)
	config.SetGlobalBrokerConfig(cfg)

	const (
		rowsPerBatch = 2
		tailBatches  = 4
	)
	start := time.Now()
	done := 0
	for round := 0; round < rounds && time.Since(start) < budget; round++ {
		rig := newStopRig(t, "c16stop", "1h", "1h")
		now := time.Now().UnixMilli() // one timestamp per round: one family
		wctx, wcancel := context.WithTimeout(context.Background(), time.Second)

		var (
			first     = make(chan struct{})
			stopped   = make(chan struct{})
			joined    = make(chan struct{})
			panicked  string
			harnessEr error
			writes    int
		)
		go func() {
			defer close(joined)
			defer func() {
				if p := recover(); p != nil {
					panicked = fmt.Sprintf("%v\n%s", p, debug.Stack())
				}
			}()
			reported, tail := false, 0
			for writes = 0; writes < 100000 && tail < tailBatches; writes++ {
				select {
				case <-stopped:
					tail++
				default:
				}
				batch, err := stopBatch(rowsPerBatch, now)
				if err != nil {
					harnessEr = err
					return
				}
				// an error is fine once the channel is being stopped (and nothing is claimed before)
				if err = rig.cm.Write(wctx, rig.db, batch); err == nil && !reported {
					reported = true
					close(first) // the family channel exists
					if !overlap {
						<-stopped
					}
				}
			}
		}()

		select {
		case <-first:
		case <-joined:
		case <-time.After(3 * time.Second):
		}
		rig.shard.Stop()
		close(stopped)
		select {
		case <-joined:
		case <-time.After(2500 * time.Millisecond):
			wcancel()
			rig.cancel()
			t.Fatalf("%s: round %d: the writing goroutine did not return within 2.5 s after ShardChannel.Stop returned (its context ends after 1 s)", sigStopPanic, round)
		}
		wcancel()
		rig.close()
		if harnessEr != nil {
			t.Fatalf("round %d: %v", round, harnessEr)
		}
		if panicked != "" {
			when := "after the shard channel was stopped"
			if overlap {
				when = "while / after the shard channel was stopped"
			}
			t.Fatalf("%s: round %d: the goroutine writing rows into one family channel (ChannelManager.Write, batch %d, %d rows per batch, BatchBlockSize=1) panicked %s: %s",
				sigStopPanic, round, writes+1, rowsPerBatch, when, panicked)
		}
		done++
	}
	t.Logf("%d rounds in %v", done, time.Since(start).Round(time.Millisecond))
}

func TestRegression_StopFamilyChannelWhileWriting(t *testing.T) {
	old := config.GlobalBrokerConfig()
	defer config.SetGlobalBrokerConfig(old)

	// Writes that FOLLOW the Stop only (the writer got hold of the family channel before it was
	// stopped: the shard channel keeps a stopped family registered, and the expiry GC stops a
	// family that a writer may have looked up just before). No concurrency is involved: with the
	// chunk channel closed, each row panics with probability 1/2 (select between the send into
	// the closed channel and the cancelled context).
	// (A later variant that dies on lindb's goroutine would swallow the message of an earlier one:
	// stop at the first variant that fails.)
	if !t.Run("write-after-stop", func(t *testing.T) { stopRounds(t, false, 8, 500*time.Millisecond) }) {
		return
	}

	// The channel's own flush checker (1 s ticker in writeTask): many family channels of one
	// shard are created at the same moment, each holds a non-empty chunk that is due
	// (BatchTimeout 1 ms, BatchBlockSize default so Write itself never flushes), and the shard
	// channel is stopped - family by family - across their common first flush check. A panic here
	// is on lindb's own goroutine and cannot be recovered: the test process dies with
	// "panic: send on closed channel" (the driver reports a dead test process as a violation).
	if !t.Run("flush-check", func(t *testing.T) {
		cfg := config.NewDefaultBrokerBase()
		cfg.Write.BatchTimeout = ltoml.Duration(time.Millisecond)
		config.SetGlobalBrokerConfig(cfg)

		const (
			families      = 64
			rowsPerFamily = 20
			rigs          = 4
			attempts      = 2
		)
		leads := [rigs]time.Duration{1 * time.Millisecond, 3 * time.Millisecond, 6 * time.Millisecond, 10 * time.Millisecond}
		for attempt := 0; attempt < attempts; attempt++ {
			now := time.Now().UnixMilli()
			ts := make([]int64, families)
			for k := range ts {
				ts[k] = now - int64(k)*msHour // interval 10s: one family per hour
			}
			type armed struct {
				rig     *stopRig
				created time.Time
			}
			var all []armed
			for i := 0; i < rigs; i++ {
				rig := newStopRig(t, fmt.Sprintf("c16tick%d", i), "7d", "1h")
				rig.mustWrite(t, families, ts...) // creates the 64 family channels
				all = append(all, armed{rig, time.Now()})
			}
			for _, a := range all {
				a.rig.mustWrite(t, families*(rowsPerFamily-1), ts...)
			}
			stoppedAll := make(chan string, rigs)
			for i, a := range all {
				go func(a armed, lead time.Duration) {
					time.Sleep(time.Until(a.created.Add(time.Second - lead)))
					from := time.Now()
					a.rig.shard.Stop()
					stoppedAll <- fmt.Sprintf("%s: Stop of %d families from %v to %v after their creation", a.rig.db, families,
						from.Sub(a.created).Round(10*time.Microsecond), time.Since(a.created).Round(10*time.Microsecond))
				}(a, leads[i])
			}
			for range all {
				select {
				case what := <-stoppedAll:
					t.Logf("attempt %d: %s", attempt, what)
				case <-time.After(20 * time.Second):
					t.Fatalf("harness: attempt %d: ShardChannel.Stop did not return", attempt)
				}
			}
			for _, a := range all {
				a.rig.close()
			}
		}
	}) {
		return
	}

	// The writer keeps writing while the shard channel is stopped (Write overlaps Stop). Last,
	// because a panic on lindb's writeTask goroutine (sigStopChunkRace) ends the process.
	t.Run("write", func(t *testing.T) {
		if ev.Known(sigStopChunkRace) {
			t.Skipf("%s is a listed finding: a writer that overlaps the Stop kills the process", sigStopChunkRace)
		}
		stopRounds(t, true, 60, 1500*time.Millisecond)
	})
}
