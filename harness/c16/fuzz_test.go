package c16

import (
	"bytes"
	"fmt"
	"math"
	"net/http"
	"strings"
	"testing"

	"github.com/lindb/lindb/ingestion/flat"
	"github.com/lindb/lindb/ingestion/influx"
	"github.com/lindb/lindb/models"
	"github.com/lindb/lindb/series/metric"
	"github.com/lindb/lindb/verifharness/sim/ev"
)

// Native fuzz targets (thorough tier only) for the two byte-level parsers. The oracle is the
// part of C16 that needs no knowledge of what the client meant: whatever bytes arrive, every
// row the parser ACCEPTS is canonical (tags sorted and unique, hashes recomputed from the
// content, valid fields), and routing partitions the batch.

func checkAcceptedRow(t *testing.T, c *canon) {
	t.Helper()
	if c.Name == "" || strings.Contains(c.Name, "|") || strings.Contains(c.NS, "|") {
		t.Fatalf("accepted row with empty / unsanitised name or namespace: %s", c)
	}
	for i, tg := range c.Tags {
		if tg.K == "" || tg.V == "" {
			t.Fatalf("accepted row with empty tag key/value: %s", c)
		}
		if i > 0 && !(c.Tags[i-1].K < tg.K) {
			t.Fatalf("tags not sorted and unique: %s", c)
		}
	}
	if c.TagsHash != tagsHash(c.Tags) {
		t.Fatalf("TagsHash %x is not the hash of the row's tags (%x): %s", c.TagsHash, tagsHash(c.Tags), c)
	}
	if c.NameHash != nameHash(c.NS, c.Name) {
		t.Fatalf("NameHash %x is not the hash of namespace+name (%x): %s", c.NameHash, nameHash(c.NS, c.Name), c)
	}
	if len(c.Fields) == 0 && c.Comp == nil {
		t.Fatalf("accepted row without any field: %s", c)
	}
	for _, f := range c.Fields {
		if f.Name == "" || f.Type == tUnspecified || math.IsNaN(f.Value) || math.IsInf(f.Value, 0) {
			t.Fatalf("accepted row with an invalid simple field %+v: %s", f, c)
		}
	}
	if cc := c.Comp; cc != nil {
		if len(cc.Bounds) != len(cc.Values) || len(cc.Bounds) < 2 || !math.IsInf(cc.Bounds[len(cc.Bounds)-1], 1) {
			t.Fatalf("accepted row with a malformed histogram: %s", c)
		}
		for i, v := range cc.Values {
			if !(v >= 0) || math.IsInf(v, 0) || (i > 0 && cc.Bounds[i] < cc.Bounds[i-1]) {
				t.Fatalf("accepted row with a malformed histogram: %s", c)
			}
		}
		if !(cc.Min >= 0 && cc.Max >= 0 && cc.Sum >= 0 && cc.Count >= 0) {
			t.Fatalf("accepted row with a malformed histogram: %s", c)
		}
	}
}

func checkBatch(t *testing.T, batch *metric.BrokerBatchRows, shards int32) {
	t.Helper()
	if batch == nil || batch.Len() == 0 {
		return
	}
	// production always applies a positive write window before routing (databaseChannel.Write ->
	// EvictOutOfTimeRange; DatabaseOption.Default()/Validate() never leave it disabled). Fuzzed bytes
	// can carry absurd timestamps (+-10^18 ms) that only an evicted row can have: apply a +-100 year
	// window, evicted rows are not part of the partition.
	const century = int64(100 * 365 * 24 * 3600 * 1000)
	batch.EvictOutOfTimeRange(century, century)
	want := map[string]int{}
	for i := range batch.Rows() {
		if batch.Rows()[i].IsOutOfTimeRange {
			continue
		}
		c := readBrokerRow(&batch.Rows()[i])
		checkAcceptedRow(t, c)
		want[c.String()]++
	}
	got := map[string]int{}
	var sbr = metric.NewStorageBatchRows()
	it := batch.NewShardGroupIterator(shards)
	for it.HasRowsForNextShard() {
		sh, fit := it.FamilyRowsForNextShard(10 * 1000)
		for fit.HasNextFamily() {
			_, rows := fit.NextFamily()
			var chunk bytes.Buffer
			var wrote []string
			for i := range rows {
				if rows[i].IsOutOfTimeRange {
					if n, _ := rows[i].WriteTo(&bytes.Buffer{}); n != 0 {
						t.Fatalf("evicted row is written (%d bytes)", n)
					}
					continue
				}
				c := readBrokerRow(&rows[i])
				got[c.String()]++
				if int32(sh) != jumpHash(c.TagsHash, shards) {
					t.Fatalf("row in shard %d, jump hash says %d", sh, jumpHash(c.TagsHash, shards))
				}
				if n, _ := rows[i].WriteTo(&chunk); n == 0 {
					t.Fatalf("row dropped although nothing was evicted: %s", c)
				}
				wrote = append(wrote, c.String())
			}
			sbr.UnmarshalRows(chunk.Bytes())
			if sbr.Len() != len(wrote) {
				t.Fatalf("storage decoded %d of %d rows", sbr.Len(), len(wrote))
			}
			for i, sr := range sbr.Rows() {
				if readStorageRow(sr).String() != wrote[i] {
					t.Fatalf("storage view differs for %s", wrote[i])
				}
			}
		}
	}
	for s, n := range want {
		if got[s] != n {
			t.Fatalf("not a partition: %d accepted, %d delivered: %s", n, got[s], s)
		}
	}
	batch.Release()
}

func fuzzSeeds() []*am {
	return []*am{
		{Name: "cpu", TS: 1700000000000, Tags: []kv{{"host", "a"}, {"zone", "z"}}, Fields: []sfield{{"idle_last", tLast, 1.5}, {"n_sum", tDeltaSum, 2}}},
		{Name: "net,rx x", TS: 1700000000001, Tags: []kv{{"a b", "v,v"}, {"a=b", "="}, {"a b", "dup"}}, Fields: []sfield{{"v_first", tFirst, -3}}},
		{Name: "lat|ency", TS: 1700000000002, Comp: &compound{Min: 1, Max: 2, Sum: 3, Count: 4, Bounds: []float64{1, 2, math.Inf(1)}, Values: []float64{1, 2, 1}}},
	}
}

func FuzzInfluxParse(f *testing.F) {
	seeds := fuzzSeeds()
	f.Add(renderInflux(seeds[:2]), uint8(4))
	f.Add([]byte("m a_last=1,b_last=2\n# comment\nm,k=v x_sum=1i 1700000000000\n"), uint8(1))
	f.Add([]byte(`w\ x,t\,1=a\=b f\ last=1e3,g_first=t,h="str" 1700000000000`), uint8(64))
	f.Add([]byte("0 0=i"), uint8(1)) // found by this target: see TestRegression_InfluxBareIntegerSuffixPanics
	// backslash runs of both parities before every separator kind and at the end of tokens
	f.Add([]byte(`svc\\,dir=C:\\,p\\\,q=\\\ srv\\\\,k\\=v\=w io\\=1,f\\\=x_last=2 1700000000000`+"\n"+`a\\\\\,b\=c\\ v\\\\_sum=3 1700000000001`), uint8(3))
	f.Fuzz(func(t *testing.T, body []byte, nShards uint8) {
		req, err := http.NewRequest(http.MethodPost, "http://broker/api/v1/write?db=db&precision=ms", bytes.NewReader(body))
		if err != nil {
			t.Skip()
		}
		enriched := toTags([]kv{{"zone", "enriched"}})
		defer func() {
			if r := recover(); r != nil {
				if ev.Known(sigInfluxBareSuffix) && strings.Contains(fmt.Sprint(r), "index out of range [0] with length 0") {
					t.Skip("known finding " + sigInfluxBareSuffix)
				}
				panic(r)
			}
		}()
		batch, _ := influx.Parse(req, enriched, strings.Clone("n|s"), models.NewDefaultLimits())
		checkBatch(t, batch, int32(nShards%64)+1)
	})
}

func FuzzFlatParse(f *testing.F) {
	seeds := fuzzSeeds()
	client, _ := renderFlatClient(seeds)
	f.Add(client, uint8(4))
	f.Add(renderFlatRaw(seeds, []junk{{1, 2}, {3, 4}, {5, 6}}), uint8(7))
	f.Add(client[:len(client)-5], uint8(1))
	f.Fuzz(func(t *testing.T, body []byte, nShards uint8) {
		req, err := http.NewRequest(http.MethodPost, "http://broker/api/v1/write?db=db", bytes.NewReader(body))
		if err != nil {
			t.Skip()
		}
		enriched := toTags([]kv{{"zone", "enriched"}})
		batch, _ := flat.Parse(req, enriched, strings.Clone("n|s"), models.NewDefaultLimits())
		checkBatch(t, batch, int32(nShards%64)+1)
	})
}
