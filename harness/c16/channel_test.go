package c16

// TestChannelWrite drives the production broker write path
//
//	shard-state event -> replica.ChannelManager (database / shard channels)
//	ChannelManager.Write -> databaseChannel.Write (write window of THAT database, shard and
//	family grouping) -> familyChannel.Write -> chunk -> rpc write stream
//
// with a fake state manager (only hands the callback over) and a fake rpc stream factory that
// decodes what a storage node would receive (snappy block -> StorageBatchRows) together with
// the (database, shard, family) the stream was opened for. Nothing of the routing is replayed
// by the harness here: the window, shard count and interval are the ones the production code
// derives from the database option it was given.

import (
	"context"
	"encoding/json"
	"fmt"
	"io"
	"sort"
	"sync"
	"testing"
	"time"

	"github.com/lindb/common/pkg/logger"
	"github.com/lindb/common/pkg/ltoml"
	"google.golang.org/grpc"
	"google.golang.org/grpc/metadata"
	"pgregory.net/rapid"

	"github.com/lindb/lindb/config"
	"github.com/lindb/lindb/constants"
	"github.com/lindb/lindb/coordinator/broker"
	"github.com/lindb/lindb/metrics"
	"github.com/lindb/lindb/models"
	"github.com/lindb/lindb/pkg/compress"
	"github.com/lindb/lindb/pkg/option"
	"github.com/lindb/lindb/pkg/timeutil"
	protoWriteV1 "github.com/lindb/lindb/proto/gen/v1/write"
	"github.com/lindb/lindb/replica"
	"github.com/lindb/lindb/rpc"
	"github.com/lindb/lindb/series/metric"
	"github.com/lindb/lindb/verifharness/sim/ev"
)

func init() {
	// the channels log every stream they open / close (info) and every stream end (error)
	_ = logger.RunningAtomicLevel.UnmarshalText([]byte("fatal"))
}

// ---- what the storage side receives ----------------------------------------------------------

type groupKey struct {
	db     string
	shard  int32
	family int64
}

type sink struct {
	mu     sync.Mutex
	got    map[groupKey][]string // canonical rows in arrival order
	faults []string              // undecodable deliveries
	open   int                   // streams opened and not yet closed
}

func (s *sink) deliver(fs *models.FamilyState, record []byte) {
	s.mu.Lock()
	defer s.mu.Unlock()
	defer func() {
		// this runs on a goroutine of the family channel: a panic would kill the process
		if r := recover(); r != nil {
			s.faults = append(s.faults, fmt.Sprintf("delivery to %s/%d/%d cannot be decoded: %v", fs.Database, fs.Shard.ID, fs.FamilyTime, r))
		}
	}()
	block, err := compress.NewSnappyReader().Uncompress(record)
	if err != nil {
		s.faults = append(s.faults, fmt.Sprintf("delivery to %s/%d/%d is not a snappy block: %v", fs.Database, fs.Shard.ID, fs.FamilyTime, err))
		return
	}
	sbr := metric.NewStorageBatchRows()
	sbr.UnmarshalRows(block)
	k := groupKey{fs.Database, int32(fs.Shard.ID), fs.FamilyTime}
	for _, sr := range sbr.Rows() {
		s.got[k] = append(s.got[k], readStorageRow(sr).String())
	}
}

type fakeStateMgr struct {
	broker.StateManager // nil: the channel manager only subscribes
	fn                  func(models.Database, map[models.ShardID]models.ShardState, map[models.NodeID]models.StatefulNode)
}

func (f *fakeStateMgr) WatchShardStateChangeEvent(fn func(databaseCfg models.Database,
	shards map[models.ShardID]models.ShardState, liveNodes map[models.NodeID]models.StatefulNode)) {
	f.fn = fn
}

type fakeStreamFct struct {
	rpc.ClientStreamFactory // nil
	s                       *sink
}

func (f *fakeStreamFct) LogicNode() models.Node {
	return &models.StatelessNode{HostIP: "127.0.0.1", GRPCPort: 1}
}

func (f *fakeStreamFct) CreateWriteServiceClient(models.Node) (protoWriteV1.WriteServiceClient, error) {
	return &fakeWriteService{s: f.s}, nil
}

type fakeWriteService struct{ s *sink }

func (w *fakeWriteService) Write(ctx context.Context, _ ...grpc.CallOption) (protoWriteV1.WriteService_WriteClient, error) {
	c := &fakeWriteClient{ctx: ctx, s: w.s, done: make(chan struct{})}
	md, _ := metadata.FromOutgoingContext(ctx)
	if v := md.Get(constants.RPCMetaKeyFamilyState); len(v) == 1 {
		c.ok = json.Unmarshal([]byte(v[0]), &c.fs) == nil
	}
	w.s.mu.Lock()
	w.s.open++
	w.s.mu.Unlock()
	return c, nil
}

type fakeWriteClient struct {
	grpc.ClientStream // nil
	ctx               context.Context
	s                 *sink
	fs                models.FamilyState
	ok                bool
	done              chan struct{}
	once              sync.Once
}

func (c *fakeWriteClient) Send(req *protoWriteV1.WriteRequest) error {
	if !c.ok {
		c.s.mu.Lock()
		c.s.faults = append(c.s.faults, "write stream opened without a readable family state")
		c.s.mu.Unlock()
		return nil
	}
	c.s.deliver(&c.fs, req.Record)
	return nil
}

func (c *fakeWriteClient) Context() context.Context { return c.ctx }

func (c *fakeWriteClient) Recv() (*protoWriteV1.WriteResponse, error) {
	select {
	case <-c.done:
	case <-c.ctx.Done():
	}
	return nil, io.EOF
}

func (c *fakeWriteClient) CloseSend() error {
	c.once.Do(func() {
		close(c.done)
		c.s.mu.Lock()
		c.s.open--
		c.s.mu.Unlock()
	})
	return nil
}

// shardChannelCreator is the exported method of the channel manager that the shard-state
// callback uses; for an existing database / shard it returns the existing shard channel.
type shardChannelCreator interface {
	CreateChannel(databaseCfg models.Database, numOfShard int32, shardID models.ShardID) (replica.ShardChannel, error)
}

// ---- databases with their own write window ---------------------------------------------------

var windowPool = []string{"30m", "1h", "2h", "3h", "6h", "12h", "1d", "2d", "7d"}

type wdb struct {
	name          string
	behindS       string
	aheadS        string
	behind, ahead int64 // model: 0 = that side is not limited
	intervals     []string
	interval      timeutil.Interval // smallest interval (the one the families are cut by)
	shards        int32
	winClass      string
	// channels created in parts (see TestChannelWrite): the shards that have a channel so far,
	// nil = the shard-state callback created all of them at once
	has map[int32]bool
}

func (d *wdb) hasChannel(shard int32) bool { return d.has == nil || d.has[shard] }

func genWindowDB(t *rapid.T, name string) *wdb {
	d := &wdb{name: name}
	two := func() (small, large string) {
		i := rapid.IntRange(0, len(windowPool)-2).Draw(t, "winSmall")
		j := rapid.IntRange(i+1, len(windowPool)-1).Draw(t, "winLarge")
		return windowPool[i], windowPool[j]
	}
	switch rapid.IntRange(0, 9).Draw(t, "winKind") {
	case 0:
		d.behindS = rapid.SampledFrom(windowPool).Draw(t, "win")
		d.aheadS = d.behindS
		d.winClass = "win=symmetric"
	case 1:
		d.behindS, d.aheadS = "1d", "1d" // what DatabaseOption.Default() fills in
		d.winClass = "win=symmetric"
	case 2, 3, 4:
		d.aheadS, d.behindS = two()
		d.winClass = "win=behind>ahead"
	case 5, 6:
		d.behindS, d.aheadS = two()
		d.winClass = "win=behind<ahead"
	case 7:
		d.behindS, d.aheadS = "", rapid.SampledFrom(windowPool).Draw(t, "win")
		d.winClass = "win=behind-unlimited"
	case 8:
		d.behindS, d.aheadS = rapid.SampledFrom(windowPool).Draw(t, "win"), ""
		d.winClass = "win=ahead-unlimited"
	default:
		d.winClass = "win=both-unlimited"
	}
	d.behind, d.ahead = parseIntervalMs(d.behindS), parseIntervalMs(d.aheadS)
	d.intervals = rapid.SampledFrom([][]string{{"10s"}, {"10s", "5m", "1h"}, {"1h", "1m"}, {"5m"}, {"30m", "2h"}, {"1h"}, {"1s", "10m"}}).Draw(t, "intervals")
	for _, s := range d.intervals {
		var iv timeutil.Interval
		if err := iv.ValueOf(s); err != nil {
			t.Fatalf("harness: %v", err)
		}
		if d.interval == 0 || iv < d.interval {
			d.interval = iv
		}
	}
	if rapid.Bool().Draw(t, "fewShards") {
		d.shards = int32(rapid.SampledFrom([]int{1, 1, 2, 2, 3, 4}).Draw(t, "shards"))
	} else {
		d.shards = int32(rapid.IntRange(1, 64).Draw(t, "shards"))
	}
	return d
}

// config builds the database configuration the broker receives with the shard state (a fresh
// copy: the channel sorts the intervals and caches the parsed window inside the option).
func (d *wdb) config(t failer) models.Database {
	opt := &option.DatabaseOption{Behind: d.behindS, Ahead: d.aheadS}
	for _, s := range d.intervals {
		var iv, ret timeutil.Interval
		_ = iv.ValueOf(s)
		_ = ret.ValueOf("30d")
		opt.Intervals = append(opt.Intervals, option.Interval{Interval: iv, Retention: ret})
	}
	if err := opt.Validate(); err != nil {
		t.Fatalf("harness: database option invalid: %v", err)
	}
	return models.Database{Name: d.name, NumOfShard: int(d.shards), ReplicaFactor: 1, Option: opt}
}

// outsideWindow is the property's verdict: "rows outside the accepted write window are dropped".
func outsideWindow(offset, behind, ahead int64) bool {
	return (behind > 0 && offset < -behind) || (ahead > 0 && offset > ahead)
}

// genWindowOffset draws a timestamp as an offset from now, at least `guard` away from both
// thresholds of the window (behind, ahead). The classes say where the row lies relative to BOTH
// spans: a row is "side-sensitive" when its verdict would be the opposite if the spans of the
// two sides were exchanged (older than the ahead span but inside behind, newer than the behind
// span but inside ahead, and the two outside counterparts).
func genWindowOffset(t *rapid.T, behind, ahead int64) int64 {
	far := 30 * msDay
	lo, hi := -far, far // in-window range; an unlimited side still uses plausible times
	if behind > 0 {
		lo = -behind + guard
	}
	if ahead > 0 {
		hi = ahead - guard
	}
	// between(a, b): a distance x with a+guard <= x <= b-guard, b == 0 meaning unlimited
	between := func(a, b int64, label string) (int64, bool) {
		from, to := a+guard, b-guard
		if b == 0 {
			to = a + far
		}
		if a <= 0 || from > to {
			return 0, false
		}
		return rapid.Int64Range(from, to).Draw(t, label), true
	}
	switch rapid.IntRange(0, 11).Draw(t, "tsKind") {
	case 0, 1: // past, between the two spans (inside if behind is the larger / unlimited one, else outside)
		if x, ok := between(ahead, behind, "pastBeyondAhead"); ok && (behind == 0 || behind > ahead) {
			return -x
		}
		if x, ok := between(behind, ahead, "pastBeyondBehind"); ok && (ahead == 0 || ahead > behind) {
			return -x
		}
	case 2, 3: // future, between the two spans
		if x, ok := between(behind, ahead, "futureBeyondBehind"); ok && (ahead == 0 || ahead > behind) {
			return x
		}
		if x, ok := between(ahead, behind, "futureBeyondAhead"); ok && (behind == 0 || behind > ahead) {
			return x
		}
	case 4:
		if behind > 0 {
			return -behind - guard - rapid.Int64Range(0, 10*msDay).Draw(t, "tooOld")
		}
	case 5:
		if ahead > 0 {
			return ahead + guard + rapid.Int64Range(0, 10*msDay).Draw(t, "tooNew")
		}
	case 6:
		return lo + rapid.Int64Range(0, msMinute).Draw(t, "nearLo")
	case 7:
		return hi - rapid.Int64Range(0, msMinute).Draw(t, "nearHi")
	case 8:
		return rapid.Int64Range(-guard, guard).Draw(t, "nearNow") / 2
	}
	return rapid.Int64Range(lo, hi).Draw(t, "inWinOffset")
}

func rowClass(offset, behind, ahead int64) (outside, sensitive bool, class string) {
	outside = outsideWindow(offset, behind, ahead)
	sensitive = outside != outsideWindow(offset, ahead, behind)
	switch {
	case !outside && sensitive && offset < 0:
		class = "row=in,older-than-ahead-span"
	case !outside && sensitive:
		class = "row=in,newer-than-behind-span"
	case outside && sensitive && offset < 0:
		class = "row=out,old-but-within-ahead-span"
	case outside && sensitive:
		class = "row=out,new-but-within-behind-span"
	case outside:
		class = "row=out,beyond-both-spans"
	default:
		class = "row=in,within-both-spans"
	}
	return
}

func genChannelBatchSize(t *rapid.T) int {
	if rapid.IntRange(0, 3).Draw(t, "sizeKind") == 0 {
		return rapid.IntRange(13, 40).Draw(t, "n")
	}
	return rapid.IntRange(1, 12).Draw(t, "n")
}

// ---- the property -------------------------------------------------------------------------------

func TestChannelWrite(t *testing.T) {
	rapid.Check(t, func(t *rapid.T) {
		defer isolatePool()()
		now := time.Now().UnixMilli() // sampled once; only offsets from it are generated / recorded
		caseNow = now

		// broker configuration read by the shard channels when they are created
		cfg := config.NewDefaultBrokerBase()
		blockClass := "chunk=default-block-size"
		if rapid.Bool().Draw(t, "smallBlock") {
			cfg.Write.BatchBlockSize = ltoml.Size(rapid.SampledFrom([]int{1, 300, 2048}).Draw(t, "blockSize"))
			blockClass = "chunk=flushed-when-full-during-write"
		}
		config.SetGlobalBrokerConfig(cfg)

		// 1-2 databases, each with its own window / intervals / shard count
		var dbs []*wdb
		for i, n := 0, rapid.SampledFrom([]int{1, 1, 2}).Draw(t, "nDB"); i < n; i++ {
			dbs = append(dbs, genWindowDB(t, fmt.Sprintf("c16db%d", i)))
		}

		sk := &sink{got: map[groupKey][]string{}}
		sm := &fakeStateMgr{}
		ctx, cancel := context.WithCancel(context.Background())
		cm := replica.NewChannelManager(ctx, &fakeStreamFct{s: sk}, sm)
		stopped := false
		defer func() {
			if !stopped {
				cm.Close()
			}
			cancel()
		}()
		if sm.fn == nil {
			t.Fatalf("harness: the channel manager did not subscribe to shard state changes")
		}
		creator, ok := cm.(shardChannelCreator)
		if !ok {
			t.Fatalf("harness: the channel manager has no CreateChannel method any more")
		}
		node := models.StatefulNode{StatelessNode: models.StatelessNode{HostIP: "127.0.0.1", GRPCPort: 2}, ID: 1}
		live := map[models.NodeID]models.StatefulNode{1: node}
		dbCfgs := make([]models.Database, len(dbs))
		canonCase := blockClass
		// The shard-state callback (channelManager.handleShardStateChangeEvent) walks the shards of the
		// event and, per shard, calls CreateChannel and SyncShardState; write requests are served
		// concurrently, so a request can meet a database whose channels exist only in part. For 1
		// database in 5 (>= 2 shards) the harness makes exactly these per-shard calls itself, for a drawn
		// part of the shards in a drawn order, lets requests in, and hands the whole event to the
		// callback before a drawn request (or only after the last one).
		events := make([]func(), len(dbs))
		completeBefore := make([]int, len(dbs))
		for i, d := range dbs {
			i, d := i, d
			dbCfgs[i] = d.config(t)
			shards := map[models.ShardID]models.ShardState{}
			for s := int32(0); s < d.shards; s++ {
				shards[models.ShardID(s)] = models.ShardState{ID: models.ShardID(s), State: models.OnlineShard, Leader: 1,
					Replica: models.Replica{Replicas: []models.NodeID{1}}}
			}
			events[i] = func() { sm.fn(dbCfgs[i], shards, live); d.has = nil }
			canonCase += fmt.Sprintf("|db{b=%s a=%s iv=%v sh=%d}", d.behindS, d.aheadS, d.intervals, d.shards)
			completeBefore[i] = -1
			if d.shards >= 2 && rapid.IntRange(0, 4).Draw(t, "channelsInParts") == 0 {
				order := rapid.Permutation(shardIDs(d.shards)).Draw(t, "shardOrder")
				first := rapid.IntRange(1, int(d.shards)-1).Draw(t, "shardsWithChannel")
				d.has = map[int32]bool{}
				for _, id := range order[:first] {
					ch, err := creator.CreateChannel(dbCfgs[i], d.shards, models.ShardID(id))
					if err != nil {
						t.Fatalf("CreateChannel(%s, %d shards, shard %d): %v", d.name, d.shards, id, err)
					}
					ch.SyncShardState(shards[models.ShardID(id)], live)
					d.has[id] = true
				}
				completeBefore[i] = rapid.IntRange(0, 4).Draw(t, "completeBeforeRequest")
				canonCase += fmt.Sprintf("parts%v@%d", order[:first], completeBefore[i])
				continue
			}
			events[i]() // production path that creates the database / shard channels
		}

		e := &env{now: now}
		for i, n := 0, rapid.IntRange(1, 5).Draw(t, "nSeries"); i < n; i++ {
			e.series = append(e.series, genSeries(t))
		}

		classes := map[string]bool{blockClass: true}
		if len(dbs) == 2 {
			classes["dbs=2"] = true
			if dbs[0].behind != dbs[1].behind || dbs[0].ahead != dbs[1].ahead {
				classes["dbs=2,different-windows"] = true
			}
		}
		want := map[groupKey]map[string]int{} // rows the storage side must receive
		wantRows := 0
		routed, nontrivial := 0, false
		var sample []map[string]any

		steps := rapid.IntRange(1, 4).Draw(t, "steps")
		for s := 0; s < steps; s++ {
			for i, d := range dbs {
				if d.has != nil {
					classes["channels-created-in-parts"] = true
					if completeBefore[i] == s {
						events[i]()
						classes["channels-completed-between-requests"] = true
					}
				}
			}
			di := rapid.IntRange(0, len(dbs)-1).Draw(t, "db")
			d := dbs[di]
			f := format(rapid.IntRange(0, 3).Draw(t, "format"))
			rc, _ := genReqCtx(t)
			excludeKnown("TestChannelWrite", rc, f == fFlatClient || f == fFlatRaw)
			n := genChannelBatchSize(t)
			e.behind, e.ahead = d.behind, d.ahead
			var ms []*am
			var outside []bool
			for i := 0; i < n; i++ {
				m, _, _ := genMetric(t, e)
				m.TS = now + genWindowOffset(t, d.behind, d.ahead)
				// a third of the rows: moved to an edge of their calendar family (first / last ms and the
				// ms next to them, also across the edge), provided the verdict about the window stays the
				// same and the thresholds stay `guard` away. The draw does not depend on the clock.
				if edge := rapid.IntRange(0, 17).Draw(t, "edge"); edge < 6 {
					b := atFamilyEdge(d.interval.Int64(), m.TS, edge)
					far := func(off, threshold int64) bool { return threshold == 0 || off-threshold >= guard || threshold-off >= guard }
					if outsideWindow(b-now, d.behind, d.ahead) == outsideWindow(m.TS-now, d.behind, d.ahead) && far(b-now, -d.behind) && far(b-now, d.ahead) {
						m.TS = b
						classes["row=on-or-next-to-a-family-edge"] = true
					}
				}
				ms, outside = append(ms, m), append(outside, outsideWindow(m.TS-now, d.behind, d.ahead))
			}
			ms, outside = fit("TestChannelWrite", ms, outside, rc, f)
			if len(ms) == 0 {
				classes["step=nothing-to-send"] = true
				continue
			}
			batch, acc, rejects := ingest(t, f, ms, outside, genJunk(t, len(ms)), rc)
			canonCase += fmt.Sprintf("|%d:%s ns=%q en=%v lim=%v:", di, f, rc.NS, rc.Enriched, *rc.Limits)
			for _, m := range ms {
				canonCase += amKey(m, now) + ";"
			}
			if batch == nil { // nothing accepted: the handler answers with an error, nothing is routed
				classes["step=all-rejected"] = true
				continue
			}
			classes["format="+f.String()] = true
			classes[d.winClass] = true

			// the model's expectation for this request
			nOut, nIn, nSensitive := 0, 0, 0
			stepGroups := map[groupKey]bool{}
			// shards of this request without a channel: their rows must arrive nowhere
			lastShard, lastShardIn, missingShards, lostIn := int32(-1), 0, map[int32]bool{}, 0
			for _, a := range acc {
				sh := jumpHash(a.c.TagsHash, d.shards)
				out := outsideWindow(a.c.TS-now, d.behind, d.ahead)
				if sh > lastShard {
					lastShard, lastShardIn = sh, 0
				}
				if sh == lastShard && !out {
					lastShardIn++
				}
				if !d.hasChannel(sh) {
					missingShards[sh] = true
					if !out {
						lostIn++
					}
				}
			}
			for _, a := range acc {
				out, sens, cl := rowClass(a.c.TS-now, d.behind, d.ahead)
				classes[cl] = true
				if sens {
					nSensitive++
				}
				if out {
					nOut++
					continue
				}
				nIn++
				if !d.hasChannel(jumpHash(a.c.TagsHash, d.shards)) {
					continue
				}
				famFirst, _ := familyOf(d.interval.Int64(), a.c.TS) // the calendar family (independent model), not the calculator
				k := groupKey{d.name, jumpHash(a.c.TagsHash, d.shards), famFirst}
				if want[k] == nil {
					want[k] = map[string]int{}
				}
				if !stepGroups[k] && len(want[k]) > 0 {
					classes["family-channel-reused-by-later-request"] = true
				}
				stepGroups[k] = true
				want[k][a.c.String()]++
				wantRows++
			}

			// the production path; the manager releases the batch to the pool when it is done
			counter := metrics.NewBrokerDatabaseWriteStatistics(d.name).OutOfTimeRange
			before := counter.Get()
			err := cm.Write(context.Background(), d.name, batch)
			switch {
			case len(missingShards) == 0:
				if err != nil {
					t.Fatalf("[%s] ChannelManager.Write(%s) of %d accepted rows failed although every shard of the request has a channel: %v", f, d.name, len(acc), err)
				}
			default:
				classes["request-with-rows-for-a-shard-without-channel"] = true
				// Rows of a shard without channel are not written anywhere; the request must not be
				// answered as a success then. Asserted where the unchanged tree is deterministic about it:
				// the shard groups are served in ascending shard order and the error of a group without
				// channel is what Write returns when no later group follows. (When a later group is written
				// successfully its nil result replaces the error - counted as an observation, see
				// TestRegression_ChannelNotFoundOverwrittenByLaterShard.)
				if missingShards[lastShard] && lastShardIn > 0 && err == nil {
					t.Fatalf("[%s] ChannelManager.Write(%s) returned nil although shard %d (the last shard group of the request, %d rows inside the write window) has no channel: the rows are written nowhere and the client is told the request succeeded (shards with a channel: %v of %d)",
						f, d.name, lastShard, lastShardIn, d.has, d.shards)
				}
				switch {
				case err != nil:
					classes["write-reported-channel-not-found"] = true
				case lostIn > 0:
					classes["observation:in-window-rows-of-a-shard-without-channel-dropped,write-returned-nil(later-shard-group-succeeded)"] = true
				default:
					classes["observation:only-evicted-rows-on-shards-without-channel,write-returned-nil"] = true
				}
			}
			if dropped := int(counter.Get() - before); dropped != nOut {
				t.Fatalf("[%s] database %s (behind=%q ahead=%q): the write reported %d rows out of time range, %d of the %d accepted rows are outside the window (offsets from now in ms: %v)",
					f, d.name, d.behindS, d.aheadS, dropped, nOut, len(acc), offsetsOf(acc, now))
			}
			routed++
			if nOut > 0 {
				classes["step=evicted"] = true
			}
			if len(stepGroups) >= 2 {
				classes["step=several-shard-family-groups"] = true
			}
			if d.behind != d.ahead && nSensitive > 0 {
				classes["step=asymmetric-window+side-sensitive-row"] = true
				if nIn > 0 && nOut > 0 {
					nontrivial = true
				}
			}
			if len(sample) < 2 {
				sample = append(sample, map[string]any{"db": d.name, "behind": d.behindS, "ahead": d.aheadS, "format": f.String(), "metrics": len(ms),
					"accepted": len(acc), "rejects": rejects, "outside": nOut, "side_sensitive": nSensitive, "groups": len(stepGroups)})
			}
		}
		if routed >= 2 {
			classes["history>=2"] = true
		}

		// Stop every shard channel (what databaseChannel.Stop does): each family channel sends its
		// pending chunk and what is queued, then reports that its writer is done. After this
		// nothing is in flight, so the comparison below does not depend on timing.
		stopped = true
		for i, d := range dbs {
			for s := int32(0); s < d.shards; s++ {
				ch, err := creator.CreateChannel(dbCfgs[i], d.shards, models.ShardID(s))
				if err != nil {
					t.Fatalf("harness: shard channel %s/%d: %v", d.name, s, err)
				}
				ch.Stop()
			}
		}
		cancel()
		waitStreamsClosed(sk)

		sk.mu.Lock()
		defer sk.mu.Unlock()
		if len(sk.faults) > 0 {
			t.Fatalf("storage side: %s", sk.faults[0])
		}
		byName := map[string]*wdb{}
		for _, d := range dbs {
			byName[d.name] = d
		}
		var keys []groupKey
		for k := range sk.got {
			keys = append(keys, k)
		}
		sort.Slice(keys, func(i, j int) bool {
			a, b := keys[i], keys[j]
			if a.db != b.db {
				return a.db < b.db
			}
			if a.shard != b.shard {
				return a.shard < b.shard
			}
			return a.family < b.family
		})
		gotRows := 0
		for _, k := range keys {
			d := byName[k.db]
			if d == nil {
				t.Fatalf("rows delivered for an unknown database %q", k.db)
			}
			if k.shard < 0 || k.shard >= d.shards {
				t.Fatalf("rows delivered to shard %d of database %s which has %d shards", k.shard, k.db, d.shards)
			}
			calc := d.interval.Calculator()
			seen := map[string]int{}
			for _, row := range sk.got[k] {
				gotRows++
				seen[row]++
				if seen[row] > want[k][row] {
					why := "was never accepted for this database"
					if c := findAccepted(want, k.db, row); c != nil {
						why = fmt.Sprintf("belongs to shard %d family %d", c.shard, c.family)
					} else if ts, ok := tsOf(row); ok {
						out := outsideWindow(ts-now, d.behind, d.ahead)
						why = fmt.Sprintf("timestamp is now%+dms, outside the window=%v; its family would be %d", ts-now, out, calc.CalcFamilyTime(ts))
					}
					t.Fatalf("database %s (behind=%q ahead=%q, %d shards, interval %s): storage received through the stream of shard %d / family %d a row that must not arrive there (%s): %s",
						k.db, d.behindS, d.aheadS, d.shards, d.interval, k.shard, k.family, why, row)
				}
			}
		}
		for k, rows := range want {
			d := byName[k.db]
			got := map[string]int{}
			for _, r := range sk.got[k] {
				got[r]++
			}
			for row, n := range rows {
				if got[row] != n {
					ts, _ := tsOf(row)
					t.Fatalf("database %s (behind=%q ahead=%q): a row inside the write window (now%+dms) was accepted %d times but storage received it %d times on shard %d / family %d: %s",
						k.db, d.behindS, d.aheadS, ts-now, n, got[row], k.shard, k.family, row)
				}
			}
		}
		if gotRows != wantRows {
			t.Fatalf("storage received %d rows, %d are inside the windows", gotRows, wantRows)
		}

		var cl []string
		for c := range classes {
			cl = append(cl, c)
		}
		sort.Strings(cl)
		ev.Case("TestChannelWrite", canonCase, nontrivial, cl, map[string]any{"databases": len(dbs), "routed_requests": routed,
			"rows_delivered": gotRows, "groups_delivered": len(keys), "steps": sample})
	})
}

func shardIDs(n int32) []int32 {
	ids := make([]int32, n)
	for i := range ids {
		ids[i] = int32(i)
	}
	return ids
}

func offsetsOf(acc []accepted, now int64) []int64 {
	var o []int64
	for _, a := range acc {
		o = append(o, a.c.TS-now)
	}
	return o
}

// findAccepted looks for the group in which the model expects the row (failure messages only).
func findAccepted(want map[groupKey]map[string]int, db, row string) *groupKey {
	var found *groupKey
	for k, rows := range want {
		if k.db == db && rows[row] > 0 {
			kk := k
			if found == nil || kk.shard < found.shard || (kk.shard == found.shard && kk.family < found.family) {
				found = &kk
			}
		}
	}
	return found
}

// tsOf reads the timestamp back from a canonical row string (failure messages only).
func tsOf(row string) (int64, bool) {
	var ns, name string
	var ts int64
	if _, err := fmt.Sscanf(row, "ns=%q name=%q ts=%d", &ns, &name, &ts); err != nil {
		return 0, false
	}
	return ts, true
}

// waitStreamsClosed lets the writer goroutines of the stopped family channels finish closing
// their streams (they do that right after they reported "stopped"), so no goroutine of one
// case is still running into the next one. Not part of the oracle.
func waitStreamsClosed(s *sink) {
	for i := 0; i < 20000; i++ {
		s.mu.Lock()
		open := s.open
		s.mu.Unlock()
		if open == 0 {
			return
		}
		time.Sleep(100 * time.Microsecond)
	}
}
