package c16

import (
	"fmt"
	"math"
	"sort"
	"strings"
	"time"

	"github.com/cespare/xxhash/v2"

	"github.com/lindb/lindb/models"
)

// ---- the abstract metric a client wants to send -------------------------------------------

type kv struct{ K, V string }

// simple field types as numbered by both wire formats (0 = unspecified).
const (
	tUnspecified = 0
	tLast        = 1
	tDeltaSum    = 2
	tMin         = 3
	tMax         = 4
	tFirst       = 5
)

type sfield struct {
	Name  string
	Type  int
	Value float64
}

type compound struct {
	Min, Max, Sum, Count float64
	Bounds, Values       []float64
}

// am = abstract metric, exactly what the client puts on the wire.
type am struct {
	NS     string // namespace carried by the metric itself (proto/flat only)
	Name   string
	TS     int64
	Tags   []kv // in the order sent, duplicates allowed
	Fields []sfield
	Comp   *compound
	// Wire, when set, is the line-protocol text of this metric (influx format only): used where
	// one key on the wire stands for two abstract fields (a field key without type suffix), see
	// escape_test.go. The abstract content above is what the line is documented to mean.
	Wire string
}

// reqCtx = what the HTTP handler (app/broker/api/ingest/write.go) derives from the request.
type reqCtx struct {
	NS       string // the handler substitutes "default-ns" for none; "" only for protobuf requests parsed without a request-level namespace
	Enriched []kv   // non-empty keys/values within the length limits (handler checks)
	Limits   *models.Limits
	// Line-protocol requests only: the precision parameter of the write URL exactly as sent
	// (any letter case; PrecAbsent = the URL carries no such parameter and the parser has to guess
	// the unit) and Unit, the unit the client writes its timestamps in (ns us ms s m h; "" = ms).
	// With a parameter the two name the same unit.
	Prec       string
	PrecAbsent bool
	Unit       string
}

type format int

const (
	fProto      format = iota // protobuf MetricList
	fFlatClient               // flat buffer produced by the official client row builder
	fFlatRaw                  // flat buffer written by a third-party client (tags as given, junk hashes)
	fInflux                   // influx line protocol (timestamp unit = reqCtx.Prec / Unit)
)

func (f format) String() string {
	return [...]string{"proto", "flat-client", "flat-raw", "influx"}[f]
}

// ---- canonical row: what the property says an accepted metric looks like -----------------

type canon struct {
	NS, Name string
	TS       int64
	Tags     []kv
	Fields   []sfield
	Comp     *compound
	TagsHash uint64
	NameHash uint64
}

func fbits(v float64) string { return fmt.Sprintf("%016x", math.Float64bits(v)) }

// String is a total, deterministic rendering (floats by bit pattern); equality of strings is
// equality of rows.
func (c *canon) String() string {
	var b strings.Builder
	fmt.Fprintf(&b, "ns=%q name=%q ts=%d th=%016x nh=%016x tags=[", c.NS, c.Name, c.TS, c.TagsHash, c.NameHash)
	for _, t := range c.Tags {
		fmt.Fprintf(&b, "%q=%q,", t.K, t.V)
	}
	b.WriteString("] fields=[")
	for _, f := range c.Fields {
		fmt.Fprintf(&b, "%q/%d/%s,", f.Name, f.Type, fbits(f.Value))
	}
	b.WriteString("]")
	if c.Comp != nil {
		fmt.Fprintf(&b, " comp={min=%s max=%s sum=%s cnt=%s b=[", fbits(c.Comp.Min), fbits(c.Comp.Max), fbits(c.Comp.Sum), fbits(c.Comp.Count))
		for _, v := range c.Comp.Bounds {
			b.WriteString(fbits(v) + ",")
		}
		b.WriteString("] v=[")
		for _, v := range c.Comp.Values {
			b.WriteString(fbits(v) + ",")
		}
		b.WriteString("]}")
	}
	return b.String()
}

// ---- reference model (written from the property text, the limits documentation and the
// comments of validateMetric / deDupTags / RowBuilder; not from the control flow) -----------

func sanitizeName(s string) string { return strings.ReplaceAll(s, "|", "_") }

// reserved histogram field names are moved out of the way (common/series/checker.go).
func sanitizeFieldName(s string) string {
	switch {
	case strings.HasPrefix(s, "Histogram"):
		return "_" + s
	case strings.HasPrefix(s, "__bucket_"):
		return s[1:]
	}
	return s
}

// canonTags implements "tags sorted, a repeated key resolved to one value". Which value:
// deDupTags (and RowBuilder.dedupTagsThenXXHash) document "tags with same key will keep
// order as they are appended after sorting; high index key has higher priority", i.e. the
// LAST occurrence in the order sent wins. Enriched tags are appended after the metric's own.
func canonTags(sent []kv) []kv {
	last := map[string]string{}
	for _, t := range sent {
		last[t.K] = t.V
	}
	keys := make([]string, 0, len(last))
	for k := range last {
		keys = append(keys, k)
	}
	sort.Strings(keys) // byte-wise, as bytes.Compare / Go string comparison
	out := make([]kv, 0, len(keys))
	for _, k := range keys {
		out = append(out, kv{k, last[k]})
	}
	return out
}

// tagsHash: xxhash64 of "k1=v1,k2=v2" over the canonical tags (series/tag/tag.go doc).
func tagsHash(tags []kv) uint64 {
	var b strings.Builder
	for i, t := range tags {
		if i > 0 {
			b.WriteByte(',')
		}
		b.WriteString(t.K)
		b.WriteByte('=')
		b.WriteString(t.V)
	}
	return xxhash.Sum64String(b.String())
}

func nameHash(ns, name string) uint64 { return xxhash.Sum64String(ns + name) }

func lim(v int, n int) bool { return v > 0 && n > v }

// expect returns the canonical row for an accepted metric, or the reason for which the
// metric is invalid in format f (an invalid metric must contribute nothing).
func expect(m *am, rc *reqCtx, f format) (*canon, string) {
	l := rc.Limits
	if m.Name == "" {
		return nil, "empty-name"
	}
	if lim(l.MaxMetricNameLength, len(m.Name)) {
		return nil, "name-too-long"
	}
	if len(m.Fields) == 0 && m.Comp == nil {
		return nil, "no-field"
	}
	all := append(append([]kv{}, m.Tags...), rc.Enriched...)
	for _, t := range all {
		if t.K == "" || t.V == "" {
			return nil, "empty-tag"
		}
	}
	// The limits are applied to what is on the wire. The official flat client sorts and
	// de-duplicates before it sends, and a line's tag set is read into a map, so for these two
	// formats only the surviving value of a repeated key is counted / measured.
	wire := m.Tags
	if f == fFlatClient || f == fInflux {
		wire = canonTags(m.Tags)
	}
	checked := append(append([]kv{}, wire...), rc.Enriched...)
	if lim(l.MaxTagsPerMetric, len(checked)) {
		// (the influx path has no such check at the broker - the index enforces the limit
		// later; renderers never emit influx for this shape, see expressible())
		return nil, "too-many-tags"
	}
	for _, t := range checked {
		if lim(l.MaxTagNameLength, len(t.K)) {
			return nil, "tag-key-too-long"
		}
		if lim(l.MaxTagValueLength, len(t.V)) {
			return nil, "tag-value-too-long"
		}
	}
	if lim(l.MaxFieldsPerMetric, len(m.Fields)) {
		return nil, "too-many-fields"
	}
	for _, fd := range m.Fields {
		if fd.Name == "" {
			return nil, "empty-field-name"
		}
		wname := fd.Name
		if f == fFlatClient {
			wname = sanitizeFieldName(wname) // the official client renames reserved names before sending
		}
		if lim(l.MaxFieldNameLength, len(wname)) {
			return nil, "field-name-too-long"
		}
		if fd.Type == tUnspecified {
			return nil, "field-type-unspecified"
		}
		if math.IsNaN(fd.Value) {
			return nil, "nan"
		}
		if math.IsInf(fd.Value, 0) {
			return nil, "inf"
		}
	}
	if c := m.Comp; c != nil {
		if len(c.Values) != len(c.Bounds) {
			return nil, "compound-length-mismatch"
		}
		if len(c.Values) < 2 {
			return nil, "compound-too-few-buckets"
		}
		// (exactly two buckets: accepted by the flat path, refused by the proto path; never generated)
		for _, v := range []float64{c.Min, c.Max, c.Sum, c.Count} {
			if math.IsNaN(v) {
				return nil, "compound-nan"
			}
			if v < 0 {
				return nil, "compound-negative"
			}
		}
		for i, v := range c.Values {
			if math.IsNaN(v) {
				return nil, "compound-nan"
			}
			if math.IsInf(v, 0) {
				return nil, "compound-inf"
			}
			if v < 0 || c.Bounds[i] < 0 {
				return nil, "compound-negative"
			}
			if i > 0 && c.Bounds[i] < c.Bounds[i-1] {
				return nil, "compound-bounds-decrease"
			}
		}
		if !math.IsInf(c.Bounds[len(c.Bounds)-1], 1) {
			return nil, "compound-last-bound-not-inf"
		}
	}

	// namespace: proto - "replace namespace with enriched" (the request's wins);
	// flat - "if row namespace is empty, use request's namespace"; influx has none of its own.
	// A protobuf request without request-level namespace: every metric keeps its own (possibly none).
	ns := rc.NS
	if f == fProto && rc.NS == "" {
		ns = m.NS
	}
	if (f == fFlatClient || f == fFlatRaw) && m.NS != "" {
		ns = m.NS
		if lim(l.MaxNamespaceLength, len(ns)) {
			return nil, "namespace-too-long"
		}
	}
	ns = sanitizeName(ns)
	name := sanitizeName(m.Name)

	c := &canon{NS: ns, Name: name, TS: m.TS, Tags: canonTags(all)}
	c.TagsHash = tagsHash(c.Tags)
	c.NameHash = nameHash(ns, name)
	for _, fd := range m.Fields {
		c.Fields = append(c.Fields, sfield{sanitizeFieldName(fd.Name), fd.Type, fd.Value})
	}
	if m.Comp != nil {
		cc := *m.Comp
		c.Comp = &cc
	}
	return c, ""
}

// jumpHash is Lamping & Veach's jump consistent hash written from the paper; the property
// names it as the routing function ("shard = jump hash of the tags hash").
func jumpHash(key uint64, buckets int32) int32 {
	var b, j int64 = -1, 0
	for j < int64(buckets) {
		b = j
		key = key*2862933555777941757 + 1
		j = int64(float64(b+1) * (float64(int64(1)<<31) / float64((key>>33)+1)))
	}
	return int32(b)
}

// ---- calendar family of a timestamp ----------------------------------------------------------

// familyOf is the calendar family a row belongs to, written from the documentation of the
// storage layout (pkg/timeutil/interval.go: an interval below 5 minutes is of type "day" - one
// segment per day, one family per HOUR; from 5 minutes to below 1 hour type "month" - one
// segment per month, one family per DAY; from 1 hour type "year" - one segment per year, one
// family per calendar MONTH), in the zone the harness runs lindb in (UTC). It returns the first
// and the last millisecond of the family. intervalMs is the database's smallest interval.
func familyOf(intervalMs, ts int64) (first, last int64) {
	t := time.UnixMilli(ts).UTC()
	var a, b time.Time
	switch {
	case intervalMs >= msHour:
		a = time.Date(t.Year(), t.Month(), 1, 0, 0, 0, 0, time.UTC)
		b = a.AddDate(0, 1, 0)
	case intervalMs >= 5*msMinute:
		a = time.Date(t.Year(), t.Month(), t.Day(), 0, 0, 0, 0, time.UTC)
		b = a.AddDate(0, 0, 1)
	default:
		a = time.Date(t.Year(), t.Month(), t.Day(), t.Hour(), 0, 0, 0, time.UTC)
		b = a.Add(time.Hour)
	}
	return a.UnixMilli(), b.UnixMilli() - 1
}

// ---- influx expressibility ------------------------------------------------------------------

// influxTypeOf is the documented mapping of the line-protocol parser: the field key's suffix
// selects the LinDB type; any other key is split into <key>_sum/<key>_last (not expressible
// as one abstract field, hence -1).
func influxTypeOf(name string) int {
	switch {
	case strings.HasSuffix(name, "last"):
		return tLast
	case strings.HasSuffix(name, "first"):
		return tFirst
	case strings.HasSuffix(name, "sum"):
		return tDeltaSum
	}
	return -1
}

// Special characters of the line protocol per token kind (InfluxDB line protocol reference,
// "Special characters"): in a measurement comma and space must be escaped with a backslash, in
// tag keys, tag values and field keys comma, equals sign and space.
const (
	lpNameSpecials = ", "
	lpKeySpecials  = ", ="
)

// oddBackslashRuns looks at the LITERAL token s (what the client means) and reports the two
// shapes that lindb's dialect of the line protocol cannot carry, given the token kind's special
// characters:
//
//   - before: a run of an odd number of backslashes directly before a special character. The
//     client writes the special character as "\c", which gives an even run on the wire; lindb
//     (walkToUnescapedChar: "a separator is escaped iff an odd number of backslashes precedes it",
//     see its doc comment and the in-tree case `cpu\\\,\ a`) reads an even run as literal
//     backslashes followed by a real separator. A backslash itself cannot be escaped (the
//     documentation says it need not be; "\\\\" stays two backslashes in lindb and in InfluxDB).
//   - atEnd: an odd run at the end of the token; the structural separator that follows the
//     token on the wire would be read as escaped.
//
// Both are limits of the dialect (InfluxDB has the same one for a trailing backslash), not of
// C16: such tokens are not generated for the influx format (counted as out of scope). Every
// other placement of backslashes is expressible: even runs (2, 4) before a special character
// or at the end of a token, any run before a non-special character.
func oddBackslashRuns(s, specials string) (before, atEnd bool) {
	run := 0
	for i := 0; i < len(s); i++ {
		if s[i] == '\\' {
			run++
			continue
		}
		if run%2 == 1 && strings.IndexByte(specials, s[i]) >= 0 {
			before = true
		}
		run = 0
	}
	return before, run%2 == 1
}

// influxSafe: the token can be written on one line and survives lindb's dialect.
func influxSafe(s, specials string) bool {
	if strings.ContainsAny(s, "\n\r\"") {
		return false
	}
	before, atEnd := oddBackslashRuns(s, specials)
	return !before && !atEnd
}

// expressible tells whether metric m can be written in format f so that the format's
// documented semantics coincide with the abstract metric.
func expressible(m *am, rc *reqCtx, f format) bool {
	switch f {
	case fProto, fFlatRaw:
		return true
	case fFlatClient:
		// the official builder refuses invalid input on the client; it never sends such a row
		_, why := expect(m, &reqCtx{NS: rc.NS, Limits: &models.Limits{}}, fFlatRaw)
		return why == ""
	case fInflux:
		if m.Comp != nil || m.NS != "" {
			return false
		}
		if lim(rc.Limits.MaxTagsPerMetric, len(canonTags(m.Tags))+len(rc.Enriched)) {
			return false // no tag-count check on this path (noted in the report)
		}
		if m.Name != "" && (m.Name[0] == '#' || !influxSafe(m.Name, lpNameSpecials)) {
			return false
		}
		if m.Name == "" && len(m.Tags) == 0 {
			return false // a line starting with a blank is trimmed by the chunk reader: other meaning
		}
		for _, t := range m.Tags {
			if !influxSafe(t.K, lpKeySpecials) || !influxSafe(t.V, lpKeySpecials) {
				return false
			}
		}
		if len(m.Fields) == 0 {
			return false
		}
		for _, fd := range m.Fields {
			if fd.Name == "" || strings.TrimSpace(fd.Name) == "" || !influxSafe(fd.Name, lpKeySpecials) {
				return false
			}
			if influxTypeOf(fd.Name) != fd.Type {
				return false
			}
			if math.IsNaN(fd.Value) || math.IsInf(fd.Value, 0) {
				return false // "Inf" is dropped as an unsupported field, not as a metric
			}
		}
		return true
	}
	return false
}
