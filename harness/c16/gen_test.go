package c16

import (
	"fmt"
	"math"
	"strings"

	"pgregory.net/rapid"

	"github.com/lindb/lindb/models"
	"github.com/lindb/lindb/verifharness/sim/ev"
)

const (
	msMinute = int64(60 * 1000)
	msHour   = 60 * msMinute
	msDay    = 24 * msHour
	// generated timestamps keep this distance from the window thresholds, so the verdict
	// "inside / outside the window" cannot depend on when the clock is read.
	guard = 10 * msMinute
)

var (
	keyPool = []string{"host", "zone", "a", "b", "c", "ab", "k1", "k2", "k3", "ключ", "键", "é",
		"a b", "a,b", "a=b", "k|x", `a\b`, `"q"`, " lead", "trail ", "region-with-long-key", `k\\`, `\\,k`}
	valPool = []string{"1", "2", "x", "y", "web-01", "us-east-1", "значение", "值", "v v", "v,v", "v=v",
		`v\v`, `v\`, "v|v", `"`, "=", ",", "a-rather-long-tag-value-0123456789", `C:\\`, `p\\,q`, `\\ srv\\\\`}
	namePool = []string{"cpu", "mem.used", "disk|io", "http requests", "net,rx", "метрика", "指标", `win\perf`,
		"#hash", "x=y", "a", "system.cpu.load.avg.1m", `svc\\`, `a\\,b\=c`}
	fieldPool = []string{"f", "v", "usage", "Histogram", "HistogramSum", "__bucket_", "__bucket_5", "温度", "a b", "a,b", "a=b", "idle", `f\\=x`, `io\\`}
	nsPool    = []string{"default-ns", "ns1", "t|1", "租户", "ns-eleven00"}
)

func genText(t *rapid.T, label string, pool []string) string {
	if rapid.IntRange(0, 9).Draw(t, label+"Pool") < 8 {
		return rapid.SampledFrom(pool).Draw(t, label)
	}
	return rapid.StringOfN(rapid.RuneFrom([]rune("abcxyz019_-. ,=|\\/äß日本")), 1, 12, -1).Draw(t, label)
}

// ---- limits ---------------------------------------------------------------------------------------

func genLimits(t *rapid.T) (*models.Limits, bool) {
	l := models.NewDefaultLimits()
	if rapid.IntRange(0, 9).Draw(t, "limitsKind") < 6 {
		return l, false
	}
	pick := func(label string, lo, hi int, def int) int {
		switch rapid.IntRange(0, 3).Draw(t, label+"K") {
		case 0:
			return 0 // documented: 0 disables the limit
		case 1, 2:
			return rapid.IntRange(lo, hi).Draw(t, label)
		}
		return def
	}
	l.MaxTagsPerMetric = pick("maxTags", 1, 6, l.MaxTagsPerMetric)
	l.MaxTagNameLength = pick("maxTagKey", 3, 8, l.MaxTagNameLength)
	l.MaxTagValueLength = pick("maxTagVal", 3, 8, l.MaxTagValueLength)
	l.MaxFieldsPerMetric = pick("maxFields", 1, 3, l.MaxFieldsPerMetric)
	l.MaxFieldNameLength = pick("maxFieldName", 5, 10, l.MaxFieldNameLength)
	l.MaxMetricNameLength = pick("maxName", 3, 10, l.MaxMetricNameLength)
	l.MaxNamespaceLength = pick("maxNS", 6, 10, l.MaxNamespaceLength)
	return l, true
}

func genReqCtx(t *rapid.T) (*reqCtx, bool) {
	l, custom := genLimits(t)
	rc := &reqCtx{Limits: l}
	// the handler refuses a request whose namespace / enriched tags break the limits
	var nss []string
	for _, ns := range nsPool {
		if !lim(l.MaxNamespaceLength, len(ns)) {
			nss = append(nss, ns)
		}
	}
	rc.NS = rapid.SampledFrom(nss).Draw(t, "reqNS")
	n := rapid.SampledFrom([]int{0, 0, 0, 1, 1, 2}).Draw(t, "enrichedN")
	for i := 0; i < n; i++ {
		e := kv{genText(t, "enrichedK", keyPool), genText(t, "enrichedV", valPool)}
		if lim(l.MaxTagNameLength, len(e.K)) || lim(l.MaxTagValueLength, len(e.V)) {
			continue
		}
		if len(rc.Enriched) == 1 && rc.Enriched[0].K == e.K {
			continue // the same enrich key twice in one URL: not an interesting request
		}
		rc.Enriched = append(rc.Enriched, e)
	}
	if max := l.MaxTagsPerMetric; max > 0 && len(rc.Enriched) > max {
		rc.Enriched = rc.Enriched[:max] // otherwise no metric at all could pass
	}
	// (line-protocol requests only) the unit of the timestamps: one of the units that can carry any
	// millisecond timestamp, named by the precision parameter in some letter case
	rc.Unit = rapid.SampledFrom([]string{"ms", "ms", "us", "ns"}).Draw(t, "influxUnit")
	rc.Prec = genLetterCase(t, rc.Unit, "influxPrecisionCase")
	return rc, custom
}

// genLetterCase: the write API compares the precision parameter case-insensitively.
func genLetterCase(t *rapid.T, unit, label string) string {
	switch rapid.IntRange(0, 3).Draw(t, label) {
	case 0:
		return strings.ToUpper(unit)
	case 1:
		return strings.ToUpper(unit[:1]) + unit[1:]
	case 2:
		return unit[:len(unit)-1] + strings.ToUpper(unit[len(unit)-1:])
	}
	return unit
}

// ---- tags ---------------------------------------------------------------------------------------

func genSeries(t *rapid.T) []kv {
	var n int
	switch rapid.IntRange(0, 9).Draw(t, "seriesSize") {
	case 0:
		n = 0
	case 1, 2, 3, 4, 5:
		n = rapid.IntRange(1, 4).Draw(t, "nTags")
	case 6, 7:
		n = rapid.IntRange(5, 10).Draw(t, "nTags")
	default:
		n = rapid.IntRange(11, 30).Draw(t, "nTags")
	}
	tags := make([]kv, 0, n)
	for i := 0; i < n; i++ {
		var k string
		if n > 10 && rapid.IntRange(0, 3).Draw(t, "numKey") > 0 {
			k = fmt.Sprintf("k%02d", rapid.IntRange(0, n).Draw(t, "kIdx")) // many keys, some repeated
		} else {
			k = genText(t, "tagK", keyPool)
		}
		tags = append(tags, kv{k, genText(t, "tagV", valPool)})
	}
	return tags
}

// permuteKeepingDuplicateOrder shuffles the tags; tags sharing a key keep their relative
// order (the order among them is what decides the surviving value, so it is part of the
// metric's meaning and must not be changed by the metamorphic transformation).
func permuteKeepingDuplicateOrder(t *rapid.T, tags []kv, label string) []kv {
	if len(tags) < 2 {
		return append([]kv{}, tags...)
	}
	var out []kv
	switch rapid.IntRange(0, 3).Draw(t, label+"Kind") {
	case 0:
		out = append([]kv{}, tags...)
	case 1: // reversed
		for i := len(tags) - 1; i >= 0; i-- {
			out = append(out, tags[i])
		}
	default:
		out = rapid.Permutation(tags).Draw(t, label)
	}
	// restore the relative order inside each key group
	byKey := map[string][]kv{}
	for _, tg := range tags {
		byKey[tg.K] = append(byKey[tg.K], tg)
	}
	next := map[string]int{}
	for i := range out {
		k := out[i].K
		out[i] = byKey[k][next[k]]
		next[k]++
	}
	return out
}

func hasDupKeys(tags []kv) bool {
	seen := map[string]bool{}
	for _, t := range tags {
		if seen[t.K] {
			return true
		}
		seen[t.K] = true
	}
	return false
}

// ---- values -------------------------------------------------------------------------------------

func genFinite(t *rapid.T, label string) float64 {
	switch rapid.IntRange(0, 5).Draw(t, label+"K") {
	case 0:
		return float64(rapid.IntRange(-1<<20, 1<<20).Draw(t, label+"Dy")) / 8
	case 1:
		// (-0 is not generated: both wire formats omit a field equal to its default 0, so -0
		// cannot be put on the wire; that is a property of protobuf/flatbuffers, not of lindb)
		return rapid.SampledFrom([]float64{0, 1, -1, math.MaxFloat64, -math.MaxFloat64,
			math.SmallestNonzeroFloat64, 1e-7, 1e21, 123456789.125}).Draw(t, label+"Sp")
	case 2:
		v := math.Float64frombits(rapid.Uint64().Draw(t, label+"Bits"))
		if math.IsNaN(v) || math.IsInf(v, 0) || v == 0 {
			return 42
		}
		return v
	default:
		return float64(rapid.IntRange(0, 1000).Draw(t, label+"Int"))
	}
}

func genCompound(t *rapid.T) *compound {
	n := rapid.IntRange(3, 6).Draw(t, "buckets")
	c := &compound{}
	b := 0.0
	for i := 0; i < n; i++ {
		b += float64(rapid.IntRange(0, 40).Draw(t, "boundStep")) / 4
		c.Bounds = append(c.Bounds, b)
		c.Values = append(c.Values, float64(rapid.IntRange(0, 50).Draw(t, "bucketV")))
	}
	c.Bounds[n-1] = math.Inf(1)
	c.Min = float64(rapid.IntRange(0, 10).Draw(t, "cMin"))
	c.Max = c.Min + float64(rapid.IntRange(0, 100).Draw(t, "cMax"))
	c.Count = float64(rapid.IntRange(0, 1000).Draw(t, "cCnt"))
	c.Sum = float64(rapid.IntRange(0, 100000).Draw(t, "cSum")) / 8
	if rapid.IntRange(0, 9).Draw(t, "cInfMax") == 0 {
		c.Max = math.Inf(1) // "should be >= 0": +Inf is a legal max/sum
	}
	return c
}

// ---- one metric ---------------------------------------------------------------------------------

type env struct {
	now           int64
	behind, ahead int64
	// interval (ms) of the database the rows are routed by; when > 0 a share of the in-window
	// timestamps is placed on and next to the boundaries of the calendar families (familyOf)
	interval int64
	series   [][]kv
	// multi-tenant request (see genTenancy): when tenants != nil every metric of the request
	// carries its own namespace drawn from tenants ("" = the metric carries none), and most
	// metric names come from the small pool names, so that rows of the same name and of
	// different namespaces follow each other inside one request.
	tenants []string
	names   []string
}

// tenantPool: namespaces a metric may carry itself. It contains the handler's default and
// request-level namespaces of nsPool (own namespace == request namespace), a name that needs
// sanitising, non-ASCII, and pairs where one is a prefix of the other / of a metric name
// (NameHash is the hash of the plain concatenation namespace+name).
var tenantPool = []string{"", "", "own", "o|n", "own-namespace", "team-a", "team-b", "default-ns", "ns1", "租户", "a", "cp"}

// noRequestNamespace: proto.Parse / NewBrokerRowProtoConverter replace a metric's namespace by
// the request's only when the request has one ("replace namespace with enriched":
// `if len(rc.namespace) > 0`); a protobuf request without a request-level namespace keeps the
// namespace of every metric. Only the protobuf path documents this; flat / influx requests
// always get the handler's namespace here.
func genNoRequestNamespace(t *rapid.T, rc *reqCtx, f format) bool {
	if f != fProto || rapid.IntRange(0, 9).Draw(t, "noRequestNS") < 7 {
		return false
	}
	rc.NS = ""
	return true
}

// genTenancy decides per request whether it is a multi-tenant one. certain = the request has no
// request-level namespace (then own namespaces are the only ones there are: more often).
func genTenancy(t *rapid.T, e *env, rc *reqCtx, certain bool) bool {
	e.tenants, e.names = nil, nil
	p := 8
	if certain {
		p = 3
	}
	if rapid.IntRange(0, 9).Draw(t, "multiTenant") < p {
		return false
	}
	seen := map[string]bool{}
	for i, n := 0, rapid.IntRange(2, 4).Draw(t, "nTenants"); i < n; i++ {
		ns := rapid.SampledFrom(tenantPool).Draw(t, "tenantNS")
		if !seen[ns] {
			seen[ns] = true
			e.tenants = append(e.tenants, ns)
		}
	}
	for i, n := 0, rapid.IntRange(1, 3).Draw(t, "nNames"); i < n; i++ {
		e.names = append(e.names, genText(t, "batchName", namePool))
	}
	return true
}

// ownNSWithinLimit: for a protobuf request without request-level namespace the handler's check
// of the namespace length does not apply and the converter has none for a metric's own
// namespace; whether such a metric is accepted is not part of the property. Not generated
// (the own namespace is dropped), counted.
func ownNSWithinLimit(group string, ms []*am, rc *reqCtx, f format) {
	if f != fProto || rc.NS != "" {
		return
	}
	for _, m := range ms {
		if lim(rc.Limits.MaxNamespaceLength, len(m.NS)) {
			m.NS = ""
			ev.Class(group, "excluded_out_of_scope_proto_own_ns_over_limit", 1)
		}
	}
}

// nsShape describes the accepted rows of one request: >= 2 different stored namespaces, and two
// rows following each other with the same stored name and different stored namespaces.
func nsShape(want []accepted) (varied, adjacent bool) {
	for i := 1; i < len(want); i++ {
		if want[i].c.NS != want[0].c.NS {
			varied = true
		}
		if want[i].c.Name == want[i-1].c.Name && want[i].c.NS != want[i-1].c.NS {
			adjacent = true
		}
	}
	return
}

// genTimestamp returns a timestamp and whether the property says it is outside the window.
func genTimestamp(t *rapid.T, e *env) (ts int64, outside bool, class string) {
	lo, hi := e.now-30*msDay, e.now+30*msDay // "no limit" sides still use plausible times
	if e.behind > 0 {
		lo = e.now - e.behind + guard
	}
	if e.ahead > 0 {
		hi = e.now + e.ahead - guard
	}
	k := rapid.IntRange(0, 9).Draw(t, "tsKind")
	switch {
	case k == 0 && e.behind > 0:
		return e.now - e.behind - guard - rapid.Int64Range(0, 10*msDay).Draw(t, "tooOld"), true, "ts=too-old"
	case k == 1 && e.ahead > 0:
		return e.now + e.ahead + guard + rapid.Int64Range(0, 10*msDay).Draw(t, "tooNew"), true, "ts=too-new"
	case k == 2:
		return lo + rapid.Int64Range(0, msMinute).Draw(t, "nearLo"), false, "ts=in"
	case k == 3:
		return hi - rapid.Int64Range(0, msMinute).Draw(t, "nearHi"), false, "ts=in"
	case k == 4: // close to now
		return e.now + rapid.Int64Range(-guard, guard).Draw(t, "nearNow")/2, false, "ts=in"
	}
	// offsets from now are drawn, never absolute times: draws must not depend on the clock
	ts = e.now + rapid.Int64Range(lo-e.now, hi-e.now).Draw(t, "inWinOffset")
	if e.interval > 0 && k >= 7 {
		// first / last millisecond of a family and the milliseconds next to them. The draws do not
		// depend on the clock; whether the placed timestamp is used does (it must stay inside the
		// guarded window), which changes no later draw.
		if b := atFamilyEdge(e.interval, ts, rapid.IntRange(0, 5).Draw(t, "edge")); lo <= b && b <= hi {
			return b, false, "ts=in,family-edge"
		}
	}
	return ts, false, "ts=in"
}

// atFamilyEdge moves ts to an edge of its calendar family: 0 first ms, 1 last ms, 2 first ms of
// the next family, 3 last ms of the previous one, 4 second ms, 5 last but one.
func atFamilyEdge(intervalMs, ts int64, edge int) int64 {
	first, last := familyOf(intervalMs, ts)
	return [...]int64{first, last, last + 1, first - 1, first + 1, last - 1}[edge]
}

var invalidKinds = []string{"empty-name", "no-field", "empty-tag-key", "empty-tag-value", "unspecified", "nan", "+inf", "-inf",
	"empty-field-name", "comp-negative", "comp-nan-value", "comp-inf-value", "comp-nan-sum", "comp-neg-count", "comp-mismatch",
	"comp-decrease", "comp-last-finite", "comp-one-bucket", "comp-neg-bound"}

func genMetric(t *rapid.T, e *env) (*am, bool, string) {
	m := &am{}
	if len(e.names) > 0 && rapid.IntRange(0, 9).Draw(t, "fromBatchNames") < 8 {
		m.Name = rapid.SampledFrom(e.names).Draw(t, "batchNameIdx")
	} else {
		m.Name = genText(t, "name", namePool)
	}
	if e.tenants != nil {
		m.NS = rapid.SampledFrom(e.tenants).Draw(t, "tenant")
	} else if rapid.IntRange(0, 9).Draw(t, "ownNS") == 0 {
		m.NS = rapid.SampledFrom([]string{"own", "o|n", "own-namespace"}).Draw(t, "ns")
	}
	var outside bool
	var tsClass string
	m.TS, outside, tsClass = genTimestamp(t, e)
	if len(e.series) > 0 && rapid.IntRange(0, 9).Draw(t, "reuseSeries") < 7 {
		s := e.series[rapid.IntRange(0, len(e.series)-1).Draw(t, "seriesIdx")]
		m.Tags = permuteKeepingDuplicateOrder(t, s, "perm")
	} else {
		m.Tags = genSeries(t)
	}
	nf := rapid.SampledFrom([]int{1, 1, 1, 2, 2, 3, 4, 0}).Draw(t, "nFields")
	for i := 0; i < nf; i++ {
		typ := rapid.IntRange(tLast, tFirst).Draw(t, "fType")
		name := genText(t, "fName", fieldPool)
		if rapid.Bool().Draw(t, "suffix") {
			name += map[int]string{tLast: "_last", tDeltaSum: "_sum", tMin: "_min", tMax: "_max", tFirst: "_first"}[typ]
		}
		m.Fields = append(m.Fields, sfield{name, typ, genFinite(t, "fVal")})
	}
	if nf == 0 || rapid.IntRange(0, 9).Draw(t, "withComp") == 0 {
		m.Comp = genCompound(t)
	}
	// occasionally break one thing
	if rapid.IntRange(0, 7).Draw(t, "invalidate") == 0 {
		breakMetric(t, m)
	}
	return m, outside, tsClass
}

func breakMetric(t *rapid.T, m *am) {
	kind := rapid.SampledFrom(invalidKinds).Draw(t, "invalidKind")
	needField := func() {
		if len(m.Fields) == 0 {
			m.Fields = append(m.Fields, sfield{"f", tLast, 1})
		}
	}
	needTag := func() {
		if len(m.Tags) == 0 {
			m.Tags = append(m.Tags, kv{"host", "1"})
		}
	}
	needComp := func() {
		if m.Comp == nil {
			m.Comp = genCompound(t)
		}
	}
	idx := func(n int) int { return rapid.IntRange(0, n-1).Draw(t, "breakAt") }
	switch kind {
	case "empty-name":
		m.Name = ""
	case "no-field":
		m.Fields, m.Comp = nil, nil
	case "empty-tag-key":
		needTag()
		m.Tags[idx(len(m.Tags))].K = ""
	case "empty-tag-value":
		needTag()
		m.Tags[idx(len(m.Tags))].V = ""
	case "unspecified":
		needField()
		m.Fields[idx(len(m.Fields))].Type = tUnspecified
	case "nan":
		needField()
		m.Fields[idx(len(m.Fields))].Value = math.NaN()
	case "+inf":
		needField()
		m.Fields[idx(len(m.Fields))].Value = math.Inf(1)
	case "-inf":
		needField()
		m.Fields[idx(len(m.Fields))].Value = math.Inf(-1)
	case "empty-field-name":
		needField()
		m.Fields[idx(len(m.Fields))].Name = ""
	case "comp-negative":
		needComp()
		m.Comp.Values[idx(len(m.Comp.Values))] = -1
	case "comp-nan-value":
		needComp()
		m.Comp.Values[idx(len(m.Comp.Values))] = math.NaN()
	case "comp-inf-value":
		needComp()
		m.Comp.Values[idx(len(m.Comp.Values))] = math.Inf(1)
	case "comp-nan-sum":
		needComp()
		m.Comp.Sum = math.NaN()
	case "comp-neg-count":
		needComp()
		m.Comp.Count = -3
	case "comp-mismatch":
		needComp()
		m.Comp.Values = m.Comp.Values[:len(m.Comp.Values)-1]
	case "comp-decrease":
		needComp()
		m.Comp.Bounds[0], m.Comp.Bounds[1] = 9, 5
	case "comp-last-finite":
		needComp()
		m.Comp.Bounds[len(m.Comp.Bounds)-1] = 1e9
	case "comp-one-bucket":
		needComp()
		m.Comp.Bounds, m.Comp.Values = []float64{math.Inf(1)}, []float64{1}
	case "comp-neg-bound":
		needComp()
		m.Comp.Bounds[0] = -1
	}
}

// ---- making a metric expressible in a format (pure function, no draws) --------------------

// dialectRepair makes a literal token expressible in lindb's dialect of the line protocol: a
// run of an odd number of backslashes directly before a special character of the token kind, or
// at the end of the token, gets one more backslash (see oddBackslashRuns for why these two shapes
// cannot be carried; they are out of scope, counted). Everything else - even runs before
// separators and at the end, any run before an ordinary character - is kept as generated.
func dialectRepair(group, s, specials string) string {
	if strings.IndexByte(s, '\\') < 0 {
		return s
	}
	var b strings.Builder
	run := 0
	for i := 0; i < len(s); i++ {
		c := s[i]
		if c == '\\' {
			run++
			b.WriteByte(c)
			continue
		}
		if run%2 == 1 && strings.IndexByte(specials, c) >= 0 {
			b.WriteByte('\\')
			if group != "" {
				ev.Class(group, "excluded_out_of_scope_influx_odd_backslash_run_before_special", 1)
			}
		}
		run = 0
		b.WriteByte(c)
	}
	if run%2 == 1 {
		b.WriteByte('\\')
		if group != "" {
			ev.Class(group, "excluded_out_of_scope_influx_odd_backslash_run_at_token_end", 1)
		}
	}
	return b.String()
}

func clean(group, s, specials string) string {
	s = strings.NewReplacer("\n", "_", "\r", "_", "\"", "'").Replace(s)
	return dialectRepair(group, s, specials)
}

// forInflux returns a variant of m the line protocol can express with the same meaning.
func forInflux(group string, m *am, rc *reqCtx) *am {
	o := &am{Name: clean(group, m.Name, lpNameSpecials), TS: m.TS}
	if strings.HasPrefix(o.Name, "#") {
		o.Name = "h" + o.Name
	}
	for _, t := range m.Tags {
		o.Tags = append(o.Tags, kv{clean(group, t.K, lpKeySpecials), clean(group, t.V, lpKeySpecials)})
	}
	if max := rc.Limits.MaxTagsPerMetric; max > 0 && len(o.Tags)+len(rc.Enriched) > max {
		keep := max - len(rc.Enriched)
		if keep < 0 {
			keep = 0
		}
		o.Tags = o.Tags[:keep]
	}
	if o.Name == "" && len(o.Tags) == 0 {
		o.Name = "n" // a line starting with a blank means something else
	}
	for _, f := range m.Fields {
		n := clean(group, f.Name, lpKeySpecials)
		if strings.TrimSpace(n) == "" {
			n = "f" + n
		}
		typ := f.Type
		if typ != tLast && typ != tDeltaSum && typ != tFirst {
			typ = tLast
		}
		if influxTypeOf(n) != typ {
			n += map[int]string{tLast: "_last", tDeltaSum: "_sum", tFirst: "_first"}[typ]
		}
		v := f.Value
		if math.IsNaN(v) || math.IsInf(v, 0) {
			v = 7
		}
		o.Fields = append(o.Fields, sfield{n, typ, v})
	}
	if len(o.Fields) == 0 {
		o.Fields = append(o.Fields, sfield{"v_last", tLast, 1})
	}
	return o
}

// fit adapts a batch to format f: influx gets the expressible variant of each metric, the
// official flat client never sends what its builder refuses.
func fit(group string, ms []*am, outside []bool, rc *reqCtx, f format) ([]*am, []bool) {
	var om []*am
	var oo []bool
	for i, m := range ms {
		m = excludeKnownShapes(group, m, rc, f)
		switch {
		case f == fInflux:
			m = excludeKnownShapes(group, forInflux(group, m, rc), rc, f)
			if !expressible(m, rc, f) {
				panic(fmt.Sprintf("harness: forInflux produced an inexpressible metric: %+v", m))
			}
		case !expressible(m, rc, f):
			continue
		}
		om = append(om, m)
		oo = append(oo, outside[i])
	}
	return om, oo
}

func genJunk(t *rapid.T, n int) []junk {
	jk := make([]junk, n)
	if rapid.Bool().Draw(t, "junkHashes") {
		for i := range jk {
			jk[i] = junk{rapid.Uint64().Draw(t, "junkTH"), rapid.Uint64().Draw(t, "junkNH")}
		}
	}
	return jk
}

// ---- known findings: shapes removed from the generator only while the finding is listed ----

const (
	// scanMetricName ends the measurement at the first unescaped comma even when a blank comes
	// first, so a line without tags and with two or more fields ("m a_last=1,b_last=2 ts") is
	// mis-split and refused.
	sigInfluxNoTags = "C16/influx-no-tags-multi-field-line-rejected"
	// deDupTags sorts with sort.Sort, which is not stable for more than 12 elements, so with
	// > 12 tags "the last occurrence wins" does not hold and the surviving value (hence the
	// series identity) depends on the position of unrelated tags.
	sigProtoDedup = "C16/proto-dedup-unstable-sort-gt12-tags"
	// same in RowBuilder.dedupTagsThenXXHash of the dependency github.com/lindb/common, which the
	// flat and influx paths use (influx: only an enriched tag can repeat a key; as the line's
	// own tags are added in map order, the surviving value is even random there).
	sigBuilderDedup = "C16/rowbuilder-dedup-unstable-sort-gt12-tags"
	// validateMetric compares histogram values with "< 0" only: NaN and +Inf bucket values and
	// NaN min/max/sum/count are accepted by the proto path (the flat path refuses them).
	sigProtoCompNaN = "C16/proto-compound-nan-inf-accepted"
)

func excludeKnownShapes(group string, m *am, rc *reqCtx, f format) *am {
	flatF := f == fFlatClient || f == fFlatRaw
	if (f == fProto && ev.Known(sigProtoDedup)) || ((flatF || f == fInflux) && ev.Known(sigBuilderDedup)) {
		all := append(append([]kv{}, m.Tags...), rc.Enriched...)
		if len(all) > 12 && hasDupKeys(all) {
			// keep, per key, only the occurrence that is documented to win
			lastAt := map[string]int{}
			for i, t := range all {
				lastAt[t.K] = i
			}
			o := *m
			o.Tags = nil
			for i, t := range m.Tags {
				if lastAt[t.K] == i {
					o.Tags = append(o.Tags, t)
				}
			}
			ev.Class(group, "excluded_known", 1)
			m = &o
		}
	}
	if f == fInflux && len(m.Tags) == 0 && len(m.Fields) >= 2 && m.Comp == nil {
		// Out of the property's scope (C16 constrains metrics that ARE accepted and says that invalid
		// ones are refused; it does not promise that every well-formed line is accepted): lindb's
		// influx parser refuses a line without tags and with >= 2 fields. Not generated, counted.
		o := *m
		o.Fields = m.Fields[:1]
		ev.Class(group, "excluded_out_of_scope_influx_no_tags_multi_field", 1)
		m = &o
	}
	if f == fProto && ev.Known(sigProtoCompNaN) && m.Comp != nil {
		c := *m.Comp
		c.Values = append([]float64{}, c.Values...)
		changed := false
		fix := func(p *float64, infToo bool) {
			if math.IsNaN(*p) || (infToo && math.IsInf(*p, 1)) {
				*p = 1
				changed = true
			}
		}
		for i := range c.Values {
			fix(&c.Values[i], true)
		}
		fix(&c.Min, false)
		fix(&c.Max, false)
		fix(&c.Sum, false)
		fix(&c.Count, false)
		if changed {
			o := *m
			o.Comp = &c
			ev.Class(group, "excluded_known", 1)
			m = &o
		}
	}
	return m
}
