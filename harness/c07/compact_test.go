package c07

// Wave 6: background kv compaction of the metadata and index kv stores during a node's life.
//
// The names the flushed data refers to live in ordinary kv families: namespace / metric name / tag value
// dictionaries and the metric schemas (fields + tag keys) in the metadata store of the database
// (<db>/meta/kv: ns, metric, tv, schema), the series dictionary and the inverted / forward / metric->series
// indexes in the index store of every shard (<db>/shard/<n>/index: series, inverted, forward, metric).
// Every metadata / index flush which has something new adds a level-0 file to these families; the kv job
// scheduler of the storage node (store.compact, once a family has >= 4 level-0 files) merges the files of a
// family with the family's merger (index/v1/*_merger.go) into a new file and removes the old ones. What the
// recovered node resolves names from is then the OUTPUT OF THE MERGER.
//
// The histories therefore get
//   - the operation "compactKV": the compaction job of some of these families, run synchronously
//     (kv.VerifCompactSync = the production job function; guard of the periodic job or of Family.Compact)
//     between any two operations of a history, in every phase of a flush cycle, directly before the crash
//     image; the job's own file-system operations are crash points like those of a flush;
//   - the operation "namesAndFlushCycle" (an entry with names of its own, replicated, then one complete
//     flush cycle of the production job), and entries which bring a namespace / metric / field / tag key of
//     their own late in the history, so that one key of a family (one metric's schema, one tag key's value
//     dictionary, one namespace's metric dictionary ...) has deltas in several level-0 files;
//   - a generated continuation AFTER the recovery of an image (flush cycle / compaction / rows with names
//     which did not exist before the crash / graceful restart), see postRecovery.

import (
	"context"
	"fmt"
	"path/filepath"
	"sort"
	"strings"
	"time"

	protoMetricsV1 "github.com/lindb/common/proto/gen/v1/linmetrics"
	"pgregory.net/rapid"

	"github.com/lindb/lindb/config"
	"github.com/lindb/lindb/kv"
	"github.com/lindb/lindb/models"
	"github.com/lindb/lindb/pkg/timeutil"
	"github.com/lindb/lindb/replica"
	"github.com/lindb/lindb/verifharness/sim/crash"
	"github.com/lindb/lindb/verifharness/sim/ev"
	"github.com/lindb/lindb/verifharness/sim/node"
)

const timeRange = "time>='2023-05-01 10:00:00' and time<='2023-05-01 10:59:59'"

// ---- names ------------------------------------------------------------------------------------------

// entryNames are the names of the row an entry writes when it introduces names of its own.
type entryNames struct{ ns, metric, field, tagKey, host string }

// namesOf: owner j writes metric m<j%3>, field f<j%2>, tags host=h<j>, t<j%4>=x in the default namespace;
// from j = 5 on one owner in six brings a namespace of its own (d<j>: same dictionary bucket as
// default-ns), one a metric of its own (x<j>), one another field of m0 (g<j>), one another tag key of
// m2 (u<j>): new names of every kind keep arriving over the whole history.
func namesOf(j int) entryNames {
	nm := entryNames{metric: fmt.Sprintf("m%d", j%3), field: fmt.Sprintf("f%d", j%2), tagKey: fmt.Sprintf("t%d", j%4), host: fmt.Sprintf("h%d", j)}
	if j >= 5 {
		switch j % 6 {
		case 5:
			nm.ns = fmt.Sprintf("d%d", j)
		case 4:
			nm.metric = fmt.Sprintf("x%d", j)
		case 3:
			nm.field = fmt.Sprintf("g%d", j)
		case 2:
			nm.tagKey = fmt.Sprintf("u%d", j)
		}
	}
	return nm
}

func (nm entryNames) nsName() string {
	if nm.ns == "" {
		return "default-ns"
	}
	return nm.ns
}

func (nm entryNames) from() string {
	if nm.ns == "" {
		return nm.metric
	}
	return nm.metric + " on '" + nm.ns + "'"
}

// query by metric name, tag filter, field and group-by of the row's tag keys; key = the expected group.
func (nm entryNames) query(tr string) (q, key string) {
	q = fmt.Sprintf("select %s from %s where host='%s' and %s group by host,%s", nm.field, nm.from(), nm.host, tr, nm.tagKey)
	return q, node.SeriesKey(map[string]string{"host": nm.host, nm.tagKey: "x"})
}

// ---- kv families which carry names --------------------------------------------------------------------

type kvFam struct {
	store string // "meta" or "index"
	name  string
	fam   kv.Family
}

func (f kvFam) String() string { return f.store + "/" + f.name }

// nameFamilies lists the kv families of the metadata store and of the shard index stores of the database
// whose data directory is root (not the data segments), sorted.
func nameFamilies(root string) []kvFam {
	var out []kvFam
	for _, s := range kv.GetStoreManager().GetStores() {
		rel, err := filepath.Rel(root, s.Name())
		if err != nil || strings.HasPrefix(rel, "..") {
			continue
		}
		store := ""
		switch {
		case strings.HasPrefix(rel, "meta"):
			store = "meta"
		case strings.HasSuffix(rel, "index"):
			store = "index"
		default:
			continue
		}
		for _, fn := range s.ListFamilyNames() {
			if f := s.GetFamily(fn); f != nil {
				out = append(out, kvFam{store: store, name: fn, fam: f})
			}
		}
	}
	sort.Slice(out, func(i, j int) bool { return out[i].String() < out[j].String() })
	return out
}

func level0Files(f kv.Family) int {
	snap := f.GetSnapshot()
	defer snap.Close()
	return snap.GetCurrent().NumberOfFilesInLevel(0)
}

// ---- what the harness remembers about names and flushes (only to classify the compactions) -------------

// nameElem: one entry of one key of one kv family (e.g. store meta, family schema, key = metric, name = a
// field) and the flush of the store which wrote it.
type nameElem struct {
	store, fam, key, name string
	flush                 int // number of the completed flush of the store which wrote it; -1: none yet
}

type compactBook struct {
	elems       []nameElem
	seen        map[string]bool
	flushes     map[string]int // store -> completed flushes
	frozen      map[string]int // store -> len(elems) when the flush in flight froze its input
	compactedAt map[string]int // family -> completed flushes of its store when it was compacted last
	ends        []int          // positions in im.Points at which a compaction which ran was over
	recs        []compactionRec
}

type compactionRec struct {
	at     int
	desc   string
	merged int
	fams   []string
}

func newCompactBook() *compactBook {
	return &compactBook{seen: map[string]bool{}, flushes: map[string]int{}, frozen: map[string]int{}, compactedAt: map[string]int{}}
}

func (b *compactBook) add(store, fam, key, name string) {
	id := store + "\x00" + fam + "\x00" + key + "\x00" + name
	if b.seen[id] {
		return
	}
	b.seen[id] = true
	b.elems = append(b.elems, nameElem{store: store, fam: fam, key: key, name: name, flush: -1})
}

// note records what the first row with these names creates in the dictionaries and indexes.
func (b *compactBook) note(ns, metric, field string, tags [][2]string) {
	m := ns + "|" + metric
	b.add("meta", "ns", ns[:1], ns)
	b.add("meta", "metric", ns, metric)
	b.add("meta", "schema", m, "field:"+field)
	series := m + "{"
	for _, kvp := range tags {
		series += kvp[0] + "=" + kvp[1] + ","
	}
	series += "}"
	b.add("index", "series", m, series)
	b.add("index", "metric", m, series)
	for _, kvp := range tags {
		b.add("meta", "schema", m, "tagkey:"+kvp[0])
		b.add("meta", "tv", m+"/"+kvp[0], kvp[1])
		b.add("index", "forward", m+"/"+kvp[0], series)
		b.add("index", "inverted", m+"/"+kvp[0]+"="+kvp[1], series)
	}
}

func (b *compactBook) noteOwner(j int) {
	nm := namesOf(j)
	b.note(nm.nsName(), nm.metric, nm.field, [][2]string{{"host", nm.host}, {nm.tagKey, "x"}})
}

func storeOfStep(step string) string {
	switch step {
	case "flushMeta":
		return "meta"
	case "flushIndex":
		return "index"
	}
	return ""
}

// freeze: a flush sub-step starts (it writes what exists now).
func (b *compactBook) freeze(step string) {
	if st := storeOfStep(step); st != "" {
		b.frozen[st] = len(b.elems)
	}
}

// flushed: the sub-step completed without a failed operation of its own. (After a failed flush the next
// complete one also writes what the failed one had frozen; which of its families the failed one had
// already written is not tracked: the classification may then count a delta one file too late.)
func (b *compactBook) flushed(step string) (newNames int) {
	st := storeOfStep(step)
	if st == "" {
		return 0
	}
	n := b.frozen[st]
	if n > len(b.elems) {
		n = len(b.elems)
	}
	for i := 0; i < n; i++ {
		if b.elems[i].store == st && b.elems[i].flush < 0 {
			b.elems[i].flush = b.flushes[st]
			newNames++
		}
	}
	if newNames > 0 {
		b.flushes[st]++
	}
	return newNames
}

// merged tells for a compaction of the family which runs now how many of its keys have entries in >= 2 of
// the files being merged (everything written before the family's last compaction is one file) and the
// largest number of files one key has entries in.
func (b *compactBook) merged(f kvFam) (keys, maxFiles int) {
	src := map[string]map[int]bool{}
	at := b.compactedAt[f.String()]
	for _, e := range b.elems {
		if e.store != f.store || e.fam != f.name || e.flush < 0 {
			continue
		}
		s := e.flush
		if s < at {
			s = -1 // the level-1 file
		}
		if src[e.key] == nil {
			src[e.key] = map[int]bool{}
		}
		src[e.key][s] = true
	}
	for _, m := range src {
		if len(m) >= 2 {
			keys++
		}
		if len(m) > maxFiles {
			maxFiles = len(m)
		}
	}
	return keys, maxFiles
}

// flushCyclesWithNewNames: completed metadata flushes which wrote new names since the family was compacted last.
func (b *compactBook) flushesSince(f kvFam) int {
	return b.flushes[f.store] - b.compactedAt[f.String()]
}

// ---- operations of the history ------------------------------------------------------------------------

// opCompactKV = the background compaction job of some of the kv families which carry names. Families with
// fewer than two level-0 files have nothing to merge; the operation is not taken while there is none.
func (w *world) opCompactKV(where string) {
	var cands []kvFam
	most := 0
	for _, f := range nameFamilies(filepath.Join(w.dir, "data", w.db)) {
		if n := level0Files(f.fam); n >= 2 {
			cands = append(cands, f)
			if n > most {
				most = n
			}
		}
	}
	if len(cands) == 0 {
		if where != "" {
			return
		}
		w.t.Skip("no metadata / index kv family with >= 2 level-0 files")
	}
	var chosen []kvFam
	for _, f := range cands {
		if rapid.IntRange(0, 2).Draw(w.t, "compact:"+f.String()) != 0 {
			chosen = append(chosen, f)
		}
	}
	if len(chosen) == 0 {
		chosen = append(chosen, cands[rapid.IntRange(0, len(cands)-1).Draw(w.t, "compactOne")])
	}
	// the periodic job of the store (>= 4 level-0 files: the only caller these families have in
	// production) or Family.Compact (> 1 level-0 file: the same job, entered through the other guard)
	force := true
	if most >= 4 {
		force = rapid.Bool().Draw(w.t, "compactGuardFamilyCompact")
	}
	guard := map[bool]string{true: "Family.Compact guard", false: "periodic job guard"}[force]
	w.logf("compactKV%s (%s) of %v ...", where, guard, chosen)
	at := len(w.ops) - 1
	var ran []string
	mergedKeys := 0
	w.begin("compactKV")
	for _, f := range chosen {
		files := level0Files(f.fam)
		keys, maxFiles := w.book.merged(f)
		ok, err := kv.VerifCompactSync(f.fam, force)
		if err != nil {
			w.end()
			w.fatalf("compaction of kv family %s (%d level-0 files) fails: %v", f, files, err)
		}
		if !ok {
			w.classes["kv-compaction-skipped-by-periodic-guard"]++
			continue
		}
		ran = append(ran, fmt.Sprintf("%s(%d level-0 files, %d keys with deltas in >= 2 files)", f, files, keys))
		w.classes["kv-compaction-ran"]++
		w.classes["kv-compaction-ran-"+f.String()]++
		w.classes[fmt.Sprintf("kv-compaction-over-%s-level-0-files", bucket(files))]++
		if keys > 0 {
			w.classes["kv-compaction-merging-several-deltas-of-one-key-"+f.String()]++
			w.classes[fmt.Sprintf("kv-compaction-key-with-deltas-in-%s-files", bucket(maxFiles))]++
		}
		if w.book.flushesSince(f) >= 2 {
			w.classes["kv-compaction-after->=2-flush-cycles-with-new-names-"+f.store]++
		}
		if !force {
			w.classes["kv-compaction-by-periodic-job-guard"]++
		}
		mergedKeys += keys
		w.book.compactedAt[f.String()] = w.book.flushes[f.store]
	}
	w.end()
	w.ops[at] = fmt.Sprintf("compactKV%s (%s): ran %v", where, guard, ran)
	w.classes["compactKV"]++
	if len(ran) > 0 {
		switch {
		case w.subStep != "":
			w.classes["kv-compaction-while-"+w.subStep+"-is-writing"]++
		case w.cycle != 0:
			w.classes["kv-compaction-inside-flush-cycle-after-"+[]string{"", "flushMeta", "flushIndex"}[w.cycle]]++
		}
		w.book.ends = append(w.book.ends, len(w.im.Points))
		var fams []string
		for _, r := range ran {
			fams = append(fams, "compacted-"+r[:strings.Index(r, "(")])
		}
		w.book.recs = append(w.book.recs, compactionRec{at: at, desc: w.ops[at], merged: mergedKeys, fams: fams})
	}
}

func bucket(n int) string {
	switch {
	case n <= 3:
		return fmt.Sprint(n)
	case n <= 5:
		return "4-5"
	}
	return ">=6"
}

// opNamesAndFlushCycle: an entry with names of its own is appended and replicated, then the production
// flush job runs one complete cycle (no fault, nothing racing): one more delta for the dictionaries,
// schemas and indexes.
func (w *world) opNamesAndFlushCycle() {
	if w.cycle != 0 {
		w.t.Skip("a flush cycle is in flight")
	}
	if len(w.entries) >= maxEntries {
		w.t.Skip("log full")
	}
	w.appendWrite(appendSpec{log: rapid.IntRange(0, 5).Draw(w.t, "log")}, "appendLog", "")
	w.catchUp()
	w.flushJob(true)
	w.classes["names-and-flush-cycle"]++
}

// ---- after the recovery ---------------------------------------------------------------------------------

// postEnv is the recovered node of one image as the continuation sees it.
type postEnv struct {
	p        crash.Point
	dir      string // directory the current generation of the node runs on (the image; after a shutdown with an I/O fault a copy of what was left)
	root     string // data directory of the database below dir
	node     func() *node.Node
	query    func(q string) (node.Result, error)
	restart  func(plan *sdPlan, unloggedRows int) // plan: I/O fault of the shutdown (nil = none)
	visible  func(i int) bool
	hasSum   bool
	sum      float64 // the sum cell after the recovery
	describe func() string
}

// postRow is a row written after the recovery.
type postRow struct {
	what              string
	ns, metric, field string
	tags              [][2]string
	ts                int64
	val               float64
}

// mrow is one row of the naive model of the node's content: (namespace, metric, field, tags) slot -> value.
type mrow struct {
	ns, metric, field string
	tags              map[string]string
	ts                int64
	val               float64
}

// mquery: select <field> from <metric> [on <ns>] where <fk>='<fv>' and <time range> group by <group>.
type mquery struct {
	ns, metric, field string
	fk, fv            string
	group             []string
	what              string
}

func (q mquery) sql() string {
	return fmt.Sprintf("select %s from %s where %s='%s' and %s group by %s", q.field, entryNames{ns: q.ns, metric: q.metric}.from(), q.fk, q.fv, timeRange, strings.Join(q.group, ","))
}

// eval computes the answer from the rows (sum fields; every row of the model carries every group-by key
// of the queries it matches: the filter key is one of the group-by keys and every row has the tag host).
func (q mquery) eval(rows []mrow) node.Result {
	out := node.Result{}
rows:
	for _, r := range rows {
		if r.ns != q.ns || r.metric != q.metric || r.field != q.field || r.tags[q.fk] != q.fv {
			continue
		}
		g := map[string]string{}
		for _, k := range q.group {
			v, ok := r.tags[k]
			if !ok {
				continue rows
			}
			g[k] = v
		}
		key := node.SeriesKey(g)
		if out[key] == nil {
			out[key] = map[string]map[int64]float64{}
		}
		if out[key][r.field] == nil {
			out[key][r.field] = map[int64]float64{}
		}
		out[key][r.field][r.ts] += r.val
	}
	return out
}

// postRecovery continues the life of the recovered node (restart = every cache cold): a generated sequence of
//   - flush:    one flush cycle in production order (replayed names become one more level-0 file),
//   - compact:  the compaction job of the metadata / index kv families (after a flush cycle if no family
//     has two level-0 files),
//   - newNames: rows which create names that did not exist before the crash: another field of an existing
//     metric on an existing series, another tag key (and value) of an existing metric, another tag value of
//     an existing tag key, a metric of its own, a namespace of its own,
//   - restart:  graceful shutdown (final flush) and restart with WAL recovery,
//
// and before the first, after each newNames / restart and at the end the oracle, against a naive model of the
// rows (entries of the recovered logs + rows written after the recovery): queries by metric name + field +
// tag filter + group-by - per entry with names of its own `where host='h<j>'`, per (metric, field, tag key)
// `where t<k>='x'` (every series with that key: posting lists / forward index entries written in several
// flush cycles), per new row `where host=<its host>` - must return every cell of the model with its value and
// NOTHING else: an id handed out after the recovery which collides with one stored in the flushed data
// would show old cells under the new name or new cells under the old one. The sum cell must not change
// (a graceful restart applies nothing again).
func (w *world) postRecovery(env *postEnv) (classes []string) {
	t := w.t
	steps := rapid.SliceOfN(rapid.SampledFrom([]string{"flush", "compact", "compact", "compact", "newNames", "newNames", "restart"}), 1, 4).Draw(t, "afterRecovery")
	if rapid.IntRange(0, 2).Draw(t, "afterRecoveryEndsWithRestart") != 0 {
		steps = append(steps, "restart")
	}
	var rows []postRow
	var hist []string
	fatalf := func(format string, args ...any) {
		w.fatalf("image %s, after the recovery %v: %s;%s", env.p, hist, fmt.Sprintf(format, args...), env.describe())
	}
	// the rows the recovered node must show (entries of the recovered logs) / may show (every entry of the history)
	var must, may []mrow
	var volatile []int // rows of must written after the recovery (without a log) which no completed flush / clean shutdown covers yet
	lossy := false     // a shutdown with an I/O fault has happened
	ownerSet := map[int]bool{}
	for i, e := range w.entries {
		if w.bad(i) {
			continue
		}
		nm := namesOf(e.ref)
		r := mrow{ns: nm.ns, metric: nm.metric, field: nm.field, tags: map[string]string{"host": nm.host, nm.tagKey: "x"}, ts: baseTime + int64(i)*10_000, val: float64(i + 1)}
		may = append(may, r)
		if !env.visible(i) || (w.d8Exposed[e.ref] && ev.Known(sigD8)) {
			continue
		}
		must = append(must, r)
		ownerSet[e.ref] = true
	}
	var owners []int
	for j := range ownerSet {
		owners = append(owners, j)
	}
	sort.Ints(owners)
	// the queries: by metric name + field + one tag filter + group-by
	//   - per owner: where host='h<j>' (one series),
	//   - per (metric, field, tag key t): where t='x' (every series of the metric with that tag key: the
	//     posting list of the tag value and the forward index of the key hold series of several flush cycles),
	//   - per row written after the recovery: where host=<its host>
	var queries []mquery
	seenQ := map[string]bool{}
	addQuery := func(q mquery) {
		if !seenQ[q.sql()] {
			seenQ[q.sql()] = true
			queries = append(queries, q)
		}
	}
	for _, j := range owners {
		nm := namesOf(j)
		addQuery(mquery{ns: nm.ns, metric: nm.metric, field: nm.field, fk: "host", fv: nm.host, group: []string{"host", nm.tagKey}, what: fmt.Sprintf("names of entry %d", j)})
	}
	for _, j := range owners {
		nm := namesOf(j)
		addQuery(mquery{ns: nm.ns, metric: nm.metric, field: nm.field, fk: nm.tagKey, fv: "x", group: []string{"host", nm.tagKey}, what: fmt.Sprintf("series with the tag key of entry %d", j)})
	}
	check := func(stage string) {
		if env.hasSum {
			res, err := env.query("select s from acc where " + timeRange)
			if err != nil {
				fatalf("%s: query acc: %v", stage, err)
			}
			if got := res[""]["s"][baseTime]; got != env.sum {
				fatalf("%s: the sum cell is %v, after the recovery it was %v (base-4 digit i = applications of entry i): %v -> %v", stage, got, env.sum, digits(env.sum), digits(got))
			}
		}
		for _, q := range queries {
			res, err := env.query(q.sql())
			lo, hi := q.eval(must), q.eval(may)
			if err != nil && lossy && len(lo) == 0 {
				// only rows which a shutdown with an I/O fault may have lost match the query: their names need not exist
				continue
			}
			if err != nil {
				fatalf("%s: %s: query %q fails: %v", stage, q.what, q.sql(), err)
			}
			for k, fields := range lo {
				for f, pts := range fields {
					for ts, v := range pts {
						if got, ok := res[k][f][ts]; !ok || got != v {
							fatalf("%s: %s: query %q returns %q, [%s] %s %d=%v is missing; the rows written there: %q", stage, q.what, q.sql(), res.String(), k, f, ts, v, lo.String())
						}
					}
				}
			}
			for k, fields := range res {
				for f, pts := range fields {
					for ts, v := range pts {
						if want, ok := hi[k][f][ts]; !ok || want != v {
							fatalf("%s: %s: query %q returns a cell which no row wrote there: [%s] %s %d=%v (whole answer %q; the rows written there: %q)", stage, q.what, q.sql(), k, f, ts, v, res.String(), hi.String())
						}
					}
				}
			}
		}
	}
	check("right after the recovery")
	nextRow := 0
	compactions, coldAfter := 0, false
	dirty := false
	for _, step := range steps {
		switch step {
		case "flush":
			hist = append(hist, "flush")
			if err := env.node().FlushDB(w.db); err != nil {
				fatalf("flush cycle: %v", err)
			}
			volatile = nil
		case "compact":
			ran := w.postCompact(env, &hist, fatalf)
			if ran > 0 {
				compactions += ran
				dirty = true
				classes = append(classes, "post-recovery-kv-compaction")
			}
		case "newNames":
			var cand []int
			for _, j := range owners {
				cand = append(cand, j)
			}
			kinds := rapid.SliceOfNDistinct(rapid.SampledFrom([]string{"field", "tagKey", "tagValue", "metric", "namespace"}), 1, 5, rapid.ID[string]).Draw(t, "newNameKinds")
			sort.Strings(kinds)
			var ms []*protoMetricsV1.Metric
			for _, kind := range kinds {
				k := 100 + nextRow
				r := postRow{what: kind, field: "f0", ts: baseTime + int64(30+nextRow)*10_000, val: float64(1000 + nextRow)}
				var nm entryNames
				if kind == "field" || kind == "tagKey" || kind == "tagValue" {
					if len(cand) == 0 {
						continue
					}
					j := cand[rapid.IntRange(0, len(cand)-1).Draw(t, "ownerOfExistingNames")]
					nm = namesOf(j)
					r.ns, r.metric, r.field = nm.ns, nm.metric, nm.field
					r.what = fmt.Sprintf("%s of the metric of entry %d", kind, j)
				}
				switch kind {
				case "field": // another field of an existing metric, written to an existing series
					r.field = fmt.Sprintf("nf%d", k)
					r.tags = [][2]string{{"host", nm.host}, {nm.tagKey, "x"}}
				case "tagKey": // another tag key of an existing metric (with a value and a series of its own)
					r.tags = [][2]string{{"host", fmt.Sprintf("bh%d", k)}, {fmt.Sprintf("nk%d", k), "y"}}
				case "tagValue": // another value of existing tag keys
					r.tags = [][2]string{{"host", fmt.Sprintf("nh%d", k)}, {nm.tagKey, "x"}}
				case "metric":
					r.metric = fmt.Sprintf("nm%d", k)
					r.tags = [][2]string{{"host", fmt.Sprintf("ch%d", k)}}
				case "namespace":
					r.ns, r.metric = fmt.Sprintf("dn%d", k), "m0"
					r.tags = [][2]string{{"host", fmt.Sprintf("eh%d", k)}}
				}
				mr := mrow{ns: r.ns, metric: r.metric, field: r.field, tags: map[string]string{}, ts: r.ts, val: r.val}
				q := mquery{ns: r.ns, metric: r.metric, field: r.field, fk: "host", fv: r.tags[0][1], what: "row written after the recovery (" + r.what + ")"}
				for _, kvp := range r.tags {
					mr.tags[kvp[0]] = kvp[1]
					q.group = append(q.group, kvp[0])
				}
				volatile = append(volatile, len(must))
				must, may = append(must, mr), append(may, mr)
				addQuery(q)
				m := &protoMetricsV1.Metric{Namespace: r.ns, Name: r.metric, Timestamp: r.ts,
					SimpleFields: []*protoMetricsV1.SimpleField{{Name: r.field, Type: protoMetricsV1.SimpleFieldType_DELTA_SUM, Value: r.val}}}
				for _, kvp := range r.tags {
					m.Tags = append(m.Tags, &protoMetricsV1.KeyValue{Key: kvp[0], Value: kvp[1]})
				}
				ms = append(ms, m)
				rows = append(rows, r)
				nextRow++
				classes = append(classes, "post-recovery-new-"+kind)
				if compactions > 0 {
					classes = append(classes, "post-recovery-new-"+kind+"-after-post-recovery-compaction")
				}
			}
			if len(ms) == 0 {
				continue
			}
			hist = append(hist, fmt.Sprintf("newNames%v", kinds))
			// the rows reach the family the way the replicator hands them over (DataFamily.WriteRows)
			if err := env.node().Write(w.db, 0, ms); err != nil {
				fatalf("write of rows with new names: %v", err)
			}
			dirty = true
			check("after the write of new names")
		case "restart":
			_, _, restartFaultPct := w.shutdownOdds()
			plan := drawShutdownPlan(t, restartFaultPct, true)
			stage := "after a graceful restart"
			if plan == nil {
				hist = append(hist, "restart")
			} else {
				hist = append(hist, "restart (shutdown with "+plan.String()+")")
				stage = "after a restart whose shutdown had an " + plan.String()
				classes = append(classes, "post-recovery-restart-with-io-fault-in-the-shutdown")
				if len(volatile) > 0 {
					// rows which reached the family without a log and are in no flushed data may be lost
					drop := map[int]bool{}
					for _, i := range volatile {
						drop[i] = true
					}
					var kept []mrow
					for i, r := range must {
						if !drop[i] {
							kept = append(kept, r)
						}
					}
					must = kept
					classes = append(classes, "post-recovery-unlogged-rows-may-be-lost-by-the-faulty-shutdown")
				}
				lossy = true
			}
			env.restart(plan, len(volatile))
			volatile = nil
			if dirty {
				coldAfter = true
			}
			dirty = false
			check(stage)
		}
	}
	check("at the end")
	classes = append(classes, "post-recovery-continuation")
	if len(rows) > 0 {
		classes = append(classes, "post-recovery-new-names")
	}
	if coldAfter {
		classes = append(classes, "post-recovery-restart-after-compaction-or-new-names")
	}
	nt := coldAfter && (compactions > 0 || len(rows) > 0) && len(owners) > 0
	ev.Case("after-recovery", strings.Join(w.ops, ";")+"|"+env.p.String()+"|"+strings.Join(hist, ";"), nt, uniq(classes),
		map[string]any{"image": env.p.String(), "continuation": hist, "owners_of_flushed_or_replayed_names": len(owners), "rows_with_new_names": len(rows)})
	return classes
}

// postCompact runs the compaction job of the name-carrying kv families of the recovered node.
func (w *world) postCompact(env *postEnv, hist *[]string, fatalf func(string, ...any)) (ran int) {
	cands := func() (out []kvFam) {
		for _, f := range nameFamilies(env.root) {
			if level0Files(f.fam) >= 2 {
				out = append(out, f)
			}
		}
		return out
	}
	cs := cands()
	if len(cs) == 0 {
		// what the replay (and the continuation) created becomes one more level-0 file
		*hist = append(*hist, "flush")
		if err := env.node().FlushDB(w.db); err != nil {
			fatalf("flush cycle: %v", err)
		}
		cs = cands()
	}
	if len(cs) == 0 {
		return 0
	}
	mask := rapid.SliceOfN(rapid.IntRange(0, 2), len(cs), len(cs)).Draw(w.t, "postCompactFamilies")
	any := false
	for _, m := range mask {
		any = any || m != 0
	}
	var names []string
	for i, f := range cs {
		if any && mask[i] == 0 {
			continue
		}
		files := level0Files(f.fam)
		ok, err := kv.VerifCompactSync(f.fam, true)
		if err != nil {
			fatalf("compaction of kv family %s (%d level-0 files) fails: %v", f, files, err)
		}
		if ok {
			ran++
			names = append(names, fmt.Sprintf("%s(%d)", f, files))
			w.classes["post-recovery-kv-compaction-ran-"+f.String()]++
		}
	}
	*hist = append(*hist, fmt.Sprintf("compact%v", names))
	return ran
}

// restartRecovered: graceful shutdown of the recovered node in the production order (stop replication,
// close the engine - final flush -, close the logs) and a new start on the same directory with WAL
// recovery; returns when the replay (if anything is left to replay) is over.
func (w *world) restartRecovered(p crash.Point, n **node.Node, walMgr *replica.WriteAheadLogManager, imgs []*logImage, describe func() string) {
	(*walMgr).Stop()
	(*n).Close()
	_ = (*walMgr).Close()
	*walMgr = nil
	w.startRecovered(p, n, walMgr, imgs, describe)
}

// startRecovered starts the next generation of a recovered node on p.Dir (engine, WAL recovery) and returns
// when the replay is over.
func (w *world) startRecovered(p crash.Point, n **node.Node, walMgr *replica.WriteAheadLogManager, imgs []*logImage, describe func() string) {
	replica.NewPartitionFn = replica.NewPartition
	var drain func(limit int) bool
	if w.flw != nil {
		// a log with a follower group: the follower is not reachable, the harness steps the local replicators
		var release func()
		drain, release = w.holdPartitions()
		defer release()
	}
	nn, err := node.Start(p.Dir)
	if err != nil {
		w.fatalf("image %s: the recovered node cannot be restarted: %v", p, err)
	}
	*n = nn
	*walMgr = replica.NewWriteAheadLogManager(context.Background(), config.GlobalStorageConfig().WAL, nodeID, nn.Engine, recoveryCliFct(), flwStateMgr{})
	if err := (*walMgr).Recovery(); err != nil {
		w.fatalf("image %s: WAL recovery at the restart of the recovered node: %v", p, err)
	}
	if drain != nil {
		if !drain(4 * maxEntries) {
			w.fatalf("image %s: restart of the recovered node: replay does not finish;%s", p, describe())
		}
		return
	}
	shard, err := nn.Shard(w.db, 0)
	if err != nil {
		w.fatalf("image %s: restart of the recovered node: %v", p, err)
	}
	family, err := shard.GetOrCrateDataFamily(baseTime)
	if err != nil {
		w.fatalf("image %s: restart of the recovered node: data family: %v", p, err)
	}
	acks := map[models.NodeID]int64{}
	for _, st := range (*walMgr).GetReplicaState(w.db) {
		for _, peer := range st.Replicators {
			if peer.Replicator == fmt.Sprint(int(nodeID)) {
				acks[st.Leader] = peer.ACK
			}
		}
	}
	deadline := time.Now().Add(replayWait)
	for _, im := range imgs {
		for im.present {
			ack, ok := acks[im.lg.leader]
			if im.logApp < 0 || (ok && im.logApp <= ack) {
				break
			}
			st := family.GetState()
			if seq, ok := st.ReplicaSequences[int32(im.lg.leader)]; ok && seq >= im.logApp {
				break
			}
			if time.Now().After(deadline) {
				w.fatalf("image %s: restart of the recovered node: replay of the log of leader %d does not finish: family sequences %v (ack %d);%s", p, im.lg.leader, st.ReplicaSequences, ack, describe())
			}
			time.Sleep(time.Millisecond)
		}
	}
}

func newCluster(n *node.Node, db string) *node.Cluster {
	c := node.NewCluster()
	c.Timeout = queryTimeout
	c.AddLeaf("leaf:1", n.Engine, "")
	c.SetLayout(db, node.DBOption(timeutil.Interval(10_000)), map[string][]models.ShardID{"leaf:1": {0}})
	return c
}
