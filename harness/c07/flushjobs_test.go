// Wave 8: two flush jobs of ONE database overlapping in time.
//
// The production flush job (dataFlushChecker.doFlush: Database.FlushMeta + WaitFlushMetaCompleted, per shard
// FlushIndex + WaitFlushIndexCompleted, per family Flush) is run by several actors of a node: the workers of
// the flush checker (flush-concurrency), the periodic check, the flush rpc, the watermark flush. Each of the
// three sub-steps has a "somebody else is flushing" branch which returns AT ONCE; what orders the second job
// behind the first one is the wait on the flush condition (metadata, index) resp. the fact that only the
// job which owns the family flush runs the acknowledgement callback.
//
// One case: a node with one log; a drawn prefix (entries, complete flush cycles), then entries - with names
// which are new since the last metadata flush, or writing into existing series - are appended and applied.
// Job A (the production job, or a bare metadata flush) is started on a goroutine of its own and HELD by the
// harness at a drawn intercepted file-system operation (table file / manifest record) of a drawn store
// (metadata store, shard index store, data family store). Job B (the production job) is started on another
// goroutine; the harness waits until B has parked on a flush condition or has completed (goroutine state,
// no clock). Records may be appended to the log meanwhile (not applied: names created inside a flush cycle
// are the known finding C07/name-created-inside-flush-cycle-persisted-with-data and are not generated). A
// crash image of the node directory is taken at this quiescent point, A is released, both jobs complete, a
// second image is taken. Both images are recovered the production way (tsdb.NewEngine,
// WriteAheadLogManager.Recovery, free running replay) and checked with the oracle of the histories: the
// acknowledged position of the log is not above the sequence stored with the flushed data, every appended
// entry is present (digit of the sum cell >= 1, exactly 1 at or below the stored sequence) and its row
// resolves by namespace / metric / tag / field name.
package c07

import (
	"context"
	"fmt"
	"os"
	"path/filepath"
	"runtime"
	"strconv"
	"strings"
	"sync"
	"testing"
	"time"

	"pgregory.net/rapid"

	"github.com/lindb/lindb/config"
	"github.com/lindb/lindb/kv/table"
	"github.com/lindb/lindb/kv/version"
	"github.com/lindb/lindb/models"
	"github.com/lindb/lindb/pkg/queue"
	"github.com/lindb/lindb/pkg/timeutil"
	"github.com/lindb/lindb/replica"
	"github.com/lindb/lindb/tsdb"
	"github.com/lindb/lindb/verifharness/sim/crash"
	"github.com/lindb/lindb/verifharness/sim/ev"
	"github.com/lindb/lindb/verifharness/sim/node"
)

// fjGate holds the goroutine which runs into the nth intercepted operation of one store.
type fjGate struct {
	mu      sync.Mutex
	root    string // data directory of the database
	armed   bool
	store   string // "meta", "index", "data"
	opKind  string // "table": operations on a table file, "manifest": on the manifest / current file of the store
	nth     int
	seen    int
	heldOp  string
	held    chan struct{}
	release chan struct{}
	once    *sync.Once
}

// open lets the held goroutine go on (idempotent).
func (g *fjGate) open() {
	g.mu.Lock()
	once, ch := g.once, g.release
	g.mu.Unlock()
	if once != nil {
		once.Do(func() { close(ch) })
	}
}

func fjStoreOf(root, path string) string {
	rel := strings.TrimPrefix(path, root)
	switch {
	case rel == path:
		return ""
	case strings.HasPrefix(rel, "/meta/"):
		return "meta"
	case strings.Contains(rel, "/index/"):
		return "index"
	case strings.Contains(rel, "/segment/"):
		return "data"
	}
	return ""
}

func (g *fjGate) hook(op, path string, before bool) {
	if !before {
		return
	}
	g.mu.Lock()
	if !g.armed || fjStoreOf(g.root, path) != g.store || strings.HasPrefix(op, "table") != (g.opKind == "table") {
		g.mu.Unlock()
		return
	}
	if g.seen < g.nth {
		g.seen++
		g.mu.Unlock()
		return
	}
	g.armed = false
	g.heldOp = op
	g.mu.Unlock()
	close(g.held)
	<-g.release
}

func (g *fjGate) arm(store, opKind string, nth int) {
	g.mu.Lock()
	g.armed, g.store, g.opKind, g.nth, g.seen, g.heldOp = true, store, opKind, nth, 0, ""
	g.held, g.release, g.once = make(chan struct{}), make(chan struct{}), &sync.Once{}
	g.mu.Unlock()
}

func (g *fjGate) disarm() (wasArmed bool) {
	g.mu.Lock()
	defer g.mu.Unlock()
	wasArmed = g.armed
	g.armed = false
	return wasArmed
}

//go:noinline
func fjJobA(kind string, d tsdb.Database, res *error, done chan<- struct{}) {
	defer close(done)
	if kind == "metaOnly" {
		*res = d.FlushMeta()
		return
	}
	*res = tsdb.VerifFlushDatabaseSync(d)
}

//go:noinline
func fjJobB(d tsdb.Database, res *error, done chan<- struct{}) {
	defer close(done)
	*res = tsdb.VerifFlushDatabaseSync(d)
}

// fjParked: the goroutine whose entry function is fn sits in sync.Cond.Wait below one of the two flush
// conditions of the production job.
func fjParked(fn string) (parked bool, state string) {
	buf := make([]byte, 1<<20)
	for {
		n := runtime.Stack(buf, true)
		if n < len(buf) || len(buf) >= 1<<28 {
			buf = buf[:n]
			break
		}
		buf = make([]byte, 2*len(buf)) // truncated dump: the goroutine may be missing
	}
	for _, blk := range strings.Split(string(buf), "\n\n") {
		if !strings.Contains(blk, "c07."+fn+"(") {
			continue
		}
		head, _, _ := strings.Cut(blk, "\n")
		if a := strings.Index(head, "["); a >= 0 {
			state = strings.TrimSuffix(strings.TrimSuffix(head[a+1:], ":"), "]")
		}
		if strings.HasPrefix(state, "sync.Cond.Wait") &&
			(strings.Contains(blk, ").WaitFlushMetaCompleted(") || strings.Contains(blk, ").WaitFlushIndexCompleted(")) {
			return true, state
		}
		return false, state
	}
	return false, "no such goroutine"
}

type fjEntry struct {
	i, ref  int
	applied bool
}

type fjImage struct {
	name     string
	dir      string
	appended int // records whose append had returned
	note     string
}

type fjWorld struct {
	t       *rapid.T
	dir     string
	db      string
	leader  models.NodeID
	n       *node.Node
	d       tsdb.Database
	shard   tsdb.Shard
	family  tsdb.DataFamily
	part    replica.Partition
	entries []fjEntry // sequence order of the one log
	ops     []string
	classes []string
}

func (w *fjWorld) logf(format string, args ...any) { w.ops = append(w.ops, fmt.Sprintf(format, args...)) }

func (w *fjWorld) fatalf(format string, args ...any) {
	w.t.Helper()
	w.t.Fatalf("%s\nhistory:\n  %s", fmt.Sprintf(format, args...), strings.Join(w.ops, "\n  "))
}

// append one record; ref < 0: names of its own.
func (w *fjWorld) append(ownNames bool, pick int) {
	i := len(w.entries)
	ref := i
	if !ownNames && i > 0 {
		// an applied entry's series (an entry which is only in the log has created nothing yet)
		var cands []int
		for _, e := range w.entries {
			if e.applied && e.ref == e.i {
				cands = append(cands, e.i)
			}
		}
		if len(cands) > 0 {
			ref = cands[pick%len(cands)]
		}
	}
	msg, err := message(i, ref)
	if err != nil {
		w.fatalf("harness: %v", err)
	}
	if w.leader == nodeID {
		err = w.part.WriteLog(msg)
	} else {
		_, err = w.part.ReplicaLog(int64(i), msg)
	}
	if err != nil {
		w.fatalf("harness: append: %v", err)
	}
	w.entries = append(w.entries, fjEntry{i: i, ref: ref})
	if ref == i {
		w.logf("append %d (names of its own: %+v)", i, namesOf(i))
	} else {
		w.logf("append %d (into the series of entry %d)", i, ref)
	}
}

func (w *fjWorld) applyAll() {
	r := replica.VerifReplicator(w.part, nodeID)
	if r == nil {
		w.fatalf("harness: no local replicator")
	}
	for k := 0; r.Pending() > 0; k++ {
		if k > 4*maxEntries {
			w.fatalf("harness: the local replicator does not drain the log")
		}
		replica.VerifReplicaStep(w.part, nodeID)
	}
	for k := range w.entries {
		w.entries[k].applied = true
	}
	w.logf("replicate all")
}

func (w *fjWorld) unflushedNewNames(flushedUpTo int) (n int) {
	for _, e := range w.entries[flushedUpTo:] {
		if e.ref == e.i {
			n++
		}
	}
	return n
}

func runFlushJobs(t *rapid.T) {
	dir, err := os.MkdirTemp("", "c07fj-")
	if err != nil {
		t.Fatalf("harness: %v", err)
	}
	defer os.RemoveAll(dir)
	w := &fjWorld{t: t, dir: filepath.Join(dir, "node"), db: fmt.Sprintf("c07db%d", dbSeq.Add(1))}
	w.leader = rapid.SampledFrom([]models.NodeID{1, 1, 1, 2}).Draw(t, "leader")
	g := &fjGate{root: filepath.Join(w.dir, "data", w.db)}
	version.VerifSetFSHook(g.hook)
	table.VerifSetFSHook(g.hook)
	defer version.VerifSetFSHook(nil)
	defer table.VerifSetFSHook(nil)

	if w.n, err = node.Start(w.dir); err != nil {
		t.Fatalf("harness: %v", err)
	}
	live := true
	var fq queue.FanOutQueue
	shutdown := func() {
		if !live {
			return
		}
		live = false
		if w.part != nil {
			w.part.Stop()
		}
		w.n.Close()
		if w.part != nil {
			_ = w.part.Close()
		}
	}
	defer shutdown()
	if err := w.n.CreateDB(w.db, node.DBOption(timeutil.Interval(10_000)), 0); err != nil {
		t.Fatalf("harness: %v", err)
	}
	w.d, _ = w.n.Engine.GetDatabase(w.db)
	w.shard, _ = w.n.Shard(w.db, 0)
	if w.family, err = w.shard.GetOrCrateDataFamily(baseTime); err != nil {
		t.Fatalf("harness: %v", err)
	}
	if fq, err = queue.NewFanOutQueue(walDir(config.GlobalStorageConfig().WAL, w.db, w.leader), 0); err != nil {
		t.Fatalf("harness: %v", err)
	}
	w.part = replica.NewPartition(context.Background(), w.shard, w.family, nodeID, fq, nil, nil)
	if w.leader == nodeID {
		err = w.part.BuildReplicaForLeader(nodeID, []models.NodeID{nodeID})
	} else {
		err = w.part.BuildReplicaForFollower(w.leader, nodeID)
	}
	if err != nil {
		t.Fatalf("harness: %v", err)
	}
	w.logf("node with the log of leader %d", w.leader)

	// ---- prefix: entries and complete (sequential) flush cycles
	flushedUpTo := 0
	cycles := rapid.IntRange(0, 2).Draw(t, "prefixCycles")
	for c := 0; c < cycles; c++ {
		for k, n := 0, rapid.IntRange(1, 3).Draw(t, "prefixEntries"); k < n; k++ {
			w.append(rapid.IntRange(0, 3).Draw(t, "ownNames") > 0, rapid.IntRange(0, 50).Draw(t, "pick"))
			w.applyAll()
		}
		if err := tsdb.VerifFlushDatabaseSync(w.d); err != nil {
			w.fatalf("harness: flush job: %v", err)
		}
		flushedUpTo = len(w.entries)
		w.logf("flush job (alone)")
	}
	// ---- the entries the overlapping jobs have to make durable
	for k, n := 0, rapid.IntRange(1, 4).Draw(t, "entries"); k < n; k++ {
		w.append(rapid.IntRange(0, 3).Draw(t, "ownNames") > 0, rapid.IntRange(0, 50).Draw(t, "pick"))
		if rapid.IntRange(0, 2).Draw(t, "applyNow") == 0 {
			w.applyAll()
		}
	}
	w.applyAll()
	newNames := w.unflushedNewNames(flushedUpTo)

	// ---- job A, held
	kindA := rapid.SampledFrom([]string{"job", "job", "job", "metaOnly"}).Draw(t, "jobA")
	store := "meta"
	if kindA == "job" {
		store = rapid.SampledFrom([]string{"meta", "meta", "index", "index", "data"}).Draw(t, "heldInStore")
	}
	opKind := rapid.SampledFrom([]string{"table", "manifest"}).Draw(t, "heldAtKind")
	nth := rapid.IntRange(0, 5).Draw(t, "heldAtOp")
	// all draws are made before the jobs start: nothing but the harness' own waiting happens while A is held
	type lateSpec struct {
		own  bool
		pick int
	}
	var late []lateSpec
	for k, n := 0, rapid.IntRange(0, 2).Draw(t, "appendsWhileHeld"); k < n; k++ {
		late = append(late, lateSpec{rapid.IntRange(0, 1).Draw(t, "ownNames") > 0, rapid.IntRange(0, 50).Draw(t, "pick")})
	}
	g.arm(store, opKind, nth)
	var errA, errB error
	doneA, doneB := make(chan struct{}), make(chan struct{})
	startedB := false
	// whatever ends the case (a failed assertion included): let A go and wait for both jobs before the node is closed
	defer func() {
		g.disarm()
		g.open()
		for _, ch := range []chan struct{}{doneA, doneB} {
			if ch == doneB && !startedB {
				continue
			}
			select {
			case <-ch:
			case <-time.After(replayWait):
			}
		}
		shutdown()
	}()
	go fjJobA(kindA, w.d, &errA, doneA)
	heldA := false
	select {
	case <-g.held:
		heldA = true
		w.logf("job A (%s) held before %s (%s operation number %d) of the %s store", kindA, g.heldOp, opKind, nth, store)
	case <-doneA:
		g.disarm()
		w.logf("job A (%s) completed (the %s store sees fewer than %d %s operations): err=%v", kindA, store, nth+1, opKind, errA)
	}
	// ---- job B
	startedB = true
	go fjJobB(w.d, &errB, doneB)
	stateB := ""
	deadline := time.Now().Add(replayWait)
	for waiting := true; waiting; {
		select {
		case <-doneB:
			stateB, waiting = "completed", false
			continue
		default:
		}
		if heldA {
			if parked, _ := fjParked("fjJobB"); parked {
				stateB, waiting = "parked", false
				continue
			}
		}
		if time.Now().After(deadline) {
			_, st := fjParked("fjJobB")
			w.fatalf("harness: job B neither completes nor parks on a flush condition while job A is held (goroutine state %q)", st)
		}
		time.Sleep(200 * time.Microsecond)
	}
	w.logf("job B (production flush job) started: %s while A is %s (err=%v)", stateB, map[bool]string{true: "held", false: "done"}[heldA], errB)
	// records which reach only the log while the jobs are in flight
	lateAppends := 0
	if heldA {
		lateAppends = len(late)
		for _, sp := range late {
			w.append(sp.own, sp.pick)
		}
	}
	var images []fjImage
	takeImage := func(name, note string) {
		img := filepath.Join(dir, "img-"+name)
		if err := crash.CopyTree(w.dir, img); err != nil {
			w.fatalf("harness: %v", err)
		}
		images = append(images, fjImage{name: name, dir: img, appended: len(w.entries), note: note})
		w.logf("crash image %q (%s)", name, note)
	}
	if heldA {
		takeImage("held", fmt.Sprintf("job A held in the %s store, job B %s", store, stateB))
		g.open()
	}
	wait := func(ch chan struct{}, what string) {
		select {
		case <-ch:
		case <-time.After(replayWait):
			w.fatalf("%s does not complete", what)
		}
	}
	wait(doneA, "job A")
	wait(doneB, "job B")
	if errA != nil || errB != nil {
		w.fatalf("flush job without any fault fails: A=%v B=%v", errA, errB)
	}
	w.logf("both jobs completed")
	takeImage("both-done", "both jobs completed")
	version.VerifSetFSHook(nil)
	table.VerifSetFSHook(nil)
	shutdown()

	// ---- recover the images
	nt := false
	for _, im := range images {
		cl, acked := w.recoverImage(im)
		w.classes = append(w.classes, cl...)
		if im.name == "both-done" && acked >= int64(len(w.entries)-lateAppends-1) {
			w.classes = append(w.classes, "both-done-everything-applied-is-acknowledged")
		}
	}
	overlap := heldA && stateB == "parked"
	w.classes = append(w.classes, "A-"+kindA, "leader-"+strconv.Itoa(int(w.leader)), "prefix-cycles-"+strconv.Itoa(cycles))
	if heldA {
		w.classes = append(w.classes, "A-held-in-"+store, "A-held-at-"+g.heldOp, "B-"+stateB+"-while-A-held-in-"+store)
	} else {
		w.classes = append(w.classes, "A-not-held(no-overlap)")
	}
	if newNames > 0 {
		w.classes = append(w.classes, "names-new-since-last-metadata-flush")
		if overlap && store == "meta" {
			w.classes = append(w.classes, "B-parked-behind-metadata-commit-with-new-names")
			nt = true
		}
		if overlap && store == "index" {
			w.classes = append(w.classes, "B-parked-behind-index-commit-with-new-names")
			nt = true
		}
	} else {
		w.classes = append(w.classes, "only-existing-names")
	}
	if lateAppends > 0 {
		w.classes = append(w.classes, "records-appended-while-jobs-in-flight")
	}
	ev.Case("TestOverlappingFlushJobs", strings.Join(w.ops, ";"), nt, uniq(w.classes),
		map[string]any{"history": w.ops, "images": len(images)})
}

// recoverImage restarts a node on the image the production way and checks the statements of the property;
// it returns classes and the acknowledged position found in the image.
func (w *fjWorld) recoverImage(im fjImage) (classes []string, groupAck int64) {
	cfgWal := config.NewDefaultStorageBase().WAL
	cfgWal.Dir = filepath.Join(im.dir, "wal")
	fq, err := queue.NewFanOutQueue(walDir(cfgWal, w.db, w.leader), 0)
	if err != nil {
		w.fatalf("image %q: the log cannot be reopened: %v", im.name, err)
	}
	logApp := fq.Queue().AppendedSeq()
	groupAck = -1
	for _, name := range fq.ConsumerGroupNames() {
		if name == strconv.Itoa(int(nodeID)) {
			cg, _ := fq.GetOrCreateConsumerGroup(name)
			groupAck = cg.AcknowledgedSeq()
		}
	}
	queueAck := fq.Queue().AcknowledgedSeq()
	fq.Close()
	if logApp != int64(im.appended)-1 {
		w.fatalf("image %q: %d records had been appended, the recovered log ends at sequence %d", im.name, im.appended, logApp)
	}
	n, err := node.Start(im.dir)
	if err != nil {
		w.fatalf("image %q: engine cannot be reopened: %v", im.name, err)
	}
	var walMgr replica.WriteAheadLogManager
	defer func() {
		if walMgr != nil {
			walMgr.Stop()
		}
		n.Close()
		if walMgr != nil {
			_ = walMgr.Close()
		}
	}()
	shard, err := n.Shard(w.db, 0)
	if err != nil {
		w.fatalf("image %q: %v", im.name, err)
	}
	family, err := shard.GetOrCrateDataFamily(baseTime)
	if err != nil {
		w.fatalf("image %q: data family: %v", im.name, err)
	}
	persisted := int64(-1)
	snap := family.Family().GetSnapshot()
	if s, ok := snap.GetCurrent().GetSequences()[int32(w.leader)]; ok {
		persisted = s
	}
	snap.Close()
	desc := fmt.Sprintf("[%s; log of leader %d ends at %d, ack %d (queue %d), stored sequence %d]", im.note, w.leader, logApp, groupAck, queueAck, persisted)
	if groupAck > persisted || queueAck > persisted {
		w.fatalf("image %q: the acknowledged position %d (truncation barrier %d) of the log runs ahead of the sequence %d stored with the flushed data %s", im.name, groupAck, queueAck, persisted, desc)
	}
	walMgr = replica.NewWriteAheadLogManager(context.Background(), config.GlobalStorageConfig().WAL, nodeID, n.Engine, recoveryCliFct(), flwStateMgr{})
	if err := walMgr.Recovery(); err != nil {
		w.fatalf("image %q: WAL recovery: %v", im.name, err)
	}
	deadline := time.Now().Add(replayWait)
	for logApp > groupAck {
		st := family.GetState()
		if seq, ok := st.ReplicaSequences[int32(w.leader)]; ok && seq >= logApp {
			break
		}
		if time.Now().After(deadline) {
			w.fatalf("image %q: replay of the log does not finish: family sequences %v %s", im.name, st.ReplicaSequences, desc)
		}
		time.Sleep(time.Millisecond)
	}
	c := newCluster(n, w.db)
	defer c.Close()
	rs, err := c.Query(w.db, "select s from acc where "+timeRange)
	if err != nil {
		w.fatalf("image %q: query acc: %v %s", im.name, err, desc)
	}
	sum := node.Canon(rs)[""]["s"][baseTime]
	d := digits(sum)
	for _, e := range w.entries[:im.appended] {
		if d[e.i] == 0 {
			w.fatalf("image %q: log entry %d (sequence %d) was appended before the crash but is in no flushed data and was not replayed (sum %v) %s", im.name, e.i, e.i, sum, desc)
		}
		if int64(e.i) <= persisted && d[e.i] != 1 {
			w.fatalf("image %q: log entry %d (at or below the stored sequence %d) was applied %d times %s", im.name, e.i, persisted, d[e.i], desc)
		}
	}
	for i := im.appended; i < len(d); i++ {
		if d[i] != 0 {
			w.fatalf("image %q: the sum cell shows data of entry %d which was not appended %s", im.name, i, desc)
		}
	}
	for _, e := range w.entries[:im.appended] {
		nm := namesOf(e.ref)
		q, key := nm.query(timeRange)
		rs, err := c.Query(w.db, q)
		if err != nil {
			w.fatalf("image %q: entry %d: query %q fails: %v %s", im.name, e.i, q, err, desc)
		}
		res := node.Canon(rs)
		if got, ok := res[key][nm.field][baseTime+int64(e.i)*10_000]; !ok || got != float64(e.i+1) {
			w.fatalf("image %q: entry %d: query %q returns %v, want %s -> %v %s", im.name, e.i, q, res, key, e.i+1, desc)
		}
	}
	classes = append(classes, "img-"+im.name)
	switch {
	case persisted < 0:
		classes = append(classes, "img-"+im.name+"-nothing-stored-all-replayed")
	case persisted < logApp:
		classes = append(classes, "img-"+im.name+"-entries-above-and-below-stored-sequence")
	default:
		classes = append(classes, "img-"+im.name+"-all-stored")
	}
	return classes, groupAck
}

// TestOverlappingFlushJobs: see the head of this file.
func TestOverlappingFlushJobs(t *testing.T) {
	rapid.Check(t, runFlushJobs)
}
