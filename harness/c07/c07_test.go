// Package c07 checks property C07: when a storage node dies at any point and restarts, every
// write-ahead-log entry appended before the crash is either in durably flushed data or still in
// the log and replayed; the log's acknowledged position never runs ahead of the sequence stored
// with the flushed data; an entry at or below the stored sequence is never applied again; and
// flushed data resolves through the recovered metadata (a query by name and tags finds it).
//
// One case = one history on a real engine (tsdb + memdb + index + kv) with a real WAL partition
// and the production local replicator, during which directory images of the whole node are taken
// at every intercepted kv file-system operation and every WAL / consumer-group page store. The
// history ends with the crash: sampled images are recovered with the production open paths
// (tsdb.NewEngine, WriteAheadLogManager.Recovery) and the free-running replication loop drains
// the log; then the oracle reads the node through the production query path.
//
// Two further kinds of operation (wave 3):
//   - records the replicator must skip: the storage write rpc appends req.Record to the log without
//     looking at it, so the log may hold records which are not a snappy stream (garbage, a torn
//     prefix of a real record) or which decode to zero rows. They carry no write; the replicator
//     skips them (IgnoreMessage) and the log acknowledgement may pass them only when nothing below
//     them is waiting for a flush.
//   - replication racing INSIDE a flush sub-step: at intercepted table file operations of the
//     sub-step (where the flush job does not hold the family mutex) the harness runs the other
//     actors of the node - an append and/or single steps of the local replicator - on the flush
//     job's goroutine, i.e. between freezing the memory database and the kv commit.
//
// Two further dimensions (wave 5):
//   - 1-3 write-ahead logs per data family: the family keeps one sequence per LEADER and the node has one
//     log per (family, leader): <wal>/<db>/<shard>/<family>/<leader>. The node is leader of the shard
//     (leader 1 = this node: write rpc -> BuildReplicaForLeader + WriteLog) and/or follower of other
//     leaders (replica rpc -> BuildReplicaForFollower + ReplicaLog), e.g. after a leader failover inside
//     the family's time window. Every log has its own local replicator, acknowledgement and stored
//     sequence; appends / replication steps of the logs interleave freely; all statements of the
//     property are checked per log.
//   - I/O faults inside a flush cycle: one intercepted table-file / manifest-record operation of a flush
//     sub-step (metadata store, shard index, family data) fails (EIO: the operation is not performed).
//     The cycle is driven in the production order, either sub-step by sub-step (the harness then does
//     what dataFlushChecker.doFlush does with the result: a failed metadata or index flush abandons the
//     cycle) or as ONE operation through the production job (tsdb.VerifFlushDatabaseSync = the requests
//     of Database.Flush run by dataFlushChecker.doFlush on this goroutine). Whatever failed, a crash
//     afterwards must not lose an entry: nothing of a failed cycle may acknowledge the log unless the
//     rows AND their metadata are durable.
//
// Wave 6 (compact_test.go): background kv compaction of the metadata store (namespace / metric / tag value
// dictionaries, metric schemas) and of the shard index store (series dictionary, inverted / forward /
// metric->series index) as an operation of the histories (between any two operations, as the last thing
// before the crash, on the flush goroutine inside a flush sub-step), names of every kind arriving over many
// flush cycles so that the mergers get several deltas per key, and a generated continuation of every
// recovered node (flush cycle, compaction, rows with names which did not exist before the crash, graceful
// restart) checked against a naive row model. TestMetadataCompactionRecovery runs the same histories with a
// mix of operations biased to these.
package c07

import (
	"bytes"
	"context"
	"errors"
	"fmt"
	"math"
	"os"
	"path/filepath"
	"runtime"
	"runtime/debug"
	"sort"
	"strconv"
	"strings"
	"sync/atomic"
	"testing"
	"time"

	"github.com/lindb/common/pkg/logger"
	commontimeutil "github.com/lindb/common/pkg/timeutil"
	protoMetricsV1 "github.com/lindb/common/proto/gen/v1/linmetrics"
	"pgregory.net/rapid"

	"github.com/lindb/lindb/config"
	"github.com/lindb/lindb/coordinator/storage"
	"github.com/lindb/lindb/kv"
	"github.com/lindb/lindb/kv/table"
	"github.com/lindb/lindb/kv/version"
	"github.com/lindb/lindb/models"
	"github.com/lindb/lindb/pkg/compress"
	"github.com/lindb/lindb/pkg/queue"
	"github.com/lindb/lindb/pkg/timeutil"
	"github.com/lindb/lindb/replica"
	"github.com/lindb/lindb/rpc"
	"github.com/lindb/lindb/tsdb"
	"github.com/lindb/lindb/verifharness/sim/crash"
	"github.com/lindb/lindb/verifharness/sim/ev"
	"github.com/lindb/lindb/verifharness/sim/node"
	"github.com/lindb/lindb/verifharness/sim/qsim"
)

func TestMain(m *testing.M) { ev.Main(m) }

func init() {
	time.Local = time.UTC
	_ = logger.RunningAtomicLevel.UnmarshalText([]byte("fatal"))
}

const (
	// wall-clock limits only bound how long a genuine hang takes to be reported: far above anything a starved machine needs
	replayWait   = 90 * time.Second
	queryTimeout = 120 * time.Second

	nodeID     = models.NodeID(1)
	maxEntries = 24
	// known finding (DESIGN.md D8): a name created after the metadata freeze and before the index
	// freeze of one flush cycle is durable in index+data but in no durable dictionary.
	sigD8 = "C07/name-created-inside-flush-cycle-persisted-with-data"
	// finding of wave 5: after a FAILED metadata (or shard index) flush the stores keep their frozen part;
	// the next flush does not freeze again, writes only that old part and reports success - what was
	// created in between is durable in no dictionary / index although the cycle goes on to the data flush.
	sigStale = "C07/name-created-after-failed-metadata-or-index-flush-not-frozen-by-next-flush"
	// finding of wave 5: the local replicators of the logs of two leaders of one family (one goroutine
	// per log) write into the family's memory database at the same time; dataFamily.WriteRows does not
	// serialise them (memdb "WriteRow must be called after WithLock" - nobody calls WithLock): rows are lost.
	sigConc = "C07/concurrent-replay-of-logs-of-two-leaders-loses-rows-in-memdb"
)

// heldPartition is a log partition whose free running replication loop is not started: the harness
// runs the steps of the loops of all logs itself, one at a time.
type heldPartition struct{ replica.Partition }

func (h *heldPartition) StartReplica() {}

var (
	baseTime = time.Date(2023, 5, 1, 10, 0, 0, 0, time.UTC).UnixMilli()
	dbSeq    atomic.Int64
	// the leaders whose logs the data family has on this node (node 1): own writes (leader 1) and/or
	// logs replicated from other leaders
	leaderSets = [][]models.NodeID{
		{1}, {1}, {1}, {2},
		{1, 2}, {1, 2}, {1, 2}, {1, 3}, {2, 3},
		{1, 2, 3},
	}
	errInjected = errors.New("injected I/O fault: input/output error")
)

// ---- log entries ------------------------------------------------------------------------------------

// entry i contributes 4^i to the sum field of one fixed slot of the series acc{k=v}: the base-4
// digits of the stored sum tell how many times each entry was applied. It also writes a row of
// its own (names: namesOf - metric m<i%3>, tags host=h<i> and t<i%4>=x, field f<i%2>; later entries
// also bring a namespace / metric / field / tag key of their own) so that metadata matters.
func entryMetrics(i, ref int) []*protoMetricsV1.Metric {
	// ref == i: the entry introduces its own names (metric/tag key/tag value/field/series);
	// ref < i: the entry writes into the series introduced by entry ref (no new name).
	j := ref
	nm := namesOf(j)
	return []*protoMetricsV1.Metric{
		{
			Name: "acc", Timestamp: baseTime,
			Tags:         []*protoMetricsV1.KeyValue{{Key: "k", Value: "v"}},
			SimpleFields: []*protoMetricsV1.SimpleField{{Name: "s", Type: protoMetricsV1.SimpleFieldType_DELTA_SUM, Value: math.Pow(4, float64(i))}},
		},
		{
			Namespace: nm.ns,
			Name:      nm.metric, Timestamp: baseTime + int64(i)*10_000,
			Tags:         []*protoMetricsV1.KeyValue{{Key: "host", Value: nm.host}, {Key: nm.tagKey, Value: "x"}},
			SimpleFields: []*protoMetricsV1.SimpleField{{Name: nm.field, Type: protoMetricsV1.SimpleFieldType_DELTA_SUM, Value: float64(i + 1)}},
		},
	}
}

// message builds the WAL message of an entry the way the broker does (flat rows, snappy chunk).
func message(i, ref int) ([]byte, error) {
	block, err := node.Block(entryMetrics(i, ref))
	if err != nil {
		return nil, err
	}
	w := compress.NewSnappyWriter()
	if _, err := w.Write(block); err != nil {
		return nil, err
	}
	if err := w.Close(); err != nil {
		return nil, err
	}
	return w.Bytes(), nil
}

// ---- world --------------------------------------------------------------------------------------------

// logSt is the write-ahead log of the data family for one leader.
type logSt struct {
	leader     models.NodeID
	path       string
	fq         queue.FanOutQueue
	part       replica.Partition
	entries    []int // global entry numbers in sequence order (incl. an append in flight)
	appended   int   // records whose append returned
	applied    int   // records handed to the local replicator
	removedSeq int   // crash.Point.Seq of the image taken when the removal task removed the partition (-1: not removed)
}

// entryT is one record of one log; the global number i of the entry selects the digit of the sum cell.
type entryT struct {
	log  int    // index into world.logs
	seq  int    // sequence in that log
	ref  int    // entry whose names the entry writes into (== i: introduces its own)
	kind string // "" : a write; else the kind of record the replicator must skip
}

type world struct {
	t       *rapid.T
	dir     string
	db      string
	n       *node.Node
	shard   tsdb.Shard
	family  tsdb.DataFamily
	leaders []models.NodeID
	logs    []*logSt // parallel to leaders; nil until the first append to the log of that leader
	entries []entryT
	im      *crash.Imager
	ops     []string
	cycle   int // next sub-step of the current flush cycle: 0 meta, 1 index, 2 family
	// names first applied between the metadata sub-step and the index sub-step of a cycle (D8 shape)
	d8Exposed    map[int]bool // by owner of the names
	namesApplied map[int]bool // owners whose names some applied entry has written
	classes      map[string]int
	appendedAt   [][]int // per history op index: number of records appended to each log before it started
	thorough     bool

	// racing inside a flush sub-step (harness-owned interleaving at the table seam)
	subStep  string      // flush sub-step in flight ("" = none)
	race     []racePoint // plan of the sub-step in flight
	raceSeen int         // eligible seam events of the sub-step seen so far
	racing   bool
	cycleOp  bool                   // the production flush job is in flight: the sub-step follows from the store an operation works on
	plans    map[string][]racePoint // race plans of the sub-steps of the production flush job
	// I/O fault of the flush sub-step in flight
	fault      *faultPlan
	faultSeen  int
	faultFired string // operation which failed ("" = none yet)
	// stale[s]: an operation of sub-step s (flushMeta / flushIndex) failed and no later run of s completed
	stale map[string]bool
	// loss windows: positions in im.Points at which a state began in which a wrong acknowledgement /
	// stored sequence would lose entries at a crash (until the next data flush commits)
	raceWindows  []int // a replication step ran inside a data flush after the freeze
	skipWindows  []int // a record was skipped while earlier applied entries were not flushed
	faultWindows []int // an operation of a flush sub-step failed
	imageTags    map[int][]string
	flushRanges  [][2]int // positions in im.Points of every flush sub-step
	// wave 6: kv compaction of the metadata / index families (compact_test.go)
	book    *compactBook
	group   string // test the history belongs to (evidence group)
	profile string // "" or "compaction": histories biased to name-introducing flush cycles and compactions, no I/O faults; "shutdown": every history ends with a graceful shutdown
	// wave 7: graceful shutdown (shutdown_test.go)
	sd              *sdState // shutdown in flight
	shutdowns       int
	cycleAtShutdown int      // sub-step of the harness-driven flush cycle which was next when the node was told to stop
	sdFiredAt       int      // position in im.Points of the first failed operation of the terminal shutdown (-1: none)
	genDirs         []string // copies on which later generations of a recovered node run
	// wave 7: follower of the log this node leads (follower_test.go)
	flw          *followerModel // nil: the log has the local consumer group only
	localStopped bool           // the removal task stopped the local replicator of a log which stays (its consumer group is closed)
	gcWindows    []int          // positions in im.Points of housekeeping ticks at which the follower's group was ahead of the local group
}

// appendSpec holds the draws of one append (drawn before the operation which performs it runs).
type appendSpec struct {
	reuse bool
	pick  int
	log   int // which log (modulo the number of leaders / of logs with pending records)
}

// racePoint: at the at-th eligible seam event of a flush sub-step the harness performs len(steps)
// replication steps; a step which finds nothing pending in any log appends an entry (its spec) first.
type racePoint struct {
	at    int
	steps []appendSpec
	// the compaction job of metadata / index kv families (a goroutine of the kv job scheduler) also runs here
	compact bool
}

// faultPlan: the at-th operation of kind op of the flush sub-step fails.
type faultPlan struct {
	step string // sub-step the fault belongs to
	op   string
	at   int
}

func (w *world) bad(i int) bool { return i >= 0 && i < len(w.entries) && w.entries[i].kind != "" }

func (w *world) replicator(lg *logSt) replica.Replicator {
	return replica.VerifReplicator(lg.part, nodeID)
}

// pendingLogs returns the logs whose local replicator has something to consume.
func (w *world) pendingLogs() (rs []int) {
	for li, lg := range w.logs {
		if lg == nil || lg.removedSeq >= 0 {
			continue
		}
		if r := w.replicator(lg); r != nil && r.Pending() > 0 {
			rs = append(rs, li)
		}
	}
	return rs
}

func (w *world) liveLogs() (rs []int) {
	for li, lg := range w.logs {
		if lg != nil && lg.removedSeq < 0 {
			rs = append(rs, li)
		}
	}
	return rs
}

func (w *world) logf(format string, args ...any) { w.ops = append(w.ops, fmt.Sprintf(format, args...)) }

func (w *world) fatalf(format string, args ...any) {
	w.t.Helper()
	stacks := ""
	if msg := fmt.Sprintf(format, args...); strings.Contains(msg, "exceed timeout") || strings.Contains(msg, "does not finish") {
		// a query / replay which does not complete: what every goroutine is doing (diagnosis of a genuine hang vs. a starved machine)
		buf := make([]byte, 1<<20)
		stacks = "\nall goroutines:\n" + string(buf[:runtime.Stack(buf, true)])
	}
	w.t.Fatalf(format+"\nhistory (logs of leaders %v):\n  %s%s", append(args, w.leaders, strings.Join(w.ops, "\n  "), stacks)...)
}

func (w *world) begin(name string) {
	counts := make([]int, len(w.leaders))
	for li, lg := range w.logs {
		if lg != nil {
			counts[li] = lg.appended
		}
	}
	w.appendedAt = append(w.appendedAt, counts)
	w.im.Begin(len(w.appendedAt)-1, name)
}

func (w *world) end() { w.im.End() }

func walDir(cfg config.WAL, db string, leader models.NodeID) string {
	return filepath.Join(cfg.Dir, db, "0", commontimeutil.FormatTimestamp(baseTime, commontimeutil.DataTimeFormat4), strconv.Itoa(int(leader)))
}

// openLog creates the log of a leader at its first record, the way the write rpc (this node is the
// leader) resp. the replica rpc (this node follows the leader) do.
func (w *world) openLog(li int) *logSt {
	if w.logs[li] != nil {
		return w.logs[li]
	}
	leader := w.leaders[li]
	lg := &logSt{leader: leader, path: walDir(config.GlobalStorageConfig().WAL, w.db, leader), removedSeq: -1}
	// The creation of a fresh log directory (queue pages, consumer group of the local replicator) is no crash
	// point of the histories: between two operations nothing is imaged anyway, and a log which is opened by an
	// append that races INSIDE a flush sub-step must not be imaged either. A crash inside the creation leaves
	// zero-filled meta / consumer-group pages which the next open reads as "one record appended" resp.
	// "position 0 acknowledged" (DESIGN.md 7.4, observation on pkg/queue: first open of a fresh queue dies
	// before its stores) - the log holds no record at that time, which is outside what C07 states.
	if w.im.Active {
		w.im.Active = false
		w.classes["log-created-inside-flush-sub-step-(creation-is-no-crash-point)"]++
		defer func() { w.im.Active = true }()
	}
	var err error
	lg.fq, err = queue.NewFanOutQueue(lg.path, 0)
	if err != nil {
		w.fatalf("harness: wal: %v", err)
	}
	lg.part = replica.NewPartition(context.Background(), w.shard, w.family, nodeID, lg.fq, &flwCliFct{w: w}, flwStateMgr{})
	if leader == nodeID {
		err = lg.part.BuildReplicaForLeader(nodeID, w.replicasOf())
	} else {
		err = lg.part.BuildReplicaForFollower(leader, nodeID)
	}
	if err != nil {
		w.fatalf("harness: build replica: %v", err)
	}
	w.logs[li] = lg
	n := 0
	for _, l := range w.logs {
		if l != nil {
			n++
		}
	}
	w.logf("openLog leader=%d (%s)", leader, map[bool]string{true: "this node is the leader", false: "this node follows the leader"}[leader == nodeID])
	if n > 1 {
		w.classes["family-gets-log-of-another-leader"]++
	}
	return lg
}

func drawAppendSpec(t *rapid.T) appendSpec {
	sp := appendSpec{reuse: rapid.Bool().Draw(t, "reuseNames"), log: rapid.IntRange(0, 5).Draw(t, "log")}
	if sp.reuse {
		sp.pick = rapid.IntRange(0, maxEntries-1).Draw(t, "ref")
	}
	return sp
}

// appendWrite appends the next write entry; opName is the history operation the images belong to.
func (w *world) appendWrite(sp appendSpec, opName, note string) {
	i := len(w.entries)
	ref := i
	if sp.reuse {
		// write into the series of an earlier entry that introduced names
		var owners []int
		for j, e := range w.entries {
			if e.ref == j {
				owners = append(owners, j)
			}
		}
		if len(owners) > 0 {
			ref = owners[sp.pick%len(owners)]
		}
	}
	msg, err := message(i, ref)
	if err != nil {
		w.fatalf("harness: message: %v", err)
	}
	li := sp.log % len(w.leaders)
	lg := w.openLog(li)
	w.logf("%sappendLog entry=%d names-of=%d -> log of leader %d seq %d", note, i, ref, lg.leader, len(lg.entries))
	w.appendRecord(li, msg, ref, "", opName)
}

func (w *world) appendRecord(li int, msg []byte, ref int, kind, opName string) {
	lg := w.openLog(li)
	i := len(w.entries)
	seq := len(lg.entries)
	w.entries = append(w.entries, entryT{log: li, seq: seq, ref: ref, kind: kind})
	lg.entries = append(lg.entries, i)
	w.begin(opName)
	var err error
	if lg.leader == nodeID {
		err = lg.part.WriteLog(msg)
	} else {
		// the leader sends the record with the index it has in the leader's log
		var idx int64
		idx, err = lg.part.ReplicaLog(int64(seq), msg)
		if err == nil && idx != int64(seq) {
			err = fmt.Errorf("follower log answers index %d for replica index %d", idx, seq)
		}
	}
	w.end()
	if err != nil {
		w.fatalf("append to the log of leader %d: %v", lg.leader, err)
	}
	lg.appended++
	if got := lg.fq.Queue().AppendedSeq(); got != int64(seq) {
		w.fatalf("harness: entry %d got sequence %d in the log of leader %d, want %d", i, got, lg.leader, seq)
	}
}

func (w *world) opAppend() {
	if len(w.entries) >= maxEntries {
		w.t.Skip("log full")
	}
	w.appendWrite(drawAppendSpec(w.t), "appendLog", "")
}

// opAppendSkipped appends a record which carries no write and which the replicator must skip: the
// storage write rpc (app/storage/rpc/write.go) hands req.Record to Partition.WriteLog as received
// (and the leader ships the records of its log unchanged to the follower's log).
//   - garbage:   bytes which are not a snappy stream
//   - torn:      a proper prefix of the record of a real write
//   - zero-rows: a snappy stream which decodes to an empty block
//
// The record is classified by decoding it here; a record which decodes to a non-empty block is not used.
func (w *world) opAppendSkipped() {
	if len(w.entries) >= maxEntries {
		w.t.Skip("log full")
	}
	i := len(w.entries)
	var msg []byte
	shape := rapid.SampledFrom([]string{"garbage", "garbage", "torn", "torn", "zero-rows"}).Draw(w.t, "skippedShape")
	switch shape {
	case "garbage":
		msg = rapid.SliceOfN(rapid.Byte(), 1, 48).Draw(w.t, "garbage")
	case "torn":
		full, err := message(i, i)
		if err != nil {
			w.fatalf("harness: message: %v", err)
		}
		msg = full[:rapid.IntRange(1, len(full)-1).Draw(w.t, "tornAt")]
	default:
		zw := compress.NewSnappyWriter()
		if err := zw.Close(); err != nil {
			w.fatalf("harness: %v", err)
		}
		msg = zw.Bytes()
		if len(msg) == 0 {
			msg = []byte("\xff\x06\x00\x00sNaPpY") // the stream identifier chunk alone
		}
	}
	li := rapid.IntRange(0, 5).Draw(w.t, "log") % len(w.leaders)
	block, err := compress.NewSnappyReader().Uncompress(msg)
	kind := "undecodable"
	switch {
	case err != nil:
	case len(block) == 0:
		kind = "zero-rows"
	default:
		w.t.Skip("record decodes to a non-empty block")
	}
	lg := w.openLog(li)
	w.logf("appendLog entry=%d SKIPPED-RECORD %s/%s (%d bytes) -> log of leader %d seq %d", i, shape, kind, len(msg), lg.leader, len(lg.entries))
	w.appendRecord(li, msg, -1, kind, "appendLog")
	w.classes["append-skipped-record-"+kind]++
}

// replicaCore runs one step of the local replicator of one log. inside = flush sub-step the step runs
// inside ("" = between operations). It returns false if the step is excluded by the known finding.
func (w *world) replicaCore(inside string, li int) bool {
	lg := w.logs[li]
	seq := lg.applied
	e := lg.entries[seq]
	// the entry introduces names if no entry applied before wrote into the series it writes into (with logs
	// of several leaders the entry which owns the names may be applied after an entry which re-uses them);
	// the very first write also introduces the names of the sum cell
	ref := w.entries[e].ref
	newNames := !w.bad(e) && (!w.namesApplied[ref] || len(w.namesApplied) == 0)
	// after the freeze of the data flush a new name behaves like one created after the cycle
	exposed := newNames && (inside == "flushMeta" || inside == "flushIndex" || (inside == "" && w.cycle != 0))
	if exposed && ev.Known(sigD8) {
		// known finding: names created after the metadata (or index) freeze of a flush cycle whose
		// data flush then persists the rows and the log sequence
		w.classes["excluded_known"]++
		return false
	}
	if newNames && len(w.stale) > 0 && ev.Known(sigStale) {
		// known finding: names created after a failed metadata / index flush and before the next
		// successful one are not part of what that next flush writes
		w.classes["excluded_known_stale_freeze"]++
		return false
	}
	if newNames && len(w.stale) > 0 {
		w.classes["new-names-applied-after-failed-flush-before-the-next-successful-one"]++
	}
	r := w.replicator(lg)
	ackBefore := r.AckIndex()
	opName := "replicaStep"
	if inside != "" {
		opName = "replicaStep@" + inside
		w.logf("  [inside %s, seam event %d] replicaStep log of leader %d (entry %d, seq %d)", inside, w.raceSeen-1, lg.leader, e, seq)
	} else {
		w.logf("replicaStep log of leader %d (entry %d, seq %d)", lg.leader, e, seq)
	}
	w.begin(opName)
	replica.VerifReplicaStep(lg.part, nodeID)
	w.end()
	if exposed {
		w.d8Exposed[ref] = true
	}
	if !w.bad(e) {
		if len(w.namesApplied) == 0 {
			w.book.note("default-ns", "acc", "s", [][2]string{{"k", "v"}})
		}
		if !w.namesApplied[ref] {
			w.book.noteOwner(ref)
		}
		w.namesApplied[ref] = true
	}
	lg.applied++
	for lj, other := range w.logs {
		if lj != li && other != nil && other.applied > 0 {
			w.classes["replica-step-of-family-with-applied-records-of-another-leader"]++
			break
		}
	}
	switch {
	case inside != "":
		w.classes["replica-step-inside-"+inside]++
		if inside == "flushFamily" {
			w.classes["replica-step-between-memdb-freeze-and-kv-commit"]++
			w.raceWindows = append(w.raceWindows, len(w.im.Points))
		}
	case w.cycle != 0:
		w.classes["write-racing-with-flush-cycle"]++
	}
	if w.bad(e) {
		w.classes["replicator-skips-record"]++
		unflushed := false
		for k := int(ackBefore) + 1; k < seq; k++ {
			if !w.bad(lg.entries[k]) {
				unflushed = true
			}
		}
		if unflushed {
			// the shape in which an acknowledgement of the skipped record would pass unflushed writes
			w.classes["replicator-skips-record-above-unflushed-writes"]++
			w.skipWindows = append(w.skipWindows, len(w.im.Points))
		} else {
			w.classes["replicator-skips-record-next-to-ack"]++
		}
	}
	return true
}

func (w *world) opReplicaStep() {
	pl := w.pendingLogs()
	if len(pl) == 0 {
		w.t.Skip("nothing to replicate")
	}
	li := pl[rapid.IntRange(0, 5).Draw(w.t, "stepLog")%len(pl)]
	if !w.replicaCore("", li) {
		w.t.Skip("excluded: known finding " + sigD8)
	}
}

// opReplicaCatchUp: the replicators (free running loops in production) handle everything that is pending.
func (w *world) opReplicaCatchUp() {
	if len(w.pendingLogs()) == 0 {
		w.t.Skip("nothing to replicate")
	}
	if w.catchUp() == 0 {
		w.t.Skip("excluded: known finding " + sigD8)
	}
	w.classes["replicator-caught-up"]++
}

func (w *world) catchUp() (steps int) {
	blocked := map[int]bool{} // logs whose next step is excluded by the known finding
	for {
		stepped := false
		for _, li := range w.pendingLogs() {
			if blocked[li] {
				continue
			}
			if w.replicaCore("", li) {
				steps++
				stepped = true
			} else {
				blocked[li] = true
			}
		}
		if !stepped {
			return steps
		}
	}
}

// drawRacePlan draws what the other actors of the node do inside the next flush sub-step.
func drawRacePlan(t *rapid.T) []racePoint {
	n := rapid.SampledFrom([]int{0, 0, 1, 1, 1, 2}).Draw(t, "racePoints")
	var plan []racePoint
	for i := 0; i < n; i++ {
		rp := racePoint{at: rapid.SampledFrom([]int{0, 1, 2, 3, 4, 6, 9, 14, 22, 35, 55}).Draw(t, "raceAt")}
		for k, steps := 0, rapid.IntRange(1, 3).Draw(t, "raceSteps"); k < steps; k++ {
			rp.steps = append(rp.steps, drawAppendSpec(t))
		}
		rp.compact = rapid.IntRange(0, 2).Draw(t, "raceCompaction") == 0
		plan = append(plan, rp)
	}
	return plan
}

// drawFaultPlan draws the I/O fault of a flush sub-step (nil = none): the at-th operation of one kind
// fails. The kinds are the operations through which a kv flush creates, writes, closes its table file
// and writes the manifest record which commits it.
func drawFaultPlan(t *rapid.T, step string, percent int) *faultPlan {
	if rapid.IntRange(0, 99).Draw(t, "fault") >= percent {
		return nil
	}
	fp := &faultPlan{step: step, op: rapid.SampledFrom([]string{"tableCreate", "tableCreate", "tableWrite", "tableClose", "manifestWrite"}).Draw(t, "faultOp")}
	if fp.op == "tableWrite" {
		fp.at = rapid.IntRange(0, 12).Draw(t, "faultAt")
	} else {
		// a sub-step flushes up to four kv families one after the other
		fp.at = rapid.SampledFrom([]int{0, 0, 0, 1, 1, 2, 3}).Draw(t, "faultAt")
	}
	return fp
}

// stepOfPath tells which flush sub-step an intercepted kv operation belongs to (from the store it works on).
func (w *world) stepOfPath(path string) string {
	rel := strings.TrimPrefix(path, filepath.Join(w.dir, "data", w.db))
	switch {
	case rel == path:
		return ""
	case strings.HasPrefix(rel, "/meta/"):
		return "flushMeta"
	case strings.Contains(rel, "/index/"):
		return "flushIndex"
	case strings.Contains(rel, "/segment/"):
		return "flushFamily"
	}
	return ""
}

// enterSubStep: the production flush job moved on to the next store.
func (w *world) enterSubStep(step string) {
	w.leaveSubStep()
	w.subStep, w.race, w.raceSeen = step, w.plans[step], 0
	w.flushRanges = append(w.flushRanges, [2]int{len(w.im.Points), len(w.im.Points)})
	w.logf("  (%s)", step)
	w.book.freeze(step)
	w.begin(step)
	if len(w.race) > 0 {
		w.classes["flush-substep-with-race-plan"]++
	}
}

// leaveSubStep: a sub-step of the production flush job is over.
func (w *world) leaveSubStep() {
	if w.subStep == "" {
		return
	}
	w.flushRanges[len(w.flushRanges)-1][1] = len(w.im.Points)
	if w.faultFired == "" || w.fault == nil || w.fault.step != w.subStep {
		delete(w.stale, w.subStep)
		w.noteFlushed(w.subStep)
	}
}

// noteFlushed: a metadata / index flush completed (classification of the later compactions only).
func (w *world) noteFlushed(step string) {
	if w.book.flushed(step) > 0 {
		w.classes[step+"-which-wrote-new-names"]++
	}
}

// faultHook is asked once for every table-file / manifest-record operation.
func (w *world) faultHook(op, path string) error {
	if sd := w.sd; sd != nil && sd.active {
		return w.shutdownFault(op, path)
	}
	fp := w.fault
	if fp == nil || w.racing || w.faultFired != "" || fp.step != w.subStep || fp.op != op {
		return nil
	}
	n := w.faultSeen
	w.faultSeen++
	if n != fp.at {
		return nil
	}
	w.faultFired = op
	w.logf("  [inside %s] I/O FAULT: %s #%d fails", w.subStep, op, n)
	w.classes["fault-"+w.subStep+"-"+op]++
	w.faultWindows = append(w.faultWindows, len(w.im.Points))
	if w.subStep != "flushFamily" {
		w.stale[w.subStep] = true
	}
	return errInjected
}

// seam is called at every intercepted file-system operation (after the optional image): inside a
// flush sub-step it performs the planned actions of the other actors on the flush job's goroutine.
// Eligible events are the table file operations (create / write / close of the sub-step's table
// files) at which the flush job holds neither the family mutex (probed) nor a kv version lock (the
// manifest operations are not eligible): there a replication step of another goroutine can run to
// completion; where the flush job holds the mutex the other goroutine would just wait for such a point.
func (w *world) seam(op string) {
	if w.racing || w.subStep == "" || len(w.race) == 0 || !strings.HasPrefix(op, "table") {
		return
	}
	if w.subStep == "flushFamily" && !tsdb.VerifFamilyMutexFree(w.family) {
		return
	}
	n := w.raceSeen
	w.raceSeen++
	for _, rp := range w.race {
		if rp.at != n {
			continue
		}
		w.racing = true
		for _, sp := range rp.steps {
			pl := w.pendingLogs()
			if len(pl) == 0 {
				if len(w.entries) >= maxEntries {
					break
				}
				if (w.subStep != "flushFamily" && ev.Known(sigD8)) || (len(w.stale) > 0 && ev.Known(sigStale)) {
					// while the finding is listed a step which introduces names is not taken inside these
					// sub-steps (and would block the steps behind it): the entry writes to existing series
					sp.reuse = true
				}
				w.appendWrite(sp, "appendLog@"+w.subStep, fmt.Sprintf("  [inside %s, seam event %d] ", w.subStep, n))
				w.classes["append-inside-"+w.subStep]++
				pl = w.pendingLogs()
			}
			if len(pl) > 0 {
				w.replicaCore(w.subStep, pl[sp.log%len(pl)])
			}
		}
		if rp.compact {
			// the compaction goroutine runs to completion while the flush goroutine is between two writes
			w.opCompactKV(fmt.Sprintf(" [inside %s, seam event %d]", w.subStep, n))
		}
		w.racing = false
		w.begin(w.subStep) // the sub-step goes on (new operation index: the number of appended entries moved)
	}
}

// opFlushStep performs the next sub-step of a flush cycle in production order
// (database metadata, shard index, data family), other actions may run between the sub-steps
// and - at the seam events of the plan - inside them. One operation of the sub-step may fail
// (I/O fault); the harness then goes on as dataFlushChecker.doFlush / flushShard do: a failed
// metadata or index flush abandons the cycle (the next request starts with the metadata again),
// a failed family flush is logged.
func (w *world) opFlushStep() {
	var err error
	name := []string{"flushMeta", "flushIndex", "flushFamily"}[w.cycle]
	w.race, w.raceSeen = drawRacePlan(w.t), 0
	w.fault, w.faultSeen, w.faultFired = drawFaultPlan(w.t, name, w.faultPercent(map[string]int{"flushMeta": 30, "flushIndex": 10, "flushFamily": 8}[name])), 0, ""
	w.logf("%s", name)
	from := len(w.im.Points)
	defer func() { w.flushRanges = append(w.flushRanges, [2]int{from, len(w.im.Points)}) }()
	w.book.freeze(name)
	w.begin(name)
	w.subStep = name
	switch w.cycle {
	case 0:
		d, _ := w.n.Engine.GetDatabase(w.db)
		err = d.FlushMeta()
	case 1:
		err = w.shard.FlushIndex()
	case 2:
		err = w.family.Flush()
	}
	w.subStep = ""
	w.end()
	if len(w.race) > 0 {
		w.classes["flush-substep-with-race-plan"]++
	}
	w.race, w.fault = nil, nil
	if err != nil {
		if w.faultFired == "" {
			w.fatalf("flush sub-step %s: %v", name, err)
		}
		w.logf("  %s returns an error (%v): doFlush gives up this cycle", name, err)
		w.classes["flush-cycle-abandoned-after-failed-"+name]++
		w.cycle = 0
		return
	}
	if w.faultFired != "" {
		w.logf("  %s returns no error", name)
		w.classes["flush-substep-returns-nil-after-fault"]++
	} else {
		delete(w.stale, name)
		w.noteFlushed(name)
	}
	if w.cycle == 2 && w.faultFired == "" {
		w.classes["flush-cycle-completed"]++
	}
	w.cycle = (w.cycle + 1) % 3
}

// opFlushJob runs one flush job of the production data flush checker for the database (what
// Engine.FlushDatabase / the periodic check hand to a flush worker): dataFlushChecker.doFlush decides
// itself how the cycle goes on after each sub-step. Race plans and at most one I/O fault are drawn for
// its sub-steps; which sub-step is in flight follows from the store the intercepted operations work on.
func (w *world) opFlushJob() {
	if w.cycle != 0 {
		w.t.Skip("a flush job of the database is in flight") // dbInFlushing: one job per database
	}
	w.flushJob(false)
}

// faultPercent: histories of the compaction profile have no I/O faults.
func (w *world) faultPercent(p int) int {
	if w.profile == "compaction" {
		return 0
	}
	return p
}

// flushJob: plain = nothing races with the job and no operation fails.
func (w *world) flushJob(plain bool) {
	w.plans = map[string][]racePoint{}
	w.fault, w.faultSeen, w.faultFired = nil, 0, ""
	if !plain {
		for _, s := range []string{"flushMeta", "flushIndex", "flushFamily"} {
			w.plans[s] = drawRacePlan(w.t)
		}
		fstep := rapid.SampledFrom([]string{"flushMeta", "flushMeta", "flushMeta", "flushMeta", "flushIndex", "flushFamily"}).Draw(w.t, "faultStep")
		w.fault = drawFaultPlan(w.t, fstep, w.faultPercent(45))
	}
	if plain && rapid.Bool().Draw(w.t, "compactionInsideTheFlushJob") {
		// nothing but the compaction goroutine of the kv job scheduler runs while one sub-step of the job writes
		s := rapid.SampledFrom([]string{"flushMeta", "flushMeta", "flushIndex", "flushIndex", "flushFamily"}).Draw(w.t, "compactionInside")
		w.plans[s] = []racePoint{{at: rapid.SampledFrom([]int{0, 1, 2, 3, 4, 6, 9}).Draw(w.t, "raceAt"), compact: true}}
	}
	w.logf("flushJob (dataFlushChecker.doFlush)")
	d, _ := w.n.Engine.GetDatabase(w.db)
	w.begin("flushJob")
	w.cycleOp = true
	err := tsdb.VerifFlushDatabaseSync(d)
	w.cycleOp = false
	w.leaveSubStep()
	w.subStep, w.race, w.fault, w.plans = "", nil, nil, nil
	w.end()
	if err != nil {
		w.fatalf("harness: flush job: %v", err)
	}
	w.classes["production-flush-job"]++
	if w.faultFired != "" {
		w.classes["production-flush-job-with-fault"]++
	} else {
		w.classes["flush-cycle-completed"]++
	}
}

func (w *world) opLogGC() {
	ll := w.liveLogs()
	if len(ll) == 0 {
		w.t.Skip("no log yet")
	}
	lg := w.logs[ll[rapid.IntRange(0, 5).Draw(w.t, "gcLog")%len(ll)]]
	w.logf("logGC log of leader %d", lg.leader)
	from := len(w.im.Points)
	w.begin("logGC")
	lg.fq.Sync()
	lg.fq.Queue().GC()
	w.end()
	w.noteLogTick(lg, from)
}

// ---- recovery + oracle ------------------------------------------------------------------------------

func digits(sum float64) []int {
	v := uint64(sum)
	out := make([]int, maxEntries+2)
	for i := range out {
		out[i] = int(v % 4)
		v /= 4
	}
	return out
}

// logImage is what one log looks like in a crash image.
type logImage struct {
	lg             *logSt
	present        bool  // the log directory exists in the image
	removed        bool  // the removal task had removed the partition
	appendedBefore int   // records whose append had returned when the crash hit
	logApp         int64 // last sequence in the recovered log
	queueAck       int64 // truncation barrier of the log queue (Queue.AcknowledgedSeq)
	groupAck       int64 // acknowledged position of the local replicator's consumer group
	persisted      int64 // sequence stored for the leader with the flushed data
	visible        int   // records of the log which the recovered node must show
}

func (w *world) recoverImage(p crash.Point) {
	// 1. what the logs say on disk
	cfgWal := config.NewDefaultStorageBase().WAL
	cfgWal.Dir = filepath.Join(p.Dir, "wal")
	var imgs []*logImage
	for li, lg := range w.logs {
		if lg == nil {
			continue
		}
		li0 := &logImage{lg: lg, appendedBefore: w.appendedAt[p.OpIdx][li], logApp: -1, groupAck: -1, queueAck: -1, persisted: -1}
		li0.removed = lg.removedSeq >= 0 && p.Seq >= lg.removedSeq
		dir := walDir(cfgWal, w.db, lg.leader)
		if st, err := os.Stat(dir); err == nil && st.IsDir() {
			li0.present = true
			fq, err := queue.NewFanOutQueue(dir, 0)
			if err != nil {
				w.fatalf("image %s: log of leader %d cannot be reopened: %v", p, lg.leader, err)
			}
			li0.logApp = fq.Queue().AppendedSeq()
			li0.queueAck = fq.Queue().AcknowledgedSeq()
			for _, name := range fq.ConsumerGroupNames() {
				if name == strconv.Itoa(int(nodeID)) {
					cg, _ := fq.GetOrCreateConsumerGroup(name)
					li0.groupAck = cg.AcknowledgedSeq()
				}
			}
			fq.Close()
		}
		if li0.removed && li0.present {
			w.fatalf("harness: image %s holds the removed log of leader %d", p, lg.leader)
		}
		if li0.logApp < int64(li0.appendedBefore)-1 && !li0.removed {
			w.fatalf("image %s: %d records had been appended to the log of leader %d, the recovered log ends at sequence %d", p, li0.appendedBefore, lg.leader, li0.logApp)
		}
		imgs = append(imgs, li0)
	}
	anyAppended := false
	for _, im := range imgs {
		if im.appendedBefore > 0 {
			anyAppended = true
		}
	}
	// 2. engine
	n, err := node.Start(p.Dir)
	if err != nil {
		w.fatalf("image %s: engine cannot be reopened: %v", p, err)
	}
	var walMgr replica.WriteAheadLogManager
	defer func() {
		if walMgr != nil {
			walMgr.Stop()
		}
		n.Close()
		if walMgr != nil {
			_ = walMgr.Close()
		}
	}()
	shard, err := n.Shard(w.db, 0)
	if err != nil {
		// the database/shard creation itself may be the operation in flight
		if !anyAppended {
			return
		}
		w.fatalf("image %s: %v", p, err)
	}
	family, err := shard.GetOrCrateDataFamily(baseTime)
	if err != nil {
		w.fatalf("image %s: data family: %v", p, err)
	}
	snap := family.Family().GetSnapshot()
	stored := snap.GetCurrent().GetSequences()
	for _, im := range imgs {
		if s, ok := stored[int32(im.lg.leader)]; ok {
			im.persisted = s
		}
	}
	snap.Close()
	describe := func() string {
		var sb strings.Builder
		for _, im := range imgs {
			fmt.Fprintf(&sb, " [leader %d: log ends at %d, ack %d, stored sequence %d]", im.lg.leader, im.logApp, im.groupAck, im.persisted)
		}
		return sb.String()
	}
	// the acknowledgement may pass the stored sequence only over records which carry no write (the
	// replicator skips them and acknowledges a skipped record which directly follows the acknowledged position)
	ackCheck := func(when string, im *logImage, ack int64) {
		for k := im.persisted + 1; k <= ack; k++ {
			if k >= int64(len(im.lg.entries)) || !w.bad(im.lg.entries[k]) {
				w.fatalf("image %s%s: the acknowledged position %d of the log of leader %d runs ahead of the sequence %d stored for that leader with the flushed data (record %d is a write which is in no flushed data);%s", p, when, ack, im.lg.leader, im.persisted, k, describe())
			}
		}
	}
	for _, im := range imgs {
		ackCheck("", im, im.groupAck)
		ackCheck(" (truncation barrier of the log queue)", im, im.queueAck)
	}
	// 3. production WAL recovery, free running replication drains the logs.
	// With logs of several leaders the loops of the logs write into the family concurrently (one goroutine
	// per log). For half of these images (drawn; always while the finding sigConc is listed) the loops are
	// not started (NewPartitionFn, the constructor seam of the write-ahead log) and the harness runs their
	// steps one at a time in a drawn interleaving; the other half is replayed by the production loops.
	present := 0
	for _, im := range imgs {
		if im.present {
			present++
		}
	}
	var held []replica.Partition
	stepped := present >= 2 && (ev.Known(sigConc) || rapid.Bool().Draw(w.t, "replayByDrawnInterleaving"))
	if w.flw != nil && present >= 1 {
		// a log with a follower group: the follower is not reachable, only the local replicators are stepped
		stepped = true
	}
	if stepped {
		replica.NewPartitionFn = func(ctx context.Context, shard tsdb.Shard, family tsdb.DataFamily, currentNodeID models.NodeID,
			log queue.FanOutQueue, cliFct rpc.ClientStreamFactory, stateMgr storage.StateManager,
		) replica.Partition {
			part := replica.NewPartition(ctx, shard, family, currentNodeID, log, cliFct, stateMgr)
			held = append(held, part)
			return &heldPartition{Partition: part}
		}
		defer func() { replica.NewPartitionFn = replica.NewPartition }()
	}
	cfg := config.GlobalStorageConfig()
	walMgr = replica.NewWriteAheadLogManager(context.Background(), cfg.WAL, nodeID, n.Engine, recoveryCliFct(), flwStateMgr{})
	if err := walMgr.Recovery(); err != nil {
		w.fatalf("image %s: WAL recovery: %v", p, err)
	}
	// what the node reports about its logs after the recovery (WriteAheadLogManager.GetReplicaState, the
	// state api of the storage node): the recovery registers the local replicator of every log with the
	// family, which acknowledges the log up to the sequence stored for ITS leader - never beyond
	// (replay may since have skipped records without a write, nothing else moves an acknowledgement here)
	states := map[models.NodeID]models.FamilyLogReplicaState{}
	for _, st := range walMgr.GetReplicaState(w.db) {
		states[st.Leader] = st
	}
	for _, im := range imgs {
		if !im.present {
			continue
		}
		st, ok := states[im.lg.leader]
		if !ok {
			w.fatalf("image %s: the log directory of leader %d exists, the recovered node reports no log for that leader (reported: %v)", p, im.lg.leader, states)
		}
		for _, peer := range st.Replicators {
			if peer.Replicator == strconv.Itoa(int(nodeID)) {
				ackCheck(" after WAL recovery", im, peer.ACK)
			}
		}
	}
	if stepped {
		order := rapid.SliceOfN(rapid.IntRange(0, 5), 6, 6).Draw(w.t, "replayInterleaving")
		for k := 0; ; k++ {
			var pending []replica.Partition
			for _, part := range held {
				if r := replica.VerifReplicator(part, nodeID); r != nil && r.Pending() > 0 {
					pending = append(pending, part)
				}
			}
			if len(pending) == 0 {
				break
			}
			if k > 4*maxEntries {
				w.fatalf("image %s: replay does not finish;%s", p, describe())
			}
			replica.VerifReplicaStep(pending[order[k%len(order)]%len(pending)], nodeID)
		}
	}
	deadline := time.Now().Add(replayWait)
	for _, im := range imgs {
		for im.present && !stepped {
			st := family.GetState()
			if im.logApp < 0 || im.logApp <= im.groupAck {
				// empty log, or everything acknowledged (the replicator starts behind the acknowledged
				// position; a skipped record next to that position is acknowledged without a family sequence)
				break
			}
			if seq, ok := st.ReplicaSequences[int32(im.lg.leader)]; ok && seq >= im.logApp {
				break
			}
			if time.Now().After(deadline) {
				w.fatalf("image %s: replay of the log of leader %d does not finish: family sequences %v;%s", p, im.lg.leader, st.ReplicaSequences, describe())
			}
			time.Sleep(time.Millisecond)
		}
	}
	// 4. read the node through the production query path
	c := newCluster(n, w.db)
	defer func() { c.Close() }()
	tr := timeRange
	anyRemoved := false
	for _, im := range imgs {
		im.visible = int(im.logApp) + 1 // records in the recovered log (a crash inside an append may or may not show it)
		if im.removed {
			// the log partition was removed by the removal task: every appended record must be in flushed data
			anyRemoved = true
			im.visible = im.appendedBefore
			for k := int(im.persisted) + 1; k < im.appendedBefore; k++ {
				if !w.bad(im.lg.entries[k]) {
					w.fatalf("image %s: the log partition of leader %d was removed although records above the stored sequence %d exist (%d appended, record %d is a write): they are in no flushed data and cannot be replayed", p, im.lg.leader, im.persisted, im.appendedBefore, k)
				}
			}
		}
		if im.visible > len(im.lg.entries) {
			w.fatalf("harness: image %s: log of leader %d shows %d records, %d were appended", p, im.lg.leader, im.visible, len(im.lg.entries))
		}
	}
	imageOf := map[int]*logImage{}
	for _, im := range imgs {
		for k, e := range im.lg.entries {
			_ = k
			imageOf[e] = im
		}
	}
	isVisible := func(i int) bool {
		im := imageOf[i]
		return im != nil && w.entries[i].seq < im.visible
	}
	writes, visible := 0, 0
	for i := range w.entries {
		if isVisible(i) {
			visible++
			if !w.bad(i) {
				writes++
			}
		}
	}
	if writes == 0 && visible > 0 {
		// only skipped records: the metric does not exist, nothing may have been written
		if rs, err := c.Query(w.db, "select s from acc where "+tr); err == nil {
			if res := node.Canon(rs); len(res) != 0 {
				w.fatalf("image %s: the logs hold only records without a write, query acc returns %v", p, res)
			}
		}
	}
	sum := 0.0
	if writes > 0 {
		rs, err := c.Query(w.db, "select s from acc where "+tr)
		if err != nil {
			w.fatalf("image %s: query acc: %v;%s", p, err, describe())
		}
		res := node.Canon(rs)
		sum = res[""]["s"][baseTime]
		d := digits(sum)
		for i := range w.entries {
			im := imageOf[i]
			e := w.entries[i]
			if !isVisible(i) {
				if d[i] != 0 && !im.removed {
					w.fatalf("image %s: data of log entry %d (leader %d, sequence %d) is present although that log ends at %d", p, i, im.lg.leader, e.seq, im.logApp)
				}
				continue
			}
			if w.bad(i) {
				if d[i] != 0 {
					w.fatalf("image %s: log entry %d carries no write (%s record) but the sum cell shows %d applications of it", p, i, e.kind, d[i])
				}
				continue
			}
			if d[i] == 0 {
				w.fatalf("image %s: log entry %d (log of leader %d, sequence %d) was appended before the crash but is in no flushed data and was not replayed (sum %v);%s", p, i, im.lg.leader, e.seq, sum, describe())
			}
			if int64(e.seq) <= im.persisted && d[i] != 1 {
				w.fatalf("image %s: log entry %d (log of leader %d, sequence %d: at or below the stored sequence %d) was applied %d times", p, i, im.lg.leader, e.seq, im.persisted, d[i])
			}
		}
		for i := len(w.entries); i < len(d) && !anyRemoved; i++ {
			if d[i] != 0 {
				w.fatalf("image %s: the sum cell shows data of an entry %d which was never appended", p, i)
			}
		}
	}
	// flushed data resolves through the recovered metadata: query by name and tags
	for i := range w.entries {
		if !isVisible(i) || w.bad(i) {
			continue
		}
		im := imageOf[i]
		j := w.entries[i].ref
		if w.d8Exposed[j] && ev.Known(sigD8) {
			continue
		}
		nm := namesOf(j)
		q, key := nm.query(tr)
		rs, err := c.Query(w.db, q)
		if err != nil {
			w.fatalf("image %s: entry %d (log of leader %d, sequence %d): query %q fails: %v;%s", p, i, im.lg.leader, w.entries[i].seq, q, err, describe())
		}
		res := node.Canon(rs)
		got, ok := res[key][nm.field][baseTime+int64(i)*10_000]
		if !ok || got != float64(i+1) {
			dbg := ""
			for _, q2 := range []string{
				fmt.Sprintf("select %s from %s where %s", nm.field, nm.from(), tr),
				fmt.Sprintf("select %s from %s where %s group by host", nm.field, nm.from(), tr),
				fmt.Sprintf("select %s from %s where host='%s' and %s", nm.field, nm.from(), nm.host, tr),
			} {
				rs2, err2 := c.Query(w.db, q2)
				dbg += fmt.Sprintf("\n   debug %q -> %v err=%v", q2, node.Canon(rs2), err2)
			}
			w.logf("debug:%s", dbg)
			w.fatalf("image %s: entry %d (log of leader %d, sequence %d): query %q returns %v, want %s -> %v;%s", p, i, im.lg.leader, w.entries[i].seq, q, res, key, i+1, describe())
		}
	}
	nt := false
	classes := []string{"img-" + p.OpName, "fsop-" + p.FSOp}
	logsPresent, logsUnflushed := 0, 0
	for _, im := range imgs {
		if im.persisted >= 0 && im.persisted < im.logApp {
			nt = true
		}
		if im.present {
			logsPresent++
			if im.logApp > im.persisted && im.logApp > im.groupAck {
				logsUnflushed++
			}
		}
		if im.groupAck > im.persisted {
			classes = append(classes, "ack-above-stored-sequence-over-skipped-records-only")
		}
		for k := int(im.persisted) + 1; k < im.visible; k++ {
			if w.bad(im.lg.entries[k]) {
				classes = append(classes, "skipped-record-above-stored-sequence")
				break
			}
		}
		// the shape in which a mix-up of the leaders of two logs of one family loses entries: the stored
		// sequence of ANOTHER leader lies above this log's acknowledged position while records wait for replay
		for _, other := range imgs {
			if other != im && im.present && im.logApp > im.groupAck && other.persisted > im.groupAck {
				classes = append(classes, "log-to-replay-with-stored-sequence-of-another-leader-above-its-ack")
				break
			}
		}
	}
	if nt {
		classes = append(classes, "entries-above-and-below-persisted-sequence")
	}
	classes = append(classes, fmt.Sprintf("image-with-%d-logs", logsPresent))
	if stepped {
		classes = append(classes, "replay-of-several-logs-stepped-in-drawn-interleaving")
	} else if logsPresent >= 2 {
		classes = append(classes, "replay-of-several-logs-free-running")
	}
	if logsPresent >= 2 && logsUnflushed >= 1 {
		classes = append(classes, "image-with-logs-of-several-leaders-and-records-to-replay")
	}
	classes = append(classes, w.imageTags[p.Seq]...)
	// 5. the node lives on: flush cycles, kv compaction, names which did not exist before the crash, restart
	// (always for the image of the idle node at the end of the history, else for every other image;
	// C07_NO_CONTINUATION=1 switches it off - only used to measure what the compactions inside the histories detect alone)
	classes = append(classes, w.shutdownImageClasses(p, imgs)...)
	if writes > 0 && os.Getenv("C07_NO_CONTINUATION") == "" && (p.FSOp == "endOfHistory" || p.FSOp == "logRemoved" || p.FSOp == "afterShutdown" || rapid.Bool().Draw(w.t, "continueAfterRecovery")) {
		var env *postEnv
		env = &postEnv{p: p, dir: p.Dir, root: filepath.Join(p.Dir, "data", w.db), visible: isVisible, hasSum: true, sum: sum, describe: describe,
			node: func() *node.Node { return n },
			query: func(q string) (node.Result, error) {
				rs, err := c.Query(w.db, q)
				return node.Canon(rs), err
			},
			restart: func(plan *sdPlan, unloggedRows int) {
				c.Close()
				pp := p
				if plan == nil {
					pp.Dir = env.dir
					w.restartRecovered(pp, &n, &walMgr, imgs, describe)
				} else {
					// the node is stopped while operations fail; the next generation starts on a copy of what it left
					w.stopRecoveredWithFault(env, plan, &n, &walMgr, unloggedRows)
					pp.Dir = env.dir
					w.startRecovered(pp, &n, &walMgr, imgs, describe)
				}
				c = newCluster(n, w.db)
			},
		}
		classes = append(classes, w.postRecovery(env)...)
	}
	ev.Case("crash-points", strings.Join(w.ops, ";")+"|"+p.String(), nt, uniq(classes), nil)
}

func uniq(in []string) (out []string) {
	seen := map[string]bool{}
	for _, s := range in {
		if !seen[s] {
			seen[s] = true
			out = append(out, s)
		}
	}
	return out
}

func runHistory(t *rapid.T, thorough bool, group, profile string) {
	dir, err := os.MkdirTemp("", "c07-")
	if err != nil {
		t.Fatalf("harness: %v", err)
	}
	w := &world{t: t, dir: filepath.Join(dir, "node"), db: fmt.Sprintf("c07db%d", dbSeq.Add(1)), classes: map[string]int{}, d8Exposed: map[int]bool{}, namesApplied: map[int]bool{}, stale: map[string]bool{}, thorough: thorough, imageTags: map[int][]string{},
		book: newCompactBook(), group: group, profile: profile}
	w.im = &crash.Imager{Root: w.dir, OutDir: filepath.Join(dir, "img")}
	w.leaders = rapid.SampledFrom(leaderSets).Draw(t, "leadersOfTheFamilyLogs")
	w.logs = make([]*logSt, len(w.leaders))
	for _, l := range w.leaders {
		if l == nodeID && rapid.IntRange(0, 2).Draw(t, "followerOfTheLogThisNodeLeads") != 0 {
			w.flw = &followerModel{last: -1}
			w.classes["history-whose-own-log-has-a-follower-group"]++
		}
	}
	// a crash inside the stream of logical writes of one table file leaves a file no manifest names:
	// one in four of these points is imaged (which ones is drawn), every other point always
	salt := rapid.IntRange(0, 3).Draw(t, "tableWriteImages")
	w.im.Want = func(p crash.Point) bool { return p.FSOp != "tableWrite" || (p.Seq+salt)%4 == 0 }
	hook := func(op, path string, before bool) {
		if w.cycleOp && !w.racing {
			// the production flush job moves from store to store by itself
			if s := w.stepOfPath(path); s != "" && s != w.subStep {
				w.enterSubStep(s)
			}
		}
		w.im.Hook(op, path, before)
		w.seam(op)
	}
	kv.VerifSetFSHook(hook)
	version.VerifSetFSHookWithFaults(hook, w.faultHook)
	table.VerifSetFSHookWithFaults(hook, w.faultHook)
	qsim.Install(hook)
	cleanupHooks := func() {
		kv.VerifSetFSHook(nil)
		version.VerifSetFSHook(nil)
		table.VerifSetFSHook(nil)
		qsim.Uninstall()
	}
	liveClosed := false
	closeLive := func() {
		if liveClosed {
			return
		}
		liveClosed = true
		w.im.Active = false
		w.fault = nil
		// production shutdown order (databaseLifecycle.Shutdown): stop replication, close the engine
		// (its final flush acknowledges into the log), then close the log
		anyRemoved := false
		for _, lg := range w.logs {
			if lg != nil {
				lg.part.Stop()
				anyRemoved = anyRemoved || lg.removedSeq >= 0 || w.localStopped
			}
		}
		if w.n != nil {
			func() {
				if anyRemoved {
					// the final flush of the engine acknowledges into the (closed) log of the removed partition
					debug.SetPanicOnFault(true)
					defer func() { _ = recover() }()
				}
				w.n.Close()
			}()
		}
		for _, lg := range w.logs {
			if lg != nil {
				_ = lg.part.Close()
			}
		}
	}
	defer func() {
		cleanupHooks()
		closeLive()
		_ = os.RemoveAll(dir)
	}()

	w.n, err = node.Start(w.dir)
	if err != nil {
		t.Fatalf("harness: start: %v", err)
	}
	opt := node.DBOption(timeutil.Interval(10_000))
	w.appendedAt = nil
	w.begin("createDatabase")
	err = w.n.CreateDB(w.db, opt, 0)
	w.end()
	if err != nil {
		t.Fatalf("harness: create db: %v", err)
	}
	w.shard, _ = w.n.Shard(w.db, 0)
	w.family, err = w.shard.GetOrCrateDataFamily(baseTime)
	if err != nil {
		t.Fatalf("harness: family: %v", err)
	}

	ops := map[string]func(*rapid.T){
		"appendLog":          func(t *rapid.T) { w.t = t; w.opAppend() },
		"appendLog2":         func(t *rapid.T) { w.t = t; w.opAppend() },
		"replicaStep":        func(t *rapid.T) { w.t = t; w.opReplicaStep() },
		"replicaStep2":       func(t *rapid.T) { w.t = t; w.opReplicaStep() },
		"replicaCatchUp":     func(t *rapid.T) { w.t = t; w.opReplicaCatchUp() },
		"flushStep":          func(t *rapid.T) { w.t = t; w.opFlushStep() },
		"flushStep2":         func(t *rapid.T) { w.t = t; w.opFlushStep() },
		"flushJob":           func(t *rapid.T) { w.t = t; w.opFlushJob() },
		"appendSkipped":      func(t *rapid.T) { w.t = t; w.opAppendSkipped() },
		"logGC":              func(t *rapid.T) { w.t = t; w.opLogGC() },
		"followerStep":       func(t *rapid.T) { w.t = t; w.opFollowerStep() },
		"followerStep2":      func(t *rapid.T) { w.t = t; w.opFollowerStep() },
		"compactKV":          func(t *rapid.T) { w.t = t; w.opCompactKV("") },
		"namesAndFlushCycle": func(t *rapid.T) { w.t = t; w.opNamesAndFlushCycle() },
	}
	if profile == "compaction" {
		// histories in which names of every kind arrive over many metadata / index flush cycles and the
		// compaction job of their kv families runs often
		delete(ops, "appendSkipped")
		delete(ops, "replicaStep2")
		ops["compactKV2"] = ops["compactKV"]
		ops["compactKV3"] = ops["compactKV"]
		ops["namesAndFlushCycle2"] = ops["namesAndFlushCycle"]
		ops["namesAndFlushCycle3"] = ops["namesAndFlushCycle"]
		ops["namesAndFlushCycle4"] = ops["namesAndFlushCycle"]
	}
	t.Repeat(ops)
	w.t = t
	w.fault = nil

	// the compaction job may be the last thing the node does before it dies
	if rapid.IntRange(0, 3).Draw(t, "compactionBeforeTheCrash") == 0 {
		w.opCompactKV(" (last operation before the crash)")
	}

	// the periodic log-removal task (WriteAheadLogManager garbage collection): Partition.IsExpire()
	// syncs + collects the log and says whether the partition of this (long past) family may be
	// removed; if so the task stops and closes the partition and removes its directory.
	// Usually the replicator has consumed everything when the task looks at the partition.
	removal := "none"
	if profile != "shutdown" {
		removal = rapid.SampledFrom([]string{"none", "task", "caught-up+task", "caught-up+task"}).Draw(t, "logRemovalTask")
	}
	if removal == "caught-up+task" {
		w.catchUp()
		if len(w.pendingLogs()) == 0 {
			w.classes["removal-task-sees-caught-up-replicator"]++
		}
	}
	anyRemoved := false
	if removal != "none" && len(w.liveLogs()) > 0 {
		w.logf("logRemovalTask")
		w.begin("logRemovalTask")
		for _, li := range w.liveLogs() {
			lg := w.logs[li]
			from := len(w.im.Points)
			if !lg.part.IsExpire() {
				w.noteLogTick(lg, from)
				if replica.VerifReplicator(lg.part, nodeID) == nil {
					// the partition stays (the follower's group still has data) but the task has stopped the caught-up
					// local replicator and closed its consumer group; the family keeps that replicator's acknowledge
					// callback: the next data flush of the family (also the final one of a shutdown) stores into the
					// unmapped meta page of the closed group and the process dies (reported as an observation; the
					// history ends here, the live node is closed behind a fault guard)
					w.localStopped = true
					w.classes["removal-task-stops-local-replicator-of-a-log-which-stays"]++
					w.logf("  (log of leader %d stays - the follower's group has data - its caught-up local replicator is stopped and its consumer group closed)", lg.leader)
				}
			} else {
				lg.part.Stop()
				_ = lg.part.Close()
				_ = os.RemoveAll(lg.path)
				w.logf("  (partition of leader %d expired: log directory removed)", lg.leader)
				at := len(w.im.Points)
				w.im.Hook("logRemoved", lg.path, false)
				lg.removedSeq = w.im.Points[at].Seq
				anyRemoved = true
				w.classes["log-partition-removed"]++
			}
		}
		w.end()
	}

	// the node dies after the last operation: one image of the idle node
	// (after the removal of a log the image taken there is that image)
	if !anyRemoved {
		w.begin("endOfHistory")
		w.im.Hook("endOfHistory", w.dir, false)
		w.end()
	}
	opened := 0
	for _, lg := range w.logs {
		if lg != nil {
			opened++
		}
	}
	w.classes[fmt.Sprintf("history-with-logs-of-%d-leaders", opened)]++

	// wave 7: instead of dying the node may be stopped (production shutdown order), with or without an I/O fault;
	// the crash points inside the shutdown and what the stopped process leaves are further images
	w.sdFiredAt = -1
	shutdownPct, shutdownFaultPct, _ := w.shutdownOdds()
	if !anyRemoved && !w.localStopped && rapid.IntRange(0, 99).Draw(t, "gracefulShutdown") < shutdownPct {
		plan := drawShutdownPlan(t, shutdownFaultPct, false)
		w.beforeShutdown(t)
		liveClosed = true
		w.opShutdown(plan)
	}

	// ---- the crash: the live node is not used any more; sampled images are recovered
	pts := w.im.Points
	w.im.Active = false
	cleanupHooks()
	var withDir []int
	for i, p := range pts {
		if p.Dir != "" {
			withDir = append(withDir, i)
		}
	}
	limit := 10
	if thorough {
		limit = 30
	}
	if profile == "shutdown" {
		limit = limit * 6 / 10
	}
	chosen := map[int]bool{}
	tag := func(i int, t string) { w.imageTags[pts[i].Seq] = append(w.imageTags[pts[i].Seq], t) }
	isFlushOp := func(n string) bool { return n == "flushFamily" || n == "flushIndex" || n == "flushMeta" }
	dataCommit := func(i int) bool {
		return pts[i].OpName == "flushFamily" && pts[i].FSOp == "manifestSync" && !pts[i].Before
	}
	if len(withDir) <= limit {
		for _, i := range withDir {
			chosen[i] = true
		}
	} else {
		// the idle node at the end and the removed logs
		for _, i := range withDir {
			if pts[i].FSOp == "logRemoved" || pts[i].FSOp == "endOfHistory" || pts[i].FSOp == "afterShutdown" {
				chosen[i] = true
			}
		}
		// crash points inside the graceful shutdown
		w.shutdownImages(t, pts, chosen, tag)
		// loss windows: from the commit of a data flush inside which the replicator ran (resp. from a
		// skipped record above unflushed writes) to the next commit of a data flush: the last image
		// of the window and a drawn one
		window := func(start int, fromCommit bool, label string) {
			if fromCommit {
				for start < len(pts) && !dataCommit(start) {
					start++
				}
			}
			end := start + 1
			for end < len(pts) && !dataCommit(end) {
				end++
			}
			if start >= len(pts) {
				return
			}
			last := end - 1
			pick := rapid.IntRange(start, last).Draw(t, "windowImage")
			for _, i := range []int{last, pick} {
				if pts[i].Dir != "" {
					chosen[i] = true
					tag(i, label)
				}
			}
		}
		pickWindows := func(starts []int, fromCommit bool, label string) {
			if len(starts) == 0 {
				return
			}
			window(starts[len(starts)-1], fromCommit, label)
			if len(starts) > 1 {
				window(starts[rapid.IntRange(0, len(starts)-2).Draw(t, "window")], fromCommit, label)
			}
		}
		pickWindows(w.raceWindows, true, "window-after-data-flush-with-replication-inside")
		pickWindows(w.skipWindows, false, "window-after-skipped-record-above-unflushed-writes")
		pickWindows(w.gcWindows, false, "window-after-log-housekeeping-tick-with-follower-group-ahead-of-local-group")
		// fault windows: from the failed operation of a flush sub-step to the start of the next metadata
		// flush (which repairs whatever the failed cycle left behind): the last image with a copy and a drawn one
		faultWindow := func(start int) {
			if start >= len(pts) {
				return
			}
			end := start + 1
			for end < len(pts) && !(pts[end].OpName == "flushMeta" && pts[end-1].OpName != "flushMeta") {
				end++
			}
			var cands []int
			for i := start; i < end; i++ {
				if pts[i].Dir != "" {
					cands = append(cands, i)
				}
			}
			if len(cands) == 0 {
				return
			}
			for _, i := range []int{cands[len(cands)-1], cands[rapid.IntRange(0, len(cands)-1).Draw(t, "faultWindowImage")]} {
				chosen[i] = true
				tag(i, "window-after-failed-flush-sub-step-before-the-next-metadata-flush")
			}
		}
		if n := len(w.faultWindows); n > 0 {
			faultWindow(w.faultWindows[n-1])
			if n > 1 {
				faultWindow(w.faultWindows[rapid.IntRange(0, n-2).Draw(t, "faultWindow")])
			}
		}
		// prefer the commit boundaries inside flush sub-steps (between two manifest commits of the
		// several kv families one sub-step flushes) and the points of replication steps / log GC
		var hot, boundary []int
		for _, i := range withDir {
			name := pts[i].OpName
			switch {
			case isFlushOp(name):
				if pts[i].FSOp == "manifestSync" && !pts[i].Before {
					boundary = append(boundary, i)
				}
				hot = append(hot, i)
			case strings.HasPrefix(name, "replicaStep"), name == "logGC", strings.HasPrefix(name, "appendLog@"), name == "compactKV":
				hot = append(hot, i)
			}
		}
		// crash inside / right after the compaction job of a metadata / index kv family
		var cpts []int
		for _, i := range withDir {
			if pts[i].OpName == "compactKV" {
				cpts = append(cpts, i)
			}
		}
		for n := 0; n < 2 && len(cpts) > 0; n++ {
			chosen[cpts[rapid.IntRange(0, len(cpts)-1).Draw(t, "compactionImage")]] = true
		}
		// inner boundaries: after a commit of a sub-step which is followed by another commit of the same sub-step
		var inner []int
		for _, r := range w.flushRanges {
			last := -1
			for i := r[0]; i < r[1] && i < len(pts); i++ {
				if pts[i].FSOp == "manifestSync" && !pts[i].Before && pts[i].Dir != "" {
					if last >= 0 {
						inner = append(inner, last)
					}
					last = i
				}
			}
		}
		for n := 0; n < 3 && len(inner) > 0; n++ {
			i := inner[rapid.IntRange(0, len(inner)-1).Draw(t, "innerBoundaryImage")]
			chosen[i] = true
			tag(i, "between-two-commits-of-one-flush-sub-step")
		}
		for n := 0; n < 2 && len(boundary) > 0; n++ {
			chosen[boundary[rapid.IntRange(0, len(boundary)-1).Draw(t, "boundaryImage")]] = true
		}
		for len(chosen) < limit {
			pool := withDir
			if len(hot) > 0 && rapid.IntRange(0, 3).Draw(t, "hot") != 0 {
				pool = hot
			}
			chosen[pool[rapid.IntRange(0, len(pool)-1).Draw(t, "image")]] = true
		}
	}
	order := make([]int, 0, len(chosen))
	for i := range chosen {
		order = append(order, i)
	}
	sort.Ints(order)
	for _, i := range order {
		done := 0
		for _, e := range w.book.ends {
			if e <= i {
				done++
			}
		}
		if done > 0 {
			tag(i, "image-after-kv-compaction")
		}
		if pts[i].OpName == "compactKV" {
			tag(i, "image-inside-kv-compaction-job")
		}
	}
	// the recovered engines share process-wide singletons with the live one: stop using the live node first
	closeLive()
	// the recovered nodes run with pass-through table / manifest seams: a graceful restart of a recovered node
	// may get an I/O fault (faultHook answers nil unless a shutdown with a fault plan is in flight)
	nop := func(string, string, bool) {}
	version.VerifSetFSHookWithFaults(nop, w.faultHook)
	table.VerifSetFSHookWithFaults(nop, w.faultHook)
	for _, i := range order {
		w.recoverImage(pts[i])
		for _, d := range w.genDirs {
			_ = os.RemoveAll(d)
		}
		w.genDirs = nil
	}
	cleanupHooks()
	w.im.Drop()
	for c, n := range w.classes {
		ev.Class(w.group, c, n)
	}
	var hcl []string
	if len(w.book.recs) > 0 {
		hcl = append(hcl, "history-with-kv-compaction")
	}
	ev.Case(w.group, fmt.Sprint(w.leaders)+strings.Join(w.ops, ";"), len(order) > 0 && w.classes["flush-cycle-completed"] > 0, hcl,
		map[string]any{"leaders": fmt.Sprint(w.leaders), "history": w.ops, "images_taken": len(withDir), "images_recovered": len(order)})
	// one case per compaction which ran; non-trivial: some key of a compacted family had deltas in >= 2 of the merged files
	for _, c := range w.book.recs {
		ev.Case("kv-compactions", fmt.Sprintf("%s|%d", strings.Join(w.ops, ";"), c.at), c.merged > 0, c.fams,
			map[string]any{"operation": c.desc, "keys_with_deltas_in_2_or_more_merged_files": c.merged})
	}
}

func TestNodeCrashRecovery(t *testing.T) {
	thorough := os.Getenv("VERIF_TIER") == "thorough"
	rapid.Check(t, func(t *rapid.T) { runHistory(t, thorough, "TestNodeCrashRecovery", "") })
}

// TestMetadataCompactionRecovery: the same histories, same crash points and same oracle with another
// mix of operations (compaction profile): no I/O faults and no records without a write, many entries with
// names of their own each followed by a complete flush cycle, and the compaction job of the metadata /
// index kv families three times as often - so that the mergers of these families get keys with deltas in
// several level-0 files (up to the >= 4 files at which the periodic job of the store starts by itself).
func TestMetadataCompactionRecovery(t *testing.T) {
	thorough := os.Getenv("VERIF_TIER") == "thorough"
	rapid.Check(t, func(t *rapid.T) { runHistory(t, thorough, "TestMetadataCompactionRecovery", "compaction") })
}

var _ = bytes.Equal

// TestKnown_NameCreatedInsideFlushCycle is the plain reproduction of the known finding
// C07/name-created-inside-flush-cycle-persisted-with-data (DESIGN.md D8): entry 1 introduces new
// names after the metadata freeze of a flush cycle; the data flush of the same cycle persists its
// rows and the log sequence; after a crash the rows do not resolve by name and tags.
func TestKnown_NameCreatedInsideFlushCycle(t *testing.T) {
	ran := false
	rapid.Check(t, func(t *rapid.T) {
		if ran {
			return
		}
		ran = true
		dir, err := os.MkdirTemp("", "c07k-")
		if err != nil {
			t.Fatalf("harness: %v", err)
		}
		defer os.RemoveAll(dir)
		w := &world{t: t, dir: filepath.Join(dir, "node"), db: fmt.Sprintf("c07db%d", dbSeq.Add(1)), classes: map[string]int{}, d8Exposed: map[int]bool{}, namesApplied: map[int]bool{}, stale: map[string]bool{}}
		w.im = &crash.Imager{Root: w.dir, OutDir: filepath.Join(dir, "img")}
		w.n, err = node.Start(w.dir)
		if err != nil {
			t.Fatalf("harness: %v", err)
		}
		if err := w.n.CreateDB(w.db, node.DBOption(timeutil.Interval(10_000)), 0); err != nil {
			t.Fatalf("harness: %v", err)
		}
		w.shard, _ = w.n.Shard(w.db, 0)
		w.family, _ = w.shard.GetOrCrateDataFamily(baseTime)
		w.leaders, w.logs = []models.NodeID{nodeID}, make([]*logSt, 1)
		lg := w.openLog(0)
		put := func(i int) {
			msg, _ := message(i, i)
			if err := lg.part.WriteLog(msg); err != nil {
				t.Fatalf("harness: %v", err)
			}
			replica.VerifReplicaStep(lg.part, nodeID)
		}
		put(0)
		d, _ := w.n.Engine.GetDatabase(w.db)
		if err := d.FlushMeta(); err != nil {
			t.Fatalf("flushMeta: %v", err)
		}
		put(1) // new names after the metadata freeze
		if err := w.shard.FlushIndex(); err != nil {
			t.Fatalf("flushIndex: %v", err)
		}
		if err := w.family.Flush(); err != nil {
			t.Fatalf("flush: %v", err)
		}
		img := filepath.Join(dir, "image")
		if err := crash.CopyTree(w.dir, img); err != nil {
			t.Fatalf("harness: %v", err)
		}
		lg.part.Stop()
		w.n.Close()
		_ = lg.part.Close()
		// recover the image
		n, err := node.Start(img)
		if err != nil {
			t.Fatalf("recover: %v", err)
		}
		walMgr := replica.NewWriteAheadLogManager(context.Background(), config.GlobalStorageConfig().WAL, nodeID, n.Engine, nil, nil)
		if err := walMgr.Recovery(); err != nil {
			t.Fatalf("wal recovery: %v", err)
		}
		defer func() {
			walMgr.Stop()
			n.Close()
			_ = walMgr.Close()
		}()
		c := node.NewCluster()
		defer c.Close()
		c.AddLeaf("leaf:1", n.Engine, "")
		c.SetLayout(w.db, node.DBOption(timeutil.Interval(10_000)), map[string][]models.ShardID{"leaf:1": {0}})
		rs, err := c.Query(w.db, "select f1 from m1 where host='h1' and time>='2023-05-01 10:00:00' and time<='2023-05-01 10:59:59'")
		res := node.Canon(rs)
		if got, ok := res[""]["f1"][baseTime+10_000]; err == nil && ok && got == 2 {
			return // resolves: the finding does not reproduce
		}
		what := fmt.Sprintf("entry 1 (names created after FlushMeta, rows and sequence persisted by the data flush of the same cycle): after crash recovery `where host='h1'` returns %q err=%v", res.String(), err)
		if ev.Known(sigD8) {
			ev.KnownFinding("C07", sigD8+": "+what)
			return
		}
		t.Fatalf("%s: %s", sigD8, what)
	})
}

// ---- plain reproductions of the findings of wave 5 ---------------------------------------------------

// plainNode is a node with one database, one data family and the logs of the given leaders, without
// images, hooks or rapid.
type plainNode struct {
	t      *testing.T
	dir    string
	db     string
	n      *node.Node
	shard  tsdb.Shard
	family tsdb.DataFamily
	parts  map[models.NodeID]replica.Partition
}

func startPlainNode(t *testing.T, dir string, leaders ...models.NodeID) *plainNode {
	t.Helper()
	p := &plainNode{t: t, dir: dir, db: fmt.Sprintf("c07db%d", dbSeq.Add(1)), parts: map[models.NodeID]replica.Partition{}}
	var err error
	if p.n, err = node.Start(dir); err != nil {
		t.Fatalf("harness: %v", err)
	}
	if err := p.n.CreateDB(p.db, node.DBOption(timeutil.Interval(10_000)), 0); err != nil {
		t.Fatalf("harness: %v", err)
	}
	p.shard, _ = p.n.Shard(p.db, 0)
	if p.family, err = p.shard.GetOrCrateDataFamily(baseTime); err != nil {
		t.Fatalf("harness: %v", err)
	}
	for _, leader := range leaders {
		fq, err := queue.NewFanOutQueue(walDir(config.GlobalStorageConfig().WAL, p.db, leader), 0)
		if err != nil {
			t.Fatalf("harness: %v", err)
		}
		part := replica.NewPartition(context.Background(), p.shard, p.family, nodeID, fq, nil, nil)
		if leader == nodeID {
			err = part.BuildReplicaForLeader(nodeID, []models.NodeID{nodeID})
		} else {
			err = part.BuildReplicaForFollower(leader, nodeID)
		}
		if err != nil {
			t.Fatalf("harness: %v", err)
		}
		p.parts[leader] = part
	}
	return p
}

// put appends entry i (which introduces its own names) to the log of the leader.
func (p *plainNode) put(leader models.NodeID, seq int64, i int) {
	p.t.Helper()
	msg, err := message(i, i)
	if err != nil {
		p.t.Fatalf("harness: %v", err)
	}
	if leader == nodeID {
		err = p.parts[leader].WriteLog(msg)
	} else {
		_, err = p.parts[leader].ReplicaLog(seq, msg)
	}
	if err != nil {
		p.t.Fatalf("harness: append: %v", err)
	}
}

// crash copies the node directory (the process dies here) and shuts the live node down.
func (p *plainNode) crash(img string) {
	p.t.Helper()
	if err := crash.CopyTree(p.dir, img); err != nil {
		p.t.Fatalf("harness: %v", err)
	}
	for _, part := range p.parts {
		part.Stop()
	}
	p.n.Close()
	for _, part := range p.parts {
		_ = part.Close()
	}
}

// recoverPlain restarts a node on an image the production way and waits until the family has applied the
// logs up to the given sequences; it returns the query cluster and a function which shuts everything down.
func recoverPlain(t *testing.T, img, db string, want map[models.NodeID]int64) (*node.Cluster, func()) {
	t.Helper()
	n, err := node.Start(img)
	if err != nil {
		t.Fatalf("recover: %v", err)
	}
	walMgr := replica.NewWriteAheadLogManager(context.Background(), config.GlobalStorageConfig().WAL, nodeID, n.Engine, nil, nil)
	if err := walMgr.Recovery(); err != nil {
		t.Fatalf("wal recovery: %v", err)
	}
	shard, _ := n.Shard(db, 0)
	family, _ := shard.GetOrCrateDataFamily(baseTime)
	deadline := time.Now().Add(replayWait)
	for leader, seq := range want {
		for family.GetState().ReplicaSequences[int32(leader)] < seq && time.Now().Before(deadline) {
			time.Sleep(time.Millisecond)
		}
	}
	c := node.NewCluster()
	c.AddLeaf("leaf:1", n.Engine, "")
	c.SetLayout(db, node.DBOption(timeutil.Interval(10_000)), map[string][]models.ShardID{"leaf:1": {0}})
	return c, func() {
		c.Close()
		walMgr.Stop()
		n.Close()
		_ = walMgr.Close()
	}
}

// TestRegression_NamesCreatedAfterFailedMetadataFlush: entry 0 is applied, a metadata flush fails (the
// table file of the first store cannot be created), entry 1 - new metric / tag value / field - is applied,
// then a complete flush cycle runs without any fault (FlushMeta, FlushIndex, family.Flush all report
// success) and the node dies. The stores had kept what the failed flush froze, the second FlushMeta wrote
// only that; the names of entry 1 are in no durable dictionary, its rows and its log sequence are durable.
func TestRegression_NamesCreatedAfterFailedMetadataFlush(t *testing.T) {
	dir := t.TempDir()
	p := startPlainNode(t, filepath.Join(dir, "node"), nodeID)
	fail := false
	table.VerifSetFSHookWithFaults(func(string, string, bool) {}, func(op, _ string) error {
		if fail && op == "tableCreate" {
			fail = false
			return errInjected
		}
		return nil
	})
	defer table.VerifSetFSHook(nil)
	d, _ := p.n.Engine.GetDatabase(p.db)
	p.put(nodeID, 0, 0)
	replica.VerifReplicaStep(p.parts[nodeID], nodeID)
	fail = true
	if err := d.FlushMeta(); err == nil {
		t.Fatalf("harness: the metadata flush with a failing table file creation reports success")
	}
	p.put(nodeID, 1, 1)
	replica.VerifReplicaStep(p.parts[nodeID], nodeID)
	if err := d.FlushMeta(); err != nil {
		t.Fatalf("flushMeta: %v", err)
	}
	if err := p.shard.FlushIndex(); err != nil {
		t.Fatalf("flushIndex: %v", err)
	}
	if err := p.family.Flush(); err != nil {
		t.Fatalf("flush: %v", err)
	}
	img := filepath.Join(dir, "image")
	p.crash(img)
	table.VerifSetFSHook(nil)
	c, shutdown := recoverPlain(t, img, p.db, nil)
	defer shutdown()
	rs, err := c.Query(p.db, "select f1 from m1 where host='h1' and time>='2023-05-01 10:00:00' and time<='2023-05-01 10:59:59'")
	res := node.Canon(rs)
	if got, ok := res[""]["f1"][baseTime+10_000]; err == nil && ok && got == 2 {
		return // resolves: the finding does not reproduce
	}
	what := fmt.Sprintf("entry 1 (names created after a failed FlushMeta; the next FlushMeta, FlushIndex and family flush succeed and persist its rows and log sequence): after crash recovery `where host='h1'` returns %q err=%v", res.String(), err)
	if ev.Known(sigStale) {
		ev.KnownFinding("C07", sigStale+": "+what)
		return
	}
	t.Fatalf("%s: %s", sigStale, what)
}

// TestRegression_ConcurrentReplayOfLogsOfTwoLeaders: the family has the logs of leader 1 (own writes) and
// leader 2 (replicated), nothing is flushed, the node dies and restarts through WriteAheadLogManager.Recovery.
// Each log is replayed by its own goroutine (partition.replicaLoop); both call dataFamily.WriteRows on the
// same memory database at the same time, which nothing serialises (memdb: "single goroutine write family
// data", "WriteRow must be called after WithLock"). Every entry writes one row of a series of its own.
// A race: up to 5 rounds are tried.
func TestRegression_ConcurrentReplayOfLogsOfTwoLeaders(t *testing.T) {
	const perLog = 150
	record := func(i int) []byte {
		block, err := node.Block([]*protoMetricsV1.Metric{{
			Name: "r", Timestamp: baseTime + int64(i%300)*10_000,
			Tags:         []*protoMetricsV1.KeyValue{{Key: "host", Value: fmt.Sprintf("h%d", i)}},
			SimpleFields: []*protoMetricsV1.SimpleField{{Name: "f", Type: protoMetricsV1.SimpleFieldType_DELTA_SUM, Value: float64(i + 1)}},
		}})
		if err != nil {
			t.Fatalf("harness: %v", err)
		}
		sw := compress.NewSnappyWriter()
		_, _ = sw.Write(block)
		_ = sw.Close()
		return append([]byte(nil), sw.Bytes()...)
	}
	for round := 0; round < 5; round++ {
		dir := t.TempDir()
		p := startPlainNode(t, filepath.Join(dir, "node"), nodeID, 2)
		for k := 0; k < perLog; k++ {
			if err := p.parts[nodeID].WriteLog(record(2 * k)); err != nil {
				t.Fatalf("harness: %v", err)
			}
			if _, err := p.parts[2].ReplicaLog(int64(k), record(2*k+1)); err != nil {
				t.Fatalf("harness: %v", err)
			}
		}
		img := filepath.Join(dir, "image")
		p.crash(img)
		c, shutdown := recoverPlain(t, img, p.db, map[models.NodeID]int64{nodeID: perLog - 1, 2: perLog - 1})
		rs, err := c.Query(p.db, "select f from r where time>='2023-05-01 10:00:00' and time<='2023-05-01 10:59:59' group by host limit 1000")
		var lost []int
		if err == nil {
			res := node.Canon(rs)
			for i := 0; i < 2*perLog; i++ {
				if got, ok := res[fmt.Sprintf("host=h%d", i)]["f"][baseTime+int64(i%300)*10_000]; !ok || got != float64(i+1) {
					lost = append(lost, i)
				}
			}
		}
		func() {
			// the final flush of the shutdown reads the structures the racing writers have damaged
			defer func() {
				if r := recover(); r != nil && err == nil {
					err = fmt.Errorf("panic while closing the recovered node: %v", r)
				}
			}()
			shutdown()
		}()
		if err != nil || len(lost) > 0 {
			what := fmt.Sprintf("round %d: %d entries in the log of leader 1 and %d in the log of leader 2 (one row of a series of its own each), nothing flushed; after restart and replay %d rows are missing or wrong (entries %v; query err=%v)", round, perLog, perLog, len(lost), lost, err)
			if ev.Known(sigConc) {
				ev.KnownFinding("C07", sigConc+": "+what)
				return
			}
			t.Fatalf("%s: %s", sigConc, what)
		}
	}
}
