// Package c07 checks property C07: when a storage node dies at any point and restarts, every
// write-ahead-log entry appended before the crash is either in durably flushed data or still in
// the log and replayed; the log's acknowledged position never runs ahead of the sequence stored
// with the flushed data; an entry at or below the stored sequence is never applied again; and
// flushed data resolves through the recovered metadata (a query by name and tags finds it).
//
// One case = one history on a real engine (tsdb + memdb + index + kv) with a real WAL partition
// and the production local replicator, during which directory images of the whole node are taken
// at every intercepted kv file-system operation and every WAL / consumer-group page store. The
// history ends with the crash: sampled images are recovered with the production open paths
// (tsdb.NewEngine, WriteAheadLogManager.Recovery) and the free-running replication loop drains
// the log; then the oracle reads the node through the production query path.
//
// Two further kinds of operation (wave 3):
//   - records the replicator must skip: the storage write rpc appends req.Record to the log without
//     looking at it, so the log may hold records which are not a snappy stream (garbage, a torn
//     prefix of a real record) or which decode to zero rows. They carry no write; the replicator
//     skips them (IgnoreMessage) and the log acknowledgement may pass them only when nothing below
//     them is waiting for a flush.
//   - replication racing INSIDE a flush sub-step: at intercepted table file operations of the
//     sub-step (where the flush job does not hold the family mutex) the harness runs the other
//     actors of the node - an append and/or single steps of the local replicator - on the flush
//     job's goroutine, i.e. between freezing the memory database and the kv commit.
package c07

import (
	"bytes"
	"context"
	"fmt"
	"math"
	"os"
	"path/filepath"
	"runtime/debug"
	"sort"
	"strconv"
	"strings"
	"sync/atomic"
	"testing"
	"time"

	"github.com/lindb/common/pkg/logger"
	commontimeutil "github.com/lindb/common/pkg/timeutil"
	protoMetricsV1 "github.com/lindb/common/proto/gen/v1/linmetrics"
	"pgregory.net/rapid"

	"github.com/lindb/lindb/config"
	"github.com/lindb/lindb/kv"
	"github.com/lindb/lindb/kv/table"
	"github.com/lindb/lindb/kv/version"
	"github.com/lindb/lindb/models"
	"github.com/lindb/lindb/pkg/compress"
	"github.com/lindb/lindb/pkg/queue"
	"github.com/lindb/lindb/pkg/timeutil"
	"github.com/lindb/lindb/replica"
	"github.com/lindb/lindb/tsdb"
	"github.com/lindb/lindb/verifharness/sim/crash"
	"github.com/lindb/lindb/verifharness/sim/ev"
	"github.com/lindb/lindb/verifharness/sim/node"
	"github.com/lindb/lindb/verifharness/sim/qsim"
)

func TestMain(m *testing.M) { ev.Main(m) }

func init() {
	time.Local = time.UTC
	_ = logger.RunningAtomicLevel.UnmarshalText([]byte("fatal"))
}

const (
	nodeID     = models.NodeID(1)
	maxEntries = 24
	// known finding (DESIGN.md D8): a name created after the metadata freeze and before the index
	// freeze of one flush cycle is durable in index+data but in no durable dictionary.
	sigD8 = "C07/name-created-inside-flush-cycle-persisted-with-data"
)

var (
	baseTime = time.Date(2023, 5, 1, 10, 0, 0, 0, time.UTC).UnixMilli()
	dbSeq    atomic.Int64
)

// ---- log entries ------------------------------------------------------------------------------------

// entry i contributes 4^i to the sum field of one fixed slot of the series acc{k=v}: the base-4
// digits of the stored sum tell how many times each entry was applied. It also writes a row of
// its own (metric m<i%3>, tag host=h<i>, field f<i%2>) so that metadata matters.
func entryMetrics(i, ref int) []*protoMetricsV1.Metric {
	// ref == i: the entry introduces its own names (metric/tag key/tag value/field/series);
	// ref < i: the entry writes into the series introduced by entry ref (no new name).
	j := ref
	return []*protoMetricsV1.Metric{
		{
			Name: "acc", Timestamp: baseTime,
			Tags:         []*protoMetricsV1.KeyValue{{Key: "k", Value: "v"}},
			SimpleFields: []*protoMetricsV1.SimpleField{{Name: "s", Type: protoMetricsV1.SimpleFieldType_DELTA_SUM, Value: math.Pow(4, float64(i))}},
		},
		{
			Name: fmt.Sprintf("m%d", j%3), Timestamp: baseTime + int64(i)*10_000,
			Tags:         []*protoMetricsV1.KeyValue{{Key: "host", Value: fmt.Sprintf("h%d", j)}, {Key: fmt.Sprintf("t%d", j%4), Value: "x"}},
			SimpleFields: []*protoMetricsV1.SimpleField{{Name: fmt.Sprintf("f%d", j%2), Type: protoMetricsV1.SimpleFieldType_DELTA_SUM, Value: float64(i + 1)}},
		},
	}
}

// message builds the WAL message of an entry the way the broker does (flat rows, snappy chunk).
func message(i, ref int) ([]byte, error) {
	block, err := node.Block(entryMetrics(i, ref))
	if err != nil {
		return nil, err
	}
	w := compress.NewSnappyWriter()
	if _, err := w.Write(block); err != nil {
		return nil, err
	}
	if err := w.Close(); err != nil {
		return nil, err
	}
	return w.Bytes(), nil
}

// ---- world --------------------------------------------------------------------------------------------

type world struct {
	t        *rapid.T
	dir      string
	db       string
	n        *node.Node
	shard    tsdb.Shard
	family   tsdb.DataFamily
	fq       queue.FanOutQueue
	part     replica.Partition
	walPath  string
	im       *crash.Imager
	ops      []string
	appended int // entries whose WriteLog returned
	applied  int // entries handed to the local replicator
	cycle    int // next sub-step of the current flush cycle: 0 meta, 1 index, 2 family
	// names first applied between the metadata sub-step and the index sub-step of a cycle (D8 shape)
	refs       []int // refs[i] = entry whose names entry i writes into (== i: introduces its own)
	d8Exposed  map[int]bool
	classes    map[string]int
	appendedAt []int // per history op index: number of entries appended before it started
	thorough   bool
	logRemoved bool

	kinds []string // kinds[i] == "" : entry i is a write; else the kind of record the replicator must skip
	// racing inside a flush sub-step (harness-owned interleaving at the table seam)
	subStep  string      // flush sub-step in flight ("" = none)
	race     []racePoint // plan of the sub-step in flight
	raceSeen int         // eligible seam events of the sub-step seen so far
	racing   bool
	// loss windows: positions in im.Points at which a state began in which a wrong acknowledgement /
	// stored sequence would lose entries at a crash (until the next data flush commits)
	raceWindows []int // a replication step ran inside a data flush after the freeze
	skipWindows []int // a record was skipped while earlier applied entries were not flushed
	imageTags   map[int][]string
	flushRanges [][2]int // positions in im.Points of every flush sub-step
}

// appendSpec holds the draws of one append (drawn before the operation which performs it runs).
type appendSpec struct {
	reuse bool
	pick  int
}

// racePoint: at the at-th eligible seam event of a flush sub-step the harness performs len(steps)
// replication steps; a step whose log has nothing pending appends an entry (its spec) first.
type racePoint struct {
	at    int
	steps []appendSpec
}

func (w *world) bad(i int) bool { return i >= 0 && i < len(w.kinds) && w.kinds[i] != "" }

func (w *world) pending() int64 {
	r := replica.VerifReplicator(w.part, nodeID)
	if r == nil {
		return 0
	}
	return r.Pending()
}

func (w *world) logf(format string, args ...any) { w.ops = append(w.ops, fmt.Sprintf(format, args...)) }

func (w *world) fatalf(format string, args ...any) {
	w.t.Helper()
	w.t.Fatalf(format+"\nhistory:\n  %s", append(args, strings.Join(w.ops, "\n  "))...)
}

func (w *world) begin(name string) {
	w.appendedAt = append(w.appendedAt, w.appended)
	w.im.Begin(len(w.appendedAt)-1, name)
}

func (w *world) end() { w.im.End() }

func walDir(cfg config.WAL, db string) string {
	return filepath.Join(cfg.Dir, db, "0", commontimeutil.FormatTimestamp(baseTime, commontimeutil.DataTimeFormat4), strconv.Itoa(int(nodeID)))
}

func drawAppendSpec(t *rapid.T) appendSpec {
	sp := appendSpec{reuse: rapid.Bool().Draw(t, "reuseNames")}
	if sp.reuse {
		sp.pick = rapid.IntRange(0, maxEntries-1).Draw(t, "ref")
	}
	return sp
}

// appendWrite appends the next write entry; opName is the history operation the images belong to.
func (w *world) appendWrite(sp appendSpec, opName, note string) {
	i := w.appended
	ref := i
	if sp.reuse {
		// write into the series of an earlier entry that introduced names
		var owners []int
		for j, r := range w.refs {
			if r == j {
				owners = append(owners, j)
			}
		}
		if len(owners) > 0 {
			ref = owners[sp.pick%len(owners)]
		}
	}
	msg, err := message(i, ref)
	if err != nil {
		w.fatalf("harness: message: %v", err)
	}
	w.logf("%sappendLog entry=%d names-of=%d", note, i, ref)
	w.appendRecord(msg, ref, "", opName)
}

func (w *world) appendRecord(msg []byte, ref int, kind, opName string) {
	i := w.appended
	w.refs = append(w.refs, ref)
	w.kinds = append(w.kinds, kind)
	w.begin(opName)
	err := w.part.WriteLog(msg)
	w.end()
	if err != nil {
		w.fatalf("WriteLog: %v", err)
	}
	w.appended++
	if got := w.fq.Queue().AppendedSeq(); got != int64(w.appended-1) {
		w.fatalf("harness: entry %d got sequence %d", i, got)
	}
}

func (w *world) opAppend() {
	if w.appended >= maxEntries {
		w.t.Skip("log full")
	}
	w.appendWrite(drawAppendSpec(w.t), "appendLog", "")
}

// opAppendSkipped appends a record which carries no write and which the replicator must skip: the
// storage write rpc (app/storage/rpc/write.go) hands req.Record to Partition.WriteLog as received.
//   - garbage:   bytes which are not a snappy stream
//   - torn:      a proper prefix of the record of a real write
//   - zero-rows: a snappy stream which decodes to an empty block
//
// The record is classified by decoding it here; a record which decodes to a non-empty block is not used.
func (w *world) opAppendSkipped() {
	if w.appended >= maxEntries {
		w.t.Skip("log full")
	}
	i := w.appended
	var msg []byte
	shape := rapid.SampledFrom([]string{"garbage", "garbage", "torn", "torn", "zero-rows"}).Draw(w.t, "skippedShape")
	switch shape {
	case "garbage":
		msg = rapid.SliceOfN(rapid.Byte(), 1, 48).Draw(w.t, "garbage")
	case "torn":
		full, err := message(i, i)
		if err != nil {
			w.fatalf("harness: message: %v", err)
		}
		msg = full[:rapid.IntRange(1, len(full)-1).Draw(w.t, "tornAt")]
	default:
		zw := compress.NewSnappyWriter()
		if err := zw.Close(); err != nil {
			w.fatalf("harness: %v", err)
		}
		msg = zw.Bytes()
		if len(msg) == 0 {
			msg = []byte("\xff\x06\x00\x00sNaPpY") // the stream identifier chunk alone
		}
	}
	block, err := compress.NewSnappyReader().Uncompress(msg)
	kind := "undecodable"
	switch {
	case err != nil:
	case len(block) == 0:
		kind = "zero-rows"
	default:
		w.t.Skip("record decodes to a non-empty block")
	}
	w.logf("appendLog entry=%d SKIPPED-RECORD %s/%s (%d bytes)", i, shape, kind, len(msg))
	w.appendRecord(msg, -1, kind, "appendLog")
	w.classes["append-skipped-record-"+kind]++
}

// replicaCore runs one step of the local replicator. inside = flush sub-step the step runs inside
// ("" = between operations). It returns false if the step is excluded by the known finding.
func (w *world) replicaCore(inside string) bool {
	e := w.applied
	newNames := !w.bad(e) && w.refs[e] == e
	// after the freeze of the data flush a new name behaves like one created after the cycle
	exposed := newNames && (inside == "flushMeta" || inside == "flushIndex" || (inside == "" && w.cycle != 0))
	if exposed && ev.Known(sigD8) {
		// known finding: names created after the metadata (or index) freeze of a flush cycle whose
		// data flush then persists the rows and the log sequence
		w.classes["excluded_known"]++
		return false
	}
	r := replica.VerifReplicator(w.part, nodeID)
	ackBefore := r.AckIndex()
	opName := "replicaStep"
	if inside != "" {
		opName = "replicaStep@" + inside
		w.logf("  [inside %s, seam event %d] replicaStep (entry %d)", inside, w.raceSeen-1, e)
	} else {
		w.logf("replicaStep (entry %d)", e)
	}
	w.begin(opName)
	replica.VerifReplicaStep(w.part, nodeID)
	w.end()
	if exposed {
		w.d8Exposed[e] = true
	}
	w.applied++
	switch {
	case inside != "":
		w.classes["replica-step-inside-"+inside]++
		if inside == "flushFamily" {
			w.classes["replica-step-between-memdb-freeze-and-kv-commit"]++
			w.raceWindows = append(w.raceWindows, len(w.im.Points))
		}
	case w.cycle != 0:
		w.classes["write-racing-with-flush-cycle"]++
	}
	if w.bad(e) {
		w.classes["replicator-skips-record"]++
		unflushed := false
		for k := int(ackBefore) + 1; k < e; k++ {
			if !w.bad(k) {
				unflushed = true
			}
		}
		if unflushed {
			// the shape in which an acknowledgement of the skipped record would pass unflushed writes
			w.classes["replicator-skips-record-above-unflushed-writes"]++
			w.skipWindows = append(w.skipWindows, len(w.im.Points))
		} else {
			w.classes["replicator-skips-record-next-to-ack"]++
		}
	}
	return true
}

func (w *world) opReplicaStep() {
	if w.pending() == 0 {
		w.t.Skip("nothing to replicate")
	}
	if !w.replicaCore("") {
		w.t.Skip("excluded: known finding " + sigD8)
	}
}

// opReplicaCatchUp: the replicator (a free running loop in production) handles everything that is pending.
func (w *world) opReplicaCatchUp() {
	if w.pending() == 0 {
		w.t.Skip("nothing to replicate")
	}
	if w.catchUp() == 0 {
		w.t.Skip("excluded: known finding " + sigD8)
	}
	w.classes["replicator-caught-up"]++
}

func (w *world) catchUp() (steps int) {
	for w.pending() > 0 && w.replicaCore("") {
		steps++
	}
	return steps
}

// drawRacePlan draws what the other actors of the node do inside the next flush sub-step.
func drawRacePlan(t *rapid.T) []racePoint {
	n := rapid.SampledFrom([]int{0, 0, 1, 1, 1, 2}).Draw(t, "racePoints")
	var plan []racePoint
	for i := 0; i < n; i++ {
		rp := racePoint{at: rapid.SampledFrom([]int{0, 1, 2, 3, 4, 6, 9, 14, 22, 35, 55}).Draw(t, "raceAt")}
		for k, steps := 0, rapid.IntRange(1, 3).Draw(t, "raceSteps"); k < steps; k++ {
			rp.steps = append(rp.steps, drawAppendSpec(t))
		}
		plan = append(plan, rp)
	}
	return plan
}

// seam is called at every intercepted file-system operation (after the optional image): inside a
// flush sub-step it performs the planned actions of the other actors on the flush job's goroutine.
// Eligible events are the table file operations (create / write / close of the sub-step's table
// files) at which the flush job holds neither the family mutex (probed) nor a kv version lock (the
// manifest operations are not eligible): there a replication step of another goroutine can run to
// completion; where the flush job holds the mutex the other goroutine would just wait for such a point.
func (w *world) seam(op string) {
	if w.racing || w.subStep == "" || len(w.race) == 0 || !strings.HasPrefix(op, "table") {
		return
	}
	if w.subStep == "flushFamily" && !tsdb.VerifFamilyMutexFree(w.family) {
		return
	}
	n := w.raceSeen
	w.raceSeen++
	for _, rp := range w.race {
		if rp.at != n {
			continue
		}
		w.racing = true
		for _, sp := range rp.steps {
			if w.pending() == 0 {
				if w.appended >= maxEntries {
					break
				}
				if w.subStep != "flushFamily" && ev.Known(sigD8) {
					// while the finding is listed a step which introduces names is not taken inside these
					// sub-steps (and would block the steps behind it): the entry writes to existing series
					sp.reuse = true
				}
				w.appendWrite(sp, "appendLog@"+w.subStep, fmt.Sprintf("  [inside %s, seam event %d] ", w.subStep, n))
				w.classes["append-inside-"+w.subStep]++
			}
			w.replicaCore(w.subStep)
		}
		w.racing = false
		w.begin(w.subStep) // the sub-step goes on (new operation index: the number of appended entries moved)
	}
}

// opFlushStep performs the next sub-step of a flush cycle in production order
// (database metadata, shard index, data family), other actions may run between the sub-steps
// and - at the seam events of the plan - inside them.
func (w *world) opFlushStep() {
	var err error
	name := []string{"flushMeta", "flushIndex", "flushFamily"}[w.cycle]
	w.race, w.raceSeen = drawRacePlan(w.t), 0
	w.logf("%s", name)
	from := len(w.im.Points)
	defer func() { w.flushRanges = append(w.flushRanges, [2]int{from, len(w.im.Points)}) }()
	w.begin(name)
	w.subStep = name
	switch w.cycle {
	case 0:
		d, _ := w.n.Engine.GetDatabase(w.db)
		err = d.FlushMeta()
	case 1:
		err = w.shard.FlushIndex()
	case 2:
		err = w.family.Flush()
		w.classes["flush-cycle-completed"]++
	}
	w.subStep = ""
	w.end()
	if len(w.race) > 0 {
		w.classes["flush-substep-with-race-plan"]++
	}
	w.race = nil
	if err != nil {
		w.fatalf("flush sub-step %d: %v", w.cycle, err)
	}
	w.cycle = (w.cycle + 1) % 3
}

func (w *world) opLogGC() {
	w.logf("logGC")
	w.begin("logGC")
	w.fq.Sync()
	w.fq.Queue().GC()
	w.end()
}

// ---- recovery + oracle ------------------------------------------------------------------------------

func digits(sum float64) []int {
	v := uint64(sum)
	out := make([]int, maxEntries+2)
	for i := range out {
		out[i] = int(v % 4)
		v /= 4
	}
	return out
}

func (w *world) recoverImage(p crash.Point) {
	appendedBefore := w.appendedAt[p.OpIdx] // entries whose append had returned when the crash hit
	// 1. what the log says on disk
	cfgWal := config.NewDefaultStorageBase().WAL
	cfgWal.Dir = filepath.Join(p.Dir, "wal")
	fq, err := queue.NewFanOutQueue(walDir(cfgWal, w.db), 0)
	if err != nil {
		w.fatalf("image %s: log cannot be reopened: %v", p, err)
	}
	logApp := fq.Queue().AppendedSeq()
	groupAck := int64(-1)
	for _, name := range fq.ConsumerGroupNames() {
		if name == strconv.Itoa(int(nodeID)) {
			cg, _ := fq.GetOrCreateConsumerGroup(name)
			groupAck = cg.AcknowledgedSeq()
		}
	}
	fq.Close()
	logRemoved := p.FSOp == "logRemoved"
	if logApp < int64(appendedBefore)-1 && !logRemoved {
		w.fatalf("image %s: %d entries had been appended, the recovered log ends at sequence %d", p, appendedBefore, logApp)
	}
	// 2. engine
	n, err := node.Start(p.Dir)
	if err != nil {
		w.fatalf("image %s: engine cannot be reopened: %v", p, err)
	}
	var walMgr replica.WriteAheadLogManager
	defer func() {
		if walMgr != nil {
			walMgr.Stop()
		}
		n.Close()
		if walMgr != nil {
			_ = walMgr.Close()
		}
	}()
	shard, err := n.Shard(w.db, 0)
	if err != nil {
		// the database/shard creation itself may be the operation in flight
		if appendedBefore == 0 {
			return
		}
		w.fatalf("image %s: %v", p, err)
	}
	family, err := shard.GetOrCrateDataFamily(baseTime)
	if err != nil {
		w.fatalf("image %s: data family: %v", p, err)
	}
	persisted := int64(-1)
	snap := family.Family().GetSnapshot()
	if s, ok := snap.GetCurrent().GetSequences()[int32(nodeID)]; ok {
		persisted = s
	}
	snap.Close()
	// the acknowledgement may pass the stored sequence only over records which carry no write (the
	// replicator skips them and acknowledges a skipped record which directly follows the acknowledged position)
	for k := persisted + 1; k <= groupAck; k++ {
		if !w.bad(int(k)) {
			w.fatalf("image %s: the log's acknowledged position %d runs ahead of the sequence %d stored with the flushed data (entry %d is a write which is in no flushed data)", p, groupAck, persisted, k)
		}
	}
	if os.Getenv("C07_DEBUG") != "" {
		c0 := node.NewCluster()
		c0.AddLeaf("leaf:1", n.Engine, "")
		c0.SetLayout(w.db, node.DBOption(timeutil.Interval(10_000)), map[string][]models.ShardID{"leaf:1": {0}})
		for i := 0; i <= int(persisted); i++ {
			if w.bad(i) {
				continue
			}
			q := fmt.Sprintf("select f%d from m%d where host='h%d' and time>='2023-05-01 10:00:00' and time<='2023-05-01 10:59:59'", w.refs[i]%2, w.refs[i]%3, w.refs[i])
			rs0, err0 := c0.Query(w.db, q)
			fmt.Printf("C07DEBUG before replay image=%s entry %d: %v err=%v\n", p, i, node.Canon(rs0), err0)
		}
		c0.Close()
	}
	// 3. production WAL recovery, free running replication drains the log
	cfg := config.GlobalStorageConfig()
	walMgr = replica.NewWriteAheadLogManager(context.Background(), cfg.WAL, nodeID, n.Engine, nil, nil)
	if err := walMgr.Recovery(); err != nil {
		w.fatalf("image %s: WAL recovery: %v", p, err)
	}
	deadline := time.Now().Add(10 * time.Second)
	for {
		st := family.GetState()
		if logApp < 0 || logApp <= groupAck {
			// empty log, or everything acknowledged (the replicator starts behind the acknowledged
			// position; a skipped record next to that position is acknowledged without a family sequence)
			break
		}
		if seq, ok := st.ReplicaSequences[int32(nodeID)]; ok && seq >= logApp {
			break
		}
		if time.Now().After(deadline) {
			w.fatalf("image %s: replay does not finish: family sequence %v, log appended %d (persisted %d, log ack %d)", p, st.ReplicaSequences, logApp, persisted, groupAck)
		}
		time.Sleep(time.Millisecond)
	}
	// 4. read the node through the production query path
	c := node.NewCluster()
	defer c.Close()
	c.AddLeaf("leaf:1", n.Engine, "")
	c.SetLayout(w.db, node.DBOption(timeutil.Interval(10_000)), map[string][]models.ShardID{"leaf:1": {0}})
	tr := "time>='2023-05-01 10:00:00' and time<='2023-05-01 10:59:59'"
	visible := int(logApp) + 1 // entries in the recovered log (a crash inside an append may or may not show it)
	if logRemoved {
		// the log partition was removed by the removal task: every appended entry must be in flushed data
		visible = appendedBefore
		for k := int(persisted) + 1; k < appendedBefore; k++ {
			if !w.bad(k) {
				w.fatalf("image %s: the log partition was removed although entries above the stored sequence %d exist (%d appended, entry %d is a write): they are in no flushed data and cannot be replayed", p, persisted, appendedBefore, k)
			}
		}
	}
	writes := 0
	for i := 0; i < visible; i++ {
		if !w.bad(i) {
			writes++
		}
	}
	if writes == 0 && visible > 0 {
		// only skipped records: the metric does not exist, nothing may have been written
		if rs, err := c.Query(w.db, "select s from acc where "+tr); err == nil {
			if res := node.Canon(rs); len(res) != 0 {
				w.fatalf("image %s: the log holds only records without a write, query acc returns %v", p, res)
			}
		}
	}
	if writes > 0 {
		rs, err := c.Query(w.db, "select s from acc where "+tr)
		if err != nil {
			w.fatalf("image %s: query acc: %v (persisted %d, log appended %d)", p, err, persisted, logApp)
		}
		res := node.Canon(rs)
		sum := res[""]["s"][baseTime]
		d := digits(sum)
		for i := 0; i < visible; i++ {
			if w.bad(i) {
				if d[i] != 0 {
					w.fatalf("image %s: log entry %d carries no write (%s record) but the sum cell shows %d applications of it", p, i, w.kinds[i], d[i])
				}
				continue
			}
			if d[i] == 0 {
				w.fatalf("image %s: log entry %d was appended before the crash but is in no flushed data and was not replayed (persisted sequence %d, log ack %d, sum %v)", p, i, persisted, groupAck, sum)
			}
			if int64(i) <= persisted && d[i] != 1 {
				w.fatalf("image %s: log entry %d (at or below the stored sequence %d) was applied %d times", p, i, persisted, d[i])
			}
		}
		for i := visible; i < len(d) && !logRemoved; i++ {
			if d[i] != 0 {
				w.fatalf("image %s: data of log entry %d is present although the log ends at %d", p, i, logApp)
			}
		}
	}
	if os.Getenv("C07_DEBUG") != "" {
		for i := 0; i < visible; i++ {
			if w.bad(i) {
				continue
			}
			q := fmt.Sprintf("select f%d from m%d where host='h%d' and %s", w.refs[i]%2, w.refs[i]%3, w.refs[i], tr)
			rs0, err0 := c.Query(w.db, q)
			fmt.Printf("C07DEBUG after replay image=%s persisted=%d entry %d: %v err=%v\n", p, persisted, i, node.Canon(rs0), err0)
		}
	}
	// flushed data resolves through the recovered metadata: query by name and tags
	for i := 0; i < visible; i++ {
		if w.bad(i) {
			continue
		}
		j := w.refs[i]
		if (w.d8Exposed[i] || w.d8Exposed[j]) && ev.Known(sigD8) {
			continue
		}
		q := fmt.Sprintf("select f%d from m%d where host='h%d' and %s group by host,t%d", j%2, j%3, j, tr, j%4)
		rs, err := c.Query(w.db, q)
		if err != nil {
			w.fatalf("image %s: entry %d (persisted sequence %d): query %q fails: %v", p, i, persisted, q, err)
		}
		res := node.Canon(rs)
		key := fmt.Sprintf("host=h%d,t%d=x", j, j%4)
		got, ok := res[key][fmt.Sprintf("f%d", j%2)][baseTime+int64(i)*10_000]
		if !ok || got != float64(i+1) {
			dbg := ""
			for _, q2 := range []string{
				fmt.Sprintf("select f%d from m%d where %s", j%2, j%3, tr),
				fmt.Sprintf("select f%d from m%d where %s group by host", j%2, j%3, tr),
				fmt.Sprintf("select f%d from m%d where host='h%d' and %s", j%2, j%3, j, tr),
			} {
				rs2, err2 := c.Query(w.db, q2)
				dbg += fmt.Sprintf("\n   debug %q -> %v err=%v", q2, node.Canon(rs2), err2)
			}
			w.logf("debug:%s", dbg)
			w.fatalf("image %s: entry %d (persisted sequence %d, log ack %d): query %q returns %v, want %s -> %v", p, i, persisted, groupAck, q, res, key, i+1)
		}
	}
	nt := persisted >= 0 && persisted < logApp
	classes := []string{"img-" + p.OpName, "fsop-" + p.FSOp}
	if nt {
		classes = append(classes, "entries-above-and-below-persisted-sequence")
	}
	if groupAck > persisted {
		classes = append(classes, "ack-above-stored-sequence-over-skipped-records-only")
	}
	for k := int(persisted) + 1; k < visible; k++ {
		if w.bad(k) {
			classes = append(classes, "skipped-record-above-stored-sequence")
			break
		}
	}
	classes = append(classes, w.imageTags[p.Seq]...)
	ev.Case("crash-points", strings.Join(w.ops, ";")+"|"+p.String(), nt, classes, nil)
}

func runHistory(t *rapid.T, thorough bool) {
	dir, err := os.MkdirTemp("", "c07-")
	if err != nil {
		t.Fatalf("harness: %v", err)
	}
	w := &world{t: t, dir: filepath.Join(dir, "node"), db: fmt.Sprintf("c07db%d", dbSeq.Add(1)), classes: map[string]int{}, d8Exposed: map[int]bool{}, thorough: thorough, imageTags: map[int][]string{}}
	w.im = &crash.Imager{Root: w.dir, OutDir: filepath.Join(dir, "img")}
	// a crash inside the stream of logical writes of one table file leaves a file no manifest names:
	// one in four of these points is imaged (which ones is drawn), every other point always
	salt := rapid.IntRange(0, 3).Draw(t, "tableWriteImages")
	w.im.Want = func(p crash.Point) bool { return p.FSOp != "tableWrite" || (p.Seq+salt)%4 == 0 }
	hook := func(op, path string, before bool) {
		w.im.Hook(op, path, before)
		w.seam(op)
	}
	kv.VerifSetFSHook(hook)
	version.VerifSetFSHook(hook)
	table.VerifSetFSHook(hook)
	qsim.Install(hook)
	cleanupHooks := func() {
		kv.VerifSetFSHook(nil)
		version.VerifSetFSHook(nil)
		table.VerifSetFSHook(nil)
		qsim.Uninstall()
	}
	liveClosed := false
	closeLive := func() {
		if liveClosed {
			return
		}
		liveClosed = true
		w.im.Active = false
		// production shutdown order (databaseLifecycle.Shutdown): stop replication, close the engine
		// (its final flush acknowledges into the log), then close the log
		if w.part != nil {
			w.part.Stop()
		}
		if w.n != nil {
			func() {
				if w.logRemoved {
					// the final flush of the engine acknowledges into the (closed) log of the removed partition
					debug.SetPanicOnFault(true)
					defer func() { _ = recover() }()
				}
				w.n.Close()
			}()
		}
		if w.part != nil {
			_ = w.part.Close()
		}
	}
	defer func() {
		cleanupHooks()
		closeLive()
		_ = os.RemoveAll(dir)
	}()

	w.n, err = node.Start(w.dir)
	if err != nil {
		t.Fatalf("harness: start: %v", err)
	}
	opt := node.DBOption(timeutil.Interval(10_000))
	w.appendedAt = nil
	w.begin("createDatabase")
	err = w.n.CreateDB(w.db, opt, 0)
	w.end()
	if err != nil {
		t.Fatalf("harness: create db: %v", err)
	}
	w.shard, _ = w.n.Shard(w.db, 0)
	w.family, err = w.shard.GetOrCrateDataFamily(baseTime)
	if err != nil {
		t.Fatalf("harness: family: %v", err)
	}
	w.walPath = walDir(config.GlobalStorageConfig().WAL, w.db)
	w.fq, err = queue.NewFanOutQueue(w.walPath, 0)
	if err != nil {
		t.Fatalf("harness: wal: %v", err)
	}
	w.part = replica.NewPartition(context.Background(), w.shard, w.family, nodeID, w.fq, nil, nil)
	if err := w.part.BuildReplicaForLeader(nodeID, []models.NodeID{nodeID}); err != nil {
		t.Fatalf("harness: build replica: %v", err)
	}

	t.Repeat(map[string]func(*rapid.T){
		"appendLog":      func(t *rapid.T) { w.t = t; w.opAppend() },
		"appendLog2":     func(t *rapid.T) { w.t = t; w.opAppend() },
		"replicaStep":    func(t *rapid.T) { w.t = t; w.opReplicaStep() },
		"replicaStep2":   func(t *rapid.T) { w.t = t; w.opReplicaStep() },
		"replicaCatchUp": func(t *rapid.T) { w.t = t; w.opReplicaCatchUp() },
		"flushStep":      func(t *rapid.T) { w.t = t; w.opFlushStep() },
		"flushStep2":     func(t *rapid.T) { w.t = t; w.opFlushStep() },
		"appendSkipped":  func(t *rapid.T) { w.t = t; w.opAppendSkipped() },
		"logGC":          func(t *rapid.T) { w.t = t; w.opLogGC() },
	})
	w.t = t

	// the periodic log-removal task (WriteAheadLogManager garbage collection): Partition.IsExpire()
	// syncs + collects the log and says whether the partition of this (long past) family may be
	// removed; if so the task stops and closes the partition and removes its directory.
	// Usually the replicator has consumed everything when the task looks at the partition.
	removal := rapid.SampledFrom([]string{"none", "task", "caught-up+task", "caught-up+task"}).Draw(t, "logRemovalTask")
	if removal == "caught-up+task" {
		w.catchUp()
		if w.pending() == 0 {
			w.classes["removal-task-sees-caught-up-replicator"]++
		}
	}
	if removal != "none" {
		w.logf("logRemovalTask")
		w.begin("logRemovalTask")
		if w.part.IsExpire() {
			w.part.Stop()
			_ = w.part.Close()
			_ = os.RemoveAll(w.walPath)
			w.logRemoved = true
			w.logf("  (partition expired: log directory removed)")
			w.im.Hook("logRemoved", w.walPath, false)
			w.classes["log-partition-removed"]++
		}
		w.end()
	}

	// the node dies after the last operation: one image of the idle node
	// (after the removal of the log the image taken there is that image)
	if !w.logRemoved {
		w.begin("endOfHistory")
		w.im.Hook("endOfHistory", w.dir, false)
		w.end()
	}

	// ---- the crash: the live node is not used any more; sampled images are recovered
	pts := w.im.Points
	w.im.Active = false
	cleanupHooks()
	var withDir []int
	for i, p := range pts {
		if p.Dir != "" {
			withDir = append(withDir, i)
		}
	}
	limit := 10
	if thorough {
		limit = 30
	}
	chosen := map[int]bool{}
	tag := func(i int, t string) { w.imageTags[pts[i].Seq] = append(w.imageTags[pts[i].Seq], t) }
	isFlushOp := func(n string) bool { return n == "flushFamily" || n == "flushIndex" || n == "flushMeta" }
	dataCommit := func(i int) bool {
		return pts[i].OpName == "flushFamily" && pts[i].FSOp == "manifestSync" && !pts[i].Before
	}
	if len(withDir) <= limit {
		for _, i := range withDir {
			chosen[i] = true
		}
	} else {
		// the idle node at the end and the removed log
		for _, i := range withDir {
			if pts[i].FSOp == "logRemoved" || pts[i].FSOp == "endOfHistory" {
				chosen[i] = true
			}
		}
		// loss windows: from the commit of a data flush inside which the replicator ran (resp. from a
		// skipped record above unflushed writes) to the next commit of a data flush: the last image
		// of the window and a drawn one
		window := func(start int, fromCommit bool, label string) {
			if fromCommit {
				for start < len(pts) && !dataCommit(start) {
					start++
				}
			}
			end := start + 1
			for end < len(pts) && !dataCommit(end) {
				end++
			}
			if start >= len(pts) {
				return
			}
			last := end - 1
			pick := rapid.IntRange(start, last).Draw(t, "windowImage")
			for _, i := range []int{last, pick} {
				if pts[i].Dir != "" {
					chosen[i] = true
					tag(i, label)
				}
			}
		}
		pickWindows := func(starts []int, fromCommit bool, label string) {
			if len(starts) == 0 {
				return
			}
			window(starts[len(starts)-1], fromCommit, label)
			if len(starts) > 1 {
				window(starts[rapid.IntRange(0, len(starts)-2).Draw(t, "window")], fromCommit, label)
			}
		}
		pickWindows(w.raceWindows, true, "window-after-data-flush-with-replication-inside")
		pickWindows(w.skipWindows, false, "window-after-skipped-record-above-unflushed-writes")
		// prefer the commit boundaries inside flush sub-steps (between two manifest commits of the
		// several kv families one sub-step flushes) and the points of replication steps / log GC
		var hot, boundary []int
		for _, i := range withDir {
			name := pts[i].OpName
			switch {
			case isFlushOp(name):
				if pts[i].FSOp == "manifestSync" && !pts[i].Before {
					boundary = append(boundary, i)
				}
				hot = append(hot, i)
			case strings.HasPrefix(name, "replicaStep"), name == "logGC", strings.HasPrefix(name, "appendLog@"):
				hot = append(hot, i)
			}
		}
		// inner boundaries: after a commit of a sub-step which is followed by another commit of the same sub-step
		var inner []int
		for _, r := range w.flushRanges {
			last := -1
			for i := r[0]; i < r[1] && i < len(pts); i++ {
				if pts[i].FSOp == "manifestSync" && !pts[i].Before && pts[i].Dir != "" {
					if last >= 0 {
						inner = append(inner, last)
					}
					last = i
				}
			}
		}
		for n := 0; n < 3 && len(inner) > 0; n++ {
			i := inner[rapid.IntRange(0, len(inner)-1).Draw(t, "innerBoundaryImage")]
			chosen[i] = true
			tag(i, "between-two-commits-of-one-flush-sub-step")
		}
		for n := 0; n < 2 && len(boundary) > 0; n++ {
			chosen[boundary[rapid.IntRange(0, len(boundary)-1).Draw(t, "boundaryImage")]] = true
		}
		for len(chosen) < limit {
			pool := withDir
			if len(hot) > 0 && rapid.IntRange(0, 3).Draw(t, "hot") != 0 {
				pool = hot
			}
			chosen[pool[rapid.IntRange(0, len(pool)-1).Draw(t, "image")]] = true
		}
	}
	order := make([]int, 0, len(chosen))
	for i := range chosen {
		order = append(order, i)
	}
	sort.Ints(order)
	// the recovered engines share process-wide singletons with the live one: stop using the live node first
	closeLive()
	for _, i := range order {
		w.recoverImage(pts[i])
	}
	w.im.Drop()
	for c, n := range w.classes {
		ev.Class("TestNodeCrashRecovery", c, n)
	}
	ev.Case("TestNodeCrashRecovery", strings.Join(w.ops, ";"), len(order) > 0 && w.classes["flush-cycle-completed"] > 0, nil,
		map[string]any{"history": w.ops, "images_taken": len(withDir), "images_recovered": len(order)})
}

func TestNodeCrashRecovery(t *testing.T) {
	thorough := os.Getenv("VERIF_TIER") == "thorough"
	rapid.Check(t, func(t *rapid.T) { runHistory(t, thorough) })
}

var _ = bytes.Equal

// TestKnown_NameCreatedInsideFlushCycle is the plain reproduction of the known finding
// C07/name-created-inside-flush-cycle-persisted-with-data (DESIGN.md D8): entry 1 introduces new
// names after the metadata freeze of a flush cycle; the data flush of the same cycle persists its
// rows and the log sequence; after a crash the rows do not resolve by name and tags.
func TestKnown_NameCreatedInsideFlushCycle(t *testing.T) {
	ran := false
	rapid.Check(t, func(t *rapid.T) {
		if ran {
			return
		}
		ran = true
		dir, err := os.MkdirTemp("", "c07k-")
		if err != nil {
			t.Fatalf("harness: %v", err)
		}
		defer os.RemoveAll(dir)
		w := &world{t: t, dir: filepath.Join(dir, "node"), db: fmt.Sprintf("c07db%d", dbSeq.Add(1)), classes: map[string]int{}, d8Exposed: map[int]bool{}}
		w.im = &crash.Imager{Root: w.dir, OutDir: filepath.Join(dir, "img")}
		w.n, err = node.Start(w.dir)
		if err != nil {
			t.Fatalf("harness: %v", err)
		}
		if err := w.n.CreateDB(w.db, node.DBOption(timeutil.Interval(10_000)), 0); err != nil {
			t.Fatalf("harness: %v", err)
		}
		w.shard, _ = w.n.Shard(w.db, 0)
		w.family, _ = w.shard.GetOrCrateDataFamily(baseTime)
		w.fq, err = queue.NewFanOutQueue(walDir(config.GlobalStorageConfig().WAL, w.db), 0)
		if err != nil {
			t.Fatalf("harness: %v", err)
		}
		w.part = replica.NewPartition(context.Background(), w.shard, w.family, nodeID, w.fq, nil, nil)
		_ = w.part.BuildReplicaForLeader(nodeID, []models.NodeID{nodeID})
		put := func(i int) {
			msg, _ := message(i, i)
			if err := w.part.WriteLog(msg); err != nil {
				t.Fatalf("harness: %v", err)
			}
			w.refs = append(w.refs, i)
			w.appended++
			replica.VerifReplicaStep(w.part, nodeID)
			w.applied++
		}
		put(0)
		d, _ := w.n.Engine.GetDatabase(w.db)
		if err := d.FlushMeta(); err != nil {
			t.Fatalf("flushMeta: %v", err)
		}
		put(1) // new names after the metadata freeze
		if err := w.shard.FlushIndex(); err != nil {
			t.Fatalf("flushIndex: %v", err)
		}
		if err := w.family.Flush(); err != nil {
			t.Fatalf("flush: %v", err)
		}
		img := filepath.Join(dir, "image")
		if err := crash.CopyTree(w.dir, img); err != nil {
			t.Fatalf("harness: %v", err)
		}
		w.part.Stop()
		w.n.Close()
		_ = w.part.Close()
		// recover the image
		n, err := node.Start(img)
		if err != nil {
			t.Fatalf("recover: %v", err)
		}
		walMgr := replica.NewWriteAheadLogManager(context.Background(), config.GlobalStorageConfig().WAL, nodeID, n.Engine, nil, nil)
		if err := walMgr.Recovery(); err != nil {
			t.Fatalf("wal recovery: %v", err)
		}
		defer func() {
			walMgr.Stop()
			n.Close()
			_ = walMgr.Close()
		}()
		c := node.NewCluster()
		defer c.Close()
		c.AddLeaf("leaf:1", n.Engine, "")
		c.SetLayout(w.db, node.DBOption(timeutil.Interval(10_000)), map[string][]models.ShardID{"leaf:1": {0}})
		rs, err := c.Query(w.db, "select f1 from m1 where host='h1' and time>='2023-05-01 10:00:00' and time<='2023-05-01 10:59:59'")
		res := node.Canon(rs)
		if got, ok := res[""]["f1"][baseTime+10_000]; err == nil && ok && got == 2 {
			return // resolves: the finding does not reproduce
		}
		what := fmt.Sprintf("entry 1 (names created after FlushMeta, rows and sequence persisted by the data flush of the same cycle): after crash recovery `where host='h1'` returns %q err=%v", res.String(), err)
		if ev.Known(sigD8) {
			ev.KnownFinding("C07", sigD8+": "+what)
			return
		}
		t.Fatalf("%s: %s", sigD8, what)
	})
}
