package c07

// Wave 7 (second class): the log of a family on its LEADER has one consumer group per replica - the group of
// the local replicator (acknowledged by the family's data flush) and one group per follower (acknowledged when
// the follower answers that it appended the record). The periodic housekeeping of the write-ahead log
// (WriteAheadLogManager GC task -> Partition.IsExpire -> FanOutQueue.Sync + Queue.GC) moves the truncation
// barrier of the log queue to the SMALLEST acknowledged position of all groups; a reopened consumer group is
// lifted to the queue's barrier. The follower's group is normally far ahead of the local one (a record is
// shipped as soon as it is appended, the family is flushed once in a while - before the family's first flush
// the local group stands at -1), so the barrier must wait for the local group: what only lives in the memory
// database must stay in the log and be replayed after a crash.
//
// The histories get
//   - with two in three a follower (node 7) for the log this node leads: the partition is built with the
//     replicas [1, 7], i.e. with the production remote replicator for node 7 (handshake, replica stream,
//     acknowledgement into its consumer group); the follower behind the stream is a model of a healthy
//     follower (appends the record it expects, answers ack = index; refuses any other index with its
//     last index, as ReplicaHandler + Partition.ReplicaLog do);
//   - the operation followerStep: 1-4 iterations of the partition's replication loop for the follower's
//     replicator (replica.VerifReplicaStep(part, 7)); every page store of its consumer group is a crash point;
//   - logGC (Sync + GC: the housekeeping tick) and the removal task at the end of the history see both
//     groups; a tick at which the follower's group is ahead of the local one opens a loss window (the last
//     and one drawn image up to the next data flush commit are always recovered).
//
// Oracle (every image): additionally the truncation barrier of the log queue itself (Queue.AcknowledgedSeq)
// must not be ahead of the sequence stored with the flushed data, beyond it only over records without a write.
//
// On a recovered image the follower is not reachable; the partitions are held (NewPartitionFn seam) and the
// harness runs the steps of the local replicators only - the production loop serves all replicators of a
// partition on ONE goroutine and waits inside Consume of a caught-up follower group until new data arrives
// (liveness of the replay with a caught-up follower is not part of C07).

import (
	"context"
	"errors"
	"fmt"
	"path/filepath"
	"runtime/debug"
	"testing"

	"google.golang.org/grpc"
	"pgregory.net/rapid"

	"github.com/lindb/lindb/coordinator/storage"
	"github.com/lindb/lindb/models"
	"github.com/lindb/lindb/pkg/queue"
	protoReplicaV1 "github.com/lindb/lindb/proto/gen/v1/replica"
	"github.com/lindb/lindb/replica"
	"github.com/lindb/lindb/rpc"
	"github.com/lindb/lindb/tsdb"
)

const followerID = models.NodeID(7)

// followerModel is the follower of the log this node leads: what it holds of that log.
type followerModel struct {
	last     int64 // index of the last record it appended (-1: none)
	accepted int
	refused  int
}

// flwStateMgr: the follower is a live node of the cluster.
type flwStateMgr struct{ storage.StateManager }

func (flwStateMgr) GetLiveNode(id models.NodeID) (models.StatefulNode, bool) {
	return models.StatefulNode{ID: id, StatelessNode: models.StatelessNode{HostIP: fmt.Sprintf("follower-%d", id), GRPCPort: uint16(id)}}, true
}

func (flwStateMgr) WatchNodeStateChangeEvent(models.NodeID, func(models.NodeStateType)) {}

// flwCliFct hands out the connection to the follower (w == nil: the follower cannot be reached).
type flwCliFct struct {
	rpc.ClientStreamFactory
	w *world
}

func (c *flwCliFct) CreateReplicaServiceClient(models.Node) (protoReplicaV1.ReplicaServiceClient, error) {
	if c.w == nil || c.w.flw == nil {
		return nil, errors.New("connection refused")
	}
	return &flwClient{m: c.w.flw}, nil
}

type flwClient struct{ m *followerModel }

func (c *flwClient) Reset(_ context.Context, in *protoReplicaV1.ResetIndexRequest, _ ...grpc.CallOption) (*protoReplicaV1.ResetIndexResponse, error) {
	c.m.last = in.AppendIndex - 1
	return &protoReplicaV1.ResetIndexResponse{}, nil
}

func (c *flwClient) GetReplicaAckIndex(context.Context, *protoReplicaV1.GetReplicaAckIndexRequest, ...grpc.CallOption) (*protoReplicaV1.GetReplicaAckIndexResponse, error) {
	return &protoReplicaV1.GetReplicaAckIndexResponse{AckIndex: c.m.last}, nil
}

func (c *flwClient) Replica(context.Context, ...grpc.CallOption) (protoReplicaV1.ReplicaService_ReplicaClient, error) {
	return &flwStream{m: c.m}, nil
}

// flwStream is the replica stream: one response per request.
type flwStream struct {
	grpc.ClientStream
	m    *followerModel
	resp *protoReplicaV1.ReplicaResponse
}

func (s *flwStream) Send(req *protoReplicaV1.ReplicaRequest) error {
	s.resp = &protoReplicaV1.ReplicaResponse{ReplicaIndex: req.ReplicaIndex}
	if req.ReplicaIndex == s.m.last+1 {
		s.m.last++
		s.m.accepted++
		s.resp.AckIndex = req.ReplicaIndex
	} else {
		s.m.refused++
		s.resp.AckIndex = s.m.last
		s.resp.Err = "replica index not match"
	}
	return nil
}

func (s *flwStream) Recv() (*protoReplicaV1.ReplicaResponse, error) {
	if s.resp == nil {
		return nil, errors.New("no request")
	}
	r := s.resp
	s.resp = nil
	return r, nil
}

func (s *flwStream) CloseSend() error { return nil }

// replicasOf: the replicas of the log which this node leads.
func (w *world) replicasOf() []models.NodeID {
	if w.flw != nil {
		return []models.NodeID{nodeID, followerID}
	}
	return []models.NodeID{nodeID}
}

// ownLog returns the log this node leads if it has a follower and is open.
func (w *world) ownLogWithFollower() *logSt {
	if w.flw == nil {
		return nil
	}
	for _, lg := range w.logs {
		if lg != nil && lg.leader == nodeID && lg.removedSeq < 0 {
			return lg
		}
	}
	return nil
}

// opFollowerStep: the replication loop of the partition serves the replicator of the follower.
func (w *world) opFollowerStep() {
	lg := w.ownLogWithFollower()
	if lg == nil {
		w.t.Skip("no log with a follower")
	}
	r := replica.VerifReplicator(lg.part, followerID)
	if r == nil || r.Pending() <= 0 {
		w.t.Skip("nothing to ship to the follower")
	}
	steps := rapid.IntRange(1, 4).Draw(w.t, "followerSteps")
	before := r.AckIndex()
	w.begin("followerStep")
	n := 0
	for ; n < steps && r.Pending() > 0; n++ {
		replica.VerifReplicaStep(lg.part, followerID)
	}
	w.end()
	w.logf("followerStep x%d log of leader %d: follower %d holds up to %d, its group is acknowledged up to %d (was %d)", n, lg.leader, followerID, w.flw.last, r.AckIndex(), before)
	w.classes["follower-step"]++
	if r.AckIndex() > before {
		w.classes["follower-group-acknowledged"]++
	}
	if local := w.replicator(lg); local != nil && r.AckIndex() > local.AckIndex() {
		w.classes["follower-group-ahead-of-local-group"]++
	}
	if w.flw.refused > 0 {
		w.fatalf("the leader of an intact log sent %d records with an index which a healthy follower (holds up to %d) does not expect", w.flw.refused, w.flw.last)
	}
}

// noteLogTick: the housekeeping tick (Sync + GC) ran on the log; from = position in im.Points before it.
func (w *world) noteLogTick(lg *logSt, from int) {
	if w.flw == nil || lg.leader != nodeID {
		return
	}
	r, local := replica.VerifReplicator(lg.part, followerID), w.replicator(lg)
	if r == nil || local == nil {
		return
	}
	w.classes["log-housekeeping-tick-on-log-with-follower-group"]++
	if r.AckIndex() > local.AckIndex() {
		// the shape in which a barrier computed from the wrong group(s) passes entries which only live in memory
		w.classes["log-housekeeping-tick-with-follower-group-ahead-of-local-group"]++
		if local.AckIndex() < 0 {
			w.classes["log-housekeeping-tick-before-first-local-ack-with-follower-acknowledged"]++
		}
		w.gcWindows = append(w.gcWindows, from)
	}
}

// recoveryCliFct: on a recovered image the follower cannot be reached.
func recoveryCliFct() rpc.ClientStreamFactory { return &flwCliFct{} }

// holdPartitions makes the write-ahead log of a recovered node create partitions whose replication loops
// are not started; the returned function runs the steps of the local replicators until nothing is pending.
func (w *world) holdPartitions() (drain func(limit int) bool, release func()) {
	var held []replica.Partition
	replica.NewPartitionFn = func(ctx context.Context, shard tsdb.Shard, family tsdb.DataFamily, currentNodeID models.NodeID,
		log queue.FanOutQueue, cliFct rpc.ClientStreamFactory, stateMgr storage.StateManager,
	) replica.Partition {
		part := replica.NewPartition(ctx, shard, family, currentNodeID, log, cliFct, stateMgr)
		held = append(held, part)
		return &heldPartition{Partition: part}
	}
	drain = func(limit int) bool {
		for k := 0; k < limit; k++ {
			stepped := false
			for _, part := range held {
				if r := replica.VerifReplicator(part, nodeID); r != nil && r.Pending() > 0 {
					replica.VerifReplicaStep(part, nodeID)
					stepped = true
				}
			}
			if !stepped {
				return true
			}
		}
		return false
	}
	return drain, func() { replica.NewPartitionFn = replica.NewPartition }
}

// TestRegression_FlushAfterRemovalTaskClosedAnAcknowledgedLog is an OBSERVATION (it only logs; C07 quantifies
// over node deaths, it does not forbid them): a family with the logs of two leaders (failover inside the
// family window). Log 1 is flushed and acknowledged, log 2 still has an applied, unflushed entry. The
// write-ahead-log GC task finds every consumer group of log 1 empty: the partition is expired, it is stopped,
// closed and its directory removed (replica/wal.go destroy). The data family keeps the acknowledge callback
// which the local replicator of log 1 registered (DataFamily.AckSequence has no counterpart which removes it);
// the next data flush of the family (periodic job, or the final one of a graceful shutdown) calls it with the
// unchanged sequence of leader 1, consumerGroup.Ack accepts ack == last ack and stores into the unmapped meta
// page: SIGSEGV, the storage node dies inside the flush (before the acknowledgement of log 2, so nothing is
// lost: log 2 is replayed). The same happens when the task only stops the caught-up local replicator of a log
// which stays because its follower group still has data (Partition.IsExpire -> stopReplicator).
// Proposed fix: proposed_fix_ack_into_closed_consumer_group.diff (Ack of a closed group is a no-op).
func TestRegression_FlushAfterRemovalTaskClosedAnAcknowledgedLog(t *testing.T) {
	dir := t.TempDir()
	p := startPlainNode(t, filepath.Join(dir, "node"), nodeID, 2)
	p.put(nodeID, 0, 0)
	replica.VerifReplicaStep(p.parts[nodeID], nodeID)
	if err := p.n.FlushDB(p.db); err != nil {
		t.Fatalf("harness: flush: %v", err)
	}
	p.put(2, 0, 1)
	replica.VerifReplicaStep(p.parts[2], nodeID)
	if !p.parts[nodeID].IsExpire() {
		t.Logf("the flushed and acknowledged log of leader 1 is not expired: the observation does not reproduce")
		p.crash(filepath.Join(dir, "image"))
		return
	}
	// what writeAheadLog.destroy does with an expired partition
	p.parts[nodeID].Stop()
	_ = p.parts[nodeID].Close()
	died := func() (r any) {
		debug.SetPanicOnFault(true)
		defer func() { r = recover() }()
		_ = p.family.Flush()
		return nil
	}()
	if died != nil {
		t.Logf("OBSERVATION (not asserted): data flush of a family after the log GC task closed the acknowledged log of another leader: the acknowledge callback stores into the unmapped consumer-group page, the process would die with: %v", died)
	} else {
		t.Logf("the data flush after the removal of the acknowledged log completes: the observation does not reproduce")
	}
	func() {
		defer func() { _ = recover() }()
		p.crash(filepath.Join(dir, "image"))
	}()
}
