package c07

// Wave 7: the graceful shutdown of the storage node as an operation of the histories, with and without
// an I/O fault.
//
// A storage node which is stopped (app/storage/database_lifecycle.go Shutdown) runs
//
//	walMgr.Stop()    every log partition stops its replicators
//	engine.Close()   per database: final metadata flush, memMetaDB.Close, shard.FlushIndex (error only logged),
//	                 metaDB.Close, then shard.Close = final index flush (again), index worker + index store
//	                 closed, segments closed = dataFamily.Close of every family: the immutable and the mutable
//	                 memory database are flushed, each with the replica sequences in the same manifest record,
//	                 and the acknowledge callbacks of the local replicators run (consumer group ack + msync)
//	walMgr.Close()   the log queues are closed
//
// This is a second way (next to the periodic flush job) in which family data + log sequence become durable
// and the log is acknowledged, with its own code for the order "metadata before index before data" and for
// what happens when a step fails: every `return err` of database.Close / shard.Close / dataFamily.Close is
// what keeps rows from being acknowledged whose names or series are in no durable store.
//
// The histories get
//   - the terminal operation "shutdown": instead of dying after its last operation the node is stopped in
//     the production order while every kv file-system operation and every page store is a crash point as
//     before (a crash INSIDE the shutdown), and what the stopped process leaves behind is one more image
//     ("afterShutdown", always recovered). One I/O fault may be drawn for the shutdown: the at-th operation
//     of a kind (tableCreate | tableWrite | tableClose | manifestWrite | any of them) on the files of one
//     store (metadata store | shard index store | data family store | any) fails - once, or (the disk does
//     not heal while the node stops: ENOSPC, EIO of a dying device) from then on every such operation.
//   - in the continuation of every recovered image the step "restart" may stop the recovered node with such
//     a fault; the next generation is started on a copy of what the stopped process left (a real restart is a
//     new process: no store object, file lock or family of the half-closed engine survives) and replays the
//     log again. Rows written after the recovery reach the family without a log (DataFamily.WriteRows), so
//     those not yet flushed when a faulty shutdown begins may be lost and are only "may" rows afterwards.
//
// The oracle is the one of every other image: per log ack <= sequence stored with the flushed data (beyond
// it only over records without a write), every entry of the recovered log applied >= 1 times, entries at or
// below the stored sequence exactly once, every entry's row resolvable by metric name + tag filter +
// group-by, the sum cell unchanged by a restart.

import (
	"fmt"
	"os"
	"path/filepath"
	"strings"
	"testing"

	"pgregory.net/rapid"

	"github.com/lindb/lindb/models"
	"github.com/lindb/lindb/replica"
	"github.com/lindb/lindb/tsdb"
	"github.com/lindb/lindb/verifharness/sim/crash"
	"github.com/lindb/lindb/verifharness/sim/ev"
	"github.com/lindb/lindb/verifharness/sim/node"
)

// sdPlan is the I/O fault of one graceful shutdown.
//
// Which of the stores of the database (metadata store, shard index store, data family store) a shutdown
// writes to depends on what the node holds in memory when it is stopped; the plan therefore names the store
// by the order in which the shutdown reaches the stores: the n-th store it writes to (0 = any store).
type sdPlan struct {
	nth        int    // the fault hits the files of the n-th store the shutdown writes to (1..3); 0 = of any store
	op         string // tableCreate | tableWrite | tableClose | manifestWrite; "" = any of them
	at         int    // the at-th such operation fails
	persistent bool   // and every later one too
}

func (p *sdPlan) String() string {
	if p == nil {
		return "no I/O fault"
	}
	store := []string{"any store", "the first store the shutdown writes to", "the second store the shutdown writes to", "the third store the shutdown writes to"}[p.nth]
	op := p.op
	if op == "" {
		op = "table/manifest operation"
	}
	if p.persistent {
		return fmt.Sprintf("I/O fault: %s #%d of %s and every later one fail", op, p.at, store)
	}
	return fmt.Sprintf("I/O fault: %s #%d of %s fails", op, p.at, store)
}

// shallow: the shutdown of a restart after the recovery usually has little to write (early operations, first stores).
func drawShutdownPlan(t *rapid.T, percent int, shallow bool) *sdPlan {
	if percent <= 0 || rapid.IntRange(0, 99).Draw(t, "shutdownFault") >= percent {
		return nil
	}
	if shallow {
		return &sdPlan{
			nth:        rapid.SampledFrom([]int{0, 0, 1, 1, 1, 2, 2, 3}).Draw(t, "shutdownFaultStore"),
			op:         rapid.SampledFrom([]string{"tableCreate", "tableWrite", "tableClose", "manifestWrite", "manifestWrite", "", ""}).Draw(t, "shutdownFaultOp"),
			at:         rapid.SampledFrom([]int{0, 0, 0, 0, 1, 1, 2}).Draw(t, "shutdownFaultAt"),
			persistent: rapid.IntRange(0, 2).Draw(t, "shutdownFaultPersistent") != 0,
		}
	}
	p := &sdPlan{
		nth:        rapid.SampledFrom([]int{0, 0, 1, 1, 1, 2, 2, 3}).Draw(t, "shutdownFaultStore"),
		op:         rapid.SampledFrom([]string{"tableCreate", "tableWrite", "tableClose", "manifestWrite", "manifestWrite", ""}).Draw(t, "shutdownFaultOp"),
		persistent: rapid.IntRange(0, 2).Draw(t, "shutdownFaultPersistent") != 0,
	}
	if p.op == "tableWrite" || p.op == "" {
		p.at = rapid.SampledFrom([]int{0, 0, 1, 2, 3, 5, 8, 13}).Draw(t, "shutdownFaultAt")
	} else {
		// a store flushes up to four kv families one after the other
		p.at = rapid.SampledFrom([]int{0, 0, 0, 1, 1, 2, 3}).Draw(t, "shutdownFaultAt")
	}
	return p
}

// sdState is a shutdown in flight.
type sdState struct {
	plan    *sdPlan
	root    string // data directory of the database the stopping node works on
	active  bool
	seen    int            // operations seen which the plan selects
	fired   int            // operations failed
	first   string         // store/op of the first failed operation
	firedAt int            // len(im.Points) when the first operation failed (-1: none)
	ops     map[string]int // store -> table/manifest operations of the shutdown
	order   []string       // the stores in the order in which the shutdown wrote to them first
	failed  map[string]int // store -> failed operations
	where   string         // "history" or "after-recovery"
	classes []string
}

// storeOf tells which store of the database below root an intercepted kv operation works on.
func storeOf(root, path string) string {
	rel := strings.TrimPrefix(path, root)
	switch {
	case rel == path:
		return ""
	case strings.HasPrefix(rel, "/meta/"):
		return "flushMeta"
	case strings.Contains(rel, "/index/"):
		return "flushIndex"
	case strings.Contains(rel, "/segment/"):
		return "flushFamily"
	}
	return ""
}

// shutdownFault is asked once for every table-file / manifest-record operation while a node stops.
func (w *world) shutdownFault(op, path string) error {
	sd := w.sd
	store := storeOf(sd.root, path)
	if store == "" {
		return nil
	}
	if sd.ops[store] == 0 {
		sd.order = append(sd.order, store)
	}
	sd.ops[store]++
	p := sd.plan
	if p == nil || (p.nth > 0 && (len(sd.order) < p.nth || sd.order[p.nth-1] != store)) || (p.op != "" && p.op != op) {
		return nil
	}
	n := sd.seen
	sd.seen++
	if n < p.at || (n > p.at && !p.persistent) {
		return nil
	}
	sd.fired++
	sd.failed[store]++
	if sd.fired == 1 {
		sd.first = strings.TrimPrefix(store, "flush") + "-" + op
		sd.firedAt = len(w.im.Points)
		w.logf("  [inside shutdown] I/O FAULT: %s on the %s store fails (%s)", op, strings.TrimPrefix(store, "flush"), p)
	}
	return errInjected
}

// familyBacklog describes what the family holds in memory: rows which are not in flushed data, and whether a
// failed flush has left an immutable memory database.
func familyBacklog(st models.DataFamilyState) (unflushed, immutable bool) {
	for _, m := range st.MemoryDatabases {
		if m.NumOfSeries > 0 {
			unflushed = true
		}
		if m.State == "immutable" {
			immutable = true
		}
	}
	return unflushed, immutable
}

// beforeShutdown: the usual state of a live node which is told to stop - writes arrived until now (one more
// entry with names of its own), its replicators have consumed what was appended.
// A flush cycle whose sub-steps the harness was running is abandoned here (the flush checker is stopped); the
// shutdown flushes metadata, index and data in this order itself, so names created from now on are not
// created "inside a flush cycle whose data flush follows" (known finding D8): the cycle state is reset.
func (w *world) beforeShutdown(t *rapid.T) {
	w.cycleAtShutdown, w.cycle = w.cycle, 0
	names := func() {
		if len(w.entries) < maxEntries {
			w.appendWrite(appendSpec{log: rapid.IntRange(0, 5).Draw(t, "log")}, "appendLog", "")
			w.classes["shutdown-after-entry-with-new-names"]++
		}
	}
	choices := []string{"", "catchUp", "names+catchUp", "names+catchUp"}
	if w.profile != "compaction" {
		choices = append(choices, "failedDataFlush")
	}
	switch rapid.SampledFrom(choices).Draw(t, "beforeShutdown") {
	case "failedDataFlush":
		// the reason why a node is stopped may be its disk: the last flush job of the database has failed in the
		// data flush (the family keeps the immutable memory database), writes went on (a mutable one on top)
		names()
		w.catchUp()
		w.failingDataFlushJob(t)
		names()
		w.catchUp()
	case "names+catchUp":
		names()
		fallthrough
	case "catchUp":
		if w.catchUp() > 0 {
			w.classes["shutdown-after-replicator-catch-up"]++
		}
	}
}

// failingDataFlushJob: one flush job of the database (production order) whose data flush fails at its first
// table-file / manifest operation of a drawn kind.
func (w *world) failingDataFlushJob(t *rapid.T) {
	w.plans = map[string][]racePoint{}
	w.fault = &faultPlan{step: "flushFamily", op: rapid.SampledFrom([]string{"tableCreate", "tableWrite", "tableClose", "manifestWrite"}).Draw(t, "faultOp")}
	w.faultSeen, w.faultFired = 0, ""
	w.logf("flushJob (dataFlushChecker.doFlush) whose data flush fails")
	d, _ := w.n.Engine.GetDatabase(w.db)
	w.begin("flushJob")
	w.cycleOp = true
	err := tsdb.VerifFlushDatabaseSync(d)
	w.cycleOp = false
	w.leaveSubStep()
	w.subStep, w.race, w.fault, w.plans = "", nil, nil, nil
	w.end()
	if err != nil {
		w.fatalf("harness: flush job: %v", err)
	}
	w.classes["production-flush-job"]++
	if w.faultFired != "" {
		w.classes["production-flush-job-with-fault"]++
		w.classes["shutdown-after-flush-job-whose-data-flush-failed"]++
	}
}

// opShutdown stops the live node the way a storage node is stopped. Every file-system operation of the
// shutdown is a crash point; what the stopped process leaves is the image "afterShutdown".
func (w *world) opShutdown(plan *sdPlan) {
	sd := &sdState{plan: plan, root: filepath.Join(w.dir, "data", w.db), active: true, firedAt: -1, ops: map[string]int{}, failed: map[string]int{}, where: "history"}
	w.logf("shutdown (walMgr.Stop, engine.Close, walMgr.Close); %s", plan)
	// what the node holds when it is told to stop
	unflushed, immutable := familyBacklog(w.family.GetState())
	if os.Getenv("C07_DEBUG_SHUTDOWN") != "" {
		fmt.Fprintf(os.Stderr, "SHUTDOWN-STATE %+v\n   %s\n", w.family.GetState(), strings.Join(w.ops, "\n   "))
	}
	if unflushed {
		sd.classes = append(sd.classes, "shutdown-with-applied-entries-not-in-flushed-data")
	}
	if immutable {
		sd.classes = append(sd.classes, "shutdown-with-immutable-memdb-left-by-a-failed-flush")
	}
	if len(w.pendingLogs()) > 0 {
		sd.classes = append(sd.classes, "shutdown-with-records-not-yet-replicated")
	}
	if w.cycleAtShutdown != 0 {
		sd.classes = append(sd.classes, "shutdown-inside-flush-cycle-after-"+[]string{"", "flushMeta", "flushIndex"}[w.cycleAtShutdown])
	}
	for s := range w.stale {
		sd.classes = append(sd.classes, "shutdown-after-failed-"+s+"-without-a-later-successful-one")
	}
	newMeta, newIndex := 0, 0
	for _, e := range w.book.elems {
		if e.flush < 0 {
			switch e.store {
			case "meta":
				newMeta++
			case "index":
				newIndex++
			}
		}
	}
	if newMeta > 0 {
		sd.classes = append(sd.classes, "shutdown-with-names-in-no-flushed-dictionary")
	}
	if newIndex > 0 {
		sd.classes = append(sd.classes, "shutdown-with-series-in-no-flushed-index")
	}
	opened := 0
	for _, lg := range w.logs {
		if lg != nil {
			opened++
		}
	}
	sd.classes = append(sd.classes, fmt.Sprintf("shutdown-of-node-with-%d-logs", opened))

	w.sd = sd
	w.begin("shutdown")
	for _, lg := range w.logs {
		if lg != nil {
			lg.part.Stop()
		}
	}
	w.n.Close()
	for _, lg := range w.logs {
		if lg != nil {
			_ = lg.part.Close()
		}
	}
	sd.active = false
	// the process exits
	w.im.Hook("afterShutdown", w.dir, false)
	w.end()
	w.finishShutdown(sd, unflushed || len(w.pendingLogs()) > 0 || newMeta+newIndex > 0)
	if n := len(w.im.Points); n > 0 {
		seq := w.im.Points[n-1].Seq
		w.imageTags[seq] = append(w.imageTags[seq], "after-shutdown-fault-"+w.faultOutcome(sd))
	}
}

func (w *world) faultOutcome(sd *sdState) string {
	switch {
	case sd.plan == nil:
		return "none"
	case sd.fired == 0:
		return "planned-but-not-reached"
	}
	op := sd.plan.op
	if op == "" {
		op = "anyOp"
	}
	// the store of the first failed operation
	return sd.first[:strings.Index(sd.first, "-")] + "-" + op + map[bool]string{true: "-persistent", false: "-once"}[sd.plan.persistent]
}

// finishShutdown records the shutdown as a case of the group "shutdowns".
func (w *world) finishShutdown(sd *sdState, hadWork bool) {
	out := w.faultOutcome(sd)
	sd.classes = append(sd.classes, "shutdown-"+sd.where, "shutdown-fault-"+out)
	if sd.fired > 0 {
		sd.classes = append(sd.classes, "shutdown-first-failed-operation-"+sd.first)
		if sd.fired > 1 {
			sd.classes = append(sd.classes, "shutdown-with-several-failed-operations")
		}
		w.logf("  (%d operations failed during the shutdown: %v of %v table/manifest operations per store)", sd.fired, sd.failed, sd.ops)
	} else if sd.plan != nil {
		w.logf("  (the planned operation was not reached: %v table/manifest operations per store)", sd.ops)
	}
	for s, n := range sd.ops {
		if n > 0 {
			sd.classes = append(sd.classes, "shutdown-writes-"+strings.TrimPrefix(s, "flush")+"-store")
		}
	}
	for _, c := range sd.classes {
		w.classes[c]++
	}
	if os.Getenv("C07_DEBUG_SHUTDOWN") != "" {
		fmt.Fprintf(os.Stderr, "SHUTDOWN %s plan=%s fired=%d order=%v ops=%v classes=%v\n", sd.where, sd.plan, sd.fired, sd.order, sd.ops, sd.classes)
	}
	w.shutdowns++
	ev.Case("shutdowns", fmt.Sprintf("%s|%d|%s", strings.Join(w.ops, ";"), w.shutdowns, sd.plan), sd.fired > 0 && hadWork, uniq(sd.classes),
		map[string]any{"where": sd.where, "fault": sd.plan.String(), "failed_operations": sd.fired, "operations_per_store": sd.ops})
}

// shutdownImages picks the crash points inside the shutdown which are recovered: one drawn point behind the
// first failed operation, the last point after a manifest commit (the data family's commit is followed by
// the log acknowledgement), one drawn point anywhere.
func (w *world) shutdownImages(t *rapid.T, pts []crash.Point, chosen map[int]bool, tag func(int, string)) {
	var inside, behind, commits []int
	for i, p := range pts {
		if p.OpName != "shutdown" || p.Dir == "" || p.FSOp == "afterShutdown" {
			continue
		}
		inside = append(inside, i)
		if w.sdFiredAt >= 0 && i >= w.sdFiredAt {
			behind = append(behind, i)
		}
		if p.FSOp == "manifestSync" && !p.Before {
			commits = append(commits, i)
		}
	}
	pick := func(pool []int, label, tg string) {
		if len(pool) == 0 {
			return
		}
		i := pool[rapid.IntRange(0, len(pool)-1).Draw(t, label)]
		chosen[i] = true
		tag(i, tg)
	}
	pick(behind, "imageBehindShutdownFault", "crash-inside-shutdown-behind-the-failed-operation")
	if len(commits) > 0 {
		i := commits[len(commits)-1]
		chosen[i] = true
		tag(i, "crash-inside-shutdown-after-the-last-commit")
	}
	pick(inside, "imageInsideShutdown", "crash-inside-shutdown")
}

// shutdownImageClasses: what the stopped node left behind.
func (w *world) shutdownImageClasses(p crash.Point, imgs []*logImage) (classes []string) {
	if p.FSOp != "afterShutdown" {
		return nil
	}
	toReplay := false
	for _, im := range imgs {
		if im.present && im.logApp > im.groupAck && im.logApp > im.persisted {
			toReplay = true
		}
	}
	if toReplay {
		return []string{"stopped-node-leaves-records-to-replay"}
	}
	return []string{"stopped-node-leaves-nothing-to-replay"}
}

// ---- after the recovery: restart with an I/O fault in the shutdown ---------------------------------------

// stopRecoveredWithFault stops the recovered node in the production order while the plan's operations fail,
// and copies what the stopped process leaves into a new directory on which the next generation starts.
func (w *world) stopRecoveredWithFault(env *postEnv, plan *sdPlan, n **node.Node, walMgr *replica.WriteAheadLogManager, unflushedRows int) {
	sd := &sdState{plan: plan, root: env.root, active: true, firedAt: -1, ops: map[string]int{}, failed: map[string]int{}, where: "after-recovery"}
	if shard, err := (*n).Shard(w.db, 0); err == nil {
		if family, err := shard.GetOrCrateDataFamily(baseTime); err == nil {
			unflushed, immutable := familyBacklog(family.GetState())
			if unflushed {
				sd.classes = append(sd.classes, "shutdown-with-applied-entries-not-in-flushed-data")
			}
			if immutable {
				sd.classes = append(sd.classes, "shutdown-with-immutable-memdb-left-by-a-failed-flush")
			}
		}
	}
	if unflushedRows > 0 {
		sd.classes = append(sd.classes, "shutdown-with-unlogged-rows-not-in-flushed-data")
	}
	w.sd = sd
	(*walMgr).Stop()
	(*n).Close()
	_ = (*walMgr).Close()
	*walMgr = nil
	sd.active = false
	w.sd = nil
	w.finishShutdown(sd, true)
	next := fmt.Sprintf("%s-g%d", env.p.Dir, len(w.genDirs)+1)
	if err := crash.CopyTree(env.dir, next); err != nil {
		w.fatalf("harness: copy of the stopped node: %v", err)
	}
	w.genDirs = append(w.genDirs, next)
	env.dir, env.root = next, filepath.Join(next, "data", w.db)
}

// shutdownOdds: how often (percent) a history ends with a graceful shutdown, how often that shutdown gets an
// I/O fault, and how often the shutdown of a restart after the recovery gets one.
func (w *world) shutdownOdds() (shutdown, fault, restartFault int) {
	switch w.profile {
	case "shutdown":
		return 100, 80, 50
	case "compaction":
		return 25, 0, 0 // histories of the compaction profile have no I/O faults
	}
	return 30, 60, 30
}

// TestShutdownRecovery: the same histories, crash points and oracle; every history ends with the graceful
// shutdown of the node (four in five with an I/O fault), fewer of the crash points before the shutdown are
// recovered, and every other restart of a recovered node has an I/O fault in its shutdown.
func TestShutdownRecovery(t *testing.T) {
	thorough := os.Getenv("VERIF_TIER") == "thorough"
	rapid.Check(t, func(t *rapid.T) { runHistory(t, thorough, "TestShutdownRecovery", "shutdown") })
}
