package c05

import (
	"fmt"
	"path/filepath"
	"strings"
	"sync"
	"time"

	"pgregory.net/rapid"

	"github.com/lindb/lindb/pkg/queue"
	"github.com/lindb/lindb/pkg/queue/page"
	"github.com/lindb/lindb/verifharness/sim/qsim"
)

// ---- seams at the page factories ---------------------------------------------------------------
//
// GC() works on the page factories without holding the queue lock. The calls it makes there are
// the points at which another actor (an appender, the consumer that acknowledges, a reader) can
// run in production:
//
//	point 1  index factory GetPage      - the acknowledged sequence has been read
//	point 2  data factory TruncatePages - the index entry of that sequence has been read
//	point 3  index factory TruncatePages - the data pages are truncated, the index pages not yet
//
// The harness owns these points: while GC sits at one of them it runs a generated script of
// appends / acknowledgements / reads to completion (in a second goroutine it waits for, so the
// schedule is deterministic; should an implementation hold a lock there the script simply
// finishes after GC, like a blocked goroutine would).

const maxFills = 3 // appends of about one data page (128 MiB of tmpfs each) per history

const seamIdle = 60 * time.Millisecond // see opGCInterleaved

type seamFactory struct {
	page.Factory
	kind     string // data | index | meta
	own      bool   // belongs to the live queue of the history (not to a crash image)
	path     string // directory of the page files
	pageSize int
	mu       sync.Mutex
	wrapped  map[int64]*faultPage // pages handed out (fault_test.go)
}

var (
	seamMu   sync.Mutex
	seamW    *world  // the history that owns the live queue
	seamGC   *gcSeam // armed while an interleaved GC runs
	seamBusy bool
)

type gcSeam struct {
	fired [4]bool
	run   func(point int)
}

func installSeams(w *world) {
	qsim.Install(nil)
	seamMu.Lock()
	seamW, seamGC, seamBusy, seamFault = w, nil, false, nil
	seamMu.Unlock()
	queue.VerifSetPageFactory(func(path string, pageSize int) (page.Factory, error) {
		own := strings.HasPrefix(path, w.dir+string(filepath.Separator))
		if own {
			if err := faultConstruct(path); err != nil {
				return nil, err
			}
		}
		f, err := page.NewFactory(path, pageSize)
		if err != nil {
			return nil, err
		}
		return &seamFactory{Factory: qsim.Wrap(f), kind: filepath.Base(path), own: own,
			path: path, pageSize: pageSize, wrapped: map[int64]*faultPage{}}, nil
	})
}

func uninstallSeams() {
	seamMu.Lock()
	seamW, seamGC, seamBusy, seamFault = nil, nil, false, nil
	seamMu.Unlock()
	qsim.Uninstall()
}

func (f *seamFactory) at(point int) {
	if !f.own {
		return
	}
	seamMu.Lock()
	g := seamGC
	if g == nil || seamBusy || g.fired[point] {
		seamMu.Unlock()
		return
	}
	g.fired[point] = true
	seamBusy = true
	seamMu.Unlock()
	g.run(point)
	seamMu.Lock()
	seamBusy = false
	seamMu.Unlock()
}

func (f *seamFactory) GetPage(index int64) (page.MappedPage, bool) {
	if f.kind == "index" {
		f.at(1)
	}
	f.actorCall(true)
	p, ok := f.Factory.GetPage(index)
	f.actorCall(false)
	if !ok || f.unmappedPage(index, p) {
		return nil, false
	}
	return f.wrapPage(index, p), true
}

func (f *seamFactory) TruncatePages(index int64) {
	switch f.kind {
	case "data":
		f.at(2)
	case "index":
		f.at(3)
	}
	ts := f.truncEnter(index) // truncseam_test.go: points inside the truncation
	f.Factory.TruncatePages(index)
	f.truncLeave(ts)
}

func (f *seamFactory) AcquirePage(index int64) (page.MappedPage, error) {
	if f.own {
		if err := f.faultAcquire(index); err != nil {
			return nil, err
		}
	}
	if f.own && f.kind == "data" {
		seamMu.Lock()
		if w := seamW; w != nil && index > w.maxData {
			w.maxData = index
			w.classes["data-page-roll-over(observed)"]++
			if w.insideGC {
				w.gcRollover = true
			}
		}
		seamMu.Unlock()
	}
	f.actorCall(true)
	p, err := f.Factory.AcquirePage(index)
	f.actorCall(false)
	if err != nil {
		return nil, err
	}
	if f.unmappedPage(index, p) {
		return nil, fmt.Errorf("harness: the %s page factory handed out page %d unmapped", f.kind, index)
	}
	return f.wrapPage(index, p), nil
}

// ---- sizes relative to the room left in the data page ------------------------------------------

var roomDeltas = []int{0, 0, 1, 7, 8, 9, 16, 100, 1000, 5000}

// sizeFor turns a generated (kind, delta, small) into a size at the moment the append runs:
// "fit" leaves delta bytes of the page free (0 = the page is exactly full), "exceed" is delta+1
// bytes more than the room (the append has to roll over to the next data page).
func (w *world) sizeFor(kind string, delta, small int) int {
	room := w.room()
	if !w.heavy || room > nearEnd {
		return small
	}
	switch kind {
	case "fit":
		if delta > room {
			return 0
		}
		return room - delta
	case "exceed":
		return room + 1 + delta
	}
	return small
}

func (w *world) genPutSize() int {
	small := genSize(w.t)
	if !w.heavy || w.room() > nearEnd {
		return small
	}
	delta := rapid.SampledFrom(roomDeltas).Draw(w.t, "roomDelta")
	switch k := rapid.IntRange(0, 9).Draw(w.t, "roomKind"); {
	case k < 7:
		return w.sizeFor("fit", delta, small)
	case k < 9:
		return w.sizeFor("exceed", delta, small)
	}
	return small
}

// opFill brings the write cursor close to the end of its data page with one big (mostly zero)
// message: the expensive operation of the page-boundary profile, at most maxFills per history.
// Elsewhere it is an ordinary append.
func (w *world) opFill() {
	if !w.heavy || w.fills >= maxFills || w.room() <= nearEnd {
		w.opPut()
		return
	}
	w.fillOnly()
	if rapid.IntRange(0, 3).Draw(w.t, "thenGC") < 3 {
		w.check("after the fill")
		w.opGCInterleaved()
	}
}

func (w *world) fillOnly() {
	leave := rapid.SampledFrom([]int{0, 0, 1, 7, 8, 9, 64, 100, 1000, 5000, 70000, nearEnd - 1}).Draw(w.t, "leave")
	w.fills++
	m := w.newMsg(w.room() - leave)
	w.logf("fill id=%d size=%d (leaves %d bytes of the data page)", m.id, m.size, leave)
	if err := w.putMsg(m); err != nil {
		w.fatalf("%v", err)
	}
	w.classes["fill-to-page-end"]++
}

// ---- GC interleaved with other actors ----------------------------------------------------------

type seamStep struct {
	at    int    // seam point 1..3
	kind  string // fit | exceed | small | ack | ackAll | read
	delta int
	small int
	done  bool
}

func (s seamStep) String() string { return fmt.Sprintf("%s@%d", s.kind, s.at) }

// runStep executes one step of a script (actor goroutine or, for steps whose point was not
// reached, the test goroutine after GC).
func (w *world) runStep(s *seamStep, where string) error {
	s.done = true
	switch s.kind {
	case "fit", "exceed", "small":
		m := w.newMsg(w.sizeFor(s.kind, s.delta, s.small))
		w.logf("  %s: put id=%d size=%d (%s)", where, m.id, m.size, s.kind)
		w.classes["gc-seam-put"]++
		return w.putMsg(m)
	case "ack", "ackAll":
		app, ack := w.q.AppendedSeq(), w.q.AcknowledgedSeq()
		if app <= ack {
			return nil
		}
		to := app
		if s.kind == "ack" {
			to = ack + 1 + int64(s.small)%(app-ack)
		}
		w.logf("  %s: ack %d", where, to)
		w.classes["gc-seam-ack"]++
		return w.ackTo(to)
	case "read":
		w.logf("  %s: read everything above the acknowledged position", where)
		w.classes["gc-seam-read"]++
		return w.checkErr(where)
	}
	return nil
}

// opGCInterleaved runs GC while a generated script of appends (sized relative to the room in the
// data page: up to the page end, exactly filling it, rolling over), acknowledgements and reads is
// executed at the points where GC works without the queue lock.
func (w *world) opGCInterleaved() {
	t := w.t
	var steps []*seamStep
	add := func(kind string) {
		steps = append(steps, &seamStep{kind: kind,
			delta: rapid.SampledFrom(roomDeltas).Draw(t, "roomDelta"),
			small: rapid.IntRange(0, 4096).Draw(t, "small")})
	}
	maybeAck := func() {
		switch rapid.IntRange(0, 7).Draw(t, "seamAck") {
		case 0:
			add("ack")
		case 1:
			add("ackAll")
		}
	}
	if rapid.IntRange(0, 1).Draw(t, "ackAllFirst") == 0 {
		// the consumer has caught up when GC starts
		if app := w.q.AppendedSeq(); app > w.q.AcknowledgedSeq() {
			w.logf("ack %d", app)
			if err := w.ackTo(app); err != nil {
				w.fatalf("%v", err)
			}
		}
	}
	// appends that go up to the end of the data page, then possibly one that crosses it, then more
	for i, n := 0, rapid.SampledFrom([]int{1, 2, 0, 1}).Draw(t, "fits"); i < n; i++ {
		maybeAck()
		if rapid.IntRange(0, 2).Draw(t, "fitKind") == 2 {
			add("small")
		} else {
			add("fit")
		}
	}
	maybeAck()
	if rapid.IntRange(0, 4).Draw(t, "cross") < 3 {
		add("exceed")
		maybeAck()
	}
	for i, n := 0, rapid.IntRange(0, 1).Draw(t, "more"); i < n; i++ {
		add("small")
	}
	if rapid.IntRange(0, 1).Draw(t, "read") == 0 {
		add("read")
	}
	// placement: the whole script at one point, or spread over the points in order
	point := func() int { return rapid.SampledFrom([]int{1, 2, 3, 1, 1}).Draw(t, "seamPoint") }
	if rapid.IntRange(0, 2).Draw(t, "spread") < 2 {
		p := point()
		for _, s := range steps {
			s.at = p
		}
	} else {
		p := 1
		for _, s := range steps {
			if q := point(); q > p {
				p = q
			}
			s.at = p
		}
	}
	drained := w.q.AppendedSeq() == w.q.AcknowledgedSeq()
	w.logf("gcInterleaved %v (appended %d, acknowledged %d)", steps, w.q.AppendedSeq(), w.q.AcknowledgedSeq())

	var (
		actorErr error
		blocked  chan error // a script that could not finish while GC sat at its point
	)
	g := &gcSeam{}
	g.run = func(p int) {
		if blocked != nil || actorErr != nil {
			return
		}
		var mine []*seamStep
		for _, s := range steps {
			if s.at == p {
				mine = append(mine, s)
			}
		}
		if len(mine) == 0 {
			return
		}
		w.classes[fmt.Sprintf("gc-seam-point-%d", p)]++
		done := make(chan error, 1)
		alive := make(chan struct{}, 1)
		go func() {
			putsHere, noted := 0, false
			for _, s := range mine {
				select {
				case alive <- struct{}{}:
				default:
				}
				pageBefore, putsBefore := w.maxData, w.okPuts
				if err := w.runStep(s, fmt.Sprintf("gc point %d", p)); err != nil {
					done <- err
					return
				}
				if w.maxData > pageBefore && putsHere > 0 && !noted {
					// an append into the old page and the roll-over to the next one while GC sits at one point
					noted = true
					w.classes[fmt.Sprintf("gc-point-%d-append-then-roll-over", p)]++
					if drained {
						w.classes[fmt.Sprintf("gc-point-%d-append-then-roll-over(gc started drained)", p)]++
					}
				}
				putsHere += w.okPuts - putsBefore
			}
			done <- nil
		}()
		// The script runs to completion here unless it has to wait for GC (since /repo fix e5b201e GC
		// holds the queue's read lock: every append / acknowledgement waits until GC returned). A
		// script that starts no new step for seamIdle is taken to wait: GC goes on, the script
		// finishes when it can. The clock only chooses between two legal schedules.
		idle := time.NewTimer(seamIdle)
		defer idle.Stop()
		for {
			select {
			case actorErr = <-done:
				return
			case <-alive:
				if !idle.Stop() {
					select {
					case <-idle.C:
					default:
					}
				}
				idle.Reset(seamIdle)
				continue
			case <-idle.C:
				blocked = done
				return
			}
		}
	}
	seamMu.Lock()
	seamGC = g
	w.insideGC, w.gcRollover = true, false
	seamMu.Unlock()
	putsBefore := w.okPuts
	w.q.GC()
	w.noteGC()
	seamMu.Lock()
	seamGC = nil
	w.insideGC = false
	seamMu.Unlock()
	if blocked != nil {
		actorErr = <-blocked
		w.classes["gc-seam-actor-blocked-until-gc-returned"]++
	}
	if actorErr != nil {
		w.fatalf("while GC was in progress: %v", actorErr)
	}
	missed := false
	for _, s := range steps {
		if !s.done {
			// GC returned before it reached the point (nothing acknowledged yet): the actor runs afterwards
			missed = true
			if err := w.runStep(s, "after gc"); err != nil {
				w.fatalf("%v", err)
			}
		}
	}
	w.classes["gc-interleaved"]++
	w.noteHeld("gc-interleaved-with-other-actors")
	if missed {
		w.classes["gc-returned-before-a-seam-point"]++
	}
	if drained {
		w.classes["gc-interleaved-started-drained"]++
	}
	if w.okPuts > putsBefore && !missed {
		w.classes["gc-interleaved-with-appends"]++
	}
	if w.gcRollover {
		w.classes["gc-interleaved-with-roll-over"]++
		if drained {
			w.classes["gc-started-drained-then-roll-over-inside"]++
		}
	}
	w.check("after gc interleaved with other actors")
}
