// Package c05 checks property C05: an appended WAL-queue message keeps its sequence and its
// bytes across concurrent appenders, close/reopen and a process crash; sequences are dense.
package c05

import (
	"bytes"
	"encoding/binary"
	"fmt"
	"os"
	"path/filepath"
	"strings"
	"sync"
	"testing"
	"time"

	"pgregory.net/rapid"

	"github.com/lindb/lindb/pkg/queue"
	"github.com/lindb/lindb/verifharness/sim/crash"
	"github.com/lindb/lindb/verifharness/sim/ev"
	"github.com/lindb/lindb/verifharness/sim/qsim"
)

func TestMain(m *testing.M) { ev.Main(m) }

// ---- self-describing messages ------------------------------------------------------------------

type msg struct {
	id   uint64
	size int // >= 8
}

func (m msg) bytes() []byte {
	b := make([]byte, m.size)
	binary.LittleEndian.PutUint64(b, m.id)
	x := m.id*0x9E3779B97F4A7C15 + 1
	for i := 8; i < m.size; i++ {
		x ^= x << 13
		x ^= x >> 7
		x ^= x << 17
		b[i] = byte(x)
	}
	return b
}

func idOf(data []byte) (uint64, bool) {
	if len(data) < 8 {
		return 0, false
	}
	return binary.LittleEndian.Uint64(data), true
}

// ---- model -------------------------------------------------------------------------------------

type world struct {
	t        *rapid.T
	dir      string
	q        queue.Queue
	byID     map[uint64]msg
	okPuts   int              // appends that returned success since the queue was created
	assigned map[int64]uint64 // sequence -> message id, fixed once observed
	ops      []string
	nextID   uint64
	classes  map[string]int
	nt       int
}

func (w *world) logf(format string, args ...any) { w.ops = append(w.ops, fmt.Sprintf(format, args...)) }

func (w *world) fatalf(format string, args ...any) {
	w.t.Helper()
	w.t.Fatalf(format+"\nhistory:\n  %s", append(args, strings.Join(w.ops, "\n  "))...)
}

func (w *world) newMsg(size int) msg {
	w.nextID++
	m := msg{id: w.nextID, size: size}
	w.byID[m.id] = m
	return m
}

// scan checks every sequence in (ack, appended] of q against the model.
// extra are messages that may legitimately be visible although their Put has not returned.
func scan(q queue.Queue, byID map[uint64]msg, assigned map[int64]uint64, where string) error {
	app, ack := q.AppendedSeq(), q.AcknowledgedSeq()
	if ack > app {
		return fmt.Errorf("%s: acknowledged %d > appended %d", where, ack, app)
	}
	seen := map[uint64]int64{}
	for s, id := range assigned {
		if s <= app {
			seen[id] = s
		}
	}
	for s := ack + 1; s <= app; s++ {
		data, err := q.Get(s)
		if err != nil {
			return fmt.Errorf("%s: Get(%d) with appended=%d ack=%d: %v", where, s, app, ack, err)
		}
		id, ok := idOf(data)
		if !ok {
			return fmt.Errorf("%s: sequence %d holds %d bytes, no appended message is that short", where, s, len(data))
		}
		m, known := byID[id]
		if !known {
			return fmt.Errorf("%s: sequence %d holds bytes of no appended message (id %d, %d bytes)", where, s, id, len(data))
		}
		if !bytes.Equal(data, m.bytes()) {
			return fmt.Errorf("%s: sequence %d: message %d read back with different bytes (len %d, appended len %d)", where, s, id, len(data), m.size)
		}
		if prev, ok := assigned[s]; ok && prev != id {
			return fmt.Errorf("%s: sequence %d held message %d before, now message %d", where, s, prev, id)
		}
		if other, ok := seen[id]; ok && other != s {
			return fmt.Errorf("%s: message %d is stored under sequences %d and %d", where, id, other, s)
		}
		seen[id] = s
		assigned[s] = id
	}
	return nil
}

func (w *world) check(where string) {
	if err := scan(w.q, w.byID, w.assigned, where); err != nil {
		w.fatalf("%v", err)
	}
	if app := w.q.AppendedSeq(); app != int64(w.okPuts)-1 {
		w.fatalf("%s: appended sequence %d after %d successful appends (sequences must be dense, starting at 0)", where, app, w.okPuts)
	}
}

func (w *world) open() {
	q, err := queue.NewQueue(w.dir, 0)
	if err != nil {
		w.fatalf("open queue: %v", err)
	}
	w.q = q
}

func genSize(t *rapid.T) int {
	switch rapid.IntRange(0, 9).Draw(t, "sizeKind") {
	case 0:
		return 8
	case 1:
		return rapid.IntRange(8, 64).Draw(t, "size")
	case 2:
		return rapid.IntRange(60000, 70000).Draw(t, "size")
	case 3:
		return rapid.IntRange(1<<20, 3<<20).Draw(t, "size")
	default:
		return rapid.IntRange(8, 4096).Draw(t, "size")
	}
}

// ---- operations --------------------------------------------------------------------------------

func (w *world) opPut() {
	m := w.newMsg(genSize(w.t))
	w.logf("put id=%d size=%d", m.id, m.size)
	before := w.q.AppendedSeq()
	if err := w.q.Put(m.bytes()); err != nil {
		w.fatalf("put: %v", err)
	}
	w.okPuts++
	if after := w.q.AppendedSeq(); after != before+1 {
		w.fatalf("appended sequence moved from %d to %d by one append", before, after)
	}
}

// opOverlappingPut: appender B performs a complete Put while appender A is between reserving
// its space and publishing its sequence (the seam is the data-page store of A). If the queue
// serialises appends B simply finishes after A.
func (w *world) opOverlappingPut() {
	a := w.newMsg(genSize(w.t))
	nb := rapid.IntRange(1, 2).Draw(w.t, "overlapCount")
	var bs []msg
	for i := 0; i < nb; i++ {
		bs = append(bs, w.newMsg(genSize(w.t)))
	}
	w.logf("overlappingPut A=%d(%dB) B=%v", a.id, a.size, bs)
	var once sync.Once
	done := make(chan error, 1)
	started := false
	qsim.SetHook(func(op, path string, before bool) {
		if op != "writeBytes" || !before || !strings.Contains(path, "/data/") {
			return
		}
		once.Do(func() {
			started = true
			go func() {
				var err error
				for _, b := range bs {
					if e := w.q.Put(b.bytes()); e != nil {
						err = e
					}
				}
				done <- err
			}()
			select {
			case err := <-done:
				done <- err
				w.classes["overlap-B-finished-inside-A"]++
			case <-time.After(3 * time.Millisecond):
				w.classes["overlap-B-blocked-until-A-done"]++
			}
		})
	})
	errA := w.q.Put(a.bytes())
	qsim.SetHook(nil)
	if !started {
		w.fatalf("harness: seam not reached")
	}
	errB := <-done
	if errA != nil || errB != nil {
		w.fatalf("overlapping put failed: A=%v B=%v", errA, errB)
	}
	w.okPuts += 1 + nb
	w.classes["overlapping-put"]++
}

// opBoundaryReopen: on a fresh queue, move the append position (production API SetAppendedSeq, the
// follower-reset path) to just below an index-page boundary (262144 entries per index page), append
// up to the last slot of the page, reopen there and keep appending.
func (w *world) opBoundaryReopen() {
	const perPage = 262144
	k := rapid.IntRange(1, 3).Draw(w.t, "beforeBoundary")
	page := int64(rapid.IntRange(1, 2).Draw(w.t, "indexPage"))
	start := page*perPage - 1 - int64(k)
	w.logf("setAppendedSeq %d (fresh queue), %d appends up to the last slot of index page %d, reopen, append", start, k, page-1)
	w.q.SetAppendedSeq(start)
	w.okPuts = int(start) + 1
	for i := 0; i < k; i++ {
		w.opPut()
	}
	w.check("before the boundary reopen")
	w.opReopen()
	w.check("after the boundary reopen")
	n := rapid.IntRange(1, 3).Draw(w.t, "afterBoundary")
	for i := 0; i < n; i++ {
		w.opPut()
		w.check("after an append behind the boundary reopen")
	}
	w.classes["reopen-at-index-page-boundary"]++
}

func (w *world) opReopen() {
	w.logf("reopen")
	w.q.Close()
	w.open()
	w.classes["reopen"]++
}

func (w *world) opAck() {
	app, ack := w.q.AppendedSeq(), w.q.AcknowledgedSeq()
	if app <= ack {
		w.t.Skip("nothing to acknowledge")
	}
	s := rapid.Int64Range(ack+1, app).Draw(w.t, "ack")
	w.logf("ack %d", s)
	w.q.SetAcknowledgedSeq(s)
	if got := w.q.AcknowledgedSeq(); got != s {
		w.fatalf("acknowledged sequence is %d after SetAcknowledgedSeq(%d) (appended %d)", got, s, app)
	}
}

func (w *world) opGC() {
	w.logf("gc")
	w.q.GC()
}

// opCrashPut appends one message while a directory image is taken around every store of the
// append; every image is then recovered with the production open path.
func (w *world) opCrashPut(all bool) {
	m := w.newMsg(genSize(w.t))
	w.logf("crashPut id=%d size=%d", m.id, m.size)
	imgDir, err := os.MkdirTemp("", "c05img-")
	if err != nil {
		w.fatalf("harness: %v", err)
	}
	defer os.RemoveAll(imgDir)
	im := &crash.Imager{Root: w.dir, OutDir: imgDir}
	im.Begin(len(w.ops), "put")
	qsim.SetHook(im.Hook)
	before := w.okPuts
	errPut := w.q.Put(m.bytes())
	qsim.SetHook(nil)
	im.End()
	if errPut != nil {
		w.fatalf("put: %v", errPut)
	}
	w.okPuts++
	pts := im.Points
	idx := make([]int, 0, len(pts))
	if all || len(pts) <= 4 {
		for i := range pts {
			idx = append(idx, i)
		}
	} else {
		seen := map[int]bool{}
		for len(idx) < 4 {
			i := rapid.IntRange(0, len(pts)-1).Draw(w.t, "image")
			if !seen[i] {
				seen[i] = true
				idx = append(idx, i)
			}
		}
	}
	for _, i := range idx {
		p := pts[i]
		w.recoverImage(p, before, m)
		w.classes["img-"+p.FSOp]++
		ev.Case("crash-points", fmt.Sprintf("%v|%s", w.ops, p), true, nil, nil)
		w.nt++
	}
	im.Drop()
}

func (w *world) recoverImage(p crash.Point, putsBefore int, inflight msg) {
	rq, err := queue.NewQueue(p.Dir, 0)
	if err != nil {
		w.fatalf("image %s: queue cannot be reopened: %v", p, err)
	}
	defer rq.Close()
	app := rq.AppendedSeq()
	if app != int64(putsBefore)-1 && app != int64(putsBefore) {
		w.fatalf("image %s: recovered appended sequence %d; %d appends had returned and one was in flight", p, app, putsBefore)
	}
	assigned := map[int64]uint64{}
	for s, id := range w.assigned {
		if s < int64(putsBefore) {
			assigned[s] = id
		}
	}
	if err := scan(rq, w.byID, assigned, "image "+p.String()); err != nil {
		w.fatalf("%v", err)
	}
	if app == int64(putsBefore) && assigned[app] != inflight.id && rq.AcknowledgedSeq() < app {
		w.fatalf("image %s: sequence %d is visible but does not hold the append in flight", p, app)
	}
	// keep appending on the recovered queue: earlier messages must stay intact
	byID := map[uint64]msg{}
	for k, v := range w.byID {
		byID[k] = v
	}
	for i := 0; i < 2; i++ {
		n := msg{id: 1<<40 + uint64(i), size: 100 + 50*i}
		byID[n.id] = n
		if err := rq.Put(n.bytes()); err != nil {
			w.fatalf("image %s: append after recovery: %v", p, err)
		}
		if got := rq.AppendedSeq(); got != app+int64(i)+1 {
			w.fatalf("image %s: append after recovery moved appended sequence to %d, want %d", p, got, app+int64(i)+1)
		}
		if err := scan(rq, byID, assigned, fmt.Sprintf("image %s after %d new appends", p, i+1)); err != nil {
			w.fatalf("%v", err)
		}
	}
}

func runHistory(t *rapid.T, thorough bool) {
	dir, err := os.MkdirTemp("", "c05-")
	if err != nil {
		t.Fatalf("harness: %v", err)
	}
	w := &world{t: t, dir: filepath.Join(dir, "q"), byID: map[uint64]msg{}, assigned: map[int64]uint64{}, classes: map[string]int{}}
	qsim.Install(nil)
	defer func() {
		qsim.Uninstall()
		if w.q != nil {
			w.q.Close()
		}
		_ = os.RemoveAll(dir)
	}()
	w.open()
	if rapid.IntRange(0, 3).Draw(t, "startAtIndexPageBoundary") == 0 {
		w.opBoundaryReopen()
	}
	t.Repeat(map[string]func(*rapid.T){
		"put":            func(t *rapid.T) { w.t = t; w.opPut() },
		"put2":           func(t *rapid.T) { w.t = t; w.opPut() },
		"overlappingPut": func(t *rapid.T) { w.t = t; w.opOverlappingPut() },
		"crashPut":       func(t *rapid.T) { w.t = t; w.opCrashPut(thorough) },
		"reopen":         func(t *rapid.T) { w.t = t; w.opReopen() },
		"ack":            func(t *rapid.T) { w.t = t; w.opAck() },
		"gc":             func(t *rapid.T) { w.t = t; w.opGC() },
		"":               func(t *rapid.T) { w.t = t; w.check("after step") },
	})
	w.t = t
	// closing sequence: reopen and append once more, everything must still be intact
	w.opReopen()
	w.check("after final reopen")
	w.opPut()
	w.check("after final append")
	nt := w.nt > 0 || (w.classes["overlapping-put"] > 0 && w.classes["reopen"] > 1)
	for c, n := range w.classes {
		ev.Class("TestQueueHistory", c, n)
	}
	ev.Case("TestQueueHistory", strings.Join(w.ops, ";"), nt, nil, map[string]any{"history": w.ops, "crash_images_recovered": w.nt})
}

func TestQueueHistory(t *testing.T) {
	thorough := os.Getenv("VERIF_TIER") == "thorough"
	rapid.Check(t, func(t *rapid.T) { runHistory(t, thorough) })
}

// TestRollOver: messages of tens of MiB force data-page roll-over (the page size is a constant
// 128 MiB); reopen / crash images around the roll-over; everything stays readable.
func TestRollOver(t *testing.T) {
	rapid.Check(t, func(t *rapid.T) {
		dir, err := os.MkdirTemp("", "c05r-")
		if err != nil {
			t.Fatalf("harness: %v", err)
		}
		w := &world{t: t, dir: filepath.Join(dir, "q"), byID: map[uint64]msg{}, assigned: map[int64]uint64{}, classes: map[string]int{}}
		qsim.Install(nil)
		defer func() {
			qsim.Uninstall()
			if w.q != nil {
				w.q.Close()
			}
			_ = os.RemoveAll(dir)
		}()
		w.open()
		n := rapid.IntRange(3, 6).Draw(t, "bigMessages")
		total := 0
		for i := 0; i < n; i++ {
			size := rapid.IntRange(30<<20, 70<<20).Draw(t, "bigSize")
			m := w.newMsg(size)
			w.logf("put id=%d size=%d", m.id, m.size)
			if err := w.q.Put(m.bytes()); err != nil {
				w.fatalf("put: %v", err)
			}
			w.okPuts++
			total += size
			if rapid.IntRange(0, 2).Draw(t, "small") == 0 {
				w.opPut()
			}
			switch rapid.IntRange(0, 4).Draw(t, "between") {
			case 0:
				w.opReopen()
			case 1:
				if w.q.AppendedSeq() > w.q.AcknowledgedSeq() {
					w.opAck()
					w.opGC()
				}
			}
			w.check("after big append")
		}
		w.opReopen()
		w.check("after reopen")
		w.opPut()
		w.check("after final append")
		ev.Case("TestRollOver", strings.Join(w.ops, ";"), total > 128<<20, nil, map[string]any{"history": w.ops, "bytes": total})
	})
}

// TestConcurrentAppenders: real goroutines append concurrently; afterwards sequences are dense,
// every sequence holds exactly one appended message byte for byte, and this stays true across a
// reopen followed by further appends. (Schedule owned by the Go scheduler; invariant oracle.)
func TestConcurrentAppenders(t *testing.T) {
	rounds := 15
	if os.Getenv("VERIF_TIER") == "thorough" {
		rounds = 150
	}
	for round := 0; round < rounds; round++ {
		dir, err := os.MkdirTemp("", "c05c-")
		if err != nil {
			t.Fatal(err)
		}
		q, err := queue.NewQueue(filepath.Join(dir, "q"), 0)
		if err != nil {
			t.Fatal(err)
		}
		appenders := 2 + round%5
		per := 20 + 7*(round%4)
		byID := map[uint64]msg{}
		var all [][]msg
		for a := 0; a < appenders; a++ {
			var ms []msg
			for i := 0; i < per; i++ {
				size := 8 + (a*131+i*977+round*31)%3000
				if i%3 == 0 {
					size = 400000 + (a+i)*1000 // a long copy widens the reserve/publish window
				}
				m := msg{id: uint64(a*100000 + i + 1), size: size}
				byID[m.id] = m
				ms = append(ms, m)
			}
			all = append(all, ms)
		}
		var wg sync.WaitGroup
		start := make(chan struct{})
		errs := make(chan error, appenders)
		for a := 0; a < appenders; a++ {
			wg.Add(1)
			go func(ms []msg) {
				defer wg.Done()
				<-start
				for _, m := range ms {
					if err := q.Put(m.bytes()); err != nil {
						errs <- err
						return
					}
				}
			}(all[a])
		}
		close(start)
		wg.Wait()
		close(errs)
		for err := range errs {
			t.Fatalf("round %d: put: %v", round, err)
		}
		total := appenders * per
		assigned := map[int64]uint64{}
		fail := func(err error) {
			q.Close()
			_ = os.RemoveAll(dir)
			t.Fatalf("round %d (%d appenders x %d messages): %v", round, appenders, per, err)
		}
		if app := q.AppendedSeq(); app != int64(total)-1 {
			fail(fmt.Errorf("appended sequence %d after %d successful concurrent appends", app, total))
		}
		if err := scan(q, byID, assigned, "after concurrent appends"); err != nil {
			fail(err)
		}
		if len(assigned) != total {
			fail(fmt.Errorf("%d distinct messages readable, %d appended", len(assigned), total))
		}
		// per appender order is preserved (each appender waited for its previous Put to return)
		pos := map[uint64]int64{}
		for s, id := range assigned {
			pos[id] = s
		}
		for _, ms := range all {
			for i := 1; i < len(ms); i++ {
				if pos[ms[i-1].id] > pos[ms[i].id] {
					fail(fmt.Errorf("message %d was appended after message %d returned, but has the smaller sequence", ms[i].id, ms[i-1].id))
				}
			}
		}
		q.Close()
		q, err = queue.NewQueue(filepath.Join(dir, "q"), 0)
		if err != nil {
			t.Fatalf("round %d: reopen: %v", round, err)
		}
		for i := 0; i < 3; i++ {
			m := msg{id: uint64(9000000 + i), size: 64 + i}
			byID[m.id] = m
			if err := q.Put(m.bytes()); err != nil {
				fail(err)
			}
			if err := scan(q, byID, assigned, fmt.Sprintf("after reopen and %d more appends", i+1)); err != nil {
				fail(err)
			}
		}
		q.Close()
		_ = os.RemoveAll(dir)
		ev.Case("TestConcurrentAppenders", fmt.Sprintf("round-%d", round), true, nil,
			map[string]any{"round": round, "appenders": appenders, "messages_per_appender": per})
	}
}
