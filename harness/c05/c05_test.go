// Package c05 checks property C05: an appended WAL-queue message keeps its sequence and its
// bytes across concurrent appenders, close/reopen and a process crash; sequences are dense.
package c05

import (
	"bytes"
	"encoding/binary"
	"errors"
	"fmt"
	"os"
	"path/filepath"
	"runtime/debug"
	"strings"
	"sync"
	"testing"
	"time"

	"github.com/lindb/common/pkg/logger"
	"pgregory.net/rapid"

	"github.com/lindb/lindb/pkg/queue"
	"github.com/lindb/lindb/verifharness/sim/crash"
	"github.com/lindb/lindb/verifharness/sim/ev"
	"github.com/lindb/lindb/verifharness/sim/qsim"
)

func TestMain(m *testing.M) { ev.Main(m) }

func init() {
	// GC logs every removed page at info level
	_ = logger.RunningAtomicLevel.UnmarshalText([]byte("error"))
}

// ---- messages ------------------------------------------------------------------------------------

// Assumption of the check (pkg/queue/constants.go): the data page size is this constant.
const (
	dataPageSize = 128 << 20
	sparseMin    = 4 << 20  // messages above this size are mostly zero (cheap to produce and to compare)
	markStep     = 64 << 10 // distance of the position-dependent marks of such a message
	nearEnd      = 1 << 20  // "the write cursor is near the end of its data page"
)

// msg is one appended message. Its bytes are a pure function of (id, size): any size >= 0 is
// allowed (an empty message is a legal append); messages of 8 bytes and more carry their id.
type msg struct {
	id   uint64
	size int
}

func (m msg) sparse() bool { return m.size > sparseMin }

func (m msg) mark(p int) (b [16]byte) {
	binary.LittleEndian.PutUint64(b[:], m.id)
	binary.LittleEndian.PutUint64(b[8:], (uint64(p)+1)*0x9E3779B97F4A7C15^m.id)
	return b
}

// putMarks writes the non-zero bytes of a sparse message into a zeroed buffer.
func (m msg) putMarks(b []byte) {
	for p := 0; p+16 <= m.size; p += markStep {
		k := m.mark(p)
		copy(b[p:], k[:])
	}
	k := m.mark(m.size)
	copy(b[m.size-16:], k[:])
}

func (m msg) clearMarks(b []byte) {
	var z [16]byte
	for p := 0; p+16 <= m.size; p += markStep {
		copy(b[p:], z[:])
	}
	copy(b[m.size-16:], z[:])
}

func (m msg) bytes() []byte {
	b := make([]byte, m.size)
	if m.sparse() {
		m.putMarks(b)
		return b
	}
	x := m.id*0x9E3779B97F4A7C15 + 1
	i := 0
	if m.size >= 8 {
		binary.LittleEndian.PutUint64(b, m.id)
		i = 8
	}
	for ; i < m.size; i++ {
		x ^= x << 13
		x ^= x >> 7
		x ^= x << 17
		b[i] = byte(x)
	}
	return b
}

var zeroChunk [markStep]byte

// equal reports whether data is byte for byte the message.
func (m msg) equal(data []byte) bool {
	if len(data) != m.size {
		return false
	}
	if !m.sparse() {
		return bytes.Equal(data, m.bytes())
	}
	tail := m.size - 16
	for p := 0; p < m.size; p += markStep {
		end := p + markStep
		if end > m.size {
			end = m.size
		}
		if end > tail || p+16 > m.size { // chunk touches the tail mark: build it explicitly
			e := make([]byte, end-p)
			if p+16 <= m.size {
				k := m.mark(p)
				copy(e, k[:])
			}
			k := m.mark(m.size)
			for i := tail; i < m.size; i++ {
				if i >= p && i < end {
					e[i-p] = k[i-tail]
				}
			}
			if !bytes.Equal(data[p:end], e) {
				return false
			}
			continue
		}
		k := m.mark(p)
		if !bytes.Equal(data[p:p+16], k[:]) || !bytes.Equal(data[p+16:end], zeroChunk[:end-p-16]) {
			return false
		}
	}
	return true
}

// One shared buffer for sparse messages (and for messages above the size limit); the appends
// that use it never overlap.
var (
	bigBuf  []byte
	bigBusy bool
)

func bigBuffer(n int) []byte {
	if bigBuf == nil {
		bigBuf = make([]byte, dataPageSize+1<<16)
	}
	if bigBusy {
		panic("harness: the shared big buffer is in use")
	}
	bigBusy = true
	return bigBuf[:n]
}

// materialize returns the bytes to append and a function that gives the buffer back.
func (m msg) materialize() ([]byte, func()) {
	if !m.sparse() {
		return m.bytes(), func() {}
	}
	b := bigBuffer(m.size)
	m.putMarks(b)
	return b, func() { m.clearMarks(b); bigBusy = false }
}

func idOf(data []byte) (uint64, bool) {
	if len(data) < 8 {
		return 0, false
	}
	return binary.LittleEndian.Uint64(data), true
}

// ---- model -------------------------------------------------------------------------------------

type world struct {
	t        *rapid.T
	dir      string
	q        queue.Queue
	byID     map[uint64]msg
	okPuts   int              // appends that returned success since the queue was created
	assigned map[int64]uint64 // sequence -> message id, fixed once known
	pending  []uint64         // successfully appended by overlapping appenders, sequence not observed yet
	ops      []string
	nextID   uint64
	classes  map[string]int
	nt       int

	// generation only (never used by the oracle): model of the write cursor and the profile
	heavy      bool // page-boundary profile: the cursor is brought to the end of a data page
	off        int  // modelled offset of the write cursor in its data page
	fills      int  // expensive appends (about one data page) so far
	crashPuts  int
	lastSize   int   // size of the last message appended (-1: none / unknown)
	firstSeq   int64 // first sequence appended by this history
	maxData    int64 // highest data page index acquired (observed at the page factory)
	insideGC   bool
	gcRollover bool

	// messages a reader got earlier and still holds (hold_test.go)
	held       []*heldMsg
	heldEvents map[string]bool // what happened since the retained slices were verified last (class counters only)
	pageOf     map[int64]int64 // modelled data page of a sequence (generation / class counters only)
	holdSerial int

	// configuration of the next open (pagesize_test.go): the data page size handed to NewQueue
	pageSize    int64
	pageSizes   []int64 // the sizes an open of this history may be configured with
	createdWith int64   // largest effective page size a data page file of this queue was mapped with so far
	sizeChanges int
	sizeShrinks int
	// index resets (reset_test.go)
	resetNoPut     bool  // nothing was appended since the last SetAppendedSeq
	resetUnwritten bool  // ... and that reset went to a sequence whose index entry was never written
	cursorRewound  bool  // a reopen recomputed the write cursor from such an entry (data page 0, offset 0)
	indexJumps     int   // resets that moved the append position into another index page
	maxEver        int64 // highest sequence an earlier life of the log (before a reset) reached: index entries up to it may be stale
	collectedIndex int64 // GC ran with the acknowledged position in this index page: lower index pages are gone
	// GC with harness-owned points inside the page truncation (truncseam_test.go, gccrash_test.go)
	truncOps int // such operations so far (budget per history)
}

// traceOps (C05_TRACE=1): every history entry is also printed at once - the only way to see the
// history of a case in which the code under test killed the process.
var traceOps = os.Getenv("C05_TRACE") != ""

func (w *world) logf(format string, args ...any) {
	w.ops = append(w.ops, fmt.Sprintf(format, args...))
	if traceOps {
		fmt.Fprintln(os.Stderr, "TRACE", w.ops[len(w.ops)-1])
	}
}

func (w *world) fatalf(format string, args ...any) {
	w.t.Helper()
	w.t.Fatalf(format+"\nhistory:\n  %s", append(args, strings.Join(w.ops, "\n  "))...)
}

func (w *world) newMsg(size int) msg {
	w.nextID++
	m := msg{id: w.nextID, size: size}
	w.byID[m.id] = m
	return m
}

func head(data []byte) string {
	if len(data) > 12 {
		return fmt.Sprintf("%x..", data[:12])
	}
	return fmt.Sprintf("%x", data)
}

// scan checks every sequence in (ack, appended] of q against the model: a sequence whose message
// is known must return exactly that message; any other sequence must hold one of the pending
// messages (appended by overlapping appenders, or in flight at a crash), each at most once.
func scan(q queue.Queue, byID map[uint64]msg, assigned map[int64]uint64, pending *[]uint64, where string) error {
	app, ack := q.AppendedSeq(), q.AcknowledgedSeq()
	if ack > app {
		return fmt.Errorf("%s: acknowledged %d > appended %d", where, ack, app)
	}
	for s := ack + 1; s <= app; s++ {
		data, err := q.Get(s)
		if err != nil {
			return fmt.Errorf("%s: Get(%d) with appended=%d ack=%d: %v", where, s, app, ack, err)
		}
		if id, ok := assigned[s]; ok {
			m := byID[id]
			if m.equal(data) {
				continue
			}
			if other, ok := idOf(data); ok && other != id {
				if _, known := byID[other]; known {
					return fmt.Errorf("%s: sequence %d held message %d before, now message %d", where, s, id, other)
				}
			}
			return fmt.Errorf("%s: sequence %d: message %d read back with different bytes (len %d %s, appended len %d)",
				where, s, id, len(data), head(data), m.size)
		}
		found := -1
		want, hasID := idOf(data) // messages of 8 bytes and more carry their id
		for i, id := range *pending {
			if m := byID[id]; m.size == len(data) && (!hasID || id == want) && m.equal(data) {
				found = i
				break
			}
		}
		if found < 0 {
			if id, ok := idOf(data); ok {
				if _, known := byID[id]; known {
					for s2, id2 := range assigned {
						if id2 == id && s2 != s {
							return fmt.Errorf("%s: message %d is stored under sequences %d and %d", where, id, s2, s)
						}
					}
				}
			}
			return fmt.Errorf("%s: sequence %d holds %d bytes (%s) that are not the bytes of an appended message waiting for a sequence",
				where, s, len(data), head(data))
		}
		assigned[s] = (*pending)[found]
		*pending = append((*pending)[:found], (*pending)[found+1:]...)
	}
	return nil
}

func (w *world) checkErr(where string) error {
	if s := takeUnmappedHandOut(); s != "" {
		return fmt.Errorf("%s: %s", where, s)
	}
	if err := scan(w.q, w.byID, w.assigned, &w.pending, where); err != nil {
		return err
	}
	// the scan above is "another reader": it got every message above the acknowledged position
	// while the retained slices were held
	w.noteHeld("full-scan-by-another-reader")
	if err := w.verifyHeld(where); err != nil {
		return err
	}
	if app := w.q.AppendedSeq(); app != int64(w.okPuts)-1 {
		return fmt.Errorf("%s: appended sequence %d after %d successful appends (sequences must be dense, starting at 0)", where, app, w.okPuts)
	}
	if n := len(w.pending); n > 0 {
		// only sequences that were acknowledged before they could be read may be left over
		unseen := 0
		for s, ack := w.firstSeq, w.q.AcknowledgedSeq(); s <= ack; s++ {
			if _, ok := w.assigned[s]; !ok {
				unseen++
			}
		}
		if n > unseen {
			return fmt.Errorf("%s: message %d was appended successfully but is stored under no sequence", where, w.pending[0])
		}
		w.pending = nil
	}
	return nil
}

func (w *world) check(where string) {
	if err := w.checkErr(where); err != nil {
		w.fatalf("%v", err)
	}
}

func (w *world) open() {
	q, err := queue.NewQueue(w.dir, w.pageSize)
	if err != nil {
		w.fatalf("open queue (page size %d): %v", w.pageSize, err)
	}
	w.q = q
	w.opened()
}

// genSize: the boundary payload sizes (empty, shorter than a word) are classes of their own.
func genSize(t *rapid.T) int {
	switch rapid.IntRange(0, 11).Draw(t, "sizeKind") {
	case 0:
		return 0
	case 1:
		return rapid.IntRange(1, 7).Draw(t, "size")
	case 2:
		return 8
	case 3:
		return rapid.IntRange(8, 64).Draw(t, "size")
	case 4:
		return rapid.IntRange(60000, 70000).Draw(t, "size")
	case 5:
		return rapid.IntRange(1<<20, 3<<20).Draw(t, "size")
	default:
		return rapid.IntRange(0, 4096).Draw(t, "size")
	}
}

// ---- operations --------------------------------------------------------------------------------

func (w *world) room() int { return dataPageSize - w.off }

// advance moves the modelled write cursor.
func (w *world) advance(size int) {
	if w.off+size > dataPageSize {
		w.off = 0
	}
	w.off += size
}

func (w *world) noteSize(size int) {
	switch {
	case size == 0:
		w.classes["put-empty"]++
	case size < 8:
		w.classes["put-short(1-7B)"]++
	}
}

// tryPut appends m while no other appender runs: it must get the sequence after the last one.
// putErr is the error Put returned (the message is not appended then: no sequence consumed);
// violation is a broken expectation.
func (w *world) tryPut(m msg) (putErr, violation error) {
	b, release := m.materialize()
	defer release()
	before := w.q.AppendedSeq()
	if err := w.q.Put(b); err != nil {
		if after := w.q.AppendedSeq(); after != before {
			return err, fmt.Errorf("an append that failed (%v) moved the appended sequence from %d to %d", err, before, after)
		}
		w.noteHeld("failed-append")
		return err, nil
	}
	after := w.q.AppendedSeq()
	if after != before+1 {
		return nil, fmt.Errorf("appended sequence moved from %d to %d by one append", before, after)
	}
	w.okPuts++
	if prev, ok := w.assigned[after]; ok && prev != m.id {
		return nil, fmt.Errorf("sequence %d held message %d and was handed out again to a new append", after, prev)
	}
	w.assigned[after] = m.id
	w.resetNoPut = false
	w.noteHeld("append")
	if w.room() == m.size {
		w.classes["put-exact-fit(page full)"]++
		w.noteHeld("append-filling-the-page-exactly")
	} else if w.room() < m.size {
		w.classes["put-exceeds-room(roll-over)"]++
		w.noteHeld("roll-over-append")
	}
	w.pageOf[after] = w.maxData
	w.advance(m.size)
	w.lastSize = m.size
	w.noteSize(m.size)
	return nil, nil
}

// putMsg: an append with no page-store fault armed must succeed.
func (w *world) putMsg(m msg) error {
	putErr, violation := w.tryPut(m)
	if violation != nil {
		return violation
	}
	if putErr != nil {
		return fmt.Errorf("put of %d bytes: %v", m.size, putErr)
	}
	return nil
}

func (w *world) opPut() {
	if w.heavy && w.room() <= nearEnd && len(w.held) < 3 && rapid.IntRange(0, 1).Draw(w.t, "holdAtPageEnd") == 0 {
		// the write cursor is at the end of its data page: a reader takes messages before the
		// appends that fill the page / roll over to the next one
		if w.holdSome() {
			w.classes["hold-before-append-at-page-end"]++
		}
	}
	m := w.newMsg(w.genPutSize())
	w.logf("put id=%d size=%d", m.id, m.size)
	if err := w.putMsg(m); err != nil {
		w.fatalf("%v", err)
	}
}

// opOverlappingPut: appender B performs complete Puts while appender A is between reserving
// its space and publishing its sequence (the seam is the data-page store of A). If the queue
// serialises appends B simply finishes after A. Which sequence each of them gets is observed by
// the next scan (the messages are pending until then).
func (w *world) opOverlappingPut() {
	a := w.newMsg(genSize(w.t))
	nb := rapid.IntRange(1, 2).Draw(w.t, "overlapCount")
	var bs []msg
	for i := 0; i < nb; i++ {
		bs = append(bs, w.newMsg(genSize(w.t)))
	}
	w.logf("overlappingPut A=%d(%dB) B=%v", a.id, a.size, bs)
	var once sync.Once
	var seamHeldErr error
	done := make(chan error, 1)
	started := false
	qsim.SetHook(func(op, path string, before bool) {
		if op != "writeBytes" || !before || !strings.Contains(path, "/data/") {
			return
		}
		once.Do(func() {
			started = true
			go func() {
				var err error
				for _, b := range bs {
					if e := w.q.Put(b.bytes()); e != nil {
						err = e
					}
				}
				done <- err
			}()
			select {
			case err := <-done:
				done <- err
				w.classes["overlap-B-finished-inside-A"]++
			case <-time.After(3 * time.Millisecond):
				w.classes["overlap-B-blocked-until-A-done"]++
			}
			// appender A has reserved its space and not stored anything yet (B may be anywhere):
			// what the readers hold is untouched (read-only pass over the retained slices)
			seamHeldErr = w.peekHeld("at the seam of an overlapping append")
		})
	})
	errA := w.q.Put(a.bytes())
	qsim.SetHook(nil)
	if seamHeldErr != nil {
		w.fatalf("%v", seamHeldErr)
	}
	if !started {
		w.fatalf("harness: seam not reached")
	}
	errB := <-done
	if errA != nil || errB != nil {
		w.fatalf("overlapping put failed: A=%v B=%v", errA, errB)
	}
	w.okPuts += 1 + nb
	w.pending = append(w.pending, a.id)
	w.advance(a.size)
	w.noteSize(a.size)
	for _, b := range bs {
		w.pending = append(w.pending, b.id)
		w.advance(b.size) // the order of A and B is not known to the model: approximation, generation only
		w.noteSize(b.size)
	}
	w.lastSize = -1
	w.classes["overlapping-put"]++
	w.noteHeld("overlapping-append")
	w.check("after the overlapping appends")
	// appender B waited for each of its appends to return: its messages keep their order
	// (messages of less than 8 bytes with equal bytes are interchangeable and not ordered here)
	last := int64(-1)
	for _, b := range bs {
		if b.size < 8 {
			continue
		}
		for s, id := range w.assigned {
			if id == b.id {
				if s < last {
					w.fatalf("message %d was appended after an earlier append of the same appender returned, but has the smaller sequence %d < %d", b.id, s, last)
				}
				last = s
			}
		}
	}
}

// opBoundaryReopen: on a fresh queue, move the append position (production API SetAppendedSeq, the
// follower-reset path) to just below an index-page boundary (262144 entries per index page), append
// up to the last slot of the page, reopen there and keep appending.
func (w *world) opBoundaryReopen() {
	const perPage = 262144
	k := rapid.IntRange(1, 3).Draw(w.t, "beforeBoundary")
	page := int64(rapid.IntRange(1, 2).Draw(w.t, "indexPage"))
	start := page*perPage - 1 - int64(k)
	w.logf("setAppendedSeq %d (fresh queue), %d appends up to the last slot of index page %d, reopen, append", start, k, page-1)
	w.dropHeld("setAppendedSeq")
	w.q.SetAppendedSeq(start)
	w.okPuts = int(start) + 1
	w.firstSeq = start + 1
	for i := 0; i < k; i++ {
		w.opPut()
	}
	w.check("before the boundary reopen")
	if rapid.IntRange(0, 3).Draw(w.t, "boundaryWithoutReopen") > 0 {
		w.opReopen()
		w.check("after the boundary reopen")
		w.classes["reopen-at-index-page-boundary"]++
	}
	n := rapid.IntRange(1, 3).Draw(w.t, "afterBoundary")
	for i := 0; i < n; i++ {
		if i == 0 && rapid.IntRange(0, 1).Draw(w.t, "faultAtBoundary") == 0 {
			// the append that needs the next index page runs under page-store faults
			w.classes["fault-put-at-index-page-boundary"]++
			w.faultScript(w.newMsg(w.genPutSize()))
			continue
		}
		w.opPut()
		w.check("after an append behind the boundary reopen")
	}
}

// tailClass names the kind of the last appended message when it is still above the acknowledged
// position ("" otherwise): what a reopen / a crash image finds at the end of the log.
func (w *world) tailClass() string {
	if w.q.AppendedSeq() <= w.q.AcknowledgedSeq() {
		return ""
	}
	switch {
	case w.lastSize == 0:
		return "empty-tail"
	case w.lastSize > 0 && w.lastSize < 8:
		return "short-tail(1-7B)"
	case w.lastSize >= 8 && w.off == dataPageSize:
		return "tail-ends-at-page-end"
	}
	return ""
}

func (w *world) opReopen() {
	w.logf("reopen")
	if c := w.tailClass(); c != "" {
		w.classes["reopen-with-"+c]++
	}
	w.dropHeld("close") // Close unmaps every page: nothing a reader holds may be touched afterwards
	w.q.Close()
	w.closedAfterReset()
	w.nextPageSize()
	w.open()
	w.classes["reopen"]++
}

func (w *world) ackTo(s int64) error {
	app := w.q.AppendedSeq()
	w.q.SetAcknowledgedSeq(s)
	if got := w.q.AcknowledgedSeq(); got != s {
		return fmt.Errorf("acknowledged sequence is %d after SetAcknowledgedSeq(%d) (appended %d)", got, s, app)
	}
	w.ackedHeld(s)
	if s == app {
		w.classes["ack-everything(drained)"]++
	}
	return nil
}

func (w *world) opAck() {
	app, ack := w.q.AppendedSeq(), w.q.AcknowledgedSeq()
	if app <= ack {
		w.t.Skip("nothing to acknowledge")
	}
	s := app
	if rapid.IntRange(0, 4).Draw(w.t, "ackKind") > 1 {
		s = rapid.Int64Range(ack+1, app).Draw(w.t, "ack")
	}
	w.logf("ack %d", s)
	if err := w.ackTo(s); err != nil {
		w.fatalf("%v", err)
	}
}

func (w *world) opGC() {
	w.logf("gc")
	w.q.GC()
	w.noteGC()
	w.noteHeld("gc")
}

// opPutTooBig: a message above the documented limit (one data page) is refused and consumes
// neither a sequence nor space.
func (w *world) opPutTooBig() {
	extra := rapid.SampledFrom([]int{1, 2, 8, 4096}).Draw(w.t, "aboveLimit")
	w.logf("put of %d bytes (limit %d)", dataPageSize+extra, dataPageSize)
	before := w.q.AppendedSeq()
	b := bigBuffer(dataPageSize + extra)
	err := w.q.Put(b)
	bigBusy = false
	if !errors.Is(err, queue.ErrExceedingMessageSizeLimit) {
		w.fatalf("put of %d bytes returned %v, want ErrExceedingMessageSizeLimit", dataPageSize+extra, err)
	}
	if after := w.q.AppendedSeq(); after != before {
		w.fatalf("a refused append moved the appended sequence from %d to %d", before, after)
	}
	w.classes["put-above-limit-refused"]++
	w.noteHeld("refused-append")
}

// opCrashPut appends one message while a directory image is taken around every store of the
// append; every image is then recovered with the production open path.
func (w *world) opCrashPut(all bool) {
	maxImages := 4
	expensive := w.off > sparseMin || w.maxData > 0
	if expensive {
		// images of a queue that holds about a data page of bytes are expensive: one such
		// operation per history and 3 images, also in the thorough tier
		if w.crashPuts > 0 {
			w.opPut()
			return
		}
		maxImages = 3
		w.crashPuts++
	}
	tail := w.tailClass()
	m := w.newMsg(w.genPutSize())
	w.logf("crashPut id=%d size=%d", m.id, m.size)
	imgDir, err := os.MkdirTemp("", "c05img-")
	if err != nil {
		w.fatalf("harness: %v", err)
	}
	defer os.RemoveAll(imgDir)
	im := &crash.Imager{Root: w.dir, OutDir: imgDir}
	if expensive {
		// the images are chosen before the append (an append makes 10 to 14 hook calls)
		want := map[int]bool{rapid.IntRange(0, 9).Draw(w.t, "image"): true}
		for len(want) < maxImages {
			want[rapid.IntRange(0, 13).Draw(w.t, "image")] = true
		}
		im.Want = func(p crash.Point) bool { return want[p.Seq] }
	}
	im.Begin(len(w.ops), "put")
	var storeHeldErr error
	qsim.SetHook(func(op, path string, before bool) {
		im.Hook(op, path, before)
		// between any two stores of the append the retained slices read as before
		if storeHeldErr == nil && len(w.held) > 0 {
			storeHeldErr = w.peekHeld(fmt.Sprintf("inside an append (%s %s, before=%v)", op, filepath.Base(filepath.Dir(path)), before))
			w.classes["held-reverified-between-the-stores-of-an-append"]++
		}
	})
	before := w.okPuts
	rolled := w.room() < m.size
	errPut := w.putMsg(m)
	qsim.SetHook(nil)
	im.End()
	if errPut != nil {
		w.fatalf("%v", errPut)
	}
	if storeHeldErr != nil {
		w.fatalf("%v", storeHeldErr)
	}
	pts := im.Points
	var idx []int
	switch {
	case expensive:
		for i, p := range pts {
			if p.Dir != "" {
				idx = append(idx, i)
			}
		}
	case all || len(pts) <= maxImages:
		for i := range pts {
			idx = append(idx, i)
		}
	default:
		seen := map[int]bool{}
		for len(idx) < maxImages {
			i := rapid.IntRange(0, len(pts)-1).Draw(w.t, "image")
			if !seen[i] {
				seen[i] = true
				idx = append(idx, i)
			}
		}
	}
	n := len(idx)
	for _, i := range idx {
		p := pts[i]
		w.recoverImage(p, before, m)
		w.classes["img-"+p.FSOp]++
		if tail != "" {
			w.classes["crash-image-with-"+tail]++
		}
		if rolled {
			w.classes["crash-image-of-roll-over-append"]++
		}
		ev.Case("crash-points", fmt.Sprintf("%v|%s", w.ops, p), true, nil, nil)
		w.nt++
	}
	if n == 0 {
		w.fatalf("harness: no crash image was taken (%d hook calls)", len(im.Points))
	}
	im.Drop()
}

func (w *world) recoverImage(p crash.Point, putsBefore int, inflight msg) {
	// the process that recovers the image may be configured with another page size
	size := w.pageSize
	if len(w.pageSizes) > 0 {
		size = w.pageSizes[p.Seq%len(w.pageSizes)]
	}
	rq, err := queue.NewQueue(p.Dir, size)
	if err != nil {
		w.fatalf("image %s: queue cannot be reopened (page size %d): %v", p, size, err)
	}
	if effectiveSize(size) != effectiveSize(w.pageSize) {
		w.classes["crash-image-recovered-with-another-page-size"]++
	}
	defer rq.Close()
	app := rq.AppendedSeq()
	if app != int64(putsBefore)-1 && app != int64(putsBefore) {
		w.fatalf("image %s: recovered appended sequence %d; %d appends had returned and one was in flight", p, app, putsBefore)
	}
	assigned := map[int64]uint64{}
	for s, id := range w.assigned {
		if s < int64(putsBefore) {
			assigned[s] = id
		}
	}
	pending := []uint64{inflight.id}
	if err := scan(rq, w.byID, assigned, &pending, "image "+p.String()); err != nil {
		w.fatalf("%v", err)
	}
	if app == int64(putsBefore) && assigned[app] != inflight.id && rq.AcknowledgedSeq() < app {
		w.fatalf("image %s: sequence %d is visible but does not hold the append in flight", p, app)
	}
	// a reader of the recovered queue keeps the newest messages it got (up to 4) while the queue is
	// appended to; nothing is acknowledged / collected / closed before the last look at them
	var kept []*heldMsg
	for s := app; s > rq.AcknowledgedSeq() && len(kept) < 4; s-- {
		m := w.byID[assigned[s]]
		if m.sparse() {
			continue
		}
		data, err := rq.Get(s)
		if err != nil || !m.equal(data) {
			w.fatalf("image %s: Get(%d) after recovery: err=%v, %d bytes %s, want message %d (%d bytes)", p, s, err, len(data), head(data), m.id, m.size)
		}
		kept = append(kept, &heldMsg{seq: s, m: m, data: data, want: m.bytes(), step: len(w.ops)})
		for _, h := range kept {
			if !h.intact(true) {
				w.fatalf("image %s: %s after Get(%d) of the recovered queue", p, h.describe(), s)
			}
		}
	}
	if len(kept) >= 2 {
		w.classes["recovered-image-reader-holds>=2"]++
	}
	// keep appending on the recovered queue (the first new message has a boundary size in two of
	// three images): earlier messages must stay intact
	byID := map[uint64]msg{}
	for k, v := range w.byID {
		byID[k] = v
	}
	pending = nil
	for i := 0; i < 2; i++ {
		n := msg{id: 1<<40 + uint64(i), size: 100 + 50*i}
		if i == 0 {
			n.size = []int{100, 0, 5}[p.Seq%3]
		}
		byID[n.id] = n
		if err := rq.Put(n.bytes()); err != nil {
			w.fatalf("image %s: append after recovery: %v", p, err)
		}
		if got := rq.AppendedSeq(); got != app+int64(i)+1 {
			w.fatalf("image %s: append after recovery moved appended sequence to %d, want %d", p, got, app+int64(i)+1)
		}
		assigned[app+int64(i)+1] = n.id
		if err := scan(rq, byID, assigned, &pending, fmt.Sprintf("image %s after %d new appends", p, i+1)); err != nil {
			w.fatalf("%v", err)
		}
		for _, h := range kept {
			if !h.intact(true) {
				w.fatalf("image %s after %d new appends: %s", p, i+1, h.describe())
			}
		}
	}
}

func newWorld(t *rapid.T, prefix string) (*world, func()) {
	dir, err := os.MkdirTemp("", prefix)
	if err != nil {
		t.Fatalf("harness: %v", err)
	}
	w := &world{t: t, dir: filepath.Join(dir, "q"), byID: map[uint64]msg{}, assigned: map[int64]uint64{}, classes: map[string]int{}, lastSize: -1,
		heldEvents: map[string]bool{}, pageOf: map[int64]int64{}, maxEver: -1}
	installSeams(w)
	takeUnmappedHandOut()
	debug.SetPanicOnFault(true) // truncseam_test.go: an access to an unmapped page fails the case instead of killing the process
	return w, func() {
		uninstallSeams()
		bigBusy = false
		w.held = nil
		if w.q != nil {
			w.q.Close()
		}
		_ = os.RemoveAll(dir)
	}
}

func runHistory(t *rapid.T, thorough bool) {
	w, cleanup := newWorld(t, "c05-")
	defer cleanup()
	// configuration dimension: a few legal page sizes, possibly another one at every open
	w.pageSizes = []int64{0, 1, 64 << 20, dataPageSize, 2 * dataPageSize, 2 * dataPageSize}
	w.pageSize = rapid.SampledFrom(w.pageSizes).Draw(t, "pageSize")
	w.open()
	if rapid.IntRange(0, 3).Draw(t, "startAtIndexPageBoundary") == 0 {
		w.opBoundaryReopen()
	}
	if rapid.IntRange(0, 1).Draw(t, "pageBoundaryProfile") == 0 {
		// page-boundary profile: a few small appends, then the write cursor is brought close to
		// the end of its data page; from there on appends are sized relative to the room left
		w.heavy = true
		w.classes["profile-page-boundary"]++
		for i, n := 0, rapid.IntRange(0, 3).Draw(t, "before"); i < n; i++ {
			w.opPut()
		}
		w.opFill()
		w.check("after the fill")
		if rapid.IntRange(0, 2).Draw(t, "faultAfterFill") == 0 {
			w.opFaultyPut()
		}
	}
	t.Repeat(map[string]func(*rapid.T){
		"put":                      func(t *rapid.T) { w.t = t; w.opPut() },
		"put2":                     func(t *rapid.T) { w.t = t; w.opPut() },
		"putTooBig":                func(t *rapid.T) { w.t = t; w.opPutTooBig() },
		"fill":                     func(t *rapid.T) { w.t = t; w.opFill() },
		"overlappingPut":           func(t *rapid.T) { w.t = t; w.opOverlappingPut() },
		"crashPut":                 func(t *rapid.T) { w.t = t; w.opCrashPut(thorough) },
		"crashPut2":                func(t *rapid.T) { w.t = t; w.opCrashPut(thorough) },
		"reopen":                   func(t *rapid.T) { w.t = t; w.opReopen() },
		"faultyPut":                func(t *rapid.T) { w.t = t; w.opFaultyPut() },
		"reopenFaulty":             func(t *rapid.T) { w.t = t; w.opReopenFaulty() },
		"ack":                      func(t *rapid.T) { w.t = t; w.opAck() },
		"gc":                       func(t *rapid.T) { w.t = t; w.opGC() },
		"gcInterleaved":            func(t *rapid.T) { w.t = t; w.opGCInterleaved() },
		"gcInterleaved2":           func(t *rapid.T) { w.t = t; w.opGCInterleaved() },
		"getAndHold":               func(t *rapid.T) { w.t = t; w.opGetAndHold() },
		"getAndHold2":              func(t *rapid.T) { w.t = t; w.opGetAndHold() },
		"getAndHold3":              func(t *rapid.T) { w.t = t; w.opGetAndHold() },
		"release":                  func(t *rapid.T) { w.t = t; w.opRelease() },
		"ackBelowHeld":             func(t *rapid.T) { w.t = t; w.opAckBelowHeld() },
		"reset":                    func(t *rapid.T) { w.t = t; w.opReset() },
		"resetDuringPut":           func(t *rapid.T) { w.t = t; w.opResetDuringPut() },
		"resetDuringPut2":          func(t *rapid.T) { w.t = t; w.opResetDuringPut() },
		"resetBackAcrossIndexPage": func(t *rapid.T) { w.t = t; w.opResetBackAcrossIndexPage() },
		"gcInsideTruncation":       func(t *rapid.T) { w.t = t; w.opGCInsideTruncation() },
		"gcCrash":                  func(t *rapid.T) { w.t = t; w.opGCCrash(thorough) },
		"ackOverlappedByPuts":      func(t *rapid.T) { w.t = t; w.opAckOverlappedByPuts() },
		"ackOverlappedByPuts2":     func(t *rapid.T) { w.t = t; w.opAckOverlappedByPuts() },
		"":                         func(t *rapid.T) { w.t = t; w.check("after step") },
	})
	w.t = t
	// closing sequence: reopen and append once more, everything must still be intact
	w.opReopen()
	w.check("after final reopen")
	w.opPut()
	w.check("after final append")
	nt := w.nt > 0 || (w.classes["overlapping-put"] > 0 && w.classes["reopen"] > 1) || w.classes["gc-interleaved-with-appends"] > 0 ||
		w.classes["fault-put-failed"] > 0 || w.heldNonTrivial() || w.classes["reset-during-append"] > 0 ||
		w.classes["trunc-actor-appended-or-reset"] > 0 || w.classes["gc-img-with-removed-page-files"] > 0 ||
		w.classes["ack-seam-reopen"] > 0
	for c, n := range w.classes {
		ev.Class("TestQueueHistory", c, n)
	}
	ev.Case("TestQueueHistory", strings.Join(w.ops, ";"), nt, nil, map[string]any{"history": w.ops, "crash_images_recovered": w.nt})
}

func TestQueueHistory(t *testing.T) {
	thorough := os.Getenv("VERIF_TIER") == "thorough"
	rapid.Check(t, func(t *rapid.T) { runHistory(t, thorough) })
}

// TestRollOver: messages of tens of MiB force data-page roll-over (the page size is a constant
// 128 MiB); reopen / ack / gc (plain or interleaved with appends) around the roll-over;
// everything stays readable.
func TestRollOver(t *testing.T) {
	rapid.Check(t, func(t *rapid.T) {
		w, cleanup := newWorld(t, "c05r-")
		defer cleanup()
		w.open()
		w.heavy = true
		w.fills = maxFills // the big messages of this test do the filling
		n := rapid.IntRange(3, 6).Draw(t, "bigMessages")
		total := 0
		for i := 0; i < n; i++ {
			size := rapid.IntRange(30<<20, 70<<20).Draw(t, "bigSize")
			m := w.newMsg(size)
			faulty := rapid.IntRange(0, 5).Draw(t, "faulty")
			if faulty == 0 || (faulty < 4 && w.room() < size) {
				// the big append (it rolls over when the page is used up) runs under page-store faults
				w.faultScript(m)
			} else {
				w.logf("put id=%d size=%d", m.id, m.size)
				if err := w.putMsg(m); err != nil {
					w.fatalf("%v", err)
				}
			}
			total += size
			if rapid.IntRange(0, 2).Draw(t, "small") == 0 {
				w.opPut()
			}
			if rapid.IntRange(0, 1).Draw(t, "hold") == 0 {
				w.check("before a reader gets messages")
				w.holdSome()
			}
			switch rapid.IntRange(0, 5).Draw(t, "between") {
			case 0:
				w.opReopen()
			case 1:
				if w.q.AppendedSeq() > w.q.AcknowledgedSeq() {
					w.opAck()
					w.opGC()
				}
			case 2:
				if w.q.AppendedSeq() > w.q.AcknowledgedSeq() {
					w.opAck()
				}
				w.opGCInterleaved()
			}
			w.check("after big append")
		}
		w.opReopen()
		w.check("after reopen")
		w.opPut()
		w.check("after final append")
		for c, n := range w.classes {
			ev.Class("TestRollOver", c, n)
		}
		ev.Case("TestRollOver", strings.Join(w.ops, ";"), total > 128<<20, nil, map[string]any{"history": w.ops, "bytes": total})
	})
}

// TestConcurrentAppenders: real goroutines append concurrently; afterwards sequences are dense,
// every sequence holds exactly one appended message byte for byte, and this stays true across a
// reopen followed by further appends. (Schedule owned by the Go scheduler; invariant oracle.)
func TestConcurrentAppenders(t *testing.T) {
	rounds := 15
	if os.Getenv("VERIF_TIER") == "thorough" {
		rounds = 150
	}
	for round := 0; round < rounds; round++ {
		dir, err := os.MkdirTemp("", "c05c-")
		if err != nil {
			t.Fatal(err)
		}
		q, err := queue.NewQueue(filepath.Join(dir, "q"), 0)
		if err != nil {
			t.Fatal(err)
		}
		appenders := 2 + round%5
		per := 20 + 7*(round%4)
		byID := map[uint64]msg{}
		var all [][]msg
		for a := 0; a < appenders; a++ {
			var ms []msg
			for i := 0; i < per; i++ {
				size := 8 + (a*131+i*977+round*31)%3000
				if i%3 == 0 {
					size = 400000 + (a+i)*1000 // a long copy widens the reserve/publish window
				}
				m := msg{id: uint64(a*100000 + i + 1), size: size}
				byID[m.id] = m
				ms = append(ms, m)
			}
			all = append(all, ms)
		}
		var wg sync.WaitGroup
		start := make(chan struct{})
		errs := make(chan error, appenders)
		for a := 0; a < appenders; a++ {
			wg.Add(1)
			go func(ms []msg) {
				defer wg.Done()
				<-start
				for _, m := range ms {
					if err := q.Put(m.bytes()); err != nil {
						errs <- err
						return
					}
				}
			}(all[a])
		}
		close(start)
		wg.Wait()
		close(errs)
		for err := range errs {
			t.Fatalf("round %d: put: %v", round, err)
		}
		total := appenders * per
		assigned := map[int64]uint64{}
		fail := func(err error) {
			q.Close()
			_ = os.RemoveAll(dir)
			t.Fatalf("round %d (%d appenders x %d messages): %v", round, appenders, per, err)
		}
		if app := q.AppendedSeq(); app != int64(total)-1 {
			fail(fmt.Errorf("appended sequence %d after %d successful concurrent appends", app, total))
		}
		pending := make([]uint64, 0, total)
		for _, ms := range all {
			for _, m := range ms {
				pending = append(pending, m.id)
			}
		}
		if err := scan(q, byID, assigned, &pending, "after concurrent appends"); err != nil {
			fail(err)
		}
		if len(assigned) != total {
			fail(fmt.Errorf("%d distinct messages readable, %d appended", len(assigned), total))
		}
		// per appender order is preserved (each appender waited for its previous Put to return)
		pos := map[uint64]int64{}
		for s, id := range assigned {
			pos[id] = s
		}
		for _, ms := range all {
			for i := 1; i < len(ms); i++ {
				if pos[ms[i-1].id] > pos[ms[i].id] {
					fail(fmt.Errorf("message %d was appended after message %d returned, but has the smaller sequence", ms[i].id, ms[i-1].id))
				}
			}
		}
		q.Close()
		q, err = queue.NewQueue(filepath.Join(dir, "q"), 0)
		if err != nil {
			t.Fatalf("round %d: reopen: %v", round, err)
		}
		for i := 0; i < 3; i++ {
			m := msg{id: uint64(9000000 + i), size: 64 + i}
			byID[m.id] = m
			if err := q.Put(m.bytes()); err != nil {
				fail(err)
			}
			assigned[int64(total+i)] = m.id
			if err := scan(q, byID, assigned, &pending, fmt.Sprintf("after reopen and %d more appends", i+1)); err != nil {
				fail(err)
			}
		}
		q.Close()
		_ = os.RemoveAll(dir)
		ev.Case("TestConcurrentAppenders", fmt.Sprintf("round-%d", round), true, nil,
			map[string]any{"round": round, "appenders": appenders, "messages_per_appender": per})
	}
}
