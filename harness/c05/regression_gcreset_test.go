package c05

import (
	"fmt"
	"os"
	"path/filepath"
	"testing"
	"time"

	"github.com/lindb/lindb/pkg/queue"
	"github.com/lindb/lindb/verifharness/sim/ev"
)

// sigStaleAckGC (the tree before /repo fix e5b201e): Queue.GC samples the acknowledged sequence once,
// at its start, and then works on the page factories without any queue lock: it reads the index entry of that sequence, truncates
// the data pages, truncates the index pages below the page of that sequence. A reset of the log
// position (Queue.SetAppendedSeq <- FanOutQueue.SetAppendedSeq <- replica Partition.ResetReplicaIndex
// <- the Reset RPC / replicator handshake, which runs on another goroutine than the WAL
// housekeeping that calls GC) lowers the acknowledged sequence. When such a reset goes back into a
// lower index page p and completes after GC sampled and before GC reached the truncation of the
// index pages (anywhere in between, also inside the truncation of the data pages), the append that
// follows takes index page p out of the factory's map, stores its entry there and returns success -
// and GC, still working with the older acknowledged sequence, unmaps page p and removes its file.
// The message is above the acknowledged position, its append returned success, Get answers
// "message not found" (same process and after a reopen), and the queue keeps the unmapped page as
// its current index page: the next append into that page kills the process (SIGSEGV).
//
// Repaired in /repo by e5b201e (GC holds the queue's read lock from the sample to the end of the
// truncation: the reset waits until GC returned). The reproduction below passes on a tree where the
// reset waits and on one where it does not lose the append.
const sigStaleAckGC = "C05/backward-reset-overlapping-gc-loses-the-append-behind-it"

// reproduceStaleAckGC: forward reset to just below the first index-page boundary, three appends
// across it, everything acknowledged, GC; when GC enters the truncation of the data pages (it has
// sampled the acknowledged sequence and read its index entry) the log position is reset back into
// index page 0 and one message is appended.
func reproduceStaleAckGC(t *testing.T) (violation string) {
	dir, err := os.MkdirTemp("", "c05sg-")
	if err != nil {
		t.Fatal(err)
	}
	defer os.RemoveAll(dir)
	w := &world{dir: filepath.Join(dir, "q"), classes: map[string]int{}}
	installSeams(w)
	defer uninstallSeams()
	q, err := queue.NewQueue(w.dir, 0)
	if err != nil {
		t.Fatal(err)
	}
	defer q.Close()
	const boundary = indexItemsPerPage
	q.SetAppendedSeq(boundary - 3)
	for i := 0; i < 3; i++ {
		if err := q.Put([]byte(fmt.Sprintf("message-%d", i))); err != nil {
			t.Fatal(err)
		}
	}
	q.SetAcknowledgedSeq(boundary) // in index page 1: GC collects index page 0
	late := []byte("appended-behind-the-reset-while-gc-runs")
	ran := false
	done := make(chan error, 1)
	ts := &truncSeam{preTrun: func(f *seamFactory) {
		if f.kind != "data" || ran {
			return
		}
		ran = true
		go func() {
			q.SetAppendedSeq(boundary - 3)
			done <- q.Put(late) // sequence boundary-2, index page 0
		}()
		select {
		case err := <-done: // the reset and the append ran inside GC
			done <- err
		case <-time.After(200 * time.Millisecond): // they wait for GC (schedule choice only, no verdict)
		}
	}}
	armTrunc(ts)
	q.GC()
	disarmTrunc(ts)
	if !ran {
		t.Fatal("harness: GC did not reach the truncation of the data pages")
	}
	if err := <-done; err != nil {
		t.Fatalf("the append behind the reset failed: %v", err)
	}
	app, ack := q.AppendedSeq(), q.AcknowledgedSeq()
	if app != boundary-2 || ack != boundary-3 {
		t.Fatalf("appended %d acknowledged %d, want %d and %d", app, ack, boundary-2, boundary-3)
	}
	data, err := q.Get(app)
	switch {
	case err != nil:
		return fmt.Sprintf("Get(%d) with appended=%d acknowledged=%d: %v; the append of this message returned success", app, app, ack, err)
	case string(data) != string(late):
		return fmt.Sprintf("Get(%d) returned %q, appended %q", app, data, late)
	}
	return ""
}

func TestRegression_BackwardResetWhileGCWorksWithAnOlderAcknowledgedPosition(t *testing.T) {
	if what := reproduceStaleAckGC(t); what != "" {
		t.Fatalf("%s: %s", sigStaleAckGC, what)
	}
	ev.Case("TestRegression_BackwardResetWhileGCWorksWithAnOlderAcknowledgedPosition", "fixed-history", true, nil, nil)
}
