package c05

import (
	"fmt"
	"os"
	"strings"
	"testing"

	"pgregory.net/rapid"

	"github.com/lindb/lindb/pkg/queue"
	"github.com/lindb/lindb/verifharness/sim/crash"
	"github.com/lindb/lindb/verifharness/sim/ev"
	"github.com/lindb/lindb/verifharness/sim/qsim"
)

// ---- the process dies inside "acknowledge + GC" --------------------------------------------------
//
// The consumer acknowledges (Queue.SetAcknowledgedSeq: a store into the meta page + its sync), the
// collector runs (Queue.GC: truncation of the data pages, then of the index pages - per expired page
// an unmap and a file removal, see truncseam_test.go). A directory image is taken around every one
// of these steps - before / after each store and sync of the meta page, before / after each
// TruncatePages, before / after each unmap and each file removal - and recovered with the production
// open path.
//
// What the statement demands of such an image ("can be read back ... for as long as it lies above
// the queue's acknowledged position - across ... a process crash"): the position the recovered queue
// reports as acknowledged is the one that counts. It may be older than the last acknowledgement
// (the property does not promise that an acknowledgement is durable) but never beyond it, and every
// message whose append had returned success and whose sequence lies above the RECOVERED acknowledged
// position is readable under its sequence, byte for byte. The appended sequence is the one of the
// live queue (no append is in flight). The recovered queue keeps the property: GC on it, further
// appends, a clean close and reopen.

func (w *world) opGCCrash(all bool) {
	t := w.t
	if w.truncOps >= maxTruncOps {
		t.Skip("budget of GC-inside-truncation operations used up")
	}
	w.truncOps++
	c := w.prepareCollectable()
	ackBefore := w.q.AcknowledgedSeq()
	ack := w.genCollectingAck(c)
	if ack <= ackBefore {
		ack = w.q.AppendedSeq()
	}
	app := w.q.AppendedSeq()
	expensive := w.off > sparseMin || w.maxData > 0
	w.logf("crashGC: ack %d, gc (appended %d, acknowledged %d); image at every step", ack, app, ackBefore)
	imgDir, err := os.MkdirTemp("", "c05gcimg-")
	if err != nil {
		w.fatalf("harness: %v", err)
	}
	defer os.RemoveAll(imgDir)
	im := &crash.Imager{Root: w.dir, OutDir: imgDir}
	// which steps get an image: those behind which the files differ (a removed page file, a store
	// into the meta page, a completed truncation) always - when the queue holds about a data page of
	// bytes only a few generated ones (an image copies the data pages) -, the others by a generated
	// choice
	extra := map[int]bool{rapid.IntRange(0, 7).Draw(t, "image"): true} // ack + gc makes at least 8 hook calls
	for i, n := 0, rapid.IntRange(0, 2).Draw(t, "extraImages"); i < n; i++ {
		extra[rapid.IntRange(0, 23).Draw(t, "image")] = true
	}
	changing := func(p crash.Point) bool {
		switch p.FSOp {
		case opRemoveFile + "-data", opRemoveFile + "-index", opTruncPages + "-data", opTruncPages + "-index":
			return !p.Before
		case "putUint64":
			return true
		}
		return false
	}
	taken, removalTaken := 0, false
	im.Want = func(p crash.Point) bool {
		take := extra[p.Seq]
		removal := strings.HasPrefix(p.FSOp, opRemoveFile) && !p.Before
		switch {
		case !expensive || all:
			take = take || changing(p)
		case removal && !removalTaken:
			take = true // the first image behind a removed page file
		case taken >= 3 || (taken >= 2 && !removalTaken):
			take = false
		}
		if take {
			taken++
			removalTaken = removalTaken || removal
		}
		return take
	}
	ts := &truncSeam{observe: func(e truncEvent) { im.Hook(e.op+"-"+e.kind, e.path, e.before) }}
	qsim.SetHook(func(op, path string, before bool) {
		if strings.Contains(path, "/meta/") {
			im.Hook(op, path, before)
		}
	})
	armTrunc(ts)
	defer disarmTrunc(ts)
	defer qsim.SetHook(nil)
	im.Begin(len(w.ops), "ack+gc")
	ackErr := w.ackTo(ack)
	w.q.GC()
	im.End()
	qsim.SetHook(nil)
	disarmTrunc(ts)
	if ackErr != nil {
		w.fatalf("%v", ackErr)
	}
	w.noteGC()
	w.noteHeld("gc")
	for k, n := range ts.seen {
		w.classes["gc-crash:"+k] += n
	}
	w.classes["gc-crash"]++
	if n := ts.seen[opRemoveFile+"-index-page"] + ts.seen[opRemoveFile+"-data-page"]; n > 0 {
		w.classes["gc-crash:gc-removed-page-files"]++
	} else {
		w.classes["gc-crash:gc-had-nothing-to-remove"]++
	}
	n := 0
	removedSoFar := 0
	for _, p := range im.Points {
		if strings.HasPrefix(p.FSOp, opRemoveFile) && !p.Before {
			removedSoFar++
		}
		if p.Dir == "" {
			continue
		}
		w.recoverGCImage(p, app, ack)
		n++
		w.classes["gc-img-"+p.FSOp+map[bool]string{true: "(before)", false: "(after)"}[p.Before]]++
		if removedSoFar > 0 {
			w.classes["gc-img-with-removed-page-files"]++
		}
		ev.Case("gc-crash-points", fmt.Sprintf("%v|%s", w.ops, p), true, nil, nil)
	}
	if n == 0 {
		w.fatalf("harness: no crash image was taken inside ack+gc (%d hook calls)", len(im.Points))
	}
	w.classes["gc-crash-images-recovered"] += n
	im.Drop()
	w.check("after ack + gc under crash images")
}

// getExpected reads sequence s of a recovered queue and compares it with the message that was
// appended under it (when the harness knows which one: a sequence that was acknowledged before any
// reader saw it only has to be readable).
func (w *world) getExpected(rq queue.Queue, s int64, where string) error {
	data, err := rq.Get(s)
	if err != nil {
		return fmt.Errorf("%s: sequence %d lies above the acknowledged position %d of the recovered queue (appended %d), its append had returned success, but Get: %v",
			where, s, rq.AcknowledgedSeq(), rq.AppendedSeq(), err)
	}
	id, ok := w.assigned[s]
	if !ok {
		return nil
	}
	if m := w.byID[id]; !m.equal(data) {
		return fmt.Errorf("%s: sequence %d (above the acknowledged position %d of the recovered queue): message %d read back with different bytes (len %d %s, appended len %d)",
			where, s, rq.AcknowledgedSeq(), id, len(data), head(data), m.size)
	}
	return nil
}

func (w *world) recoverGCImage(p crash.Point, app, ackMax int64) {
	size := w.pageSize
	if len(w.pageSizes) > 0 {
		size = w.pageSizes[p.Seq%len(w.pageSizes)]
	}
	where := "image " + p.String()
	rq, err := queue.NewQueue(p.Dir, size)
	if err != nil {
		w.fatalf("%s: queue cannot be reopened (page size %d): %v", where, size, err)
	}
	closed := false
	defer func() {
		if !closed {
			rq.Close()
		}
	}()
	gotApp, gotAck := rq.AppendedSeq(), rq.AcknowledgedSeq()
	if gotApp != app {
		w.fatalf("%s: recovered appended sequence %d, the live queue had %d and no append was in flight", where, gotApp, app)
	}
	if gotAck > ackMax {
		w.fatalf("%s: recovered acknowledged sequence %d, but nothing above %d was ever acknowledged", where, gotAck, ackMax)
	}
	if gotAck < ackMax {
		w.classes["gc-img-recovered-an-older-acknowledged-position"]++
	}
	lo := gotAck + 1
	if lo < w.firstSeq {
		lo = w.firstSeq // below: never appended in this life of the log (forward reset)
	}
	scanAll := func(q queue.Queue, where string) {
		for s := lo; s <= app; s++ {
			if err := w.getExpected(q, s, where); err != nil {
				w.fatalf("%v", err)
			}
		}
	}
	scanAll(rq, where)
	if gotAck < app {
		w.classes["gc-img-with-unacknowledged-messages"]++
	}
	// the collector of the recovered process finishes the job
	rq.GC()
	scanAll(rq, where+" after GC of the recovered queue")
	// further appends
	byID := map[uint64]msg{}
	added := map[int64]msg{}
	for i := 0; i < 2; i++ {
		n := msg{id: 1<<41 + uint64(i), size: []int{100, 0, 5, 3000}[(p.Seq+i)%4]}
		byID[n.id] = n
		if err := rq.Put(n.bytes()); err != nil {
			w.fatalf("%s: append after recovery: %v", where, err)
		}
		if got := rq.AppendedSeq(); got != app+int64(i)+1 {
			w.fatalf("%s: append after recovery moved the appended sequence to %d, want %d", where, got, app+int64(i)+1)
		}
		added[app+int64(i)+1] = n
		scanAll(rq, fmt.Sprintf("%s after %d new appends", where, i+1))
	}
	checkAdded := func(q queue.Queue, where string) {
		for s, n := range added {
			data, err := q.Get(s)
			if err != nil || !n.equal(data) {
				w.fatalf("%s: message appended after the recovery under sequence %d: err=%v, %d bytes %s (appended %d bytes)", where, s, err, len(data), head(data), n.size)
			}
		}
	}
	checkAdded(rq, where)
	// clean close and reopen of the recovered queue
	rq.Close()
	closed = true
	rq2, err := queue.NewQueue(p.Dir, size)
	if err != nil {
		w.fatalf("%s: the recovered queue cannot be reopened after a clean close: %v", where, err)
	}
	defer rq2.Close()
	if a, k := rq2.AppendedSeq(), rq2.AcknowledgedSeq(); a != app+2 || k != gotAck {
		w.fatalf("%s: recovered queue after 2 appends, close and reopen: appended %d acknowledged %d, want %d and %d", where, a, k, app+2, gotAck)
	}
	scanAll(rq2, where+" after the recovered queue was closed and reopened")
	checkAdded(rq2, where+" after the recovered queue was closed and reopened")
}

// ---- dedicated history: GC that has pages to collect ------------------------------------------------

// TestGCTruncation: short histories around collections that really remove pages (index pages
// always, data pages in the page-boundary profile): GC with another actor inside the truncation
// (opGCInsideTruncation) and the process dying inside acknowledge + GC (opGCCrash), mixed with
// appends, reopen, acknowledgements, plain GC and resets.
func TestGCTruncation(t *testing.T) {
	thorough := os.Getenv("VERIF_TIER") == "thorough"
	rapid.Check(t, func(t *rapid.T) {
		w, cleanup := newWorld(t, "c05g-")
		defer cleanup()
		w.pageSizes = []int64{0, dataPageSize, dataPageSize, 2 * dataPageSize}
		w.pageSize = rapid.SampledFrom(w.pageSizes).Draw(t, "pageSize")
		w.open()
		if rapid.IntRange(0, 4).Draw(t, "pageBoundaryProfile") == 0 {
			w.heavy = true
			w.classes["profile-page-boundary"]++
		}
		for i, n := 0, rapid.IntRange(0, 3).Draw(t, "before"); i < n; i++ {
			w.opPut()
		}
		rounds := rapid.IntRange(1, maxTruncOps).Draw(t, "rounds")
		for r := 0; r < rounds; r++ {
			if rapid.IntRange(0, 2).Draw(t, "truncOp") == 0 {
				w.opGCCrash(thorough)
			} else {
				w.opGCInsideTruncation()
			}
			for i, n := 0, rapid.IntRange(0, 3).Draw(t, "between"); i < n; i++ {
				switch rapid.IntRange(0, 5).Draw(t, "betweenOp") {
				case 0:
					w.opReopen()
				case 1:
					if w.q.AppendedSeq() > w.q.AcknowledgedSeq() {
						w.opAck()
					}
					w.opGC()
				case 2:
					w.opReset()
				default:
					w.opPut()
				}
				w.check("after a step between two collections")
			}
		}
		w.opReopen()
		w.check("after final reopen")
		w.opPut()
		w.check("after final append")
		for c, n := range w.classes {
			ev.Class("TestGCTruncation", c, n)
		}
		nt := w.classes["trunc-actor-appended-or-reset"] > 0 || w.classes["gc-img-with-removed-page-files"] > 0
		ev.Case("TestGCTruncation", strings.Join(w.ops, ";"), nt, nil, map[string]any{"history": w.ops})
	})
}
